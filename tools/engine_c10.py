#!/usr/bin/env python3
"""C10 differential engine: behaviour is a function of inputs, callbacks and random numbers only.

The model side of C10 is trivial (Props/C10.lean: `Api.run` is a function); the content is here, on the real
code.  For every generated program (shape × configuration, built with ASan+UBSan):

  * determinism        the same binary run twice (fresh process, different ASLR) prints the same transcript;
  * storage            the same binary run with the instance storage pre-filled with 0x00 / 0xFF / 0xAA / 0x3C /
                       noise and placed at different offsets inside its slot ($VH_FILL, $VH_OFFSET: harness
                       knobs that consume no script randomness) prints the same transcript, byte for byte —
                       including the first activation inside the constructor;
  * built-in generator the same with `rng=1` (no `Config::RandomT<ScriptRng>`: the library's own seeded
                       generator; no `rng` lines, the model cannot follow, the differential check alone applies);
  * copies             $VH_COPY_AT=n: before operation n both instances of a scenario are copy-constructed; the
                       rest of the scenario runs on the originals and then, script generator rewound, on the
                       copies: both passes must print the same text (a copy continues exactly as its original).
                       With the built-in generator this is *expected to fail* on the unrepaired tree: known
                       finding F4, the copy keeps a reference to the original's generator (rejection tag
                       `copy-builtin-rng`); `harness/c10_witness_copy_rng.cpp` turns it into an ASan
                       heap-use-after-free once the original is gone (tag `copy-dangling-generator`).
                       The normal runs never destroy an original before its copy.
  * no allocation      every run reports `# stat allocations_inside_api` (harness/mach_alloc.hpp): C11's
                       "never allocates"; returned under `alloc` and as rejections for C11 (tag `allocation`).
"""
from __future__ import annotations
import os, sys, re, json, time, shutil, subprocess, concurrent.futures as cf
import vlib as V
sys.path.insert(0, V.GEN)
import shapes as S
import emit_mach as E

FILLS = ['00', 'FF', 'AA', '3C', 'rand']


def _p(s):
    return S.parse(s)


def SHAPES(tier):
    fixed = [
        _p('(C h1 i0 composite (L i0) (C h1 i0 resumable (L i1) (L i0)) (O h1 i0 (C h1 i0 composite (L i0) (L i0)) (C h1 i0 utilitarian (L i0) (L i0))))'),
        _p('(C h1 i0 composite (C h1 i0 selectable (L i0) (C h1 i0 composite (L i0) (L i0)) (L i0)) (C h1 i0 random (L i0) (L i0) (L i0)) (L i2))'),
        _p('(C h1 i0 random (L i0) (C h0 i0 random (L i0) (L i0)) (O h1 i0 (L i0) (C h1 i0 random (L i0) (L i0) (L i0))))'),
    ]
    if tier == 'quick':
        return fixed
    return fixed + [s for s in S.corpus() if not E.usable(s, dict(E.DEFAULTS))][:9]


def has_random(shape):
    return any(n.kind == 'C' and n.strategy == 'random' for n in shape.nodes())


def harness_ok():
    try:
        text = open(os.path.join(V.HARNESS, 'mach_main.hpp')).read()
    except OSError:
        return False
    return 'VH_COPY_AT' in text and 'VH_FILL' in text and 'rng' in E.DEFAULTS


def _build(job):
    tag, text, flags = job
    exe, err, dt, cached = V.build_cxx(None, flags, 'c10', src_text=text)
    return tag, exe, err


def _run(job):
    rtag, exe, args, env_extra, out = job
    env = dict(os.environ)
    for k in ('VH_FILL', 'VH_OFFSET', 'VH_COPY_AT', 'VH_SKIP'):
        env.pop(k, None)
    env.update(env_extra)
    env.setdefault('ASAN_OPTIONS', 'detect_leaks=0')
    p = V.run_limited([exe] + [str(a) for a in args], out, timeout=1200, env=env)
    return rtag, p.returncode, p.stderr[-2500:]


def copy_passes(path):
    """[(original-pass lines, copy-pass lines)] per scenario of a $VH_COPY_AT transcript."""
    out, a, b, mode = [], None, None, None
    with open(path, errors='replace') as f:
        for l in f:
            l = l.rstrip('\n')
            if l.startswith('# copy-pass original'):
                a, b, mode = [], [], 'a'
            elif l.startswith('# copy-pass copy'):
                mode = 'b'
            elif l.startswith('# copy-pass end'):
                out.append((a, b)); mode = None
            elif mode == 'a':
                a.append(l)
            elif mode == 'b':
                b.append(l)
    return out


def stat(path, name):
    m = None
    with open(path, errors='replace') as f:
        for l in f:
            if l.startswith('# stat ' + name + '='):
                m = int(l.split('=')[1])
    return m


def first_diff(a, b):
    la, lb = a.split(b'\n'), b.split(b'\n')
    k = next((i for i, (x, y) in enumerate(zip(la, lb)) if x != y), min(len(la), len(lb)))
    ctx = lambda ls: b'\n'.join(ls[max(0, k - 4):k + 2]).decode('utf8', 'replace')
    return k, ctx(la), ctx(lb)


def builtin_rng_independence(flags):
    """harness/c10_builtin_rng_independent.cpp: instances using the built-in generator behave identically whatever
    other instances of the process do, wherever they live. Returns (status, [messages])."""
    src = os.path.join(V.HARNESS, 'c10_builtin_rng_independent.cpp')
    if not os.path.exists(src):
        return 'unavailable', ['harness/c10_builtin_rng_independent.cpp not installed']
    exe, err, dt, cached = V.build_cxx(src, flags, 'c10i')
    if exe is None:
        return 'broken', ['independence harness does not compile against the current header: ' + err[-500:]]
    env = dict(os.environ); env['ASAN_OPTIONS'] = 'detect_leaks=0'
    st, out, err = V.sh([exe], timeout=120, env=env)
    diffs = [l for l in out.splitlines() if l.startswith('C10-RNG-DIFF')]
    if st != 0:
        return 'crash', ['independence harness died with status %d: %s' % (st, (err or out)[-600:])]
    if diffs:
        return 'diff', diffs
    return ('ok', [out.strip()[:200]]) if 'C10-RNG-OK' in out else ('broken', ['independence harness printed nothing: ' + (out + err)[-300:]])


def nested_instances(flags, seed):
    """harness/c10_nested_instances.cpp: an instance behaves the same whether or not another instance of its type is driven
    from inside its callbacks. Returns (status, [messages])."""
    src = os.path.join(V.HARNESS, 'c10_nested_instances.cpp')
    if not os.path.exists(src):
        return 'unavailable', ['harness/c10_nested_instances.cpp not installed']
    exe, err, dt, cached = V.build_cxx(src, flags, 'c10n')
    if exe is None:
        return 'broken', ['nested-instances harness does not compile against the current header: ' + err[-500:]]
    env = dict(os.environ); env['ASAN_OPTIONS'] = 'detect_leaks=0'
    st, out, err = V.sh([exe, str(seed), '40'], timeout=300, env=env)
    diffs = [l for l in out.splitlines() if l.startswith('C10-NEST-DIFF')]
    if st != 0:
        return 'crash', ['nested-instances harness died with status %d: %s' % (st, (err or out)[-600:])]
    if diffs:
        return 'diff', diffs
    return ('ok', [out.strip()[:200]]) if 'C10-NEST-OK' in out else ('broken', ['nested-instances harness printed nothing: ' + (out + err)[-300:]])


def witness_f4():
    """Build and run the ASan witness of F4. Returns (status, text): 'uaf' | 'behaviour' | 'ok' | 'unavailable'."""
    src = os.path.join(V.HARNESS, 'c10_witness_copy_rng.cpp')
    if not os.path.exists(src):
        return 'unavailable', 'harness/c10_witness_copy_rng.cpp not installed'
    exe, err, dt, cached = V.build_cxx(src, V.SAN_FLAGS, 'c10w')
    if exe is None:
        return 'unavailable', 'witness does not compile: ' + err[-400:]
    env = dict(os.environ); env['ASAN_OPTIONS'] = 'detect_leaks=0'
    st1, out1, err1 = V.sh([exe], timeout=60, env=env)
    st2, out2, err2 = V.sh([exe, 'uaf'], timeout=60, env=env)
    if 'heap-use-after-free' in err2:
        frame = re.search(r'#0 .* in (\S+)', err2)
        return 'uaf', 'copy used after its original is gone: AddressSanitizer heap-use-after-free in %s; %s' % (
            frame.group(1) if frame else '?', out1.strip()[:200])
    if 'F4-BEHAVIOUR' in out1:
        return 'behaviour', out1.strip()[:300]
    return 'ok', (out1 + out2).strip()[:300]


def run(tier, seed):
    key = V.sha(V.tree_hash(), V.verif_hash('harness', 'gen', 'tools/engine_c10.py'), tier, str(seed))[:24]
    os.makedirs(V.CACHE, exist_ok=True)
    path = os.path.join(V.CACHE, 'c10_%s.json' % key)
    with V.Lock('c10_' + key):
        if os.path.exists(path):
            return json.load(open(path))
        t0 = time.time()
        res = dict(rejections=[], c11_rejections=[], broken=[], coverage={}, alloc={}, assumptions=[
            'independence from prior memory contents, placement and process is established for the generated programs, '
            'fills, offsets and seeds of this run only (ASan/UBSan builds); reads of uninitialised memory that happen not '
            'to influence behaviour are invisible',
            'copies are taken at three points of every scenario and driven by the rewound script generator'])
        if not harness_ok():
            res['broken'].append('harness lacks $VH_FILL/$VH_OFFSET/$VH_COPY_AT or the generator lacks the `rng` key: '
                                 'apply harness/proposed/{mach_main.hpp,mach_runtime.hpp,emit_mach.py}.diff and install mach_alloc.hpp (harness/proposed/README.md)')
            json.dump(res, open(path + '.tmp', 'w')); os.replace(path + '.tmp', path)
            return res
        shapes = SHAPES(tier)
        scen, ops = (10, 36) if tier == 'quick' else (50, 60)
        offsets = ['0', '16', '40'] if tier == 'quick' else ['0', '8', '16', '24', '40', '63']
        trdir = os.path.join(V.CACHE, 'tr_c10_%s' % key)
        os.makedirs(trdir, exist_ok=True)
        builds = []
        for si, sh in enumerate(shapes):
            for rng in (0, 1):
                if rng and not has_random(sh):
                    continue
                cfg = dict(E.DEFAULTS); cfg['rng'] = rng
                if si % 2 == 1 and not rng:
                    cfg['payload'] = 3          # an over-aligned payload moves the alignment requirement of the instance
                if E.usable(sh, cfg):
                    continue
                builds.append(('s%d_rng%d' % (si, rng), si, cfg, E.emit(sh, cfg)))
        with cf.ThreadPoolExecutor(max_workers=V.JOBS) as ex:
            built = {tag: (exe, err) for tag, exe, err in ex.map(_build, [(b[0], b[3], V.SAN_FLAGS) for b in builds])}
        jobs = []
        plan = {}
        for tag, si, cfg, text in builds:
            exe, err = built[tag]
            if exe is None:
                res['broken'].append('program %s does not compile: %s' % (tag, err[-600:]))
                continue
            args = [seed, scen, ops]
            runs = [('ref', {}), ('again', {})]
            k = 0
            for f in FILLS:
                for o in offsets:
                    if tier == 'quick' and (k % 2) and f not in ('rand',):
                        k += 1
                        continue
                    k += 1
                    runs.append(('fill%s_off%s' % (f, o), {'VH_FILL': f, 'VH_OFFSET': o}))
            for at in (0, ops // 3, 2 * ops // 3):
                runs.append(('copy%d' % at, {'VH_COPY_AT': str(at), 'VH_FILL': 'rand'}))
            plan[tag] = (si, cfg, runs)
            for name, env in runs:
                jobs.append(('%s__%s' % (tag, name), exe, args, env, os.path.join(trdir, '%s__%s.txt' % (tag, name))))
        with cf.ThreadPoolExecutor(max_workers=V.JOBS) as ex:
            done = {rtag: (st, err) for rtag, st, err in ex.map(_run, jobs)}
        outs = {j[0]: j[4] for j in jobs}
        n_cmp = n_copy = n_copy_scn = 0
        alloc_in = alloc_out = 0
        for tag, (si, cfg, runs) in plan.items():
            shape = S.to_sexpr(shapes[si])
            hdr = 'shape %s\nconfig %s\nargs %d %d %d' % (shape, json.dumps(cfg, sort_keys=True), seed, scen, ops)
            crashed = False
            for name, env in runs:
                st, err = done['%s__%s' % (tag, name)]
                if st != 0:
                    crashed = True
                    res['rejections'].append(dict(tag='crash', what='%s with %s died with status %d: %s' % (tag, env, st, err[-400:]),
                                                  replay=hdr + '\nenv ' + json.dumps(env) + '\n' + err))
                ai = stat(outs['%s__%s' % (tag, name)], 'allocations_inside_api')
                ao = stat(outs['%s__%s' % (tag, name)], 'allocations_by_harness')
                if ai is None:
                    res['broken'].append('no allocation statistics in the transcript of %s (harness/mach_alloc.hpp not installed?)' % tag)
                else:
                    alloc_in += ai; alloc_out += ao or 0
                    if ai:
                        res['c11_rejections'].append(dict(tag='allocation', what='%d dynamic allocations inside library calls (%s, %s)' % (ai, tag, env),
                                                          replay=hdr + '\nenv ' + json.dumps(env)))
            if crashed:
                continue
            ref = open(outs[tag + '__ref'], 'rb').read()
            for name, env in runs:
                if name == 'ref' or name.startswith('copy'):
                    continue
                other = open(outs['%s__%s' % (tag, name)], 'rb').read()
                n_cmp += 1
                if other != ref:
                    k, ca, cb = first_diff(ref, other)
                    what = ('the same program run twice behaves differently' if name == 'again' else
                            'behaviour depends on the prior content / placement of the instance storage (%s)' % json.dumps(env))
                    res['rejections'].append(dict(tag='nondeterminism' if name == 'again' else 'storage-dependence',
                                                  what='%s: %s; first difference at transcript line %d' % (shape, what, k + 1),
                                                  replay=hdr + '\nenv ' + json.dumps(env) + '\n--- reference\n' + ca + '\n--- this run\n' + cb))
            for name, env in runs:
                if not name.startswith('copy'):
                    continue
                n_copy += 1
                for k, (a, b) in enumerate(copy_passes(outs['%s__%s' % (tag, name)])):
                    n_copy_scn += 1
                    if a != b:
                        j = next((i for i, (x, y) in enumerate(zip(a, b)) if x != y), min(len(a), len(b)))
                        builtin = bool(cfg.get('rng'))
                        res['rejections'].append(dict(
                            tag='copy-builtin-rng' if builtin else 'copy-diverges',
                            what='%s: a copy taken before operation %s of scenario %d does not continue as its original (%s generator): '
                                 'original `%s` vs copy `%s`' % (shape, env['VH_COPY_AT'], k, 'built-in' if builtin else 'scripted',
                                                                 (a[j] if j < len(a) else '<end>')[:140], (b[j] if j < len(b) else '<end>')[:140]),
                            replay=hdr + '\nenv ' + json.dumps(env) + '\n--- original pass\n' + '\n'.join(a[max(0, j - 5):j + 2]) +
                                   '\n--- copy pass\n' + '\n'.join(b[max(0, j - 5):j + 2])))
                        break
        ist, imsgs = builtin_rng_independence(V.SAN_FLAGS if tier != 'quick' else ['-O1'])
        if ist == 'diff':
            for m in imsgs[:3]:
                res['rejections'].append(dict(tag='builtin-rng-shared', what='instances with the built-in generator do not behave '
                                              'identically when driven identically: ' + m[:400],
                                              replay='g++ -std=c++14 -I/repo/include harness/c10_builtin_rng_independent.cpp -o w && ./w\n' + '\n'.join(imsgs)))
        elif ist == 'crash':
            res['c11_rejections'].append(dict(tag='crash', what=imsgs[0], replay=imsgs[0]))
            res['rejections'].append(dict(tag='crash', what=imsgs[0], replay=imsgs[0]))
        elif ist == 'broken':
            res['broken'].append(imsgs[0])
        nst, nmsgs = nested_instances(V.SAN_FLAGS if tier != 'quick' else ['-O1'], seed)
        if nst == 'diff':
            for m in nmsgs[:3]:
                res['rejections'].append(dict(
                    tag='nested-instance-interference',
                    what='an instance behaves differently when another instance of the same type is driven from inside its '
                         'callbacks: ' + m[:500],
                    replay='g++ -std=c++14 -O1 -I/repo/include harness/c10_nested_instances.cpp -o w && ./w %s 40\n' % seed + '\n'.join(nmsgs)))
        elif nst == 'crash':
            res['c11_rejections'].append(dict(tag='crash', what=nmsgs[0], replay=nmsgs[0]))
            res['rejections'].append(dict(tag='crash', what=nmsgs[0], replay=nmsgs[0]))
        elif nst == 'broken':
            res['broken'].append(nmsgs[0])
        wst, wtext = witness_f4()
        if wst == 'uaf':
            res['rejections'].append(dict(tag='copy-dangling-generator', what=wtext,
                                          replay='g++ -std=c++14 -O1 -g -fsanitize=address,undefined -I/repo/include harness/c10_witness_copy_rng.cpp -o w && ./w uaf'))
        elif wst == 'behaviour':
            res['rejections'].append(dict(tag='copy-builtin-rng', what=wtext, replay='harness/c10_witness_copy_rng.cpp'))
        # at most 4 examples per tag
        seen, keep = {}, []
        for r in res['rejections']:
            seen[r['tag']] = seen.get(r['tag'], 0) + 1
            if seen[r['tag']] <= 4:
                keep.append(r)
        res['rejection_counts'] = seen
        res['rejections'] = keep
        res['c11_rejections'] = res['c11_rejections'][:6]
        res['alloc'] = dict(inside_api=alloc_in, by_harness=alloc_out)
        res['coverage'] = dict(
            programs=len(plan), runs=len(jobs), transcripts_compared=n_cmp, copy_runs=n_copy, evaluations=n_cmp + n_copy_scn,
            distinct_nontrivial=n_cmp + n_copy_scn, copy_scenarios=n_copy_scn, fills=FILLS, offsets=offsets, f4_witness=wst, builtin_rng_independence=ist, nested_instances=nst, nested_instances_note=(nmsgs[0][:120] if nmsgs else ''),
            allocations_inside_api=alloc_in, allocations_by_harness=alloc_out, traces_validated_against_impl=n_cmp,
            shapes=[S.to_sexpr(s) for s in shapes],
            rule='evaluation = one whole-transcript comparison (same binary, different storage fill/offset/process) or one '
                 'scenario continued on an instance and on its copy; every transcript contains transitions',
            run_wall_s=round(time.time() - t0, 1))
        res['summary'] = 'programs=%d runs=%d compared=%d copy-scenarios=%d alloc-inside=%d f4=%s' % (
            len(plan), len(jobs), n_cmp, n_copy_scn, alloc_in, wst)
        res['search_note'] = '%d transcripts compared byte for byte, %d scenarios continued on copies' % (n_cmp, n_copy_scn)
        shutil.rmtree(trdir, ignore_errors=True)
        json.dump(res, open(path + '.tmp', 'w'))
        os.replace(path + '.tmp', path)
        return res


if __name__ == '__main__':
    r = run(sys.argv[1] if len(sys.argv) > 1 else 'quick', int(sys.argv[2]) if len(sys.argv) > 2 else 1)
    print(json.dumps({k: v for k, v in r.items() if k not in ('rejections',)}, indent=1)[:3000])
    for x in r['rejections'][:8]:
        print('REJECT', x['tag'], x['what'][:500])
