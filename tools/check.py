#!/usr/bin/env python3
"""Entry point of every registered check:   python3 tools/check.py <Cxx> [--tier quick|thorough]

For property P the check
  1. regenerates the source-derived facts and rebuilds the Lean library + driver,
  2. audits every theorem of `Hfsm.Props.P` (obligations = theorems found in the compiled module,
     discharged = those whose axioms ⊆ {propext, Classical.choice, Quot.sound}; no sorry/axiom/…),
  3. builds the harness from /repo's current working tree, produces transcripts and replays them
     through the executable model (correspondence),
  4. evaluates P's oracle on what the implementation itself reported,
  5. decides (DESIGN §6): exit 0, or `VIOLATION property=P replay=<path>` and exit 1; prints
     `KNOWN-FINDING: property=P …` for findings listed in known_findings.json.
Honours VERIF_SEED and VERIF_TIER.  Writes evidence/<P>.json on every run.
"""
from __future__ import annotations
import os, sys, time, json, argparse, re
sys.path.insert(0, os.path.dirname(os.path.abspath(__file__)))
import vlib as V
import leaf_engine as LE
import mach_engine as ME
import engine_c10 as E10
import engine_c15 as E15
import engine_c16 as E16

TRUSTED_BASE = [
    "Lean 4.33.0 kernel (leanchecker re-check in the thorough tier)",
    "axioms at most propext, Classical.choice, Quot.sound (audited per theorem on every run)",
    "faithfulness of the hand-written model to the C++ is NOT proved: it is checked by replaying "
    "transcripts of the real code through the model on every run (tools/check.py, harness/, gen/)",
    "the harness, generator, transcript parser in the Lean driver, g++ 12 and its sanitizers",
]

PROPS = {}


def prop(pid, **kw):
    PROPS[pid] = kw


# leaf components: direct harnesses of the real classes
prop('C18', module='Hfsm.Props.C18', engine='leaf')
prop('C19', module='Hfsm.Props.C19', engine='leaf')
prop('C07', module='Hfsm.Props.C07', engine='leaf')
prop('C20', module='Hfsm.Props.C20', engine='leaf')
prop('C17', module='Hfsm.Props.C17', more_modules=['Hfsm.Props.C17Flat'], engine='c17')
# whole-machine properties: generated programs, transcripts, model replay, per-property oracle
for _p in ('C01', 'C02', 'C03', 'C04', 'C05', 'C06', 'C08', 'C09', 'C10', 'C11', 'C12', 'C13', 'C14', 'C15', 'C16'):
    prop(_p, module='Hfsm.Props.' + _p, engine='mach')


def main():
    ap = argparse.ArgumentParser()
    ap.add_argument('prop')
    ap.add_argument('--tier', default=os.environ.get('VERIF_TIER', 'quick'))
    ap.add_argument('--seed', type=int, default=int(os.environ.get('VERIF_SEED', '1')))
    a = ap.parse_args()
    pid = a.prop
    if pid not in PROPS:
        print('unknown property', pid)
        return 2
    tier = a.tier if a.tier in ('quick', 'thorough') else 'quick'
    t0 = time.time()
    cfg = PROPS[pid]
    known = [k for k in V.load_known() if k.get('property') == pid and k.get('status', 'open') == 'open']

    # 1+2: proof obligations
    proof = V.proof_status(cfg['module'])
    for extra in cfg.get('more_modules', []):
        p2 = V.proof_status(extra)
        proof['obligations'] += p2['obligations']
        proof['discharged'] += p2['discharged']
        proof['broken'] += [b for b in p2['broken'] if b not in proof['broken']]
        proof['theorems'] += p2['theorems']
    lean = V.lean_state()

    # 3+4: correspondence and oracle
    if cfg['engine'] == 'leaf':
        if proof.get('facts_fallback'):
            # the source-fact translator could not read the (rewritten) generator code: the theorems about the
            # regenerated constants are about the last readable source; tie by correspondence alone, run deeper
            res = LE.run(pid, 'thorough', a.seed)
            res['assumptions'] = list(res.get('assumptions', [])) + [
                'source facts NOT regenerated in this run (%s): the generator model is tied to the current source by the '
                'differential correspondence run only (executed at thorough depth)' % proof['facts_fallback'][:300]]
            print('note: source-fact translator unavailable, correspondence-only tie: %s' % proof['facts_fallback'][:200], file=sys.stderr)
        else:
            res = LE.run(pid, tier, a.seed)
    elif cfg['engine'] == 'c17':
        res = LE.run_c17(tier, a.seed)
    else:
        res = ME.run(pid, tier, a.seed)
        # differential engines on the real code (DESIGN §7 C10, C15; allocation monitor for C11)
        extra = None
        if pid == 'C10':
            extra = E10.run(tier, a.seed)
            rej10 = extra.get('rejections', [])
        elif pid == 'C11':
            extra = E10.run(tier, a.seed)
            rej10 = extra.get('c11_rejections', [])
        elif pid == 'C15':
            extra = E15.run(tier, a.seed)
            rej10 = extra.get('rejections', [])
        if extra is not None:
            res['rejections'] = list(res.get('rejections', [])) + list(rej10)
            res['broken'] = list(res.get('broken', [])) + list(extra.get('broken', []))
            res.setdefault('coverage', {})['differential'] = extra.get('coverage', {})
            if pid == 'C11':
                res['coverage']['allocation_monitor'] = extra.get('alloc', {})
            res['assumptions'] = list(res.get('assumptions', [])) + list(extra.get('assumptions', []))
            # what "oracle" means for these three: whole-transcript comparisons (C10, C15) / every operation
            # monitored for assertions, crashes and allocations (C11)
            cov = res['coverage']
            if pid == 'C11':
                cov['oracle_checks'] = cov.get('evaluations', 0)
            else:
                cov['oracle_checks'] = int(extra.get('coverage', {}).get('evaluations', 0) or 0)
            res['summary'] = re.sub(r'oracle_checks=\d+', 'oracle_checks=%d' % cov['oracle_checks'], res.get('summary', ''))

        if pid == 'C16':
            # per-method logger records in interface mode, on the real code (tools/engine_c16.py)
            x16 = E16.run(tier, a.seed)
            res['rejections'] = list(res.get('rejections', [])) + list(x16.get('rejections', []))
            res['broken'] = list(res.get('broken', [])) + list(x16.get('broken', []))
            res.setdefault('coverage', {})['per_method_records'] = x16.get('coverage', {})
            res['assumptions'] = list(res.get('assumptions', [])) + list(x16.get('assumptions', []))
            cov = res['coverage']
            cov['oracle_checks'] = int(cov.get('oracle_checks', 0) or 0) + int(x16.get('coverage', {}).get('evaluations', 0) or 0)
            res['summary'] = re.sub(r'oracle_checks=\d+', 'oracle_checks=%d' % cov['oracle_checks'], res.get('summary', ''))

    # thorough: independent re-check of the compiled property module
    checker_cmd = 'cd lean && lake build && lake env lean Audit.lean   # `#print axioms`-equivalent on every theorem of %s' % cfg['module']
    if tier == 'thorough' and lean['lib_ok']:
        st, out, err = V.sh(['lake', 'env', 'leanchecker', cfg['module']], cwd=V.LEAN_DIR, timeout=3000)
        checker_cmd += ' ; lake env leanchecker %s' % cfg['module']
        if st != 0:
            proof['broken'].append('leanchecker rejected %s: %s' % (cfg['module'], (out + err)[-400:]))

    # 5: decision
    violations = []          # (description, replay body)
    known_hits = []
    # oracle rejections (concrete failing inputs on the implementation)
    for rej in res.get('rejections', []):
        match = next((k for k in known if ME.finding_matches(k, rej)), None)
        if match:
            if match['id'] not in [h['id'] for h in known_hits]:
                known_hits.append(dict(id=match['id'], what=match['what'], example=rej.get('what', '')[:300]))
        else:
            violations.append((rej.get('what', 'oracle rejection'), rej.get('replay', rej.get('what', ''))))
    broken = list(proof['broken']) + list(res.get('broken', []))
    if broken and not violations and cfg['engine'] == 'mach' and 'full' in res:
        # look harder for a concrete failing history before giving up
        found, note = ME.search(pid, res['full'], a.seed)
        res['search_note'] = res.get('search_note', '') + '; ' + note
        for rej in found:
            if not any(ME.finding_matches(k, rej) for k in known):
                violations.append((rej.get('what', 'oracle rejection'), rej.get('replay', '')))
                break
    if broken and not violations:
        # a proof obligation or the correspondence broke and no concrete failing input was found
        body = 'property %s: no longer shown to hold\n\n' % pid
        body += 'what no longer checks:\n' + '\n'.join('  - ' + b for b in broken) + '\n\n'
        body += 'search performed: ' + res.get('search_note', 'oracle evaluated on every transcript of this run') + '\n'
        body += 'result: no failing input found\n'
        path = V.write_replay(pid, body)
        violations_out = [('no-failing-input-found', path)]
    else:
        violations_out = []
        if violations:
            body = 'property %s violated on the implementation\n\n' % pid
            if broken:
                body += 'also broken:\n' + '\n'.join('  - ' + b for b in broken) + '\n\n'
            for what, rep in violations[:5]:
                body += '--- ' + what + '\n' + rep + '\n\n'
            path = V.write_replay(pid, body)
            violations_out = [('found', path)]

    # every finding listed (open) for this property is reported on every run, with whether this run reproduced it
    hit_ids = [h['id'] for h in known_hits]
    for k in known:
        print('KNOWN-FINDING: property=%s %s [%s; %s]' % (
            pid, k['what'], k['id'], 'reproduced in this run' if k['id'] in hit_ids else 'not exercised by this run'))

    cov = dict(res.get('coverage', {}))
    cov['obligations'] = proof['obligations']
    cov['discharged'] = proof['discharged'] if not [b for b in proof['broken'] if 'no longer compile' in b] else 0
    cov['checker_cmd'] = checker_cmd
    cov['trusted_base'] = TRUSTED_BASE + res.get('trusted_extra', [])
    cov['theorems'] = [dict(name=n, axioms=ax) for n, ax in proof['theorems']][:400]
    cov['known_findings_reproduced'] = known_hits
    cov['proof_broken'] = proof['broken']
    cov['correspondence_broken'] = res.get('broken', [])
    if 'samples' not in cov or not cov['samples']:
        cov['samples'] = [dict(obligation=n, axioms=ax) for n, ax in proof['theorems'][:3]] or ['no sample available']
    V.write_evidence(pid, tier, a.seed, cov, time.time() - t0, len(violations_out), res.get('assumptions', []))

    if violations_out:
        kind, path = violations_out[0]
        if kind == 'found':
            print('VIOLATION property=%s replay=%s' % (pid, path))
        else:
            print('VIOLATION property=%s replay=%s no-failing-input-found' % (pid, path))
        return 1
    print('OK property=%s tier=%s obligations=%d discharged=%d %s wall=%.1fs' % (
        pid, tier, proof['obligations'], proof['discharged'], res.get('summary', ''), time.time() - t0))
    return 0


if __name__ == '__main__':
    sys.exit(main())
