#!/bin/sh
# benign_trial.sh [dir]: false-alarm trial. Applies every behaviour-preserving refactor of /verif/benign/*.diff to
# /repo in turn, runs all twenty quick checks, undoes it, and prints which checks raised an alarm (there must be none).
D=${1:-/verif/benign}
ALL="C01 C02 C03 C04 C05 C06 C07 C08 C09 C10 C11 C12 C13 C14 C15 C16 C17 C18 C19 C20"
for P in "$D"/*.diff; do
  echo "#### $(basename "$P")"
  git -C /repo apply "$P" || { echo "patch does not apply"; continue; }
  for c in $ALL; do
    timeout 3000 python3 /verif/tools/check.py $c --tier quick 2>&1 | grep -E "^VIOLATION" | cut -c1-200
  done
  git -C /repo checkout -- .
done
git -C /repo status --short | grep -v _build
echo "#### done"
