#!/usr/bin/env python3
"""Shared plumbing of the HFSM2 verification checks (see /verif/DESIGN.md §6, §10).

Everything here works from /repo's *current working tree*: build outputs are cached under
/verif/.cache keyed by the content hash of the library sources, the harness sources and the flags,
so an edited header is always rebuilt and an unchanged one is built once.
"""
from __future__ import annotations
import os, sys, json, time, hashlib, subprocess, fcntl, re, shutil, glob

VERIF = os.path.dirname(os.path.dirname(os.path.abspath(__file__)))
REPO = os.environ.get('VERIF_REPO', '/repo')
CACHE = os.path.join(VERIF, '.cache')
LEAN_DIR = os.path.join(VERIF, 'lean')
HARNESS = os.path.join(VERIF, 'harness')
GEN = os.path.join(VERIF, 'gen')
EVIDENCE = os.path.join(VERIF, 'evidence')
REPLAYS = os.path.join(EVIDENCE, 'replays')
DRIVER = os.path.join(LEAN_DIR, '.lake', 'build', 'bin', 'driver')
ALLOWED_AXIOMS = {'propext', 'Classical.choice', 'Quot.sound'}
FORBIDDEN = re.compile(r'\bsorry\b|\badmit\b|^\s*axiom\s|native_decide|bv_decide|implemented_by|\bunsafe\s|maxHeartbeats\s+0')
JOBS = int(os.environ.get('VERIF_JOBS', '16'))


def sh(cmd, timeout=1800, cwd=None, env=None, input=None):
    """Run a command, return (status, stdout, stderr); status -9 on timeout."""
    try:
        p = subprocess.run(cmd, cwd=cwd, env=env, input=input, capture_output=True, text=True,
                           timeout=timeout, errors='replace')
        return p.returncode, p.stdout, p.stderr
    except subprocess.TimeoutExpired as e:
        return -9, (e.stdout or b'').decode('utf8', 'replace') if isinstance(e.stdout, bytes) else (e.stdout or ''), 'TIMEOUT'


def sha(*parts):
    h = hashlib.sha256()
    for p in parts:
        if isinstance(p, str):
            p = p.encode()
        h.update(p)
        h.update(b'\0')
    return h.hexdigest()


def file_hash(paths):
    h = hashlib.sha256()
    for p in sorted(paths):
        h.update(p.encode())
        try:
            with open(p, 'rb') as f:
                h.update(f.read())
        except OSError:
            h.update(b'<missing>')
    return h.hexdigest()


def repo_sources():
    out = [os.path.join(REPO, 'include', 'hfsm2', 'machine.hpp')]
    for root, _, files in os.walk(os.path.join(REPO, 'development')):
        for f in files:
            out.append(os.path.join(root, f))
    out.append(os.path.join(REPO, 'tools', 'join.py'))
    return out


_tree_hash = None
_src_root = None


def tree_hash():
    """Content hash of everything of /repo the checks compile against.  Computed once per process from
    the bytes read at that moment; the very same bytes are written to a snapshot directory under .cache
    (`src_root()`), and every compilation / extraction of this process reads the snapshot: a check is
    therefore self-consistent even if /repo is edited while it runs, and a cache entry keyed by this hash
    was always built from exactly these sources."""
    global _tree_hash, _src_root
    if _tree_hash is None:
        blobs = []
        h = hashlib.sha256()
        for p in sorted(repo_sources()):
            h.update(p.encode())
            try:
                with open(p, 'rb') as f:
                    b = f.read()
                h.update(b)
                blobs.append((os.path.relpath(p, REPO), b))
            except OSError:
                h.update(b'<missing>')
        _tree_hash = h.hexdigest()[:20]
        root = os.path.join(CACHE, 'src_' + _tree_hash)
        if not os.path.isdir(root):
            tmp = root + '.tmp%d' % os.getpid()
            for rel, b in blobs:
                q = os.path.join(tmp, rel)
                os.makedirs(os.path.dirname(q), exist_ok=True)
                with open(q, 'wb') as f:
                    f.write(b)
            try:
                os.rename(tmp, root)
            except OSError:          # another process won the race: same content by construction
                import shutil
                shutil.rmtree(tmp, ignore_errors=True)
        _src_root = root
        _prune_snapshots(keep=root)
    return _tree_hash


def src_root():
    """Snapshot of /repo's current working tree (include/, development/, tools/join.py) taken when this
    process first looked at it."""
    tree_hash()
    return _src_root


def _prune_snapshots(keep, limit=6):
    try:
        ds = [os.path.join(CACHE, d) for d in os.listdir(CACHE) if d.startswith('src_') and '.tmp' not in d]
        ds = sorted((d for d in ds if d != keep), key=os.path.getmtime)
        import shutil
        for d in ds[:-limit] if len(ds) > limit else []:
            shutil.rmtree(d, ignore_errors=True)
    except OSError:
        pass


def verif_hash(*rel):
    paths = []
    for r in rel:
        p = os.path.join(VERIF, r)
        if os.path.isdir(p):
            for root, dirs, files in os.walk(p):
                dirs[:] = [d for d in dirs if d not in ('.lake', '__pycache__')]
                paths += [os.path.join(root, f) for f in files]
        else:
            paths.append(p)
    return file_hash(paths)[:20]


class Lock:
    """Inter-process lock so parallel property checks share one Lean build / one cache fill."""
    def __init__(self, name):
        os.makedirs(CACHE, exist_ok=True)
        self.path = os.path.join(CACHE, name + '.lock')

    def __enter__(self):
        self.f = open(self.path, 'w')
        fcntl.flock(self.f, fcntl.LOCK_EX)
        return self

    def __exit__(self, *a):
        fcntl.flock(self.f, fcntl.LOCK_UN)
        self.f.close()


# ---------------------------------------------------------------------------------------------------
# Lean side

def strip_lean_comments(text):
    """Remove `--` line comments and (nested) `/- -/` block comments."""
    out = []
    i, depth, n = 0, 0, len(text)
    while i < n:
        if text.startswith('/-', i):
            depth += 1
            i += 2
        elif depth and text.startswith('-/', i):
            depth -= 1
            i += 2
        elif depth:
            if text[i] == '\n':
                out.append('\n')
            i += 1
        elif text.startswith('--', i):
            while i < n and text[i] != '\n':
                i += 1
        else:
            out.append(text[i])
            i += 1
    return ''.join(out)


def forbidden_tokens():
    """[(file, line, text)] of forbidden constructs in the Lean sources (comments stripped)."""
    hits = []
    for root, dirs, files in os.walk(LEAN_DIR):
        dirs[:] = [d for d in dirs if d != '.lake']
        for f in files:
            if not f.endswith('.lean'):
                continue
            p = os.path.join(root, f)
            code = strip_lean_comments(open(p, encoding='utf8').read())
            for k, line in enumerate(code.split('\n'), 1):
                if FORBIDDEN.search(line):
                    hits.append((os.path.relpath(p, VERIF), k, line.strip()[:160]))
    return hits


def lean_imports(module):
    """Transitive `Hfsm.*` imports of a module, from the sources."""
    seen, todo = set(), [module]
    while todo:
        m = todo.pop()
        if m in seen:
            continue
        seen.add(m)
        p = os.path.join(LEAN_DIR, *m.split('.')) + '.lean'
        try:
            for line in open(p, encoding='utf8'):
                mm = re.match(r'\s*import\s+(Hfsm[\w.]*)', line)
                if mm:
                    todo.append(mm.group(1))
        except OSError:
            pass
    return seen


def regenerate_facts():
    """Source-derived facts (DESIGN §5.4): rewrite Generated/*.lean from the current /repo.
    Returns (ok, message)."""
    hdr = os.path.join(src_root(), 'include', 'hfsm2', 'machine.hpp')
    dst = os.path.join(LEAN_DIR, 'Hfsm', 'Generated', 'RngFacts.lean')
    tmp = dst + '.new'
    st, out, err = sh([sys.executable, os.path.join(VERIF, 'tools', 'extract_facts_rng.py'), hdr, tmp], timeout=120)
    if st != 0:
        if os.path.exists(tmp):
            os.remove(tmp)
        return False, 'extract_facts_rng.py failed (%d): %s' % (st, (err or out).strip()[-600:]) + rng_hazard(hdr)
    new = open(tmp, encoding='utf8').read()
    old = open(dst, encoding='utf8').read() if os.path.exists(dst) else None
    if new != old:
        os.replace(tmp, dst)
    else:
        os.remove(tmp)
    return True, 'facts regenerated (%s)' % ('changed' if new != old else 'unchanged')


def rng_hazard(hdr):
    """The one thing about the generators that no execution on one compiler can settle: two draws passed to
    `widen` in ONE call expression are indeterminately sequenced.  Returns a marker text if the header has it."""
    try:
        import extract_facts_rng as X
        src = X.squeeze(X.strip_comments(open(hdr, encoding='utf8', errors='replace').read()))
    except Exception as e:
        return ' [HAZARD-SCAN-FAILED %r]' % (e,)
    if re.search(r'widen\((?:[^;(),]|\([^;()]*\))*\(\)(?:[^;(),]|\([^;()]*\))*,(?:[^;(),]|\([^;()]*\))*\(\)', src):
        return ' [UNSEQUENCED-DRAWS: a call of widen(…) has a function call in both arguments]'
    return ''


def prune_cache(limit_gb=6.0, keep_hours=3.0):
    """Disk is limited: when .cache exceeds `limit_gb`, remove binaries, transcripts and cached runs that have not
    been used for `keep_hours` (content-addressed, so anything removed is simply rebuilt when needed again)."""
    import shutil
    try:
        total, entries = 0, []
        for root, dirs, files in os.walk(CACHE):
            for f in files:
                q = os.path.join(root, f)
                try:
                    st = os.stat(q)
                except OSError:
                    continue
                total += st.st_size
                entries.append((st.st_mtime, st.st_size, q))
        if total < limit_gb * (1 << 30):
            return
        cutoff = time.time() - keep_hours * 3600
        for mt, size, q in sorted(entries):
            if mt > cutoff or total < limit_gb * (1 << 30) * 0.5:
                break
            rel = os.path.relpath(q, CACHE)
            if rel.endswith('.lock') or rel.startswith('src_'):
                continue
            try:
                os.remove(q)
                total -= size
            except OSError:
                pass
        for d in os.listdir(CACHE):
            q = os.path.join(CACHE, d)
            if os.path.isdir(q) and d.startswith(('tr_', 'search_', 'c17_', 'joincheck_')) and not os.listdir(q):
                shutil.rmtree(q, ignore_errors=True)
    except OSError:
        pass


_lean_state = None


def lean_state():
    """Build driver and library from the current sources (+ regenerated facts), audit every theorem.

    Returns dict: facts_ok, facts_msg, driver_ok, lib_ok, failed_modules (set), log, theorems
    {module: [(name, [axioms])]}, forbidden [(file, line, text)]."""
    global _lean_state
    if _lean_state is not None:
        return _lean_state
    with Lock('lean'):
        prune_cache()
        st = {}
        st['facts_ok'], st['facts_msg'] = regenerate_facts()
        env = dict(os.environ)
        c1, o1, e1 = sh(['lake', 'build', 'driver'], cwd=LEAN_DIR, timeout=3000, env=env)
        st['driver_ok'] = c1 == 0 and os.path.exists(DRIVER)
        c2, o2, e2 = sh(['lake', 'build', 'Hfsm'], cwd=LEAN_DIR, timeout=3000, env=env)
        st['lib_ok'] = c2 == 0
        log = (o1 + e1 + o2 + e2)
        st['log'] = log[-6000:]
        failed = set(re.findall(r'✖ \[\d+/\d+\] Building ([\w.]+)', log))
        failed |= set(re.findall(r'^- ([\w.]+)$', log, re.M))
        st['failed_modules'] = failed
        st['errors'] = re.findall(r'^error: .*$', log, re.M)[:20]
        theorems = {}
        if st['lib_ok']:
            c3, o3, e3 = sh(['lake', 'env', 'lean', 'Audit.lean'], cwd=LEAN_DIR, timeout=1200)
            for line in o3.splitlines():
                if line.startswith('THM '):
                    parts = line.split()
                    theorems.setdefault(parts[1], []).append((parts[2], parts[3:]))
            st['audit_ok'] = c3 == 0
            if c3 != 0:
                st['log'] += '\nAUDIT: ' + (o3 + e3)[-1500:]
        else:
            st['audit_ok'] = False
        st['theorems'] = theorems
        st['forbidden'] = forbidden_tokens()
        _lean_state = st
        return st


def proof_status(module):
    """Proof-obligation status of one Props module.

    Returns dict(obligations, discharged, broken [names or module-level reasons], theorems [(name, axioms)])."""
    st = lean_state()
    res = dict(obligations=0, discharged=0, broken=[], theorems=[], module=module)
    deps = lean_imports(module)
    if not os.path.exists(os.path.join(LEAN_DIR, *module.split('.')) + '.lean'):
        res['broken'].append('module %s does not exist' % module)
        return res
    if not st['facts_ok'] and 'Hfsm.Generated.RngFacts' in deps:
        # The translator recognises the generator code by strict templates; a harmless rewrite defeats it.
        # That alone is not a violation: the tie then rests on the correspondence check alone (run at thorough
        # depth by check.py), except for the one hazard execution cannot settle (unsequenced draws).
        if 'UNSEQUENCED-DRAWS' in st['facts_msg'] or 'HAZARD-SCAN-FAILED' in st['facts_msg']:
            res['broken'].append('source facts could not be extracted: ' + st['facts_msg'])
        else:
            res['facts_fallback'] = st['facts_msg']
    bad_mods = sorted(st['failed_modules'] & deps)
    if bad_mods:
        res['broken'].append('modules no longer compile: ' + ', '.join(bad_mods))
        for e in st['errors'][:6]:
            res['broken'].append(e[:300])
    elif not st['lib_ok'] and not st['theorems'].get(module):
        res['broken'].append('library build failed: ' + '; '.join(st['errors'][:3])[:500])
    thms = st['theorems'].get(module, [])
    res['theorems'] = thms
    res['obligations'] = len(thms)
    for name, axs in thms:
        extra = [a for a in axs if a not in ALLOWED_AXIOMS]
        if extra:
            res['broken'].append('%s depends on axioms %s' % (name, ' '.join(extra)))
        else:
            res['discharged'] += 1
    if st['lib_ok'] and not thms:
        res['broken'].append('no theorem found in %s' % module)
    for f, k, text in st['forbidden']:
        res['broken'].append('forbidden construct at %s:%d: %s' % (f, k, text))
    return res


# ---------------------------------------------------------------------------------------------------
# C++ side

SAN_FLAGS = ['-O1', '-g', '-fsanitize=address,undefined', '-fno-sanitize-recover=all']
FAST_FLAGS = ['-O0']


def repo_include(dev=False):
    return os.path.join(src_root(), 'development' if dev else 'include')


def build_cxx(src_path, flags, tag, extra_hash='', dev=False, src_text=None):
    """Compile one TU against the current /repo headers. Returns (binary or None, error text, seconds, cached)."""
    os.makedirs(os.path.join(CACHE, 'bin'), exist_ok=True)
    text = src_text if src_text is not None else open(src_path, encoding='utf8').read()
    key = sha(tree_hash(), text, ' '.join(flags), verif_hash('harness'), extra_hash, str(dev))[:24]
    exe = os.path.join(CACHE, 'bin', '%s_%s' % (tag, key))
    if os.path.exists(exe):
        try:
            os.utime(exe)           # keep what is in use young (prune_cache removes by age)
        except OSError:
            pass
        return exe, '', 0.0, True
    if src_text is not None:
        src_path = exe + '.cpp'
        with open(src_path, 'w') as f:
            f.write(src_text)
    cmd = ['g++', '-std=c++14', '-I' + repo_include(dev), '-I' + HARNESS] + flags + [src_path, '-o', exe + '.tmp']
    t0 = time.time()
    st, out, err = sh(cmd, timeout=1500)
    dt = time.time() - t0
    if st != 0:
        return None, err[-3000:], dt, False
    os.replace(exe + '.tmp', exe)
    return exe, '', dt, False


class Limited:
    """Result of run_limited: returncode (-9 when killed by the watchdog), stderr tail, reason."""
    def __init__(self, returncode, stderr, reason=''):
        self.returncode, self.stderr, self.reason = returncode, stderr, reason


def run_limited(cmd, stdout_file, timeout, env=None, rss_limit_mb=3000, out_limit_mb=1500):
    """Run a harness binary writing its transcript to `stdout_file` under a watchdog: wall-clock timeout, resident
    memory and output size are bounded (a defect in the library can make a harness loop, allocate or print without
    end — e.g. a cyclic plan list: that must become a verdict, not take the checker down with it)."""
    import tempfile
    with open(stdout_file, 'wb') as f, tempfile.TemporaryFile() as errf:
        p = subprocess.Popen(cmd, stdout=f, stderr=errf, env=env)
        t0, reason = time.time(), ''
        while True:
            try:
                p.wait(timeout=0.25)
                break
            except subprocess.TimeoutExpired:
                pass
            if time.time() - t0 > timeout:
                reason = 'timeout after %ds (possible non-termination inside the library)' % timeout
            else:
                try:
                    with open('/proc/%d/statm' % p.pid) as sm:
                        rss_mb = int(sm.read().split()[1]) * 4096 // (1 << 20)
                    if rss_mb > rss_limit_mb:
                        reason = 'resident memory above %d MB (runaway allocation)' % rss_limit_mb
                    elif os.path.getsize(stdout_file) > out_limit_mb * (1 << 20):
                        reason = 'output above %d MB (runaway output)' % out_limit_mb
                except (OSError, ValueError, IndexError):
                    pass
            if reason:
                p.kill()
                p.wait()
                break
        errf.seek(0)
        err = errf.read().decode('utf8', 'replace')[-4000:]
    if reason:
        return Limited(-9, (err + '\n' + reason).strip(), reason)
    return Limited(p.returncode, err)


def run_driver(component, transcript_path, timeout=1800):
    """Replay a transcript. Returns (ok, line count, message)."""
    if not os.path.exists(DRIVER):
        return False, 0, 'driver binary missing (Lean build failed)'
    with open(transcript_path, 'rb') as f:
        try:
            p = subprocess.run([DRIVER, component], stdin=f, capture_output=True, timeout=timeout)
        except subprocess.TimeoutExpired:
            return False, 0, 'driver timeout'
    out = p.stdout.decode('utf8', 'replace').strip()
    last = out.splitlines()[-1] if out else ''
    if p.returncode == 0 and last.startswith('OK'):
        return True, int(last.split()[1]), ''
    return False, 0, last[:3000] or ('driver exit %d: %s' % (p.returncode, p.stderr.decode('utf8', 'replace')[-300:]))


def run_driver_all(component, transcript_path, timeout=1800):
    """Replay a transcript scenario by scenario. Returns (ok, line count, [divergence messages])."""
    if not os.path.exists(DRIVER):
        return False, 0, ['driver binary missing (Lean build failed)']
    with open(transcript_path, 'rb') as f:
        try:
            p = subprocess.run([DRIVER, component, 'all'], stdin=f, capture_output=True, timeout=timeout)
        except subprocess.TimeoutExpired:
            return False, 0, ['driver timeout']
    out = p.stdout.decode('utf8', 'replace').strip().splitlines()
    last = out[-1] if out else ''
    if p.returncode == 0 and last.startswith('OK'):
        return True, int(last.split()[1]), []
    msgs = [l[:3000] for l in out if l.startswith('DIVERGE ')]
    return False, 0, msgs or [last[:3000] or ('driver exit %d: %s' % (p.returncode, p.stderr.decode('utf8', 'replace')[-300:]))]


# ---------------------------------------------------------------------------------------------------
# findings / evidence

def load_known():
    p = os.path.join(VERIF, 'known_findings.json')
    if not os.path.exists(p):
        return []
    return json.load(open(p))['findings']


def write_replay(prop, body):
    os.makedirs(REPLAYS, exist_ok=True)
    name = '%s-%s.txt' % (prop, sha(body)[:10])
    path = os.path.join(REPLAYS, name)
    with open(path, 'w') as f:
        f.write(body)
    return path


def write_evidence(prop, tier, seed, coverage, wall, violations, assumptions):
    os.makedirs(EVIDENCE, exist_ok=True)
    doc = dict(property_id=prop, tier=tier, seed=seed, level='proof', coverage=coverage,
               assumptions=assumptions, wall_s=round(wall, 2), violations=violations)
    tmp = os.path.join(EVIDENCE, prop + '.json.tmp')
    with open(tmp, 'w') as f:
        json.dump(doc, f, indent=1, sort_keys=True)
        f.write('\n')
    os.replace(tmp, os.path.join(EVIDENCE, prop + '.json'))
