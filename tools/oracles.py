#!/usr/bin/env python3
"""Property oracles evaluated on the implementation's own observations (transcripts of the real code),
independently of the Lean model (DESIGN §5.3).  Each oracle appends rejections
    {tag, what, replay}
to `rejections[<property id>]`; a rejection is a concrete failing history on the real library.
"""
from __future__ import annotations
import re, json

KINDS = 'CRMSUZH'


class Stats:
    def __init__(self):
        self.d = {}

    def inc(self, k, n=1):
        self.d[k] = self.d.get(k, 0) + n

    def as_dict(self):
        return dict(sorted(self.d.items()))


class Node:
    __slots__ = ('id', 'kind', 'headed', 'inj', 'strategy', 'subs', 'parent', 'prong', 'size', 'rid')


def build_tree(shape):
    """shape: gen/shapes.py Shape (numbered) -> list of Node indexed by id"""
    import shapes as S
    nodes = S.number(shape)
    out = []
    for n in nodes:
        m = Node()
        m.id, m.kind, m.headed, m.inj, m.strategy = n.id, n.kind, n.headed, n.inj, n.strategy
        m.subs = [c.id for c in n.subs]
        m.parent = n.parent.id if n.parent is not None else None
        m.prong = n.prong
        m.size = len(n.nodes())
        m.rid = n.region_id
        out.append(m)
    return out


def parse_fields(tokens):
    return dict(t.split('=', 1) for t in tokens if '=' in t)


def parse_list(s):
    """[o>k>d>p;…] -> list of (origin|None, kind, dest, payload|None)"""
    if s in ('[]', '?', ''):
        return []
    out = []
    for item in s[1:-1].split(';'):
        o, k, d, p = item.split('>')
        out.append((None if o == '-' else int(o), k, int(d), None if p == '-' else int(p)))
    return out


class Op:
    __slots__ = ('inst', 'name', 'args', 'events', 'ret', 'snap', 'asserts', 'line', 'activates')

    def __init__(self, inst, name, args, line):
        # `replayenter` (RV_<Manual>::replayEnter on an instance that is not activated) is judged like `replay` —
        # same history bookkeeping, no guards, report refreshed iff it answers true — and additionally activates
        self.activates = name == 'replayenter'
        if name == 'replayenter':
            name = 'replay'
        self.inst, self.name, self.args, self.line = inst, name, args, line
        self.events, self.ret, self.snap, self.asserts = [], None, None, []


def scenarios(path):
    """Yield (header dict, [Op]) per scenario of a transcript file."""
    hdr, ops, cur = {}, [], None
    with open(path, 'r', errors='replace') as f:
        for k, line in enumerate(f, 1):
            t = line.split()
            if not t:
                continue
            h = t[0]
            if h == 'scenario':
                if ops or hdr:
                    yield hdr, ops
                hdr, ops, cur = {'index': int(t[1])}, [], None
            elif h == 'shape':
                hdr['shape'] = ' '.join(t[1:])
            elif h == 'config':
                hdr['config'] = parse_fields(t[1:])
            elif h == 'op':
                cur = Op(int(t[1]), t[2], t[3:], k)
                ops.append(cur)
            elif h in ('cb', 'log', 'rng'):
                if cur is not None:
                    cur.events.append(t)
            elif h == 'ret':
                if cur is not None:
                    cur.ret = t[1] if len(t) > 1 else ''
            elif h == 'assert':
                if cur is not None:
                    cur.asserts.append(t[1])
            elif h == 'snap':
                if cur is not None:
                    cur.snap = parse_fields(t[2:])
            elif h == 'end':
                pass
    if ops or hdr:
        yield hdr, ops


def replay_text(hdr, ops, upto):
    """Human-readable history up to (and including) op index `upto`: the replay of a rejection."""
    out = ['shape %s' % hdr.get('shape'), 'config %s' % json.dumps(hdr.get('config'), sort_keys=True),
           'scenario %s' % hdr.get('index')]
    lo = max(0, upto - 12)
    if lo:
        out.append('… %d earlier operations omitted (re-run the harness binary with the same seed for all) …' % lo)
    for op in ops[lo:upto + 1]:
        out.append('op %d %s %s' % (op.inst, op.name, ' '.join(op.args)))
        for e in op.events[:200]:
            out.append('  ' + ' '.join(e))
        if op.ret is not None:
            out.append('  ret ' + op.ret[:200])
        if op.snap:
            out.append('  snap ' + ' '.join('%s=%s' % kv for kv in op.snap.items()))
    return '\n'.join(out)


# ---------------------------------------------------------------------------------------------------
# C01: well-formed active configuration

def wf_active(tree, amask, subs, machine_active):
    """None if the reported active set is a valid configuration, else a description."""
    act = lambda i: bool(amask >> i & 1)
    if act(0) != machine_active:
        return 'root active=%s but machine activated=%s' % (act(0), machine_active)
    for n in tree:
        if n.parent is not None and act(n.id) and not act(n.parent):
            return 'state %d active while its parent %d is not' % (n.id, n.parent)
        if n.kind == 'C':
            k = [c for c in n.subs if act(c)]
            sub = subs[n.id]
            if act(n.id):
                if len(k) != 1:
                    return 'active composite region %d has %d active sub-states' % (n.id, len(k))
                if sub is None or sub >= len(n.subs) or n.subs[sub] != k[0]:
                    return 'activeSubState(%d)=%s does not name the active sub-state %d' % (n.id, sub, k[0])
            else:
                if k:
                    return 'inactive region %d has active sub-states %s' % (n.id, k)
                if sub is not None:
                    return 'activeSubState(%d)=%s while the region is inactive' % (n.id, sub)
        elif n.kind == 'O':
            if act(n.id) and not all(act(c) for c in n.subs):
                return 'active orthogonal region %d has inactive sub-states' % n.id
            if not act(n.id) and any(act(c) for c in n.subs):
                return 'inactive orthogonal region %d has active sub-states' % n.id
    return None


def parse_subs(s):
    return [None if x == '-' else int(x) for x in s.split(',')]


def parse_obs(tok):
    """a:<hex>/r:<hex>/s:<csv>[/p:e.x.c] -> dict or None"""
    if tok == '-':
        return None
    d = {}
    for part in tok.split('/'):
        k, v = part.split(':', 1)
        d[k] = v
    out = dict(a=int(d['a'], 16), r=int(d['r'], 16), s=parse_subs(d['s']))
    if 'p' in d:
        e, x, c = d['p'].split('.')
        out['p'] = (int(e, 16), int(x, 16), int(c, 16))
    return out


_header_lines = None


def assertion_text(loc):
    """Source text of the assertion at `machine.hpp:<line>` in the current /repo header."""
    global _header_lines
    import os
    if _header_lines is None:
        try:
            import vlib as _V
            repo = _V.src_root()
        except Exception:
            repo = os.environ.get('VERIF_REPO', '/repo')
        try:
            _header_lines = open(os.path.join(repo, 'include', 'hfsm2', 'machine.hpp'), errors='replace').read().split('\n')
        except OSError:
            _header_lines = []
    try:
        n = int(loc.split(':')[1])
        return ' '.join(_header_lines[n - 1].split())
    except (ValueError, IndexError):
        return '?'


_plugins = None


def plugins():
    """Per-property oracle modules tools/oracle_cXX.py, each exposing judge(hdr, ops, tree, config, rejections, stats)."""
    global _plugins
    if _plugins is None:
        import os, glob, importlib
        _plugins = []
        here = os.path.dirname(os.path.abspath(__file__))
        for f in sorted(glob.glob(os.path.join(here, 'oracle_c[0-9][0-9].py'))):
            _plugins.append(importlib.import_module(os.path.basename(f)[:-3]))
    return _plugins


def judge_file(path, shape, config, rejections, stats, asserts):
    tree = build_tree(shape)
    for hdr, ops in scenarios(path):
        stats.inc('scenarios')
        if any(op.name == 'attachlogger' for op in ops):
            # harness sweepLogger: the logger is detached and re-attached in mid-run.  C16's oracle follows the attachment
            # itself; every other oracle judges the scenario as the logger-less run it must be equivalent to (records
            # stripped, log=0: their "blind" mode), so a behaviour change caused by (de)attachment is still rejected by them.
            import copy
            hdr0 = dict(hdr, config=dict(hdr.get('config', {}), log='0'))
            ops0 = []
            for op in ops:
                o2 = copy.copy(op)
                o2.events = [e for e in op.events if e[0] != 'log']
                ops0.append(o2)
            config0 = dict(config, log=0) if isinstance(config, dict) else config
            for mod in plugins():
                if mod.__name__ == 'oracle_c16':
                    mod.judge(hdr, ops, tree, config, rejections, stats)
                else:
                    mod.judge(hdr0, ops0, tree, config0, rejections, stats)
        else:
            for mod in plugins():
                mod.judge(hdr, ops, tree, config, rejections, stats)
        active = {0: False, 1: False}      # machine activated?
        last_snap = {}
        for idx, op in enumerate(ops):
            stats.inc('ops')
            stats.inc('op_' + op.name)
            if op.name in ('new',):
                active[op.inst] = not int(hdr['config'].get('manual', '0'))
            elif op.name == 'enter':
                active[op.inst] = True
            elif op.name == 'replay' and op.activates and op.ret == '1':
                active[op.inst] = True
            elif op.name in ('exit', 'destroy'):
                active[op.inst] = False
            elif op.name == 'load':
                if op.args and op.args[0][:1] == '0' and int(hdr['config'].get('manual', '0')):
                    active[op.inst] = False
                elif op.args and op.args[0][:1] == '1':
                    active[op.inst] = True
            for a in op.asserts:
                expr = assertion_text(a)
                asserts[expr] = asserts.get(expr, 0) + 1
                rejections.setdefault('C11', []).append(dict(
                    tag='assert', what='library assertion `%s` (%s) fired during `%s`' % (
                        expr, a, 'replayenter' if op.activates else op.name),
                    loc=a, replay=replay_text(hdr, ops, idx)))
            ncb = 0
            changed = False
            for e in op.events:
                if e[0] == 'cb':
                    ncb += 1
                    stats.inc('cb_' + e[2])
                    if e[2] in ('enter', 'exit', 'reenter', 'entryGuard', 'exitGuard'):
                        changed = True
                    if len(e) > 8:
                        rejections.setdefault('C03', []).append(dict(
                            tag='identity', what='callback %s of state %s ran on another object than access<State>()' % (e[2], e[1]),
                            replay=replay_text(hdr, ops, idx)))
                    # C01 inside callbacks: update/react/query/guards/select/rank/utility see a valid configuration
                    obs = parse_obs(e[4])
                    if obs is not None:
                        stats.inc('checks_C01')
                        # during the first activation and inside reset() nothing is active yet
                        why = wf_active(tree, obs['a'], obs['s'], op.name not in ('new', 'enter', 'reset') and not op.activates)
                        if why:
                            rejections.setdefault('C01', []).append(dict(
                                tag='wf-callback', what='inside %s of state %s: %s' % (e[2], e[1], why),
                                replay=replay_text(hdr, ops, idx)))
            if changed:
                stats.inc('ops_with_transition')
            if op.snap is not None:
                sn = op.snap
                stats.inc('checks_C01')
                why = wf_active(tree, int(sn['A'], 16), parse_subs(sn['S']), active[op.inst])
                if why:
                    rejections.setdefault('C01', []).append(dict(
                        tag='wf-snap', what='after `%s`: %s' % (op.name, why), replay=replay_text(hdr, ops, idx)))
                # C11: the registry changes only through the passes that also deliver the lifecycle callbacks — a state
                # with handlers that becomes (in)active without `enter` (`exit`) in the same operation means that registry
                # memory was overwritten (or lifecycle delivery is broken: C03 judges that separately)
                prev = last_snap.get(op.inst)
                if prev is not None and op.name != 'new':
                    a0, a1 = int(prev['A'], 16), int(sn['A'], 16)
                    if a0 != a1 or True:
                        ent = set(int(e[1]) for e in op.events if e[0] == 'cb' and e[2] == 'enter')
                        ext = set(int(e[1]) for e in op.events if e[0] == 'cb' and e[2] == 'exit')
                        stats.inc('checks_C11_registry')
                        for n in tree:
                            if not (n.kind == 'L' or n.headed):
                                continue
                            was, now = a0 >> n.id & 1, a1 >> n.id & 1
                            if now and not was and n.id not in ent:
                                rejections.setdefault('C11', []).append(dict(
                                    tag='silent-registry-change',
                                    what='after `%s` state %d is reported active (A %s -> %s) although no `enter` was delivered to it in this '
                                         'operation: the registry was written outside the lifecycle passes' % (op.name, n.id, prev['A'], sn['A']),
                                    replay=replay_text(hdr, ops, idx)))
                                break
                            if was and not now and n.id not in ext:
                                rejections.setdefault('C11', []).append(dict(
                                    tag='silent-registry-change',
                                    what='after `%s` state %d is no longer reported active (A %s -> %s) although no `exit` was delivered to it in '
                                         'this operation: the registry was written outside the lifecycle passes' % (op.name, n.id, prev['A'], sn['A']),
                                    replay=replay_text(hdr, ops, idx)))
                                break
                last_snap[op.inst] = sn
