#!/usr/bin/env python3
"""C09 oracle — history records what was applied; replaying it reproduces the state.

Judged on the implementation's own transcript only (needs `history=1`; the `P` and `L` fields of the
snap lines are previousTransitions() and, per state, the index lastTransitionTo(s) points at).

  history    after update / react / immediate*: P equals the pending lists of the approved rounds of that
             step, in order (a round is approved iff what follows it — the next round, or the commit pass —
             shows its pending list appended to currentTransitions); nothing approved => P empty; a round in
             which a guard cancelled contributes nothing.  After an operation that processes nothing
             (request, succeed, plan edits, query) P is unchanged; after reset / a step with an empty queue it
             is empty.
  last-range every L entry is `-` or an index into P.
  last-one   when the step approved exactly one request in its only round, every state the step activated
             (active after, not before) has L = 0, and no other index occurs.
  replay     `replay` returning 1 leaves P equal to the replayed list; returning 0 leaves the configuration
             untouched.  If, in addition, the replica's configuration before the replay equals the
             authority's before its step and the step involved no schedule request and no select / utility /
             random resolution, the replica ends in the authority's active configuration with the authority's
             resumable marks — for steps of ANY number of rounds (approved, vetoed, dropped): the substitution
             loop does not commit between rounds, so the batch replay makes the same applyRequest() calls
             (Lean: Props.C09.replay_reproduces_multi_round_step_partial); tags `replay-same`,
             `replay-resumable` (statistic c09_replay_multiround_checked counts the steps with >= 2 guard rounds).
  replay-multiround
             the one class where replay is known NOT to reproduce the ACTIVE configuration (known finding
             KF-C09-multiround-replay, Lean: multi_round_replay_witness): a `schedule` request entered the step
             and is not in P, i.e. it was applied in a round that is not recorded (vetoed by a guard, or dropped
             because it left the request marks unchanged) and registry.restore() does not undo compoResumable;
             a later approved `resume` then lands elsewhere on the authority than on the replica.  Decided from
             the transcript of the authority's step: H(in) > H(P), where H(in) counts the `schedule` requests
             in the queue before the step (Q= of the previous snap), the immediate request itself (`imm H`) and
             those issued before the commit pass (before the first enter/exit/reenter callback) by any callback
             (`QH:` actions) or logged (`log T _ H _`; this also sees plan-issued ones), and H(P) those in P.
             Only such steps (same pre-configuration, no select / utility / random resolution on either side,
             replay answered true) with a different active configuration get the tag; resumable marks are not
             judged in this class (the property does not claim them).  Single-round and schedule-free
             multi-round failures keep `replay-same` / `replay-resumable`, so the known finding cannot hide them.
"""
import oracles as O

LIFE = ('enter', 'exit', 'reenter')
GUARDS = ('entryGuard', 'exitGuard')
STEP_OPS = ('update', 'react', 'imm')
QUIET_OPS = ('req', 'succeed', 'fail', 'planappend', 'planclear', 'query', 'save')


def clean(sn):
    """a snap line that was not torn by an `assert` line written in the middle of it"""
    return sn is not None and all(k in sn for k in ('A', 'R', 'S', 'Q')) and not any('assert' in v for v in sn.values())


def acts_of(e):
    return [] if len(e) < 8 or e[7] == '.' else e[7].split(';')


def related(tree, s, d):
    """s is an ancestor of, equal to, or a descendant of d"""
    def up(x, y):
        while x is not None:
            if x == y:
                return True
            x = tree[x].parent
        return False
    return d < len(tree) and (up(s, d) or up(d, s))


def rounds_of(op):
    """[(pend, curr, cancelled)] per guard round of the operation, final currentTransitions (or None).
    A new round starts when the lists shown change, when an exit guard follows an entry guard, or when a
    guard handler that already ran in this round runs again."""
    rounds = []
    seen_entry = False
    seen = set()
    for e in op.events:
        if e[0] != 'cb' or e[2] not in GUARDS:
            continue
        pend, curr = O.parse_list(e[5]), O.parse_list(e[6])
        x = 'X' in acts_of(e)
        key = (e[1], e[2], e[3])
        if (rounds and rounds[-1][0] == pend and rounds[-1][1] == curr and key not in seen
                and not (e[2] == 'exitGuard' and seen_entry)):
            rounds[-1][2] = rounds[-1][2] or x
            seen.add(key)
        else:
            rounds.append([pend, curr, x])
            seen_entry = False
            seen = {key}
        if e[2] == 'entryGuard':
            seen_entry = True
    final = None
    for e in op.events:
        if e[0] == 'cb' and e[2] in LIFE:
            final = O.parse_list(e[6])
            break
    return rounds, final


def judge(hdr, ops, tree, config, rejections, stats):
    cfg = hdr.get('config', {})
    if not int(cfg.get('history', 0)):
        return
    rej = rejections.setdefault('C09', [])
    all_headed = all(n.headed for n in tree)
    last = {}        # inst -> snap after its latest operation
    step = {}        # inst -> dict(pre=snap, post=snap, rounds=n, plain=bool) of its latest processing step

    def reject(tag, what, idx):
        rej.append(dict(tag=tag, what=what, replay=O.replay_text(hdr, ops, idx)))

    for idx, op in enumerate(ops):
        before = last.get(op.inst)
        sn = op.snap
        if op.name == 'destroy':
            last.pop(op.inst, None)
            step.pop(op.inst, None)
            continue
        if not clean(sn) or 'P' not in sn or 'L' not in sn:
            last.pop(op.inst, None)
            step.pop(op.inst, None)
            continue
        P = O.parse_list(sn['P'])
        L = [None if x == '-' else int(x) for x in sn['L'].split(',')]
        stats.inc('checks_C09')
        for s, i in enumerate(L):
            if i is not None and not (0 <= i < len(P)):
                reject('last-range', 'lastTransitionTo(%d) points at index %d of a history of %d transitions' % (s, i, len(P)), idx)
                break
        if op.name in STEP_OPS:
            rounds, final = rounds_of(op)
            guard_lines = bool(rounds)
            expect = []
            ok_rounds = 0
            known = True
            for j, (pend, curr, x) in enumerate(rounds):
                nxt = rounds[j + 1][1] if j + 1 < len(rounds) else (final if final is not None else P)
                if nxt == curr + pend and pend:
                    expect = curr + pend
                    ok_rounds += 1
                    if x:
                        reject('history-cancelled', 'round %d was cancelled by a guard but its requests %s are recorded' % (j, pend), idx)
                elif nxt == curr:
                    expect = curr
                else:
                    known = False
            if all_headed and known:
                stats.inc('c09_history_checked')
                if P != expect:
                    reject('history', 'previousTransitions %s, but the approved rounds of the step are %s' % (P, expect), idx)
                if final is not None and final != P:
                    reject('history', 'the commit pass showed currentTransitions %s, previousTransitions is %s' % (final, P), idx)
            if not guard_lines and all_headed and P:
                reject('history', 'no guard was consulted in this step, yet previousTransitions is %s' % P, idx)
            # single approved request
            multi = any(e[0] == 'cb' and e[2] in GUARDS and any(a.startswith('Q') for a in acts_of(e)) for e in op.events)
            util = any(e[0] == 'cb' and e[2] in ('utility', 'rank') for e in op.events)
            if all_headed and known and len(rounds) == 1 and ok_rounds == 1 and len(P) == 1 and before is not None:
                stats.inc('c09_single_checked')
                a0, a1 = int(before['A'], 16), int(sn['A'], 16)
                acts = [s for s in range(len(L)) if (a1 >> s & 1) and not (a0 >> s & 1)]
                bad = [s for s in acts if L[s] != 0]
                if bad:
                    s = bad[0]
                    some_ok = any(L[x] == 0 for x in acts)
                    if util and (some_ok or not multi):
                        tag, why = 'last-one-utility', ' (the sub-state was chosen by utility / rank)'
                    elif multi:
                        tag, why = 'last-one-later-round', ' (a guard queued further requests: a later round re-pinned or cleared the targets)'
                    else:
                        tag, why = 'last-one', ''
                    reject(tag, 'single approved request %s activated state %d but lastTransitionTo(%d) is %s%s'
                           % (P[0], s, s, 'null' if L[s] is None else 'index %d' % L[s], why), idx)
            # relatedness of the pinned transition (statistic + multi-round check)
            if all_headed and known and ok_rounds >= 1 and before is not None:
                a0, a1 = int(before['A'], 16), int(sn['A'], 16)
                for s in range(len(L)):
                    if (a1 >> s & 1) and not (a0 >> s & 1) and L[s] is not None and L[s] < len(P):
                        d = P[L[s]][2]
                        if not related(tree, s, d):
                            stats.inc('c09_last_unrelated_multi' if (multi or len(rounds) > 1) else 'c09_last_unrelated_single')
                            # the index is one of a later round's own queue, used on the concatenated history
                            own = [r[0][L[s]] for r in rounds[1:] if len(r[0]) > L[s] and related(tree, s, r[0][L[s]][2])
                                   and r[0][L[s]] != P[L[s]]]
                            if own:
                                reject('last-foreign-index', 'state %d was activated by %s (request #%d of a later round), but lastTransitionTo(%d) is %s: the round-local index is applied to the concatenated history'
                                       % (s, own[0], L[s], s, P[L[s]]), idx)
                                break
            elif all_headed and known and ok_rounds >= 1 and len(P) >= 1 and before is not None:
                # any step: a state the step activated and whose lastTransitionTo is null — recorded as a statistic only
                a0, a1 = int(before['A'], 16), int(sn['A'], 16)
                for s in range(len(L)):
                    if (a1 >> s & 1) and not (a0 >> s & 1) and L[s] is None:
                        stats.inc('c09_activated_without_last')
                        break
            plain = True
            for e in op.events:
                if e[0] == 'cb' and e[2] in ('select', 'rank', 'utility'):
                    plain = False
                if e[0] == 'rng':
                    plain = False
                if e[0] == 'cb':
                    for a in acts_of(e):
                        if a.startswith('QH:'):
                            plain = False
            if before is not None:
                for t in O.parse_list(before.get('Q', '[]')):
                    if t[1] == 'H':
                        plain = False
            if op.name == 'imm' and op.args and op.args[0] == 'H':
                plain = False
            # `schedule` requests that entered the step versus those recorded in P (see `replay-multiround` above)
            first_life = next((i for i, e in enumerate(op.events) if e[0] == 'cb' and e[2] in LIFE), len(op.events))
            early = op.events[:first_life]
            h_queued = sum(1 for t in O.parse_list(before.get('Q', '[]')) if t[1] == 'H') if before is not None else 0
            h_cb = (h_queued + (1 if op.name == 'imm' and op.args and op.args[0] == 'H' else 0)
                    + sum(1 for e in early if e[0] == 'cb' for a in acts_of(e) if a.startswith('QH:')))
            h_log = h_queued + sum(1 for e in early if e[0] == 'log' and len(e) >= 5 and e[1] == 'T' and e[3] == 'H')
            h_rec = sum(1 for t in P if t[1] == 'H')
            noresolve = not any(e[0] == 'rng' or (e[0] == 'cb' and e[2] in ('select', 'rank', 'utility')) for e in op.events)
            step[op.inst] = dict(pre=before, post=sn, rounds=len(rounds), plain=plain and known and all_headed, P=P,
                                 noresolve=noresolve and known and all_headed, sched_leak=max(h_cb, h_log) > h_rec)
        elif op.name in QUIET_OPS and before is not None and 'P' in before:
            if sn['P'] != before['P'] or sn['L'] != before['L']:
                reject('history-quiet', '`%s` processes nothing, yet previousTransitions / lastTransitionTo changed: %s %s -> %s %s'
                       % (op.name, before['P'], before['L'], sn['P'], sn['L']), idx)
        elif op.name == 'reset':
            if P:
                reject('history', 'previousTransitions %s after reset()' % P, idx)
            step.pop(op.inst, None)
        elif op.name == 'replay':
            stats.inc('c09_replays')
            ts = O.parse_list(op.args[0]) if op.args else []
            src = 1 - op.inst
            if op.ret == '1':
                # previousTransitions holds COMPO_COUNT x SUBSTITUTION_LIMIT entries: a longer (valid) history is kept
                # up to that capacity, in order
                cfg_ = hdr.get('config', {})
                cap = int(cfg_.get('queuecap', '0') or 0) * int(cfg_.get('limit', '0') or 0)
                want = ts[:cap] if cap and len(ts) > cap else ts
                if P != want:
                    reject('replay-history', 'replayTransitions(%s) returned true but previousTransitions is %s' % (ts, P), idx)
                if cap and len(ts) > cap:
                    stats.inc('c09_replays_beyond_capacity')
                if any(e[0] == 'cb' and e[2] in GUARDS for e in op.events):
                    reject('replay-guards', 'replayTransitions consulted a guard', idx)
            elif before is not None:
                if sn['A'] != before['A'] or sn['S'] != before['S']:
                    reject('replay-false', 'replayTransitions returned false but the configuration changed', idx)
            st = step.get(src)
            resolved = any(e[0] == 'rng' or (e[0] == 'cb' and e[2] in ('select', 'rank', 'utility')) for e in op.events)
            same_pre = bool(st and st['P'] == ts and st['pre'] is not None and before is not None and not resolved
                            and all(st['pre'].get(k) == before.get(k) for k in ('A', 'R', 'S')))
            if same_pre and st['noresolve'] and st['sched_leak']:
                # a schedule request was applied in a round that is not recorded: the one known class
                stats.inc('c09_replay_leak_checked')
                if op.ret == '1' and (sn['A'] != st['post']['A'] or sn['S'] != st['post']['S']):
                    reject('replay-multiround', 'replica in the authority\'s configuration, the authority\'s step applied a schedule request in a round that is not recorded (vetoed / unchanged): after replaying %s it is active in %s/%s, the authority in %s/%s'
                           % (ts, sn['A'], sn['S'], st['post']['A'], st['post']['S']), idx)
            elif same_pre and st['plain'] and st['rounds'] >= 1 and not any(t[1] == 'H' for t in ts):
                stats.inc('c09_replay_equal_checked')
                if st['rounds'] > 1:
                    stats.inc('c09_replay_multiround_checked')
                if op.ret != '1':
                    reject('replay-same', 'replica in the authority\'s configuration: replayTransitions(%s) returned false' % ts, idx)
                elif sn['A'] != st['post']['A'] or sn['S'] != st['post']['S']:
                    reject('replay-same', 'replica in the authority\'s configuration: after replaying %s it is active in %s/%s, the authority in %s/%s'
                           % (ts, sn['A'], sn['S'], st['post']['A'], st['post']['S']), idx)
                elif sn['R'] != st['post']['R']:
                    reject('replay-resumable', 'replica in the authority\'s configuration: after replaying %s its resumable marks are %s, the authority\'s %s'
                           % (ts, sn['R'], st['post']['R']), idx)
            step.pop(op.inst, None)
        else:
            step.pop(op.inst, None)
        last[op.inst] = sn
