#!/usr/bin/env python3
"""detect_seeded.py <id> [<Cxx>…]: apply /verif/seeded/<id>/patch.diff to /repo, run the quick checks (default: those
recorded by confirm_seeded.py), undo it, record which checks raised an alarm in meta.json (`detected_by`, with the
kind of alarm: `found` = concrete failing input, `nfi` = no-failing-input-found)."""
import os, sys, json, re, subprocess
sid = sys.argv[1]
dst = os.path.join('/verif/seeded', sid)
meta = json.load(open(os.path.join(dst, 'meta.json')))
checks = sys.argv[2:] or meta.get('checks_to_run') or [meta['property']]
env = dict(os.environ)
p = subprocess.run('/verif/tools/try_patch.sh %s/patch.diff %s' % (dst, ' '.join(checks)), shell=True, capture_output=True,
                   text=True, timeout=3400, errors='replace', env=env)
out = p.stdout + p.stderr
meta.setdefault('ran', {})['our_checks'] = out[-1800:]
det, kinds = [], {}
for c in checks:
    m = re.search(r'VIOLATION property=%s replay=\S+( no-failing-input-found)?' % c, out)
    if m:
        det.append(c)
        kinds[c] = 'nfi' if m.group(1) else 'found'
meta['detected_by'] = det
meta['detection_kind'] = kinds
meta['seed'] = env.get('VERIF_SEED', '1')
meta.pop('checks_to_run', None)
json.dump(meta, open(os.path.join(dst, 'meta.json'), 'w'), indent=1)
print(sid, 'detected_by', det, kinds)
