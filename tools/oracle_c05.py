#!/usr/bin/env python3
"""C05 oracle: update/react/query reach exactly the active states in the documented order.

Judged per `update` / `react` / `query` operation of a transcript, from what the implementation itself
reported: the active mask `A` of the instance's previous `snap` line, the machine shape, and the `cb`
lines of the operation.  The expected delivery is computed here, on the shape tree, without the model:

  pre-order  = head, then the active sub-state of a composite region / all sub-states of an orthogonal
               region in declaration order;  post-order = sub-states first, head last;
  update     = preUpdate(pre-order) update(pre-order) postUpdate(post-order);
  react      = preReact, react in the configured order (top-down = pre-order, bottom-up = post-order),
               postReact in the opposite one; each phase starts unconsumed and stops after the state
               one of whose handlers consumed (`E` in the actions token of its cb line);
  query      = configured order, stops the same way; the instance's snap is unchanged by it;
  handlers of one state: injected bases 0..inj-1 then the own handler (slot inj) for
               preUpdate/update/preReact/react; own handler then bases inj-1..0 for postUpdate/postReact;
               own handler then bases 0..inj-1 for query (what S_::deepQuery does); an anonymous region
               head has none; all handlers of a state run even if an earlier one of them consumed.

The periodic callbacks of the operation must be exactly this sequence and must precede every other
callback of the operation (plan callbacks, guards, lifecycle).
"""
from __future__ import annotations
import oracles as O

PERIODIC = {
    'update': ('preUpdate', 'update', 'postUpdate'),
    'react': ('preReact', 'react', 'postReact'),
    'query': ('query',),
}
DOWN = ('preUpdate', 'update', 'preReact', 'react')
UP = ('postUpdate', 'postReact')


def slots(inj, method):
    if method in DOWN:
        return list(range(inj)) + [inj]
    if method in UP:
        return [inj] + list(range(inj - 1, -1, -1))
    if method == 'query':
        return [inj] + list(range(inj))
    raise ValueError(method)


def active_order(tree, amask, head_first):
    """Ids of the active sub-tree in pre-order (head_first) or post-order; None if the reported active
    set is not a well-formed configuration (C01's business, not judged here)."""
    act = lambda i: bool(amask >> i & 1)
    out = []

    def walk(i):
        n = tree[i]
        if not act(i):
            return False
        if head_first:
            out.append(i)
        if n.kind == 'C':
            on = [c for c in n.subs if act(c)]
            if len(on) != 1 or not walk(on[0]):
                return False
        elif n.kind == 'O':
            for c in n.subs:
                if not walk(c):
                    return False
        if not head_first:
            out.append(i)
        return True

    if not walk(0):
        return None
    # every active bit must be accounted for
    if sum(1 << i for i in out) != amask:
        return None
    return out


def phases(opname, bottomup):
    td = not bottomup
    if opname == 'update':
        return [('preUpdate', True, False), ('update', True, False), ('postUpdate', False, False)]
    if opname == 'react':
        return [('preReact', td, True), ('react', td, True), ('postReact', not td, True)]
    return [('query', td, True)]


def consumed_token(acts):
    return any(a == 'E' for a in acts.split(';'))


def judge_op(tree, amask, bottomup, op):
    """None or (tag, description).  `op.events` are the token lists of the operation."""
    periodic = PERIODIC[op.name]
    cbs = [e for e in op.events if e[0] == 'cb']
    # leading run of periodic callbacks
    lead = []
    k = 0
    while k < len(cbs) and cbs[k][2] in periodic:
        lead.append(cbs[k])
        k += 1
    for e in cbs[k:]:
        if e[2] in periodic:
            return 'late', 'periodic callback %s of state %s after the first non-periodic callback (%s of state %s)' % (
                e[2], e[1], cbs[k][2], cbs[k][1])
    pos = 0
    for method, head_first, stops in phases(op.name, bottomup):
        order = active_order(tree, amask, head_first)
        if order is None:
            return None
        for sid in order:
            n = tree[sid]
            if not n.headed:
                continue
            consumed = False
            for sl in slots(n.inj, method):
                want = (str(sid), method, str(sl))
                if pos >= len(lead):
                    return 'missing', '%s: expected %s of state %d (slot %d) as periodic callback #%d, the operation delivered only %d' % (
                        op.name, method, sid, sl, pos, len(lead))
                got = tuple(lead[pos][1:4])
                if got != want:
                    return 'order', '%s: periodic callback #%d is %s of state %s slot %s, expected %s of state %d slot %d (active mask %x, %s)' % (
                        op.name, pos, got[1], got[0], got[2], method, sid, sl, amask, 'bottom-up' if bottomup else 'top-down')
                if stops and len(lead[pos]) > 7 and consumed_token(lead[pos][7]):
                    consumed = True
                pos += 1
            if consumed:
                break
    if pos < len(lead):
        e = lead[pos]
        return 'extra', '%s: unexpected periodic callback #%d: %s of state %s slot %s (inactive state, or delivery after the event was consumed; active mask %x)' % (
            op.name, pos, e[2], e[1], e[3], amask)
    return None


def judge(hdr, ops, tree, config, rejections, stats):
    bottomup = bool(int((hdr.get('config') or {}).get('bottomup', config.get('bottomup', 0))))
    last = {}
    for idx, op in enumerate(ops):
        before = last.get(op.inst)
        if op.name in PERIODIC and before is not None:
            amask = int(before['A'], 16)
            if amask == 0:
                stats.inc('c05_skipped_inactive')
            else:
                stats.inc('checks_C05')
                stats.inc('c05_' + op.name)
                res = judge_op(tree, amask, bottomup, op)
                if res is None and active_order(tree, amask, True) is None:
                    stats.inc('c05_skipped_illformed')
                if res is not None:
                    rejections.setdefault('C05', []).append(dict(
                        tag=res[0], what=res[1], replay=O.replay_text(hdr, ops, idx)))
                if any(e[0] == 'cb' and len(e) > 7 and consumed_token(e[7]) for e in op.events):
                    stats.inc('c05_ops_with_consume')
                if op.name == 'query' and op.snap is not None:
                    stats.inc('checks_C05')
                    diff = sorted(k for k in set(before) | set(op.snap) if before.get(k) != op.snap.get(k))
                    if diff:
                        rejections.setdefault('C05', []).append(dict(
                            tag='query-changed', what='query() changed the instance: snap fields %s differ (%s -> %s)' % (
                                ','.join(diff), ' '.join('%s=%s' % (k, before.get(k)) for k in diff),
                                ' '.join('%s=%s' % (k, op.snap.get(k)) for k in diff)),
                            replay=O.replay_text(hdr, ops, idx)))
        if op.snap is not None:
            last[op.inst] = op.snap
        if op.name == 'destroy':
            last.pop(op.inst, None)


def judge_file(path, shape, config, rejections, stats):
    tree = O.build_tree(shape)
    for hdr, ops in O.scenarios(path):
        judge(hdr, ops, tree, config, rejections, stats)


if __name__ == '__main__':
    import sys, os, json
    sys.path.insert(0, os.path.join(os.path.dirname(os.path.abspath(__file__)), '..', 'gen'))
    sys.path.insert(0, '/verif/gen')
    import shapes as S
    path = sys.argv[1]
    shape = None
    for line in open(path):
        if line.startswith('shape '):
            shape = S.parse(line[6:].strip())
            break
    rej, st = {}, O.Stats()
    judge_file(path, shape, {}, rej, st)
    print(json.dumps(st.as_dict()))
    for r in rej.get('C05', [])[:5]:
        print(r['tag'], r['what'])
        print(r['replay'][-1500:])
    print('rejections', len(rej.get('C05', [])))
