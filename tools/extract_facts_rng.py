#!/usr/bin/env python3
"""
extract_facts_rng.py -- source-derived facts for property C20 (bundled random generators).

Reads the *current* joined header (default /repo/include/hfsm2/machine.hpp, overridable by argv[1])
and writes a Lean module `Hfsm/Generated/RngFacts.lean` (default /verif/lean/Hfsm/Generated/RngFacts.lean,
overridable by argv[2]; "-" = stdout) that defines, as plain `Nat` / `List Nat` / `List (Nat × Nat)`
literals in `namespace Hfsm.Generated.Rng`, every constant the RNG code is written with:

  * splitmix64 / splitmix32 (`SimpleRandomT<8>::raw64`, `SimpleRandomT<4>::raw32`): increment, the two
    multipliers, the three xor-shift amounts;
  * the four xoshiro `next` functions (`FloatRandomT<8>::uint64`, `FloatRandomT<4>::uint32`,
    `IntRandomT<8>::uint64`, `IntRandomT<4>::uint32`): the indices of the result expression
    (`_state[0] + _state[3]` resp. `rotl(_state[1] * 5, 7) * 9`), index and amount of the shift
    `t = _state[1] << 17`, the sequence of `_state[a] ^= _state[b]` statements *in source order*,
    the index of `_state[2] ^= t`, index and amount of the final `rotl`;
  * the four `jump()` functions: the JUMP table, the inner loop bound, (the loop shape is checked);
  * `uniform(uint32_t)` / `uniform(uint64_t)`: exponent pattern, its shift, the mantissa shift;
  * `rotl` widths, `widen` shift, the order in which `BaseRandomT<N>` fills `_state[0..3]`;
  * for `FloatRandomT<4>::uint64()` / `IntRandomT<4>::uint64()`: which argument of `widen` receives the
    FIRST `uint32()` draw.  Only the sequenced shape `{ const uint32_t x = uint32(); const uint32_t y =
    uint32(); return widen(x, y); }` (any variable names, either argument order) is accepted; the
    historical `return widen(uint32(), uint32());` has an unspecified evaluation order and is rejected.

Everything that is *shape* rather than constant (the retry loop `for(;;) if (n = raw()) return n;`,
the jump double loop, the one-line wrappers `float32()`, `uint32()`, `uint64()`, `next()` in the
class bodies) is matched against a strict template after comment removal and whitespace
removal; if any template does not match, the script exits with status 2 and names the function whose
shape it could not recognise (the model would then have to be re-written by hand -- this is a
"source shape changed" signal, not something to paper over).

No third-party imports; Python >= 3.6.
"""
import re
import sys

DEFAULT_SRC = "/repo/include/hfsm2/machine.hpp"
DEFAULT_OUT = "/verif/lean/Hfsm/Generated/RngFacts.lean"


class ShapeError(Exception):
    pass


def strip_comments(text):
    """Remove // and /* */ comments (string literals do not occur in the RNG code; handled anyway)."""
    out = []
    i, n = 0, len(text)
    while i < n:
        c = text[i]
        if c == '"' or c == "'":
            q = c
            j = i + 1
            while j < n and text[j] != q:
                if text[j] == "\\":
                    j += 1
                j += 1
            out.append(text[i:j + 1])
            i = j + 1
        elif text.startswith("//", i):
            j = text.find("\n", i)
            if j < 0:
                j = n
            i = j
        elif text.startswith("/*", i):
            j = text.find("*/", i + 2)
            if j < 0:
                raise ShapeError("unterminated /* comment")
            out.append(" ")
            i = j + 2
        else:
            out.append(c)
            i += 1
    return "".join(out)


def find_braced(text, start):
    """text[start] must be '{'; return index one past the matching '}'."""
    assert text[start] == "{"
    depth = 0
    for i in range(start, len(text)):
        if text[i] == "{":
            depth += 1
        elif text[i] == "}":
            depth -= 1
            if depth == 0:
                return i + 1
    raise ShapeError("unbalanced braces")


def squeeze(s):
    """Remove *all* whitespace; the templates below are written without any."""
    return re.sub(r"\s+", "", s)


def function_body(src, qualname_regex, params_regex, what):
    """
    Body (whitespace-free, without the outer braces) of the out-of-class definition
        <qualname> ( <params> ) noexcept [: init-list] { body }
    `qualname_regex`/`params_regex` are regexes over the comment-free source (whitespace tolerant).
    For constructors the init list is returned in front of the body, separated by '@'.
    Exactly one definition must exist.
    """
    pat = re.compile(qualname_regex + r"\s*\(\s*" + params_regex + r"\s*\)\s*noexcept\s*(?=[:{])")
    hits = [m for m in pat.finditer(src)]
    if len(hits) != 1:
        raise ShapeError("%s: expected exactly one definition, found %d" % (what, len(hits)))
    i = hits[0].end()
    init = ""
    if src[i] == ":":
        # mem-initializer list:  name{...} | name(...)  separated by commas, then the body '{'
        j = i + 1
        while True:
            m = re.compile(r"\s*[A-Za-z_][\w:<>\s]*?\s*(?=[{(])").match(src, j)
            if not m:
                raise ShapeError("%s: cannot parse the constructor initialiser list" % what)
            k = m.end()
            if src[k] == "{":
                k = find_braced(src, k)
            else:
                depth = 0
                while True:
                    if src[k] == "(":
                        depth += 1
                    elif src[k] == ")":
                        depth -= 1
                        if depth == 0:
                            k += 1
                            break
                    k += 1
            m2 = re.compile(r"\s*,").match(src, k)
            if m2:
                j = m2.end()
                continue
            m3 = re.compile(r"\s*(?=\{)").match(src, k)
            if not m3:
                raise ShapeError("%s: no function body after the initialiser list" % what)
            init = squeeze(src[i:k])
            i = m3.end()
            break
    end = find_braced(src, i)
    body = squeeze(src[i + 1:end - 1])
    return (init + "@" + body) if init else body


def class_body(src, header_regex, what):
    pat = re.compile(header_regex + r"[^;{]*(?=\{)")
    hits = [m for m in pat.finditer(src)]
    if len(hits) != 1:
        raise ShapeError("%s: expected exactly one class definition, found %d" % (what, len(hits)))
    m = hits[0]
    end = find_braced(src, m.end())
    return squeeze(src[m.end() + 1:end - 1])


LIT = r"(?:UINT(?:32|64)_C\()?(0[xX][0-9a-fA-F']+|[0-9][0-9']*)[uUlL]*\)?"     # capturing
LITN = r"(?:UINT(?:32|64)_C\()?(?:0[xX][0-9a-fA-F']+|[0-9][0-9']*)[uUlL]*\)?"  # non-capturing


def lit(s):
    s = s.replace("'", "")
    return int(s, 16) if s.lower().startswith("0x") else int(s, 10)


def must(regex, text, what):
    m = re.fullmatch(regex, text)
    if not m:
        raise ShapeError("%s: source shape not recognised.\n  expected (whitespace-free) regex: %s\n  found: %s"
                         % (what, regex, text))
    return m


def W(bits):
    return r"uint%d_t" % bits


# ---------------------------------------------------------------------------------------------------

def extract(src_text):
    src = strip_comments(src_text)
    F = {}          # name -> python value (int | list[int] | list[(int,int)])
    order = []      # emission order with section comments

    def put(name, value, comment=None):
        if name in F:
            raise ShapeError("internal: duplicate fact " + name)
        F[name] = value
        order.append((name, comment))

    def section(title):
        order.append((None, title))

    # ---- uniform ---------------------------------------------------------------------------------
    section("uniform(uint32_t) / uniform(uint64_t)  (detail/shared/random.inl)")
    for bits, ftype, one in ((32, "float", r"1\.0f"), (64, "double", r"1\.0")):
        what = "uniform(const uint%d_t)" % bits
        body = function_body(src, r"\buniform", r"const\s+uint%d_t\s+uint" % bits, what)
        m = must(r"returnreinterpret<%s>\(%s<<%s\|uint>>%s\)-%s;" % (ftype, LIT, LIT, LIT, one), body, what)
        put("uni%dExp" % bits, lit(m.group(1)), "exponent pattern of 1.0 (`0x7F` / `0x3FF`)")
        put("uni%dExpShift" % bits, lit(m.group(2)))
        put("uni%dShift" % bits, lit(m.group(3)), "right shift that keeps the mantissa bits")

    # ---- rotl ------------------------------------------------------------------------------------
    section("rotl(uint32_t,uint32_t) / rotl(uint64_t,uint64_t)")
    for bits in (32, 64):
        what = "rotl(uint%d_t)" % bits
        body = function_body(src, r"\brotl", r"const\s+uint%d_t\s+x\s*,\s*const\s+uint%d_t\s+k" % (bits, bits), what)
        m = must(r"return\(x<<k\)\|\(x>>\(%s-k\)\);" % LIT, body, what)
        put("rotl%dWidth" % bits, lit(m.group(1)))

    # ---- widen -----------------------------------------------------------------------------------
    section("widen(uint32_t x, uint32_t y)  (detail/shared/utility.hpp)")
    body = function_body(src, r"\bwiden", r"const\s+uint32_t\s+x\s*,\s*const\s+uint32_t\s+y", "widen")
    m = must(r"returnstatic_cast<uint64_t>\(x\)<<%s\|y;" % LIT, body, "widen")
    put("widenShift", lit(m.group(1)))

    # ---- splitmix --------------------------------------------------------------------------------
    for n, bits, raw in ((8, 64, "raw64"), (4, 32, "raw32")):
        section("SimpleRandomT<%d>  (splitmix%d)" % (n, bits))
        cls = r"SimpleRandomT\s*<\s*%d\s*>\s*::\s*" % n
        what = "SimpleRandomT<%d>::%s" % (n, raw)
        body = function_body(src, cls + raw, r"", what)
        t = W(bits)
        m = must(r"%sz=\(_state\+=%s\);z=\(z\^\(z>>%s\)\)\*%s;z=\(z\^\(z>>%s\)\)\*%s;returnz\^\(z>>%s\);"
                 % (t, LIT, LIT, LIT, LIT, LIT, LIT), body, what)
        p = "sm%d" % bits
        put(p + "Inc", lit(m.group(1)))
        put(p + "Shift1", lit(m.group(2)))
        put(p + "Mul1", lit(m.group(3)))
        put(p + "Shift2", lit(m.group(4)))
        put(p + "Mul2", lit(m.group(5)))
        put(p + "Shift3", lit(m.group(6)))
        # retry loop
        what = "SimpleRandomT<%d>::uint%d (retry-until-nonzero loop)" % (n, bits)
        body = function_body(src, cls + "uint%d" % bits, r"", what)
        must(r"for\(;;\)if\(const%snumber=%s\(\)\)returnnumber;" % (t, raw), body, what)
        # constructor: _state{seed}
        what = "SimpleRandomT<%d>::SimpleRandomT(seed)" % n
        body = function_body(src, cls + "SimpleRandomT", r"const\s+%s\s+seed" % t, what)
        must(r":_state\{seed\}@", body, what)

    # ---- BaseRandomT seeding ---------------------------------------------------------------------
    for n, bits in ((8, 64), (4, 32)):
        section("BaseRandomT<%d> seeding (four draws of SimpleRandomT<%d>::uint%d, in index order)" % (n, n, bits))
        cls = r"BaseRandomT\s*<\s*%d\s*>\s*::\s*" % n
        draw = r"simple\.uint%d\(\)" % bits
        what = "BaseRandomT<%d>::BaseRandomT(SimpleRandom&&)" % n
        body = function_body(src, cls + "BaseRandomT", r"SimpleRandom\s*&&\s*simple", what)
        m = must(r":_state\{((?:%s,)*%s)\}@" % (draw, draw), body, what)
        ctor_draws = m.group(1).count("simple.")
        what = "BaseRandomT<%d>::seed(SimpleRandom&&)" % n
        body = function_body(src, cls + "seed", r"SimpleRandom\s*&&\s*simple", what)
        stmts = [s for s in body.split(";") if s]
        idxs = []
        for s in stmts:
            mm = must(r"_state\[%s\]=%s" % (LIT, draw), s, what)
            idxs.append(lit(mm.group(1)))
        if ctor_draws != len(idxs):
            raise ShapeError("BaseRandomT<%d>: constructor draws %d words, seed() draws %d" % (n, ctor_draws, len(idxs)))
        put("base%dSeedOrder" % n, idxs, "`_state[i] = simple.uint%d()` statements in source order" % bits)
        # BaseRandomT(s) and seed(s) delegate to SimpleRandom{s}; default ctor seeds with 0
        t = W(bits)
        what = "BaseRandomT<%d>::BaseRandomT(const %s s)" % (n, t)
        body = function_body(src, cls + "BaseRandomT", r"const\s+%s\s+s" % t, what)
        must(r":BaseRandomT\{SimpleRandom\{s\}\}@", body, what)
        what = "BaseRandomT<%d>::seed(const %s s)" % (n, t)
        body = function_body(src, cls + "seed", r"const\s+%s\s+s" % t, what)
        must(r"seed\(SimpleRandom\{s\}\);", body, what)
        what = "BaseRandomT<%d>::BaseRandomT()" % n
        body = function_body(src, cls + "BaseRandomT", r"", what)
        m = must(r":BaseRandomT\{SimpleRandom\{%s\}\}@" % LIT, body, what)
        put("base%dDefaultSeed" % n, lit(m.group(1)))

    # ---- xoshiro next ----------------------------------------------------------------------------
    def xoshiro_next(tag, clsname, n, bits, scrambler):
        cls = r"%s\s*<\s*%d\s*>\s*::\s*" % (clsname, n)
        fn = "uint%d" % bits
        what = "%s<%d>::%s" % (clsname, n, fn)
        body = function_body(src, cls + fn, r"", what)
        t = W(bits)
        S = r"_state\[%s\]" % LIT
        if scrambler == "plus":
            res = r"const%sresult=%s\+%s;" % (t, S, S)
        else:
            res = r"const%sresult=rotl\(%s\*%s,%s\)\*%s;" % (t, S, LIT, LIT, LIT)
        tmpl = (res
                + r"const%st=%s<<%s;" % (t, S, LIT)
                + r"((?:_state\[%s\]\^=_state\[%s\];)+)" % (LITN, LITN)
                + r"%s\^=t;" % S
                + r"%s=rotl\(%s,%s\);" % (S, S, LIT)
                + r"returnresult;")
        m = must(tmpl, body, what)
        g = list(m.groups())
        if scrambler == "plus":
            put(tag + "ResA", lit(g[0]), "result = _state[ResA] + _state[ResB]")
            put(tag + "ResB", lit(g[1]))
            g = g[2:]
        else:
            put(tag + "ResIdx", lit(g[0]), "result = rotl(_state[ResIdx] * ResMul1, ResRot) * ResMul2")
            put(tag + "ResMul1", lit(g[1]))
            put(tag + "ResRot", lit(g[2]))
            put(tag + "ResMul2", lit(g[3]))
            g = g[4:]
        put(tag + "TIdx", lit(g[0]), "t = _state[TIdx] << Shift")
        put(tag + "Shift", lit(g[1]))
        xors = re.findall(r"_state\[%s\]\^=_state\[%s\];" % (LIT, LIT), g[2])
        put(tag + "XorSeq", [(lit(a), lit(b)) for a, b in xors], "`_state[a] ^= _state[b]` statements, source order")
        g = g[3:]
        put(tag + "TDst", lit(g[0]), "_state[TDst] ^= t")
        dst, srcidx = lit(g[1]), lit(g[2])
        put(tag + "RotDst", dst, "_state[RotDst] = rotl(_state[RotSrc], Rot)")
        put(tag + "RotSrc", srcidx)
        put(tag + "Rot", lit(g[3]))

    def xoshiro_jump(tag, clsname, n, bits):
        cls = r"%s\s*<\s*%d\s*>\s*::\s*" % (clsname, n)
        what = "%s<%d>::jump" % (clsname, n)
        body = function_body(src, cls + "jump", r"", what)
        t = W(bits)
        tmpl = (r"constexpr%sJUMP\[\]=\{((?:%s,)*%s),?\};" % (t, LITN, LITN)
                + r"%ss0=0;%ss1=0;%ss2=0;%ss3=0;" % (t, t, t, t)
                + r"for\(unsignedi=0;i<count<unsigned>\(JUMP\);\+\+i\)"
                + r"for\((?:int|unsigned)b=0;b<%s;\+\+b\)\{" % LIT
                + r"if\(JUMP\[i\]&UINT%d_C\(1\)<<b\)\{" % bits
                + r"s0\^=_state\[0\];s1\^=_state\[1\];s2\^=_state\[2\];s3\^=_state\[3\];\}"
                + r"uint%d\(\);\}" % bits
                + r"_state\[0\]=s0;_state\[1\]=s1;_state\[2\]=s2;_state\[3\]=s3;")
        m = must(tmpl, body, what)
        table = [lit(x) for x in re.findall(LIT, m.group(1))]
        put(tag + "Jump", table, "JUMP[] in source order")
        put(tag + "JumpBits", lit(m.group(2)), "inner loop bound `b < JumpBits`")

    for tag, clsname, n, bits, scr, name in (
            ("f8", "FloatRandomT", 8, 64, "plus", "xoshiro256+"),
            ("f4", "FloatRandomT", 4, 32, "plus", "xoshiro128+"),
            ("i8", "IntRandomT", 8, 64, "starstar", "xoshiro256**"),
            ("i4", "IntRandomT", 4, 32, "starstar", "xoshiro128**")):
        section("%s<%d>  (%s)" % (clsname, n, name))
        xoshiro_next(tag, clsname, n, bits, scr)
        xoshiro_jump(tag, clsname, n, bits)

    # ---- in-class one-line wrappers (shape only) ---------------------------------------------------
    section("in-class wrappers (shape checked by the extractor; 1 = recognised)")
    widen_first = {}
    for clsname in ("FloatRandomT", "IntRandomT"):
        for n in (8, 4):
            what = "class %s<%d> body" % (clsname, n)
            body = class_body(src, r"template\s*<\s*>\s*class\s+%s\s*<\s*%d\s*>" % (clsname, n), what)

            def has(rx, member):
                if not re.search(rx, body):
                    raise ShapeError("%s: member `%s` not of the recognised shape (regex %s)" % (what, member, rx))
            has(r"doublefloat64\(\)noexcept\{returnuniform\(uint64\(\)\);\}", "float64")
            has(r"floatfloat32\(\)noexcept\{returnuniform\(uint32\(\)\);\}", "float32")
            if n == 8:
                has(r"uint32_tuint32\(\)noexcept\{returnstatic_cast<uint32_t>\(uint64\(\)\);\}", "uint32")
                has(r"uint64_tuint64\(\)noexcept;", "uint64")
            else:
                # uint64() of the 4-byte variants: two uint32() draws combined by widen().  Only shapes whose
                # evaluation order the language DEFINES are accepted: two sequenced declarations, then widen
                # of the two variables.  The historical `return widen(uint32(), uint32());` leaves the order of
                # the two draws unspecified (g++ draws the right argument first, clang the left one) and is
                # rejected, so that its return breaks the obligation.
                if re.search(r"uint64_tuint64\(\)noexcept\{returnwiden\(uint32\(\),uint32\(\)\);\}", body):
                    raise ShapeError("%s: `uint64()` is `widen(uint32(), uint32())` -- the order of the two draws is "
                                     "UNSPECIFIED in C++ (compiler-dependent result); no order fact can be extracted" % what)
                m = re.search(r"uint64_tuint64\(\)noexcept\{constuint32_t([A-Za-z_]\w*)=uint32\(\);"
                              r"constuint32_t([A-Za-z_]\w*)=uint32\(\);returnwiden\(([A-Za-z_]\w*),([A-Za-z_]\w*)\);\}", body)
                if not m:
                    raise ShapeError("%s: member `uint64` not of the recognised sequenced shape "
                                     "`{ const uint32_t A = uint32(); const uint32_t B = uint32(); return widen(A|B, B|A); }`" % what)
                first, second, arg0, arg1 = m.groups()
                if first == second or {arg0, arg1} != {first, second} or arg0 == arg1:
                    raise ShapeError("%s: `uint64()` does not pass each of its two draws to widen exactly once" % what)
                widen_first[(clsname, n)] = 0 if arg0 == first else 1
                has(r"uint32_tuint32\(\)noexcept;", "uint32")
            if clsname == "FloatRandomT":
                has(r"floatnext\(\)noexcept\{returnfloat32\(\);\}", "next")
            has(r"voidjump\(\)noexcept;", "jump")
            has(r"usingBase::BaseRandomT;", "inherited constructors")
    put("wrappersRecognised", 1)
    section("uint64() of the 4-byte variants: which argument of widen(x, y) = x << 32 | y receives the FIRST uint32() draw")
    put("f4WidenFirstDrawArg", widen_first[("FloatRandomT", 4)],
        "0: first draw is widen's first argument (high half); 1: first draw is the second argument (low half)")
    put("i4WidenFirstDrawArg", widen_first[("IntRandomT", 4)])

    # ---- sanity: `_state` has four words; the model's S4.get/S4.set are written for indices 0..3 ----
    for name, v in F.items():
        idxs = []
        if name.endswith(("ResA", "ResB", "ResIdx", "TIdx", "TDst", "RotDst", "RotSrc")):
            idxs = [v]
        elif name.endswith("XorSeq"):
            idxs = [i for ab in v for i in ab]
        elif name.endswith("SeedOrder"):
            idxs = list(v)
        for i in idxs:
            if i > 3:
                raise ShapeError("%s: state index %d is outside `_state[4]`" % (name, i))
    return F, order


# ---------------------------------------------------------------------------------------------------

def lean_value(v):
    if isinstance(v, int):
        return "Nat", ("0x%x" % v if v > 255 else str(v))
    if isinstance(v, list) and v and isinstance(v[0], tuple):
        return "List (Nat × Nat)", "[" + ", ".join("(%d, %d)" % p for p in v) + "]"
    if isinstance(v, list):
        return "List Nat", "[" + ", ".join("0x%x" % x if x > 255 else str(x) for x in v) + "]"
    raise ShapeError("internal: cannot render " + repr(v))


def render(F, order, src_path):
    out = []
    out.append("/-")
    out.append("GENERATED by /verif/tools/extract_facts_rng.py -- do not edit by hand.")
    out.append("Constants of the bundled random generators as they stand in the *current* source")
    out.append("(`%s`; same text as development/hfsm2/detail/shared/random.inl)." % "include/hfsm2/machine.hpp")
    out.append("`Hfsm.Model.Rng` is defined from these; `Hfsm.Props.C20.facts_match_reference` proves that the")
    out.append("model so instantiated equals the published splitmix / xoshiro algorithms.")
    out.append("-/")
    out.append("namespace Hfsm.Generated.Rng")
    for name, comment in order:
        if name is None:
            out.append("")
            out.append("-- " + comment)
            continue
        ty, val = lean_value(F[name])
        if comment:
            out.append("/-- %s -/" % comment)
        out.append("def %s : %s := %s" % (name, ty, val))
    out.append("")
    out.append("end Hfsm.Generated.Rng")
    return "\n".join(out) + "\n"


def main(argv):
    src_path = argv[1] if len(argv) > 1 else DEFAULT_SRC
    out_path = argv[2] if len(argv) > 2 else DEFAULT_OUT
    try:
        with open(src_path, "r", encoding="utf-8", errors="replace") as f:
            text = f.read()
    except OSError as e:
        sys.stderr.write("extract_facts_rng: cannot read %s: %s\n" % (src_path, e))
        return 2
    try:
        F, order = extract(text)
    except ShapeError as e:
        sys.stderr.write("extract_facts_rng: FAILED on %s\n  %s\n" % (src_path, e))
        return 2
    lean = render(F, order, src_path)
    if out_path == "-":
        sys.stdout.write(lean)
    else:
        with open(out_path, "w", encoding="utf-8") as f:
            f.write(lean)
        sys.stderr.write("extract_facts_rng: wrote %d facts to %s\n" % (len(F), out_path))
    return 0


if __name__ == "__main__":
    sys.exit(main(sys.argv))
