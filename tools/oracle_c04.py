#!/usr/bin/env python3
"""C04 oracle — guards precede any change; a vetoed round changes nothing; rounds are bounded.

Judged on the implementation's own transcript only (cb / snap lines of harness/mach_*.hpp):

  rounds     the guard callbacks of one operation are cut into rounds: a new round starts when the
             `pendingTransitions` shown change, or when an exit guard follows an entry guard.  The
             number of rounds is at most SUBSTITUTION_LIMIT (`limit=` of the config line); during the
             first activation the guard pass of the initial configuration (pending = []) comes on top.
  order      inside a round every exit guard precedes every entry guard (an exit guard after an entry
             guard with the same pending list and the same currentTransitions is accepted as a new
             round only if the round before was not approved).
  curr       every guard callback of a round shows as currentTransitions the pending lists of the
             rounds approved before it; a round is approved iff the next round (or, for the last
             round, the commit pass / previousTransitions) shows its pending list appended.
  cancel     a round in which a guard called cancelPendingTransitions() (`X` action) is never approved.
  late-guard no enter / exit / reenter callback runs before the last guard callback of the operation,
             and the lifecycle callbacks show the approved transitions as currentTransitions.
  veto       when no round of the operation was approved: no lifecycle callback at all, and the snapshot
             after the operation has the same active set and sub-state indices as before it; resumable
             marks differ at most inside regions addressed by a `schedule` request.
  unguarded  a state that gets exit / enter / reenter had its exit / entry guard invoked earlier in the
             same operation.
"""
import oracles as O

LIFE = ('enter', 'exit', 'reenter')
GUARDS = ('entryGuard', 'exitGuard')
STEP_OPS = ('update', 'react', 'imm')          # operations that run processRequest()
FIRST_OPS = ('new', 'enter')                   # first activation (entry guards only)


def clean(sn):
    """a snap line that was not torn by an `assert` line written in the middle of it"""
    return sn is not None and all(k in sn for k in ('A', 'R', 'S', 'Q')) and not any('assert' in v for v in sn.values())


def acts_of(e):
    return [] if len(e) < 8 or e[7] == '.' else e[7].split(';')


def fork_of(tree, sid):
    """nearest composite ancestor of a state (isResumable / isActive answer from that fork only)"""
    p = tree[sid].parent
    while p is not None and tree[p].kind != 'C':
        p = tree[p].parent
    return p


def related(tree, s, d):
    def up(x, y):
        while x is not None:
            if x == y:
                return True
            x = tree[x].parent
        return False
    return d < len(tree) and (up(s, d) or up(d, s))


def segment(guards):
    """guards: list of (index, sid, method, pend, curr, cancelled, slot) -> list of rounds (lists).
    A new round starts when the lists shown change, when an exit guard follows an entry guard, or when a
    guard handler that already ran in this round runs again (a walk visits every handler at most once)."""
    rounds = []
    seen = set()
    for g in guards:
        key = (g[1], g[2], g[6])
        if not rounds:
            new = True
        else:
            last = rounds[-1]
            new = (g[3] != last[-1][3] or g[4] != last[-1][4] or key in seen
                   or (g[2] == 'exitGuard' and any(x[2] == 'entryGuard' for x in last)))
        if new:
            rounds.append([g])
            seen = {key}
        else:
            rounds[-1].append(g)
            seen.add(key)
    return rounds


def judge(hdr, ops, tree, config, rejections, stats):
    cfg = hdr.get('config', {})
    limit = int(cfg.get('limit', 4))
    history = int(cfg.get('history', 1))
    manual = int(cfg.get('manual', 0))
    rej = rejections.setdefault('C04', [])
    last_snap = {}
    # a region head without handler takes part in the walks silently: rounds made of such states only
    # leave no guard line, so the chain of currentTransitions is judged only on fully headed machines
    all_headed = all(n.headed for n in tree)

    def reject(tag, what, idx):
        rej.append(dict(tag=tag, what=what, replay=O.replay_text(hdr, ops, idx)))

    for idx, op in enumerate(ops):
        first = op.name == 'enter' or (op.name == 'new' and not manual)
        stepping = op.name in STEP_OPS
        cbs = [(k, e) for k, e in enumerate(op.events) if e[0] == 'cb']
        guards = []
        for k, e in cbs:
            if e[2] in GUARDS:
                guards.append((k, int(e[1]), e[2], O.parse_list(e[5]), O.parse_list(e[6]), 'X' in acts_of(e), e[3]))
        life = [(k, int(e[1]), e[2], O.parse_list(e[6])) for k, e in cbs if e[2] in LIFE]
        before = last_snap.get(op.inst)
        if op.snap is not None:
            last_snap[op.inst] = op.snap if clean(op.snap) else None
        if op.name in ('destroy',):
            last_snap.pop(op.inst, None)
        if not (stepping or first):
            if guards:
                stats.inc('checks_C04')
                reject('stray-guard', 'guard callbacks during `%s`, an operation that consults no guards' % op.name, idx)
            continue
        if not guards:
            continue
        stats.inc('checks_C04')
        stats.inc('c04_ops_with_guards')
        rounds = segment(guards)
        # the guard pass of the initial configuration
        body = rounds
        if first and rounds and rounds[0][0][3] == []:
            body = rounds[1:]
        if len(body) > limit:
            reject('round-limit', '%d guard rounds in one `%s`, SUBSTITUTION_LIMIT is %d' % (len(body), op.name, limit), idx)
        stats.inc('c04_rounds', len(rounds))
        if len(body) == limit:
            stats.inc('c04_ops_at_limit')
        # final currentTransitions as the commit pass / history shows them
        final = None
        if life:
            final = life[0][3]
            for l in life:
                if l[3] != final:
                    reject('life-curr', 'lifecycle callbacks of one step show different currentTransitions', idx)
                    break
        elif history and clean(op.snap) and 'P' in op.snap and stepping:
            final = O.parse_list(op.snap['P'])
        approved = []
        for j, r in enumerate(rounds):
            pend, curr = r[0][3], r[0][4]
            nxt = rounds[j + 1][0][4] if j + 1 < len(rounds) else final
            if nxt is None:
                ok = None
            elif nxt == curr + pend and pend:
                ok = True
            elif nxt == curr:
                ok = False
            elif not pend and nxt == curr:
                ok = False
            elif not all_headed:
                ok = None
            else:
                ok = None
                reject('curr-chain', 'round %d shows currentTransitions %s and pending %s but what follows shows %s'
                       % (j, curr, pend, nxt), idx)
            approved.append(ok)
            cancelled = any(g[5] for g in r)
            if cancelled:
                stats.inc('c04_rounds_cancelled')
            if cancelled and ok:
                reject('cancel-ignored', 'round %d: a guard cancelled the pending transitions %s yet they were approved' % (j, pend), idx)
            if ok is False and not cancelled and pend and stepping:
                stats.inc('c04_veto_without_cancel')
                quirk = [t for t in pend if t[2] < len(tree) and t[1] != 'H' and fork_of(tree, t[2]) is None and (t[2] != 0 or tree[0].kind == 'O')]
                reject('veto-without-cancel', 'round %d: no guard cancelled, yet the pending transitions %s were not approved%s'
                       % (j, pend, ' (request %s addresses the orthogonal root or a state below orthogonal regions only: the forward exit-guard walk ends in a plain state, which answers false)' % (quirk[0],) if quirk else ''), idx)
            # order inside the round
            seen_entry = False
            for g in r:
                if g[2] == 'entryGuard':
                    seen_entry = True
                elif seen_entry:
                    reject('guard-order', 'round %d: exit guard of state %d after an entry guard' % (j, g[1]), idx)
                    break
            if (j > 0 and r[0][3] == rounds[j - 1][0][3] and r[0][4] == rounds[j - 1][0][4]
                    and not any(g[5] for g in rounds[j - 1])):
                # same pending list, same currentTransitions, and nobody cancelled in between: one round
                reject('guard-order', 'exit guard of state %d after an entry guard of the same round (pending %s)' % (r[0][1], r[0][3]), idx)
            if first and r[0][2] == 'exitGuard':
                reject('guard-order', 'exit guard during the first activation', idx)
        # lifecycle after all guards
        if life and life[0][0] < guards[-1][0]:
            reject('late-guard', 'a lifecycle callback (%s of state %d) ran before the last guard callback of the step'
                   % (life[0][2], life[0][1]), idx)
        if stepping:
            any_ok = any(a for a in approved)
            unknown = any(a is None for a in approved)
            if not any_ok and not unknown:
                stats.inc('c04_steps_all_vetoed')
                if life:
                    reject('veto-life', 'no round was approved, yet %s of state %d ran' % (life[0][2], life[0][1]), idx)
                if before is not None and clean(op.snap):
                    if before.get('A') != op.snap.get('A') or before.get('S') != op.snap.get('S'):
                        reject('veto-state', 'no round was approved, yet the active configuration changed: A %s -> %s, S %s -> %s'
                               % (before.get('A'), op.snap.get('A'), before.get('S'), op.snap.get('S')), idx)
                    # resumable marks: only regions addressed by schedule requests may differ
                    sched = set()
                    for t in O.parse_list(before.get('Q', '[]')):
                        if t[1] == 'H':
                            sched.add(t[2])
                    for k, e in cbs:
                        for a in acts_of(e):
                            if a.startswith('QH:'):
                                sched.add(int(a.split(':')[1]))
                    allowed = 0
                    for d in sched:
                        if 0 <= d < len(tree) and tree[d].parent is not None and tree[tree[d].parent].kind == 'C':
                            for n in tree:
                                if fork_of(tree, n.id) == tree[d].parent:
                                    allowed |= 1 << n.id
                    diff = int(before.get('R', '0'), 16) ^ int(op.snap.get('R', '0'), 16)
                    if diff & ~allowed:
                        reject('veto-resumable', 'no round was approved, yet resumable marks changed outside scheduled regions: R %s -> %s'
                               % (before.get('R'), op.snap.get('R')), idx)
                    elif diff and any(any(g[5] for g in r) and any(t[1] == 'H' for t in r[0][3]) for r in rounds):
                        # strict reading of "resumable stays as it was": a `schedule` request of a round that a guard
                        # CANCELLED still moved the resumable mark (registry.restore() does not cover compoResumable)
                        reject('veto-schedule', 'a guard cancelled the round, yet its schedule request(s) moved resumable marks: R %s -> %s'
                               % (before.get('R'), op.snap.get('R')), idx)
            # every lifecycle callback was preceded by its guard
            xg = set(g[1] for g in guards if g[2] == 'exitGuard')
            eg = set(g[1] for g in guards if g[2] == 'entryGuard')
            for l in life:
                stats.inc('c04_life_checked')
                if l[2] == 'exit' and l[1] not in xg:
                    reject('unguarded', 'state %d was exited without its exit guard having been invoked in this step' % l[1], idx)
                    break
                if l[2] in ('enter', 'reenter') and l[1] not in eg:
                    reject('unguarded', 'state %d got `%s` without its entry guard having been invoked in this step' % (l[1], l[2]), idx)
                    break
            # every activation is explained by an approved transition: the top-most state entered (or re-entered)
            # above a lifecycle callback lies on one root path with the destination of a transition the commit
            # pass shows as current
            if life and final is not None:
                touched = set(l[1] for l in life if l[2] in ('enter', 'reenter'))
                for l in life:
                    if l[2] not in ('enter', 'reenter'):
                        continue
                    f = l[1]
                    while True:
                        # nearest ancestor that has handlers (an anonymous region head delivers no callback)
                        q = tree[f].parent
                        while q is not None and not tree[q].headed:
                            q = tree[q].parent
                        if q is None or q not in touched:
                            break
                        f = q
                    stats.inc('c04_enters_explained')
                    if not any(related(tree, f, t[2]) for t in final):
                        reject('unexplained-enter', 'state %d got `%s` (entered sub-tree rooted at %d) but no approved transition %s addresses that sub-tree or a region above it'
                               % (l[1], l[2], f, final), idx)
                        break
