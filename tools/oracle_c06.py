#!/usr/bin/env python3
"""Oracle of property C06 ("plans run tasks in order and report success or failure to the region head"),
evaluated on transcripts of the real library only (cb / log / ret / snap lines) — never on the Lean model.

The oracle follows the events of every operation in order and keeps, purely from what the implementation
reported, (1) the plans: previous `snap PL`, `PA`/`PC` actions of callbacks, `planappend`/`planclear`
operations; (2) the success / failure marks: `S:`/`F:` actions, `succeed`/`fail` operations, wiped at the end
of the plan pass of `update`/`react`, by `exit` of a user state and by `clear()`.  A `log T <head> C <dest>`
record whose origin is a region head and which is not the echo of a `Q…` action of one of that head's own
callbacks is a request issued by the plan executor (`FullControlT::updatePlan`).

tags
  executor-mismatch   the destinations the executor issued for a region are not exactly those of the tasks the
                      property allows and demands: in plan order, up to the first task whose origin is not active,
                      origin marked succeeded, no earlier cyclic task with the same origin (hence never twice)
  task-kind           a task created with another kind than `change` was issued as `change`        (finding F12)
  task-dropped        a task was released into a full request queue: it left the plan, its request is lost (finding N3)
  plan-after          the plans in the `snap` after the operation are not the previous ones minus the executed tasks
                      plus the appended ones in order (task executed but still there, task vanished, order changed …).
                      Without a logger (log=0) there are no executor records: the oracle then follows the plan pass in its
                      fixed order (`plan_order`: the regions below a region before the region itself), lets every region
                      whose head got no plan callback either not walk or release exactly the runnable tasks for the marks
                      of that moment, applies what the (visible) plan callbacks did at their place in that order — marks
                      set, clear() wiping the marks of their region, appends into a pool a walk below has just made room
                      in — and demands that one of these outcomes, followed by the later edits, is the snapshot
  verdict-twice / verdict-both / verdict-nonempty / verdict-callback / verdict-without-log / verdict-mark
                      `log P <head> S|F` (plan status) records: at most one per region and step, never together with
                      executed tasks, SUCCESS only with no task left, followed by exactly the matching
                      `planSucceeded` / `planFailed` callback of a headed region (and no such callback without the
                      record), and only when some state reported success (resp. failure) since the last wipe
  no-plan             executor record or plan status for a region that never had a plan attached (`planExists`)
  outside-step        executor record or plan status outside `update` / `react`
  progress            a leaf sub-state of a plan-owning region reported its own success in a pass in which the head
                      runs before it, nothing else happened in the step and no mark was pending — and neither were
                      exactly the runnable tasks executed nor, plan empty, the plan reported succeeded
  progress-post       the same for a success reported in a pass in which the head runs *after* its sub-states
                      (`postUpdate`; `postReact` top-down; `preReact`/`react` bottom-up) of a headed region (finding Q1)

`planExists` is not in the transcript: the oracle uses a `PX=<hex mask over region ids>` field of the `snap` line
when present, otherwise its own record of successful appends since the plan data was last wiped (exact unless a
callback edited the plan from an `exit` handler, whose control points to a region the transcript does not name).
For `progress` what counts is planExists when the plan pass ran, i.e. the PX of the snapshot BEFORE the step: a plan
attached later in the same operation (enter / reenter / guard callbacks of the transition) does not make the region
plan-owning for that pass.

Where the oracle loses track of the marks (`load` wipes the plan data and re-enters states; clear() from an `exit`
handler) it starts again from the `TS=` / `TF=` masks of the last snapshot instead of guessing which of several tasks
with the same destination an executor record stands for (the guess — the leftmost — remains for transcripts without
these fields).
"""
from __future__ import annotations
import oracles as O

import re
_BOUNDS = re.compile(r'CAPACITY|forkId|index\s*<')

STEP_OPS = ('update', 'react')
TICK = ('preUpdate', 'update', 'postUpdate', 'preReact', 'react', 'postReact')
PLAN_CB = {'S': 'planSucceeded', 'F': 'planFailed'}


def parse_pl(s, nregions):
    parts = s.split('|') if s else []
    out = []
    for r in range(nregions):
        item = parts[r] if r < len(parts) else ''
        tasks = []
        for t in (item.split(';') if item else []):
            o, k, d, p = t.split('>')
            tasks.append((int(o), k, int(d), None if p == '-' else int(p)))
        out.append(tasks)
    return out


def parse_actions(tok):
    """'.' | a;b;c -> list of tuples"""
    if tok in ('.', ''):
        return []
    out = []
    for a in tok.split(';'):
        f = a.split(':')
        if len(f[0]) == 2 and f[0][0] == 'Q':
            out.append(('Q', f[0][1], int(f[1]), None if f[2] == '-' else int(f[2])))
        elif f[0] in ('S', 'F'):
            out.append((f[0], int(f[1])))
        elif f[0] == 'PA':
            out.append(('PA', int(f[1]), int(f[2]), f[3], None if f[4] == '-' else int(f[4])))
        else:
            out.append((f[0],))
    return out


def fmt(tasks):
    return '[' + ';'.join('%d>%s>%d>%s' % (o, k, d, '-' if p is None else p) for (o, k, d, p) in tasks) + ']'


def runnable(plan, active, succ):
    """Positions of the tasks of `plan` the property lets — and makes — the executor run, for the mask of active
    states and the set of states marked succeeded when the walk starts."""
    out, spent = [], set()       # spent: origins whose mark an executed cyclic task has consumed
    for i, (o, k, d, p) in enumerate(plan):
        if not (active >> o) & 1:
            break
        if o in succ and o not in spent:
            out.append(i)
            if o == d:
                spent.add(o)
    return out


def in_order(plan, dests):
    """positions of tasks with the given destinations, in order; None if there are none"""
    out, j = [], 0
    for d in dests:
        while j < len(plan) and plan[j][2] != d:
            j += 1
        if j == len(plan):
            return None
        out.append(j)
        j += 1
    return out


def plan_order(tree, active):
    """Heads of the active regions in the order the plan pass (`deepUpdatePlans`) reaches their plans: the regions
    below first (composite: the active sub-state; orthogonal: every sub-state, in order), then the region itself."""
    out = []

    def go(i):
        for c in tree[i].subs:
            if (active >> c) & 1 and tree[c].subs:
                go(c)
        out.append(i)
    go(0)
    return out


class Inst:
    def __init__(self, nregions):
        self.nregions = nregions
        self.snap = None
        self.tainted = False
        self.wipe()

    def wipe(self, exact=True):
        """`PlanDataT::clear()`"""
        self.succ, self.fail = set(), set()
        self.succ_seen = self.fail_seen = False
        self.marks_exact = exact
        self.attached = [False] * self.nregions
        self.attached_exact = exact

    def clear_statuses(self):
        """`PlanDataT::clearStatuses()` at the end of the plan pass"""
        self.succ, self.fail = set(), set()
        self.succ_seen = self.fail_seen = False
        self.marks_exact = True


def judge(hdr, ops, tree, config, rejections, stats):
    cfg = hdr.get('config', {})
    if int(cfg.get('plans', '0')) == 0:
        return
    logging = int(cfg.get('log', '0')) > 0
    bottomup = int(cfg.get('bottomup', '0')) != 0
    taskcap = int(cfg.get('taskcap', '0'))
    queuecap = int(cfg.get('queuecap', '0'))
    nstates = len(tree)
    is_head = {n.id: n for n in tree if n.subs}
    nregions = len(is_head)
    head_of_rid = {n.rid: n for n in is_head.values()}

    def head_last(method):
        """passes in which a region's head runs after its sub-states"""
        return method == 'postUpdate' or (method == 'postReact' and not bottomup) or \
            (method in ('preReact', 'react') and bottomup)

    def region_of_cb(sid, method):
        """region `control.plan()` addresses inside a callback; None where the transcript cannot tell (`deepExit`
        opens no region scope)"""
        if method == 'exit':
            return None
        n = tree[sid]
        return n.rid if n.subs else tree[n.parent].rid

    def rej(tag, what, idx):
        rejections.setdefault('C06', []).append(dict(tag=tag, what=what, replay=O.replay_text(hdr, ops, idx)))

    insts = {}
    for idx, op in enumerate(ops):
        st = insts.setdefault(op.inst, Inst(nregions))
        name, prev, events = op.name, st.snap, op.events
        step = name in STEP_OPS

        if name in ('new', 'exit', 'destroy'):
            st.wipe()
            st.tainted = False
        elif name == 'load':
            st.wipe(exact=False)
        # an out-of-bounds access reported by the library's own assertions (judged under C11) may have damaged the plan
        # data: nothing about that instance is judged until it is constructed anew
        if any(_BOUNDS.search(O.assertion_text(a)) for a in op.asserts):
            st.tainted = True
        if st.tainted:
            stats.inc('c06_ops_skipped_after_bounds_assert')
            if op.snap is not None:
                st.snap = op.snap
            continue

        plans_known = prev is not None and 'PL' in prev
        plans = parse_pl(prev.get('PL') if plans_known else '', nregions)
        active = int(prev['A'], 16) if prev and 'A' in prev else 0
        nreq = len(O.parse_list(prev.get('Q', '[]'))) if prev else 0       # requests offered to the queue so far
        px_prev = int(prev['PX'], 16) if prev and 'PX' in prev else None   # planExists before the operation
        # marks the oracle lost track of (`load`; clear() from an `exit` handler, whose region the transcript does not
        # name): the implementation reports them in the snapshot (TS= / TF=, masks over state ids) — start again from those
        if not st.marks_exact and name != 'load' and prev is not None and 'TS' in prev and 'TF' in prev:
            ts, tf = int(prev['TS'], 16), int(prev['TF'], 16)
            st.succ = {i for i in range(nstates) if (ts >> i) & 1}
            st.fail = {i for i in range(nstates) if (tf >> i) & 1}
            st.succ_seen = st.succ_seen or bool(st.succ)
            st.fail_seen = st.fail_seen or bool(st.fail)
            st.marks_exact = True
            stats.inc('c06_marks_resynced')
        carried = bool(st.succ or st.fail or not st.marks_exact)

        # ---- operations on the plan data through the instance
        if name in ('succeed', 'fail'):
            sid = int(op.args[0])
            if 0 < sid < nstates:
                if name == 'succeed':
                    st.succ.add(sid); st.succ_seen = True
                else:
                    st.fail.add(sid); st.fail_seen = True
        elif name == 'planappend':
            if op.ret == '1':
                rid = int(op.args[0])
                plans[rid].append((int(op.args[1]), op.args[3], int(op.args[2]), None if op.args[4] == '-' else int(op.args[4])))
                st.attached[rid] = True
        elif name == 'planclear':
            h = head_of_rid[int(op.args[0])]
            plans[h.rid] = []
            st.succ -= set(range(h.id, h.id + h.size))
            st.fail -= set(range(h.id, h.id + h.size))

        executor, exec_order, handled = {}, [], set()     # head -> [dest]; order of first appearance
        verdicts = {}                                     # head -> ['S'|'F']
        awaiting = {}                                     # headed head -> plan callback still to come
        tick_actions = []                                 # (sid, method, actions) of acting update/react callbacks
        ambiguous = False
        plan_phase_closed = not step
        at_close = None                                   # log=0: (plans, marks, exact) when the plan pass began
        plan_cbs = []                                     # log=0: (head, actions) of the plan callbacks, in order
        later = []                                        # log=0: plan edits after it: (region, task | None = clear)
        marks_at_pass = None                              # log=0: the marks when the plan pass began
        attached_at_pass = None                           # (attached, exact) when the plan pass ended

        def close_plan_phase():
            nonlocal plan_phase_closed, at_close, attached_at_pass, marks_at_pass
            if not plan_phase_closed:
                if marks_at_pass is None:
                    marks_at_pass = set(st.succ)
                at_close = ([list(p) for p in plans], marks_at_pass, st.marks_exact)
                attached_at_pass = (list(st.attached), st.attached_exact)
                st.clear_statuses()
                plan_phase_closed = True

        def judge_executor(h):
            dests = executor[h]
            n = is_head[h]
            stats.inc('checks_C06')
            stats.inc('c06_executor_runs')
            if not step:
                rej('outside-step', 'plan executor of region head %d issued changes to %s during `%s`' % (h, dests, name), idx)
                return
            plan = plans[n.rid]
            want = runnable(plan, active, st.succ) if (st.marks_exact and plans_known) else None
            if want is not None and [plan[i][2] for i in want] != dests:
                rej('executor-mismatch',
                    'region head %d, plan %s, active=%x, succeeded=%s: the executor issued changes to %s; the tasks that '
                    'may and must run are %s' % (h, fmt(plan), active, sorted(st.succ), dests, fmt([plan[i] for i in want])), idx)
                want = None
            if want is None:
                want = in_order(plan, dests)
                if want is None:
                    rej('executor-mismatch', 'region head %d, plan %s: the executor issued changes to %s, which are not the '
                        'destinations of tasks of that plan in plan order' % (h, fmt(plan), dests), idx)
                    want = []
                for i in want:
                    if not (active >> plan[i][0]) & 1:
                        rej('executor-mismatch', 'region head %d executed task %s whose origin is not active (active=%x)'
                            % (h, fmt([plan[i]]), active), idx)
            for i in want:
                stats.inc('c06_tasks_executed')
                if plan[i][1] != 'C':
                    rej('task-kind', 'plan task %s of region head %d was created with kind %s but issued as CHANGE'
                        % (fmt([plan[i]]), h, plan[i][1]), idx)
                st.succ.discard(plan[i][0])
            gone = set(want)
            plans[n.rid] = [t for i, t in enumerate(plan) if i not in gone]

        def flush():
            for h in exec_order:
                if h not in handled:
                    handled.add(h)
                    judge_executor(h)

        def offer(origin, dest, own):
            """one request offered to the queue (every `log T` record is one)"""
            nonlocal nreq
            if not own and origin != '-' and int(origin) in is_head:
                h = int(origin)
                if nreq >= queuecap:
                    stats.inc('checks_C06')
                    rej('task-dropped', 'the plan executor of region head %d released the task to %d into a full request '
                        'queue (capacity %d): the task left the plan, its request is lost' % (h, dest, queuecap), idx)
                executor.setdefault(h, []).append(dest)
                if h not in exec_order:
                    exec_order.append(h)
            nreq += 1

        pend = []      # `log T` records since the last cb line
        for e in events:
            if e[0] == 'log' and e[1] == 'T':
                pend.append((e[2], e[3], int(e[4])))
            elif e[0] == 'log' and e[1] == 'P':
                h, v = int(e[2]), e[3]
                for (o, k, d) in pend:          # a plan-status record is not a callback: nothing pending is its echo
                    offer(o, d, False)
                pend = []
                flush()
                stats.inc('checks_C06')
                stats.inc('c06_verdicts')
                n = is_head.get(h)
                if n is None:
                    rej('verdict-both', 'plan status logged for state %d, which heads no region' % h, idx)
                    continue
                if not step:
                    rej('outside-step', 'plan status %s of region head %d during `%s`' % (v, h, name), idx)
                if h in verdicts:
                    rej('verdict-twice', 'region head %d got a second plan verdict in one step' % h, idx)
                if h in executor:
                    rej('verdict-both', 'region head %d both executed tasks and got a plan verdict in one step' % h, idx)
                verdicts.setdefault(h, []).append(v)
                if v == 'S' and plans_known and plans[n.rid]:
                    rej('verdict-nonempty', 'region head %d: plan reported succeeded while tasks %s are left' % (h, fmt(plans[n.rid])), idx)
                if not (st.succ_seen if v == 'S' else st.fail_seen) and st.marks_exact:
                    rej('verdict-mark', 'region head %d: plan reported %s although no state reported %s since the marks were '
                        'last cleared' % (h, 'succeeded' if v == 'S' else 'failed', 'success' if v == 'S' else 'failure'), idx)
                if n.headed:
                    awaiting[h] = PLAN_CB[v]
            elif e[0] == 'cb':
                sid, method = int(e[1]), e[2]
                acts = parse_actions(e[7]) if len(e) > 7 else []
                # the tail of the pending records that echoes this callback's own requests
                own, k = set(), len(pend) - 1
                for a in reversed([a for a in acts if a[0] == 'Q']):
                    while k >= 0 and pend[k] != (str(sid), a[1], a[2]):
                        k -= 1
                    if k >= 0:
                        own.add(k)
                        k -= 1
                for j, (o, kk, d) in enumerate(pend):
                    offer(o, d, j in own)
                pend = []
                flush()
                if awaiting and method not in ('planSucceeded', 'planFailed'):
                    for h, want in awaiting.items():
                        rej('verdict-callback', 'plan status of headed region %d was logged but %s ran instead of its %s' %
                            (h, method, want), idx)
                    awaiting = {}
                if method in ('planSucceeded', 'planFailed'):
                    stats.inc('checks_C06')
                    if awaiting.pop(sid, None) != method and logging:
                        rej('verdict-without-log', 'callback %s of head %d without the matching plan-status record' % (method, sid), idx)
                elif method not in TICK:
                    close_plan_phase()
                rid = region_of_cb(sid, method)
                # without a logger the walks of the plan pass are invisible: what a plan callback does comes after the
                # walks of the regions below its region and before those of the regions around it — kept aside, in order
                unseen = not logging and step and not plan_phase_closed and method in ('planSucceeded', 'planFailed')
                if unseen:
                    if marks_at_pass is None:
                        marks_at_pass = set(st.succ)
                    plan_cbs.append((sid, acts))
                for a in acts:
                    if a[0] == 'S' and 0 < a[1] < nstates:
                        st.succ.add(a[1]); st.succ_seen = True
                    elif a[0] == 'F' and 0 < a[1] < nstates:
                        st.fail.add(a[1]); st.fail_seen = True
                    elif a[0] == 'PA':
                        if rid is None:
                            ambiguous = True
                            st.attached_exact = False
                        elif unseen:
                            if sum(len(p) for p in plans) + sum(1 for _, aa in plan_cbs for x in aa if x[0] == 'PA') <= taskcap:
                                st.attached[rid] = True         # room even if no walk has released a task
                            else:
                                st.attached_exact = False       # pool occupancy unknown without executor records
                        else:
                            if plan_phase_closed:
                                later.append((rid, (a[1], a[3], a[2], a[4])))
                            if sum(len(p) for p in plans) < taskcap:
                                plans[rid].append((a[1], a[3], a[2], a[4]))
                                st.attached[rid] = True
                            elif not logging and step:
                                st.attached_exact = False       # pool occupancy unknown without executor records
                    elif a[0] == 'PC':
                        if rid is None:
                            ambiguous = True
                            st.marks_exact = False
                        else:
                            h = head_of_rid[rid]
                            if not unseen:
                                plans[rid] = []
                            st.succ -= set(range(h.id, h.id + h.size))
                            st.fail -= set(range(h.id, h.id + h.size))
                            if plan_phase_closed:
                                later.append((rid, None))
                if method == 'exit' and tree[sid].headed:
                    st.succ.discard(sid)
                    st.fail.discard(sid)
                if method in TICK and acts:
                    tick_actions.append((sid, method, acts))

        for (o, k, d) in pend:
            offer(o, d, False)
        flush()
        for h, want in awaiting.items():
            rej('verdict-callback', 'plan status of headed region %d was logged but its %s callback did not run' % (h, want), idx)
        close_plan_phase()

        # ---- planExists
        px = int(op.snap['PX'], 16) if op.snap is not None and 'PX' in op.snap else None
        for h in set(executor) | set(verdicts):
            n = is_head.get(h)
            if n is None:
                continue
            stats.inc('checks_C06')
            ok = bool((px >> n.rid) & 1) if px is not None else (st.attached[n.rid] or not st.attached_exact)
            if not ok:
                rej('no-plan', 'region head %d (region %d) ran its plan / got a plan verdict although no plan was ever '
                    'attached to it' % (h, n.rid), idx)

        # ---- plans after the operation
        if op.snap is not None and 'PL' in op.snap and plans_known and not ambiguous and \
                name not in ('new', 'enter', 'exit', 'destroy', 'load', 'save', 'replay'):
            stats.inc('checks_C06')
            after = parse_pl(op.snap['PL'], nregions)
            if not logging and step and at_close is not None:
                # no logger, hence no executor records.  The plan pass visits the active regions in a fixed order (the
                # regions below a region first); a region whose head got a plan callback (visible) did not walk, any other
                # one either did not walk or released exactly the runnable tasks for the marks of that moment — marks that
                # earlier walks consumed and plan callbacks set or, through clear(), wiped.  Every combination is followed.
                base, marks0, exact = at_close
                if exact:
                    stats.inc('c06_nolog_plan_checks')
                    states = {(tuple(tuple(p) for p in base), frozenset(marks0))}
                    k, overflow = 0, False
                    for h in plan_order(tree, active):
                        r = is_head[h].rid
                        nxt = set()
                        if k < len(plan_cbs) and plan_cbs[k][0] == h:
                            for pl, mk in states:
                                pl, mk = [list(p) for p in pl], set(mk)
                                for a in plan_cbs[k][1]:
                                    if a[0] == 'S' and 0 < a[1] < nstates:
                                        mk.add(a[1])
                                    elif a[0] == 'PA' and sum(len(p) for p in pl) < taskcap:
                                        pl[r].append((a[1], a[3], a[2], a[4]))
                                    elif a[0] == 'PC':
                                        pl[r] = []
                                        mk -= set(range(h, h + is_head[h].size))
                                nxt.add((tuple(tuple(p) for p in pl), frozenset(mk)))
                            k += 1
                        else:
                            for pl, mk in states:
                                nxt.add((pl, mk))
                                run = runnable(list(pl[r]), active, mk)
                                if run:
                                    left = tuple(t for i, t in enumerate(pl[r]) if i not in set(run))
                                    nxt.add((pl[:r] + (left,) + pl[r + 1:], mk - {pl[r][i][0] for i in run}))
                        states = nxt
                        if len(states) > 4096:
                            overflow = True
                            break
                    if overflow or k != len(plan_cbs):
                        # too many combinations, or plan callbacks in an order the oracle cannot place: not judged
                        stats.inc('c06_nolog_plan_checks_skipped')
                    else:
                        finals = []
                        for pl, _ in states:
                            p = [list(x) for x in pl]
                            for (r, t) in later:
                                if t is None:
                                    p[r] = []
                                elif sum(len(q) for q in p) < taskcap:
                                    p[r].append(t)
                            if p not in finals:
                                finals.append(p)
                        if after not in finals:
                            rej('plan-after', 'after `%s` (no logger): plans are %s; from %s with active=%x, succeeded=%s, the plan '
                                'callbacks %s and the later edits %s they can only become one of %s' %
                                (name, [fmt(p) for p in after], [fmt(p) for p in base], active, sorted(marks0),
                                 plan_cbs, later, [[fmt(p) for p in f] for f in finals][:4]), idx)
            elif after != plans:
                bad = [r for r in range(nregions) if after[r] != plans[r]]
                rej('plan-after', 'after `%s`: plan of region(s) %s is %s; the previous plans minus the executed tasks plus the '
                    'appended ones (emptied where clear() was called) give %s' %
                    (name, bad, [fmt(after[r]) for r in bad], [fmt(plans[r]) for r in bad]), idx)

        # ---- progress in clean steps: exactly one state acted in the passes — a leaf, and all it did was succeed(self)
        if step and logging and plans_known and not carried and tick_actions:
            sids = {s for s, _, _ in tick_actions}
            a = next(iter(sids))
            node = tree[a]
            methods = {m for _, m, _ in tick_actions}
            late = {head_last(m) for m in methods}
            if len(sids) == 1 and not node.subs and node.parent is not None and len(late) == 1 and \
                    all(x == ('S', a) for _, _, acts in tick_actions for x in acts):
                region = tree[node.parent]
                before = parse_pl(prev.get('PL'), nregions)[region.rid]
                # planExists when the plan pass ran (no callback of the passes appended anything in such a step): an append
                # made later in the operation — enter / reenter / guard callbacks of the transition — does not count
                if px_prev is not None:
                    has_plan = bool((px_prev >> region.rid) & 1)
                else:
                    att, att_exact = attached_at_pass if attached_at_pass is not None else (st.attached, st.attached_exact)
                    has_plan = att_exact and att[region.rid]
                if has_plan:
                    post = late == {True}
                    stats.inc('checks_C06')
                    stats.inc('c06_progress_post' if post else 'c06_progress')
                    want = [before[i][2] for i in runnable(before, active, {a})]
                    got, verdict = executor.get(region.id, []), verdicts.get(region.id, [])
                    ok = (got == want and not verdict) if before else (verdict == ['S'] and not got)
                    if not ok and post and region.headed:
                        rej('progress-post', 'leaf %d, sub-state of the headed plan-owning region %d, reported success in a pass '
                            'where the head runs after it, and nothing else happened: plan %s was not advanced (executed %s, '
                            'verdict %s)' % (a, region.id, fmt(before), got, verdict), idx)
                    elif not ok:
                        rej('progress', 'leaf %d, sub-state of the plan-owning region %d, reported success and nothing else '
                            'happened: plan %s, expected %s, executed %s, verdict %s' %
                            (a, region.id, fmt(before), ('changes to %s' % want) if before else 'planSucceeded', got, verdict), idx)

        if op.snap is not None:
            st.snap = op.snap


if __name__ == '__main__':
    import sys, json
    sys.path.insert(0, '/verif/gen')
    import shapes as S
    path, sexpr = sys.argv[1], sys.argv[2]
    tree = O.build_tree(S.parse(sexpr))
    rejections, stats = {}, O.Stats()
    for hdr, ops in O.scenarios(path):
        judge(hdr, ops, tree, hdr.get('config', {}), rejections, stats)
    by = {}
    for r in rejections.get('C06', []):
        by.setdefault(r['tag'], []).append(r)
    print(json.dumps(stats.as_dict()))
    for t, rs in by.items():
        print('%-20s %d' % (t, len(rs)))
    show = int(sys.argv[3]) if len(sys.argv) > 3 else 1
    for t, rs in by.items():
        for r in rs[:show]:
            print('-----', t)
            print(r['what'])
            if len(sys.argv) > 4:
                print(r['replay'][-int(sys.argv[4]):])
