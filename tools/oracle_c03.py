#!/usr/bin/env python3
"""C03 oracle: lifecycle callbacks are balanced, nested and delivered only to entered states.

Judged over a whole scenario, per instance, from the `cb` lines the implementation produced (never from
the model).  An *object* is (state id, handler slot): the own handler of a state or one of its injected
bases.  Replaying the callbacks of an instance in order:

  enter        the object must be closed; every headed ancestor of the state must be completely
               entered (all its objects open) - "entered after its parent"; no object of another
               sub-state of the same composite region may be open (a switch exits before it enters);
               the object becomes open;
  exit         the object must be open; no object of any descendant state may be open - "exited before
               its parent"; the object becomes closed;
  reenter, preUpdate, update, postUpdate, preReact, react, postReact, query, exitGuard
               the object must be open;
  select, rank, utility, entryGuard   no requirement (they are delivered to states that are not
               entered; guards-before-change is C04); planSucceeded / planFailed: not judged (C06).

At the end of every operation with a `snap` line the open objects must be exactly the objects of the
states the instance reports active (`A=` mask): entered = active.  After `exit` and after `destroy` of an
automatically activated instance no object may be open.  `THIS-MISMATCH` (object identity) is counted
here and rejected by tools/oracles.py (tag `identity`), not twice.
"""
from __future__ import annotations
import oracles as O

NEEDS_OPEN = {'reenter', 'preUpdate', 'update', 'postUpdate', 'preReact', 'react', 'postReact', 'query', 'exitGuard'}
FREE = {'select', 'rank', 'utility', 'entryGuard', 'planSucceeded', 'planFailed'}


def ancestors(tree, sid):
    p = tree[sid].parent
    while p is not None:
        yield p
        p = tree[p].parent


def judge(hdr, ops, tree, config, rejections, stats):
    manual = bool(int((hdr.get('config') or {}).get('manual', config.get('manual', 0))))
    opened = {}          # inst -> set of (sid, slot)
    reported = set()     # one rejection per (inst, kind) and scenario is enough to replay

    def reject(idx, tag, what, key=None):
        k = (tag, key)
        if k in reported:
            return
        reported.add(k)
        rejections.setdefault('C03', []).append(dict(tag=tag, what=what, replay=O.replay_text(hdr, ops, idx)))

    def objects(sid):
        n = tree[sid]
        return [(sid, sl) for sl in range(n.inj + 1)] if n.headed else []

    for idx, op in enumerate(ops):
        inst = op.inst
        if op.name == 'new':
            opened[inst] = set()
        cur = opened.setdefault(inst, set())
        for e in op.events:
            if e[0] != 'cb':
                continue
            sid, method, slot = int(e[1]), e[2], int(e[3])
            if len(e) > 8:
                stats.inc('c03_this_mismatch')
            if sid >= len(tree) or slot > tree[sid].inj or not tree[sid].headed:
                reject(idx, 'no-such-object', 'callback %s on state %d slot %d: the shape has no such handler' % (method, sid, slot))
                continue
            obj = (sid, slot)
            stats.inc('checks_C03')
            if method == 'enter':
                if obj in cur:
                    reject(idx, 'double-enter', 'enter of state %d (slot %d) of instance %d while it is entered (no exit in between)' % (sid, slot, inst), sid)
                for a in ancestors(tree, sid):
                    missing = [o for o in objects(a) if o not in cur]
                    if missing:
                        reject(idx, 'enter-before-parent', 'enter of state %d (slot %d) while its ancestor %d is not entered (objects %s closed)' % (
                            sid, slot, a, missing), sid)
                        break
                p = tree[sid].parent
                if p is not None and tree[p].kind == 'C':
                    sib = [o for o in cur if p < o[0] < p + tree[p].size and not (sid <= o[0] < sid + tree[sid].size)]
                    if sib:
                        reject(idx, 'two-substates', 'enter of state %d (slot %d) while objects %s of another sub-state of the composite region %d are still entered' % (
                            sid, slot, sorted(sib), p), sid)
                cur.add(obj)
            elif method == 'exit':
                if obj not in cur:
                    reject(idx, 'exit-not-entered', 'exit of state %d (slot %d) of instance %d which is not entered' % (sid, slot, inst), sid)
                below = [o for o in cur if sid < o[0] < sid + tree[sid].size]
                if below:
                    reject(idx, 'exit-before-children', 'exit of state %d (slot %d) while objects %s below it are still entered' % (
                        sid, slot, sorted(below)), sid)
                cur.discard(obj)
            elif method in NEEDS_OPEN:
                if obj not in cur:
                    reject(idx, 'not-entered', '%s delivered to state %d (slot %d) of instance %d which is not entered' % (method, sid, slot, inst), (method, sid))
            elif method not in FREE:
                reject(idx, 'unknown-method', 'unknown callback %s' % method)
        # quiescent point: entered = active
        if op.snap is not None and 'A' in op.snap:
            stats.inc('checks_C03')
            amask = int(op.snap['A'], 16)
            for n in tree:
                objs = objects(n.id)
                if not objs:
                    continue
                act = bool(amask >> n.id & 1)
                n_open = sum(1 for o in objs if o in cur)
                if act and n_open != len(objs):
                    reject(idx, 'active-not-entered', 'after `%s`: state %d is reported active but %d of its %d objects are not entered' % (
                        op.name, n.id, len(objs) - n_open, len(objs)), n.id)
                elif not act and n_open:
                    reject(idx, 'entered-not-active', 'after `%s`: state %d is not active but %d of its objects are still entered (exit skipped)' % (
                        op.name, n.id, n_open), n.id)
        if op.name == 'exit' or (op.name == 'destroy' and not manual):
            stats.inc('checks_C03')
            if cur:
                reject(idx, 'open-after-exit', 'after `%s` of instance %d the objects %s are still entered' % (op.name, inst, sorted(cur)))
        if op.name == 'destroy':
            if cur and manual:
                stats.inc('c03_manual_destroyed_while_entered')
            opened.pop(inst, None)


def judge_file(path, shape, config, rejections, stats):
    tree = O.build_tree(shape)
    for hdr, ops in O.scenarios(path):
        judge(hdr, ops, tree, config, rejections, stats)


if __name__ == '__main__':
    import sys, json
    sys.path.insert(0, '/verif/gen')
    import shapes as S
    path = sys.argv[1]
    shape = None
    for line in open(path):
        if line.startswith('shape '):
            shape = S.parse(line[6:].strip())
            break
    rej, st = {}, O.Stats()
    judge_file(path, shape, {}, rej, st)
    print(json.dumps(st.as_dict()))
    seen = {}
    for r in rej.get('C03', []):
        seen[r['tag']] = seen.get(r['tag'], 0) + 1
        if seen[r['tag']] <= 2:
            print(r['tag'], '::', r['what'])
    print('rejections', len(rej.get('C03', [])), seen)
