#!/usr/bin/env python3
"""Oracle of property C08 — "save then load into any instance reproduces active and resumable state".

Judges transcripts of the real library (harness/mach_main.hpp); looks only at what the implementation
reported (`ret` of save, `snap` lines, `cb`/`log` lines of the load block), never at the Lean model.

For every `op s save` immediately followed by `op d load <image>` of the other instance:

  save-untouched   the snap after `save` equals the snap of the same instance before it (A R S Q P fields)
                   and `save` ran no callback and logged nothing
  image-size       the buffer has 8*ceil(SERIAL_BITS/8) bits, SERIAL_BITS computed here from the structure
  image-content    the image, decoded here by the structure (activity bit; per composite region: active prong,
                   resumable flag [+ prong]; inactive siblings: resumable records only), names exactly the
                   active / resumable configuration the source reported (A, R, S of its snap), every prong is
                   in range, decoding stays within SERIAL_BITS and every bit after the last field is zero
  load-state       the destination's snap after `load` has the source's A, R and S
  load-exits       `exit` callbacks/log records of the load block = states active in the destination before and
                   not active in the source (each handler slot exactly once, sub-states before their region head)
  load-enters      `enter` … = states active in the source and not before in the destination
  load-reenters    `reenter` only on states active before and after; nothing else is invoked (no guards, …)
  resave           when the harness re-saves the loaded instance (`op d save` right after), the image is
                   bit-identical to the first one

Conventions as `judge_file` in tools/oracles.py.
"""
from __future__ import annotations
import sys, os

PID = 'C08'
LIFE = ('enter', 'exit', 'reenter')


def bit_contain(v):
    for k in range(8):
        if v <= (1 << k):
            return k
    return 8


class Layout:
    """Structure-derived numbers, computed from the tree alone (structure/forward.hpp CI_/CSI_/OI_/OSI_)."""

    def __init__(self, tree):
        self.tree = tree

    def active_bits(self, i=0):
        n = self.tree[i]
        if n.kind == 'L':
            return 0
        if n.kind == 'C':
            return bit_contain(len(n.subs)) + max([self.active_bits(c) for c in n.subs] or [0])
        return sum(self.active_bits(c) for c in n.subs)

    def resumable_bits(self, i=0):
        n = self.tree[i]
        own = bit_contain(len(n.subs)) + 1 if n.kind == 'C' else 0
        return own + sum(self.resumable_bits(c) for c in n.subs)

    def serial_bits(self):
        return 1 + self.active_bits() + self.resumable_bits()


class DecodeError(Exception):
    pass


class Reader:
    def __init__(self, bits):
        self.bits, self.pos = bits, 0

    def read(self, w):
        if self.pos + w > len(self.bits):
            raise DecodeError('image ends inside a %d-bit field at bit %d' % (w, self.pos))
        v = 0
        for k in range(w):
            c = self.bits[self.pos + k]
            if c not in '01':
                raise DecodeError('image has a non-binary character')
            if c == '1':
                v |= 1 << k
        self.pos += w
        return v


def decode(bits, tree):
    """-> (machine_active, {region id: active prong}, {region id: resumable prong}, bits consumed).
    Written from composite.inl / composite_sub_1.inl / orthogonal.inl (deepSaveActive / deepSaveResumable)."""
    rd = Reader(bits)
    act, res = {}, {}

    def resumable_record(n):
        if rd.read(1):
            r = rd.read(bit_contain(len(n.subs)))
            if r >= len(n.subs):
                raise DecodeError('resumable prong %d of region %d out of range (width %d)' % (r, n.id, len(n.subs)))
            res[n.id] = r

    def load_active(i):
        n = tree[i]
        if n.kind == 'C':
            a = rd.read(bit_contain(len(n.subs)))
            if a >= len(n.subs):
                raise DecodeError('active prong %d of region %d out of range (width %d)' % (a, n.id, len(n.subs)))
            act[n.id] = a
            resumable_record(n)
            for k, c in enumerate(n.subs):
                (load_active if k == a else load_resumable)(c)
        elif n.kind == 'O':
            for c in n.subs:
                load_active(c)

    def load_resumable(i):
        n = tree[i]
        if n.kind == 'C':
            resumable_record(n)
        for c in n.subs:
            load_resumable(c)

    flag = rd.read(1)
    if flag:
        load_active(0)
    return bool(flag), act, res, rd.pos


def masks(tree, machine_active, act, res):
    """(A, R, S) as the registry queries of root/registry_1.inl would report them for these fork values."""
    A = R = 0
    S = [None] * len(tree)

    def mark_active(i):
        nonlocal A
        n = tree[i]
        A |= 1 << i
        if n.kind == 'C':
            if n.id in act:
                mark_active(n.subs[act[n.id]])
        elif n.kind == 'O':
            for c in n.subs:
                mark_active(c)

    def mark_res(i):                    # states whose nearest composite ancestor is the fork holding the mark
        nonlocal R
        R |= 1 << i
        if tree[i].kind == 'O':
            for c in tree[i].subs:
                mark_res(c)

    if machine_active:
        mark_active(0)
    for n in tree:
        if n.kind == 'C':
            if n.id in res:
                mark_res(n.subs[res[n.id]])
            if n.id in act and (A >> n.id) & 1:
                S[n.id] = act[n.id]
    return A, R, S


def parse_subs(s):
    return [None if x == '-' else int(x) for x in s.split(',')]


def state_of(snap):
    return int(snap['A'], 16), int(snap['R'], 16), parse_subs(snap['S'])


def depth_of(tree, i):
    d = 0
    while tree[i].parent is not None:
        i = tree[i].parent
        d += 1
    return d


def is_ancestor(tree, a, x):
    while x is not None:
        if x == a:
            return True
        x = tree[x].parent
    return False


def slot_counts(tree, sid, method):
    """handler slots the library invokes for one lifecycle method of a headed state: inj bases + own"""
    return tree[sid].inj + 1


def judge(hdr, ops, tree, config, rejections, stats):
    import oracles as O
    out = rejections.setdefault(PID, [])

    def reject(tag, what, idx):
        out.append(dict(tag=tag, what=what, replay=O.replay_text(hdr, ops, idx)))

    lay = Layout(tree)
    serial_bits = lay.serial_bits()
    manual = int((hdr.get('config') or {}).get('manual', '0'))
    last = {}                       # inst -> last snap seen
    for idx, op in enumerate(ops):
        if op.name == 'save' and op.ret is not None:
            stats.inc('checks_' + PID)
            img = op.ret
            before = last.get(op.inst)
            # ---- save leaves the instance untouched
            if op.events:
                reject('save-untouched', 'save() ran callbacks or logged: %s' % ' '.join(op.events[0][:3]), idx)
            if before is not None and op.snap is not None:
                for f in ('A', 'R', 'S', 'Q', 'P'):
                    if f in before and before.get(f) != op.snap.get(f):
                        reject('save-untouched', 'save() changed %s of the instance: %s -> %s' % (f, before.get(f), op.snap.get(f)), idx)
                        break
            # ---- size
            if len(img) != 8 * ((serial_bits + 7) // 8):
                reject('image-size', 'buffer has %d bits, structure needs SERIAL_BITS=%d (%d bytes)' %
                       (len(img), serial_bits, (serial_bits + 7) // 8), idx)
            # ---- content against the reported registry
            try:
                flag, act, res, used = decode(img, tree)
                if used > serial_bits:
                    reject('image-content', 'image uses %d bits, SERIAL_BITS=%d' % (used, serial_bits), idx)
                if '1' in img[used:]:
                    reject('image-content', 'bit %d beyond the last field (%d bits used) is set' %
                           (used + img[used:].index('1'), used), idx)
                if not flag and not manual:
                    reject('image-content', 'activity bit 0 from an automatically activated instance', idx)
                if op.snap is not None:
                    A, R, S = masks(tree, flag, act, res)
                    sa, sr, ss = state_of(op.snap)
                    if (A, R, S) != (sa, sr, ss):
                        reject('image-content', 'image decodes to A=%x R=%x S=%s, instance reports A=%x R=%x S=%s' % (
                            A, R, ','.join('-' if x is None else str(x) for x in S), sa, sr, op.snap['S']), idx)
                    stats.inc('c08_saved_' + ('active' if flag else 'inactive'))
            except DecodeError as e:
                reject('image-content', 'image does not decode: %s' % e, idx)
            # ---- the load that follows
            nxt = ops[idx + 1] if idx + 1 < len(ops) else None
            if nxt is not None and nxt.name == 'load' and nxt.inst != op.inst and nxt.args and nxt.args[0] == img \
                    and op.snap is not None and nxt.snap is not None and last.get(nxt.inst) is not None:
                judge_load(hdr, ops, idx, op, nxt, last[nxt.inst], tree, reject, stats)
                aft = ops[idx + 2] if idx + 2 < len(ops) else None
                if aft is not None and aft.name == 'save' and aft.inst == nxt.inst and aft.ret is not None:
                    stats.inc('checks_' + PID)
                    stats.inc('c08_resave')
                    if aft.ret != img:
                        reject('resave', 'image saved from the loaded instance differs: %s, loaded image was %s' % (aft.ret, img), idx + 2)
        if op.snap is not None:
            last[op.inst] = op.snap


def judge_load(hdr, ops, idx, save_op, load_op, dst_before, tree, reject, stats):
    stats.inc('checks_' + PID)
    li = idx + 1
    src_a, src_r, src_s = state_of(save_op.snap)
    old_a, _, _ = state_of(dst_before)
    new_a, new_r, new_s = state_of(load_op.snap)
    stats.inc('c08_load_%s_into_%s' % ('active' if src_a else 'inactive', 'active' if old_a else 'inactive'))
    if old_a and src_a and old_a != src_a:
        stats.inc('c08_load_other_configuration')
    # ---- state
    if (new_a, new_r) != (src_a, src_r) or new_s != src_s:
        what = []
        if new_a != src_a:
            what.append('active %x, saved %x' % (new_a, src_a))
        if new_r != src_r:
            what.append('resumable %x, saved %x' % (new_r, src_r))
        if new_s != src_s:
            what.append('activeSubState %s, saved %s' % (load_op.snap['S'], save_op.snap['S']))
        reject('load-state', 'after load: ' + '; '.join(what), li)
    # ---- callbacks
    n = len(tree)
    headed = lambda s: tree[s].headed
    want_exit = {s for s in range(n) if (old_a >> s) & 1 and not (src_a >> s) & 1}
    want_enter = {s for s in range(n) if (src_a >> s) & 1 and not (old_a >> s) & 1}
    stay = {s for s in range(n) if (src_a >> s) & 1 and (old_a >> s) & 1}
    seen = {}                       # (sid, method) -> [slots]
    order = []                      # (sid, method) in first-occurrence order
    logged = []
    for e in load_op.events:
        if e[0] == 'cb':
            sid, m, slot = int(e[1]), e[2], int(e[3])
            if (sid, m) not in seen:
                order.append((sid, m))
            seen.setdefault((sid, m), []).append(slot)
        elif e[0] == 'log' and e[1] == 'M':
            logged.append((int(e[2]), e[3]))
    for (sid, m), slots in seen.items():
        if m not in LIFE:
            reject('load-callbacks', 'load() invoked %s of state %d' % (m, sid), li)
            continue
        if sorted(slots) != list(range(tree[sid].inj + 1)):
            reject('load-callbacks', '%s of state %d ran handler slots %s, expected each of 0..%d once' % (m, sid, slots, tree[sid].inj), li)
    got = lambda m: {sid for (sid, mm) in seen if mm == m}
    for m, want, tag in (('exit', want_exit, 'load-exits'), ('enter', want_enter, 'load-enters')):
        w = {s for s in want if headed(s)}
        g = got(m)
        if g != w:
            miss, extra = sorted(w - g), sorted(g - w)
            reject(tag, 'load(): %s delivered to %s; expected %s (missing %s, unexpected %s)' % (
                m, sorted(g), sorted(w), miss, extra), li)
    bad_re = got('reenter') - stay
    if bad_re:
        reject('load-reenters', 'load(): reenter delivered to %s which do not stay active' % sorted(bad_re), li)
    # logger records (when a logger is attached): the same sets, headless heads included only in verbose mode
    for sid, m in logged:
        if m not in LIFE:
            reject('load-callbacks', 'load() logged method %s of state %d' % (m, sid), li)
        elif m == 'exit' and sid not in want_exit:
            reject('load-exits', 'load() logged exit of state %d which does not stop being active' % sid, li)
        elif m == 'enter' and sid not in want_enter:
            reject('load-enters', 'load() logged enter of state %d which does not become active' % sid, li)
        elif m == 'reenter' and sid not in stay:
            reject('load-reenters', 'load() logged reenter of state %d which does not stay active' % sid, li)
    # order: a region's sub-states exit before its head, enter after it; all exits of a switching region
    # precede its enters is NOT required globally (orthogonal siblings interleave), so only the nesting is judged
    pos = {k: i for i, k in enumerate(order)}
    for (sid, m) in order:
        p = tree[sid].parent
        if p is None or not headed(p):
            continue
        if m == 'exit' and (p, 'exit') in pos and pos[(p, 'exit')] < pos[(sid, m)]:
            reject('load-exits', 'state %d exited after its region head %d' % (sid, p), li)
        if m == 'enter' and (p, 'enter') in pos and pos[(p, 'enter')] > pos[(sid, m)]:
            reject('load-enters', 'state %d entered before its region head %d' % (sid, p), li)
    if want_exit or want_enter:
        stats.inc('c08_load_with_transition')


def judge_transcript(path, rejections=None, stats=None):
    """Stand-alone use: judge every scenario of a transcript (the shape comes from its header)."""
    sys.path.insert(0, os.path.join(os.path.dirname(os.path.abspath(__file__))))
    sys.path.insert(0, os.path.join(os.path.dirname(os.path.abspath(__file__)), '..', 'gen'))
    import oracles as O
    import shapes as S
    rejections = {} if rejections is None else rejections
    stats = O.Stats() if stats is None else stats
    for hdr, ops in O.scenarios(path):
        tree = O.build_tree(S.parse(hdr['shape']))
        judge(hdr, ops, tree, hdr.get('config'), rejections, stats)
    return rejections, stats


if __name__ == '__main__':
    rej, st = judge_transcript(sys.argv[1])
    for r in rej.get(PID, [])[:int(sys.argv[2]) if len(sys.argv) > 2 else 5]:
        print('REJECT [%s] %s\n%s\n' % (r['tag'], r['what'], r['replay']))
    print('rejections=%d' % len(rej.get(PID, [])), st.as_dict())
