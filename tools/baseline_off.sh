#!/bin/sh
# The repository's own test suite with the verification guard OFF (no -DHFSM2_VERIF anywhere):
# configure as the baseline did (Ninja, RelWithDebInfo, -Wno-error, tests on), build, run ctest.
set -e
REPO=${VERIF_REPO:-/repo}
cmake -G Ninja -S "$REPO" -B "$REPO/_build" -DCMAKE_BUILD_TYPE=RelWithDebInfo -DCMAKE_CXX_FLAGS=-Wno-error \
      -DHFSM2_BUILD_TESTS=ON -DHFSM2_BUILD_EXAMPLES=OFF > /dev/null
cmake --build "$REPO/_build" -j16
ctest --test-dir "$REPO/_build" -j8 --timeout 900 --output-junit "$REPO/_build/junit.xml"
