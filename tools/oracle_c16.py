#!/usr/bin/env python3
"""C16 oracle: the logger and the structure report mirror what the machine does.

Judged per operation of a transcript, only from what the implementation itself reported (`cb`, `log`,
`ret`, `snap` lines) and the machine shape — never from the model.

Logger (configurations with log >= 1).  The `cb` lines are written by the callbacks themselves, the `log`
lines by the attached logger, so the two channels are independent witnesses of the same run:

  * every user callback is reported: the events of an operation parse as a sequence of
      group  := `log M <sid> <method>`  { action-record*  `cb <sid> <method> <slot>` } for every handler slot
                of the state in the order the library calls them (development/.../ancestors_1.inl,
                state_1.inl: injected bases 0..inj-1 then the own handler (slot inj) for the "down" methods;
                own handler then bases inj-1..0 for postUpdate/postReact/exit; bases inj-1..0 then own for
                exitGuard; own then bases 0..inj-1 for query; own only for select/rank/utility/plan*);
      bare   := `log M <sid> <method>` for an anonymous region head — verbose logging (log=2) only;
      loose  := a record not caused by a callback of this group (see below);
    a `cb` outside a group, a group with missing/extra/reordered handlers, a bare record for a named state
    or outside verbose mode are rejections;
  * every action is reported exactly once, where it happens: the records between the previous event of
    the group and a `cb` line are exactly the records of that callback's actions, in order:
      Q<k>:<d>:<p> -> `log T <sid> <k> <d>`   S:<t>/F:<t> (t != 0) -> `log K <region> <t> S|F`   X -> `log X <sid>`
    where <region> is the head of the region whose scope the callback runs in (the state itself if it
    heads a region, its parent otherwise);
  * loose records: `log T - k d` exactly once at the start of `req`/`imm k d`; `log K - t S|F` exactly once
    for `succeed t`/`fail t`; `log T <head> C <d>` (plan executor, origin = a region head) only in
    update/react; `log P <head> S|F` immediately before the planSucceeded/planFailed group of that head
    and vice versa; `log RS <head> <prong>` right after the select group of <head> with the prong the
    callback returned (`RS:<i>`), and every select callback is followed by one; `log RU/RR <head> <prong|-> <u>`
    name a region head and a prong inside it;
  * nothing else is logged, and with log=0 nothing is logged at all.

Structure report (configurations with struct=1), per `snap`:
  * `ST` (structure()[i].isActive) = `A` (isActive(i)) for every state;
  * `H` (activityHistory) evolves from the previous snap of the same instance by the run-length law
    h' = active ? (h<0 ? 1 : min(h+1,127)) : (h>0 ? -1 : max(h-1,-128)) exactly when the operation refreshed
    the report, and is unchanged otherwise.  Refreshing operations (R_::udpateActivity call sites in
    root_0.inl / root_1.inl): construction of an automatic instance, enter, exit, reset, immediate*,
    load of a non-empty image (or of an empty one into an active manual instance), replay returning true,
    update/react iff a request was queued when processRequest ran (queue of the previous snap, a request
    action of a callback of this operation, or a plan-executor request; without a logger the last is
    invisible: then either outcome is accepted, but nothing else).
"""
from __future__ import annotations
import oracles as O

DOWN = ('entryGuard', 'enter', 'reenter', 'preUpdate', 'update', 'preReact', 'react')
OWN_ONLY = ('select', 'rank', 'utility', 'planSucceeded', 'planFailed')


def slots(inj, method):
    if method in OWN_ONLY:
        return [inj]
    if method in ('postUpdate', 'postReact', 'exit'):
        return [inj] + list(range(inj - 1, -1, -1))
    if method == 'exitGuard':
        return list(range(inj - 1, -1, -1)) + [inj]
    if method == 'query':
        return [inj] + list(range(inj))
    return list(range(inj)) + [inj]


def expected_action_records(tree, sid, acts):
    """Logger records the actions of one callback of state `sid` must have produced, in order."""
    out = []
    if acts == '.':
        return out
    n = tree[sid]
    region = sid if n.kind in ('C', 'O') else (n.parent if n.parent is not None else 0)
    for a in acts.split(';'):
        f = a.split(':')
        if f[0].startswith('Q') and len(f) == 3:
            out.append(['log', 'T', str(sid), f[0][1:], f[1]])
        elif f[0] in ('S', 'F') and len(f) == 2:
            if 0 < int(f[1]) < len(tree):
                out.append(['log', 'K', str(region), f[1], f[0]])
        elif f[0] == 'X':
            out.append(['log', 'X', str(sid)])
    return out


def step_history(active, h):
    if active:
        return 1 if h < 0 else (h + 1 if h < 127 else h)
    return -1 if h > 0 else (h - 1 if h > -128 else h)


def judge(hdr, ops, tree, config, rejections, stats):
    cfg = hdr.get('config', {})
    log = int(cfg.get('log', '0'))
    struct = int(cfg.get('struct', '0'))
    manual = int(cfg.get('manual', '0'))
    nstates = len(tree)

    def reject(tag, what, idx):
        rejections.setdefault('C16', []).append(dict(tag=tag, what=what, replay=O.replay_text(hdr, ops, idx)))

    prev_snap = {}
    build_cfg, build_log = cfg, log
    attached = {}                   # per instance: False after attachLogger(nullptr) (harness sweepLogger)
    for idx, op in enumerate(ops):
        events = [e for e in op.events if e[0] in ('cb', 'log')]
        if op.name == 'attachlogger':
            attached[op.inst] = bool(op.args and op.args[0] == '1')
            stats.inc('c16_attachlogger_ops')
            if events:
                stats.inc('checks_C16')
                reject('attachlogger-not-silent', '`attachLogger` itself ran callbacks or produced records: %s' % events[:3], idx)
        detached = build_log != 0 and not attached.get(op.inst, True)
        log = 0 if detached else build_log
        cfg = dict(build_cfg, log='0') if detached else build_cfg
        # ---------------------------------------------------------------- logger channel
        if log == 0:
            if detached:
                stats.inc('checks_C16')
                stats.inc('c16_ops_with_logger_detached')
            if any(e[0] == 'log' for e in events):
                stats.inc('checks_C16')
                reject('log-without-logger', 'a logger record was produced %s during `%s`' % (
                    'after attachLogger(nullptr)' if detached else 'in a build without logger', op.name), idx)
        else:
            judge_log(op, idx, events, tree, log, reject, stats)
        # ---------------------------------------------------------------- structure report
        if struct and op.snap is not None and 'ST' in op.snap and 'H' in op.snap:
            sn = op.snap
            stats.inc('checks_C16')
            a, st = int(sn['A'], 16), int(sn['ST'], 16)
            if a != st:
                bad = [i for i in range(nstates) if (a ^ st) >> i & 1]
                reject('structure-flags', 'after `%s`: structure()[i].isActive != isActive(i) for states %s (A=%s ST=%s)'
                       % (op.name, bad, sn['A'], sn['ST']), idx)
            h = [int(x) for x in sn['H'].split(',')]
            before = prev_snap.get(op.inst)
            hb = [int(x) for x in before['H'].split(',')] if before is not None and 'H' in before else None
            if op.name == 'new':
                hb = [0] * nstates
            refresh = refreshes(op, before, cfg, events)
            if hb is not None and len(hb) == len(h):
                stats.inc('checks_C16')
                adv = [step_history(bool(a >> i & 1), hb[i]) for i in range(nstates)]
                if refresh is True and h != adv:
                    reject('history-law', 'after `%s` (which refreshes the report) activityHistory is %s, the run-length '
                           'law gives %s from %s with active=%s' % (op.name, h, adv, hb, sn['A']), idx)
                elif refresh is False and h != hb:
                    reject('history-idle', 'after `%s` (which does not refresh the report) activityHistory changed from %s to %s'
                           % (op.name, hb, h), idx)
                elif refresh is None and h != hb and h != adv:
                    reject('history-law', 'after `%s` activityHistory %s is neither the old one %s nor one run-length step %s'
                           % (op.name, h, hb, adv), idx)
                if refresh is True:
                    stats.inc('c16_refresh')
                elif refresh is False:
                    stats.inc('c16_idle')
                else:
                    stats.inc('c16_refresh_unknown')
        if op.snap is not None:
            prev_snap[op.inst] = op.snap
        if op.name == 'destroy':
            prev_snap.pop(op.inst, None)


def refreshes(op, before, cfg, events):
    """True / False / None (cannot be told from the transcript)."""
    name = op.name
    if name == 'new':
        return not int(cfg.get('manual', '0'))
    if name in ('enter', 'exit', 'reset', 'imm'):
        return True
    if name in ('query', 'req', 'succeed', 'fail', 'planappend', 'planclear', 'save'):
        return False
    if name == 'load':
        if op.args and op.args[0][:1] == '1':
            return True
        was_active = before is not None and int(before['A'], 16) & 1
        return bool(int(cfg.get('manual', '0')) and was_active)
    if name == 'replay':
        return op.ret == '1'
    if name in ('update', 'react'):
        if before is not None and before.get('Q', '[]') not in ('[]', '?', ''):
            return True
        for e in events:
            if e[0] == 'cb' and any(a.startswith('Q') for a in e[7].split(';')):
                return True
            if e[0] == 'log' and e[1] == 'T':
                return True
        # a plan task released without a logger leaves no trace in the event channel
        if int(cfg.get('plans', '0')) and not int(cfg.get('log', '0')):
            return None
        return False
    return None


def judge_log(op, idx, events, tree, log, reject, stats):
    n = len(events)
    i = 0
    name = op.name
    nstates = len(tree)

    def txt(e):
        return ' '.join(e[:6])

    # API-level records come first
    if name in ('req', 'imm'):
        stats.inc('checks_C16')
        want = ['log', 'T', '-', op.args[0], op.args[1]]
        if not events or events[0][:5] != want:
            reject('api-record', '`%s %s` was not reported as `%s` (first record: %s)'
                   % (name, ' '.join(op.args), ' '.join(want), txt(events[0]) if events else 'none'), idx)
            return
        i = 1
    elif name in ('succeed', 'fail'):
        stats.inc('checks_C16')
        want = ['log', 'K', '-', op.args[0], 'S' if name == 'succeed' else 'F']
        ok_range = 0 < int(op.args[0]) < nstates
        if ok_range and (len(events) != 1 or events[0][:5] != want):
            reject('api-record', '`%s %s` was not reported as exactly `%s` (%s)'
                   % (name, op.args[0], ' '.join(want), [txt(e) for e in events]), idx)
        if not ok_range and events:
            reject('api-record', '`%s %s` (ignored id) produced records %s' % (name, op.args[0], [txt(e) for e in events]), idx)
        return

    pending_plan = None      # (head, 'S'|'F') announced by `log P`, to be followed by the plan callback group
    pending_select = None    # (head, prong) returned by a select callback, to be followed by `log RS`
    while i < n:
        e = events[i]
        stats.inc('checks_C16')
        if e[0] == 'cb':
            reject('unreported-callback', 'callback %s of state %s (slot %s) ran without a preceding `log M %s %s` during `%s`'
                   % (e[2], e[1], e[3], e[1], e[2], name), idx)
            return
        kind = e[1]
        if kind == 'M':
            sid, method = int(e[2]), e[3]
            if not 0 <= sid < nstates:
                reject('bad-id', 'method record for unknown state %d' % sid, idx)
                return
            if pending_select is not None:
                reject('resolution-missing', 'select() of state %d returned %d but no `log RS %d %d` followed'
                       % (pending_select + pending_select), idx)
                return
            node = tree[sid]
            i += 1
            if node.kind != 'L' and not node.headed:
                if log < 2:
                    reject('bare-method', '`log M %d %s` for an anonymous region head without verbose logging' % (sid, method), idx)
                    return
                if i < n and events[i][0] == 'cb' and int(events[i][1]) == sid:
                    reject('bare-method', 'anonymous region head %d received a %s callback' % (sid, method), idx)
                    return
                if pending_plan is not None and method in ('planSucceeded', 'planFailed'):
                    pending_plan = None
                continue
            if method in ('planSucceeded', 'planFailed'):
                want = (sid, 'S' if method == 'planSucceeded' else 'F')
                if pending_plan != want:
                    reject('plan-status', '%s of state %d was not announced by `log P %d %s`' % (method, sid, want[0], want[1]), idx)
                    return
                pending_plan = None
            elif pending_plan is not None:
                reject('plan-status', '`log P %d %s` was not followed by the plan callback of state %d' % (pending_plan + (pending_plan[0],)), idx)
                return
            for slot in slots(node.inj, method):
                recs = []
                while i < n and events[i][0] == 'log' and events[i][1] in ('T', 'K', 'X'):
                    recs.append(events[i][:5] if events[i][1] != 'X' else events[i][:3])
                    i += 1
                if i >= n or events[i][0] != 'cb' or events[i][1:4] != [str(sid), method, str(slot)]:
                    got = txt(events[i]) if i < n else 'end of operation'
                    reject('group-shape', '`log M %d %s` must be followed by the handler of slot %d (slot order %s), got: %s'
                           % (sid, method, slot, slots(node.inj, method), got), idx)
                    return
                cb = events[i]
                i += 1
                want = expected_action_records(tree, sid, cb[7])
                if recs != want:
                    reject('action-records', 'callback %s of state %d (slot %d) performed `%s`: logger records %s, expected %s'
                           % (method, sid, slot, cb[7], [' '.join(r) for r in recs], [' '.join(r) for r in want]), idx)
                    return
                if method == 'select':
                    for a in cb[7].split(';'):
                        if a.startswith('RS:'):
                            pending_select = (sid, int(a[3:]))
            continue
        # ---- loose records
        i += 1
        if kind == 'RS':
            head = int(e[2])
            prong = None if e[3] == '-' else int(e[3])
            node = tree[head] if 0 <= head < nstates else None
            if node is None or node.kind != 'C' or prong is None or prong >= len(node.subs):
                reject('resolution', 'select resolution `%s` does not name a sub-state of a composite region' % txt(e), idx)
                return
            if node.headed:
                if pending_select != (head, prong):
                    reject('resolution', '`%s` does not follow a select() of state %d returning %d (pending: %s)'
                           % (txt(e), head, prong, pending_select), idx)
                    return
            pending_select = None
            continue
        if pending_select is not None:
            reject('resolution-missing', 'select() of state %d returned %d but no `log RS %d %d` followed'
                   % (pending_select + pending_select), idx)
            return
        if kind == 'P':
            head = int(e[2])
            if not (0 <= head < nstates) or tree[head].kind == 'L' or e[3] not in ('S', 'F'):
                reject('plan-status', 'plan status `%s` does not name a region head' % txt(e), idx)
                return
            if name not in ('update', 'react'):
                reject('plan-status', 'plan status `%s` reported during `%s`' % (txt(e), name), idx)
                return
            if pending_plan is not None:
                reject('plan-status', '`log P %d %s` was not followed by the plan callback' % pending_plan, idx)
                return
            node = tree[head]
            # an anonymous head has no plan callback; only verbose logging shows its method record
            pending_plan = (head, e[3]) if (node.headed or log >= 2) else None
            continue
        if kind == 'T':
            origin = e[2]
            if origin == '-' or not (0 <= int(origin) < nstates) or tree[int(origin)].kind == 'L' or name not in ('update', 'react'):
                reject('stray-record', 'request record `%s` outside any callback during `%s` (only the plan executor, acting '
                       'for a region head inside update/react, requests outside callbacks)' % (txt(e), name), idx)
                return
            if not (0 <= int(e[4]) < nstates):
                reject('bad-id', 'request record `%s` names an unknown destination' % txt(e), idx)
                return
            continue
        if kind in ('RU', 'RR'):
            head = int(e[2])
            node = tree[head] if 0 <= head < nstates else None
            if node is None or node.kind == 'L':
                reject('resolution', '`%s` does not name a region head' % txt(e), idx)
                return
            if e[3] == '-':
                if node.kind != 'O':
                    reject('resolution', '`%s` reports no prong for a composite region' % txt(e), idx)
                    return
            elif node.kind != 'C' or int(e[3]) >= len(node.subs):
                reject('resolution', '`%s` names a prong outside the region' % txt(e), idx)
                return
            continue
        reject('stray-record', 'record `%s` outside any callback during `%s`' % (txt(e), name), idx)
        return
    if pending_plan is not None:
        reject('plan-status', '`log P %d %s` was not followed by the plan callback' % pending_plan, idx)
    if pending_select is not None:
        reject('resolution-missing', 'select() of state %d returned %d but no `log RS %d %d` followed'
               % (pending_select + pending_select), idx)
