#!/usr/bin/env python3
"""confirm_seeded.py <id> <property> <source-dir-with patch.diff/demo.cpp/NOTES.md> "<what it needs>"

Confirms a seeded defect independently in a fresh scratch worktree of /repo (outside /repo and /verif),
then stores it under /verif/seeded/<id>/ (patch.diff, demo.cpp, NOTES.md, meta.json):
  1. the patch applies to /repo's HEAD,
  2. the library's own suite still builds and passes with it,
  3. the demonstration passes (exit 0) on the unchanged header and fails with the change,
  4. which of our quick checks raise an alarm with the patch applied to /repo (then undone).
The scratch worktree and its build output are removed at the end.
"""
import os, sys, json, shutil, subprocess, time

def sh(cmd, cwd=None, timeout=3000):
    p = subprocess.run(cmd, shell=isinstance(cmd, str), cwd=cwd, capture_output=True, text=True, timeout=timeout, errors='replace')
    return p.returncode, (p.stdout + p.stderr)

def main():
    sid, prop, src, needs = sys.argv[1:5]
    checks = sys.argv[5:] or [prop]
    dst = os.path.join('/verif/seeded', sid)
    os.makedirs(dst, exist_ok=True)
    for f in ('patch.diff', 'demo.cpp', 'NOTES.md'):
        if os.path.exists(os.path.join(src, f)):
            shutil.copy(os.path.join(src, f), os.path.join(dst, f))
    wt = '/tmp/confirm/%s' % sid
    sh('git -C /repo worktree remove --force %s' % wt)
    shutil.rmtree(wt, ignore_errors=True)
    os.makedirs('/tmp/confirm', exist_ok=True)
    meta = dict(id=sid, property=prop, needs=needs, confirmed_at=time.strftime('%Y-%m-%d %H:%M:%S'), ran={})
    st, out = sh('git -C /repo worktree add --detach %s HEAD' % wt)
    meta['base_commit'] = sh('git -C /repo rev-parse --short HEAD')[1].strip()
    try:
        # demo on the unchanged header
        st0, out0 = sh('g++ -std=c++14 -I%s/include %s/demo.cpp -o %s/demo0 && %s/demo0' % (wt, dst, wt, wt), timeout=900)
        meta['ran']['demo_unchanged'] = dict(exit=st0, tail=out0[-300:])
        st, out = sh('git apply %s/patch.diff' % dst, cwd=wt)
        meta['ran']['patch_applies'] = (st == 0)
        if st != 0:
            meta['ran']['patch_error'] = out[-400:]
        st1, out1 = sh('g++ -std=c++14 -I%s/include %s/demo.cpp -o %s/demo1 && %s/demo1' % (wt, dst, wt, wt), timeout=900)
        meta['ran']['demo_with_change'] = dict(exit=st1, tail=out1[-300:])
        st, out = sh('cmake -G Ninja -S . -B _build -DCMAKE_BUILD_TYPE=RelWithDebInfo -DCMAKE_CXX_FLAGS=-Wno-error '
                     '-DHFSM2_BUILD_TESTS=ON -DHFSM2_BUILD_EXAMPLES=OFF > /dev/null && cmake --build _build -j12 2>&1 | tail -3 '
                     '&& ctest --test-dir _build -j8 --timeout 900 2>&1 | tail -5', cwd=wt, timeout=3000)
        meta['ran']['suite_with_change'] = dict(exit=st, tail=out[-400:])
    finally:
        sh('git -C /repo worktree remove --force %s' % wt)
        shutil.rmtree(wt, ignore_errors=True)
    # our checks against it (needs /repo exclusively; CONFIRM_NO_CHECKS=1 skips it: run tools/detect_seeded.py later)
    if os.environ.get('CONFIRM_NO_CHECKS'):
        meta['detected_by'] = None
        meta['checks_to_run'] = checks
    else:
        st, out = sh('/verif/tools/try_patch.sh %s/patch.diff %s' % (dst, ' '.join(checks)), timeout=3400)
        meta['ran']['our_checks'] = out[-1500:]
        meta['detected_by'] = [c for c in checks if ('VIOLATION property=%s' % c) in out]
    ok = (meta['ran'].get('patch_applies') and meta['ran']['demo_unchanged']['exit'] == 0 and
          meta['ran']['demo_with_change']['exit'] != 0 and meta['ran']['suite_with_change']['exit'] == 0)
    meta['confirmed'] = bool(ok)
    json.dump(meta, open(os.path.join(dst, 'meta.json'), 'w'), indent=1)
    print(json.dumps(meta, indent=1)[:2500])

if __name__ == '__main__':
    main()
