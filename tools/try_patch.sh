#!/bin/sh
# try_patch.sh <patch.diff> <Cxx> [<Cxx>…]: apply a seeded change to /repo, run the quick checks, undo it.
P=$1; shift
git -C /repo apply "$P" || { echo "patch does not apply"; exit 2; }
for c in "$@"; do
  echo "== $c"; timeout 3000 python3 /verif/tools/check.py $c --tier quick 2>&1 | grep -v conda | grep -E "^(VIOLATION|OK|KNOWN)" | cut -c1-300
done
git -C /repo checkout -- . ; git -C /repo status --short | grep -v _build
