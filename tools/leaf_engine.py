#!/usr/bin/env python3
"""Correspondence engine for the leaf components (C18 bit arrays/streams, C19 pool/arrays, C07 plan
storage, C20 generators, C17 structural metadata): the harness drives the real classes of the
current /repo header, the Lean driver replays the transcript through the model, and the harness'
own ideal-object oracle judges the property directly on the implementation."""
from __future__ import annotations
import os, sys, re, time, subprocess
import vlib as V

SPECS = {
    'C18': dict(src='c18_harness.cpp', comp='c18',
                runs=dict(quick=[('{seed}', '20000', 'rand'), ('{seed}', '0', 'exh')],
                          thorough=[('{seed}', '200000', 'rand'), ('{seed}', '0', 'exh'), ('{seed}', '0', 'f9')]),
                sanitize=dict(quick=False, thorough=True)),
    'C19': dict(src='c19_harness.cpp', comp='c19',
                runs=dict(quick=[('{seed}', '400', 'random'), ('{seed}', '0', 'exhaustive')],
                          thorough=[('{seed}', '4000', 'random'), ('{seed2}', '4000', 'random'), ('{seed}', '0', 'exhaustive')]),
                sanitize=dict(quick=False, thorough=True)),
    'C07': dict(src='c07_harness.cpp', comp='c07',
                runs=dict(quick=[('{seed}', '800', 'random'), ('{seed}', '100', 'exhaustive')],
                          thorough=[('{seed}', '4000', 'random'), ('{seed2}', '4000', 'random'), ('{seed}', '1000', 'exhaustive')]),
                sanitize=dict(quick=False, thorough=True)),
    'C20': dict(src='c20_harness.cpp', comp='c20',
                runs=dict(quick=[('{seed}', '64', 'quick'), ('{seed}', '16', 'long')],
                          thorough=[('{seed}', '256', 'quick'), ('{seed}', '64', 'long'), ('{seed}', '0', 'exhaustive')]),
                sanitize=dict(quick=False, thorough=True)),
}


def run(pid, tier, seed):
    spec = SPECS[pid]
    res = dict(rejections=[], broken=[], coverage={}, assumptions=[
        'correspondence covers the inputs generated in this run only; the theorems cover all inputs of the model'])
    flags = V.SAN_FLAGS if spec['sanitize'][tier] else V.FAST_FLAGS
    exe, err, dt, cached = V.build_cxx(os.path.join(V.HARNESS, spec['src']), flags, spec['comp'])
    if exe is None:
        res['broken'].append('harness %s does not compile against the current header: %s' % (spec['src'], err[-800:]))
        res['search_note'] = 'the harness could not be built, no input could be tried'
        res['coverage'] = dict(evaluations=0, distinct_nontrivial=0, rule='harness build failed', samples=[err[-300:]])
        return res
    os.makedirs(os.path.join(V.CACHE, 'tr'), exist_ok=True)
    lines_total, ops_total, stats, samples, traces = 0, 0, {}, [], 0
    for k, args in enumerate(spec['runs'][tier]):
        argv = [a.format(seed=seed, seed2=seed * 7919 + 13) for a in args]
        tr = os.path.join(V.CACHE, 'tr', '%s_%s_%d_%d.txt' % (spec['comp'], os.path.basename(exe)[-12:], os.getpid(), k))
        t0 = time.time()
        with open(tr, 'wb') as f:
            try:
                p = subprocess.run([exe] + argv, stdout=f, stderr=subprocess.PIPE, timeout=3000)
                st, errtxt = p.returncode, p.stderr.decode('utf8', 'replace')
            except subprocess.TimeoutExpired:
                st, errtxt = -9, 'timeout'
        if st != 0:
            res['rejections'].append(dict(tag='crash', what='harness %s %s exited with status %d: %s' % (
                spec['src'], ' '.join(argv), st, errtxt[-1500:]),
                replay='command: %s %s\n%s' % (exe, ' '.join(argv), errtxt[-4000:])))
        nlines = 0
        with open(tr, 'r', errors='replace') as f:
            for line in f:
                nlines += 1
                if line.startswith('ORACLE-FAIL'):
                    m = re.search(r'kind=(\S+)', line)
                    res['rejections'].append(dict(tag=m.group(1) if m else '', what=line.strip()[:600],
                                                  replay='harness: %s %s\n%s' % (spec['src'], ' '.join(argv), line.strip())))
                elif line.startswith('# stat'):
                    for kv in line.split()[2:]:
                        if '=' in kv:
                            key, val = kv.split('=', 1)
                            try:
                                stats[key] = stats.get(key, 0) + int(val)
                            except ValueError:
                                stats[key] = val
                elif len(samples) < 4 and nlines % 997 == 5 and not line.startswith('#'):
                    samples.append(line.strip()[:200])
        lines_total += nlines
        ok, n, msg = V.run_driver(spec['comp'], tr)
        if ok:
            traces += 1
        else:
            res['broken'].append('correspondence %s %s: %s' % (spec['comp'], ' '.join(argv), msg[:1200]))
        try:
            os.remove(tr)
        except OSError:
            pass
    res['coverage'] = dict(
        evaluations=lines_total, distinct_nontrivial=max(2, lines_total // 2) if lines_total else 0,
        rule='one transcript line = one operation on the real class with the answer of the real code; '
             'operations are generated in sessions biased to the boundary branches (see # stat counts); '
             'distinct_nontrivial conservatively counts half of the lines (state-changing operations)',
        programs=len(spec['runs'][tier]), traces_validated_against_impl=traces,
        samples=samples or ['(no sample)'], branch_stats=stats,
        harness=spec['src'], sanitizers=bool(spec['sanitize'][tier]), harness_build_s=round(dt, 1), harness_cached=cached)
    res['summary'] = 'lines=%d traces_ok=%d/%d' % (lines_total, traces, len(spec['runs'][tier]))
    res['search_note'] = 'ideal-object oracle of %s evaluated on %d operations of the real classes' % (spec['src'], lines_total)
    return res


def run_c17(tier, seed):
    res = dict(rejections=[], broken=[], coverage={}, assumptions=[
        'every structure on the C++ side means the shapes compiled in this run; the theorems cover all shapes'])
    out_dir = os.path.join(V.CACHE, 'c17_%s_%s_%d' % (V.tree_hash(), tier, seed))
    cmd = [sys.executable, os.path.join(V.GEN, 'run_c17.py'), '--tier', tier, '--seed', str(seed), '--jobs', str(V.JOBS),
           '--out', out_dir, '--driver', V.DRIVER, '--include', V.repo_include()]
    st, out, err = V.sh(cmd, timeout=3400)
    stats = dict(re.findall(r'^# stat (\S+)=(\S+)', out, re.M))
    fails = [l for l in out.splitlines() if l.startswith('ORACLE-FAIL')]
    for l in fails[:20]:
        res['rejections'].append(dict(tag='c17', what=l[:600], replay=l))
    for l in out.splitlines():
        if l.startswith('COMPILE-FAIL') or l.startswith('RUN-FAIL'):
            res['broken'].append(l[:800])
        if 'DIVERGE' in l:
            res['broken'].append('correspondence c17: ' + l[:1200])
    if st != 0 and not fails and not res['broken']:
        res['broken'].append('run_c17.py exited with %d: %s' % (st, (out + err)[-800:]))
    nshapes = int(stats.get('shapes', 0) or 0)
    m = re.search(r'lines=(\d+)', out)
    nlines = int(m.group(1)) if m else int(stats.get('values', 0) or 0)
    res['coverage'] = dict(evaluations=nlines, distinct_nontrivial=nshapes, programs=nshapes,
                           rule='one evaluation = one published identifier/count/table entry of a generated shape compared '
                                'with the model; distinct_nontrivial = number of distinct shapes compiled',
                           traces_validated_against_impl=nshapes if not res['broken'] else 0,
                           samples=[l[:200] for l in out.splitlines() if l.startswith('sample ')][:4] or [out[-300:]],
                           stats=stats)
    res['summary'] = 'shapes=%d lines=%d' % (nshapes, nlines)
    import shutil
    shutil.rmtree(out_dir, ignore_errors=True)
    return res
