#!/usr/bin/env python3
"""Oracle for C12 (utility and weighted-random selection), evaluated on transcripts of the real library.

It looks only at what the implementation reported: the `cb <sid> utility|rank …` lines (answers in the
actions token, `RU:<float bits hex>` / `RR:<int>`), the `rng <hex>` lines of the scripted generator and
the logger's resolution records `log RU <head> <prong|-> <bits>` / `log RR <head> <prong|-> <bits>`.
Nothing is taken from the Lean model.

For every resolution of a region (top level: `utilize`, `randomize`, `change` of a Utilitarian / Random
region; nested: the `deepReport…` of every candidate) the event sequence is parsed by recursive descent
along the machine structure — head first, then the sub-states left to right; for a random region: the
ranks of all headed sub-states left to right, the utilities of the top-rank sub-states left to right,
one `rng` line, the `log RR` record.  Any other order does not parse and is rejected (`structure`).

Checks (tags):
  utilize-argmax   the logged prong is the LEFTMOST index of maximal utility among the values the
                   sub-states reported (nested composite region = head x chosen sub, headless head = 1,
                   orthogonal region = head x (chain sum)/width, each operation rounded once to binary32)
  utilize-value    the logged utility is bit-identical to the chosen sub-state's reported value
  ortho-mean       the logged mean of an orthogonal region is bit-identical to (s0 + (s1 + (… + sn)))/width
  change-prong     `change` into a nested Composite region reports sub-state 0, into a Resumable or
                   Selectable one the resumable sub-state (else 0)
  random-none      a random resolution selected no prong although a top-rank utility is positive
  random-none-headless   REGRESSION CHECK for N5b (repaired by `fix: an anonymous region head reports the default
                   utility, not zero`): every utility() answer of the resolution is positive, yet no top-rank
                   candidate has a positive computed utility and nothing is selected (compoRequested =
                   INVALID_PRONG, HFSM2_BREAK; nested: `utilities[INVALID_PRONG]` read out of bounds).  Before
                   the repair this happened when the only top-rank candidates were headless nested regions.
  random-rank      the chosen prong does not have the top rank
  random-zero      the chosen prong has utility 0
  random-interval  (all candidates plain states) rnd*sum is outside the chosen sub-state's cumulative
                   interval over the top-rank sub-states by more than 8 ulp of the sum
  rng-mismatch     the number logged by the resolution is not the one the generator just produced
  rng-count        the number of `rng` lines of an operation differs from the number of random regions
                   resolved in it
  activated        a lone immediate utilize/randomize: the region's active sub-state after the operation
                   is not the resolved prong
  structure        a run of utility()/rank() callbacks that is not a well-formed resolution

Out of contract (skipped, counted in stats): no positive top-rank utility; generator output outside [0,1).
"""
from __future__ import annotations
import struct, sys, os
from fractions import Fraction

sys.path.insert(0, os.path.dirname(os.path.abspath(__file__)))
sys.path.insert(0, os.path.join(os.path.dirname(os.path.abspath(__file__)), '..', 'gen'))

PID = 'C12'


def f32(x):
    """round a Python float (double) to binary32 and back: one IEEE rounding (innocuous double rounding
    for + - * / of binary32 operands computed in binary64)"""
    return struct.unpack('<f', struct.pack('<f', x))[0]


def from_bits(h):
    return struct.unpack('<f', struct.pack('<I', int(h, 16)))[0]


def bits(x):
    return struct.unpack('<I', struct.pack('<f', x))[0]


NAN = float('nan')


class ParseFail(Exception):
    pass


def _acts_value(tok, key):
    for a in tok.split(';'):
        if a.startswith(key + ':'):
            return a[len(key) + 1:]
    return None


def compact(events):
    """events of one op -> list of tuples; everything that is not part of a resolution is a barrier"""
    out = []
    for e in events:
        h = e[0]
        if h == 'cb':
            m = e[2]
            if m == 'utility':
                v = _acts_value(e[7], 'RU')
                out.append(('U', int(e[1]), None if v is None else from_bits(v), e[4]))
            elif m == 'rank':
                v = _acts_value(e[7], 'RR')
                out.append(('K', int(e[1]), None if v is None else int(v), e[4]))
            else:
                out.append(('B',))
        elif h == 'log':
            if e[1] == 'M':
                continue                    # method record preceding a callback (or a headless head's, verbose)
            if e[1] in ('RU', 'RR'):
                out.append(('L' + e[1][1], int(e[2]), None if e[3] == '-' else int(e[3]), e[4]))
            else:
                out.append(('B',))
        elif h == 'rng':
            out.append(('G', e[1]))
        else:
            out.append(('B',))
    return out


class Resolution:
    __slots__ = ('head', 'kind', 'prong', 'values', 'ranks', 'rnd', 'leaf_only', 'nested')


class Parser:
    def __init__(self, tree, ev, report):
        self.t, self.ev, self.report_fn = tree, ev, report
        self.found = []          # resolutions in order (for the activation / count checks)
        self.issues = []         # (tag, text) collected during a successful parse only

    # -- token access ---------------------------------------------------------------------------
    def expect(self, i, kind, sid=None):
        if i >= len(self.ev):
            raise ParseFail('end of events, wanted %s %s' % (kind, sid))
        e = self.ev[i]
        if e[0] != kind or (sid is not None and e[1] != sid):
            raise ParseFail('at %d: wanted %s %s, found %r' % (i, kind, sid, e[:2]))
        return e

    def head_utility(self, n, i):
        if not n.headed:
            return 1.0, i, None              # S_<EmptyT>::wrapUtility returns the default Utility{1} (N5 repaired)
        e = self.expect(i, 'U', n.id)
        if e[2] is None:
            raise ParseFail('utility() without an answer')
        return e[2], i + 1, e[3]

    def ranks(self, n, i):
        rs = []
        for c in n.subs:
            cn = self.t[c]
            if cn.headed:
                e = self.expect(i, 'K', c)
                rs.append(e[2])
                i += 1
            else:
                rs.append(0)
        return rs, i

    # -- nested reports ---------------------------------------------------------------------------
    def report(self, sid, mode, i, issues, found):
        """value reported by state `sid` in a pass of kind mode ('U' utilize, 'C' change, 'Z' randomize)"""
        n = self.t[sid]
        if n.kind == 'L':
            e = self.expect(i, 'U', sid)
            if e[2] is None:
                raise ParseFail('utility() without an answer')
            return e[2], i + 1
        hu, i, obs = self.head_utility(n, i)
        if n.kind == 'O':
            vals = []
            for c in n.subs:
                v, i = self.report(c, mode, i, issues, found)
                vals.append(v)
            e = self.expect(i, 'LR' if mode == 'Z' else 'LU', sid)
            if e[2] is not None:
                raise ParseFail('orthogonal region logged a prong')
            chain = vals[-1]
            for v in reversed(vals[:-1]):
                chain = f32(v + chain)
            mean = f32(chain / float(len(vals)))
            logged = from_bits(e[3])
            if all(v == v for v in vals) and bits(mean) != bits(logged):
                issues.append(('ortho-mean', 'orthogonal region %d logged mean %r, sub-states reported %r (expected %r)'
                               % (sid, logged, vals, mean)))
            return (f32(hu * logged) if all(v == v for v in vals) else NAN), i + 1
        # composite region
        strat = n.strategy
        if mode == 'U' or (mode == 'C' and strat == 'utilitarian'):
            s_util, i = self.argmax_part(n, mode, i, issues, found, nested=True)
            return f32(hu * s_util), i
        if mode == 'Z' or (mode == 'C' and strat == 'random'):
            s_util, i = self.random_part(n, mode, i, issues, found, nested=True)
            return f32(hu * s_util), i
        # change into composite / resumable / selectable: exactly one sub-state reports
        if strat == 'composite':
            k = 0
        else:
            # resumable sub-state as the callbacks could observe it (isResumable of the direct sub-states)
            k = 0
            rmask = self._rmask(i)
            if rmask is not None:
                for j, c in enumerate(n.subs):
                    if rmask >> c & 1:
                        k = j
                        break
        # which sub-state does report? (look at the next callback)
        actual = self._child_of_next(n, i)
        if actual is not None and actual != k:
            issues.append(('change-prong', 'change into %s region %d reports sub-state %d, expected %d'
                           % (strat, sid, actual, k)))
            k = actual
        v, i = self.report(n.subs[k], mode, i, issues, found)
        return f32(hu * v), i

    def _rmask(self, i):
        for e in self.ev[i:i + 4]:
            if e[0] in ('U', 'K') and e[3] not in (None, '-'):
                for part in e[3].split('/'):
                    if part.startswith('r:'):
                        return int(part[2:], 16)
        return None

    def _child_of_next(self, n, i):
        if i >= len(self.ev) or self.ev[i][0] not in ('U', 'K'):
            return None
        sid = self.ev[i][1]
        for j, c in enumerate(n.subs):
            if c <= sid < c + self.t[c].size:
                return j
        return None

    # -- the two resolutions ----------------------------------------------------------------------
    def argmax_part(self, n, mode, i, issues, found, nested):
        vals = []
        for c in n.subs:
            v, i = self.report(c, mode, i, issues, found)
            vals.append(v)
        e = self.expect(i, 'LU', n.id)
        best = 0
        for j in range(1, len(vals)):
            if vals[j] > vals[best]:
                best = j
        r = Resolution()
        r.head, r.kind, r.prong, r.values, r.ranks, r.rnd, r.nested = n.id, 'U', e[2], vals, None, None, nested
        found.append(r)
        if any(v != v for v in vals):
            issues.append(('skip', 'tainted by a nested failure'))
            return NAN, i + 1
        if e[2] is None or e[2] >= len(vals):
            issues.append(('utilize-argmax', 'region %d: utilities %r, logged prong %r' % (n.id, vals, e[2])))
            return from_bits(e[3]), i + 1
        if e[2] != best:
            issues.append(('utilize-argmax', 'region %d: sub-states reported %r, leftmost maximum is %d, logged prong %d'
                           % (n.id, vals, best, e[2])))
        if bits(from_bits(e[3])) != bits(vals[e[2]]):
            issues.append(('utilize-value', 'region %d: logged utility %r but sub-state %d reported %r'
                           % (n.id, from_bits(e[3]), e[2], vals[e[2]])))
        return from_bits(e[3]), i + 1

    def random_part(self, n, mode, i, issues, found, nested):
        start = i
        ranks, i = self.ranks(n, i)
        top = max(ranks)
        us = []
        for j, c in enumerate(n.subs):
            if ranks[j] == top:
                v, i = self.report(c, mode, i, issues, found)
                us.append(v)
            else:
                us.append(0.0)
        g = self.expect(i, 'G')
        rnd = from_bits(g[1])
        r = Resolution()
        r.head, r.kind, r.values, r.ranks, r.rnd, r.nested = n.id, 'Z', us, ranks, rnd, nested
        r.leaf_only = all(self.t[c].kind == 'L' for c in n.subs)
        found.append(r)
        if any(u != u for u in us):
            # a nested resolution selected nothing: the value it handed up is undefined, nothing to judge here
            issues.append(('skip', 'tainted by a nested failure'))
            j = i + 1
            if j < len(self.ev) and self.ev[j][0] == 'LR' and self.ev[j][1] == n.id:
                r.prong = self.ev[j][2]
                j += 1
            else:
                r.prong = None
            return NAN, j
        contract = any(ranks[j] == top and us[j] > 0.0 for j in range(len(us))) and all(u >= 0.0 for u in us) \
            and 0.0 <= rnd < 1.0
        logged = i + 1 < len(self.ev) and self.ev[i + 1][0] == 'LR' and self.ev[i + 1][1] == n.id
        if not logged:
            # C_::resolveRandom fell through to HFSM2_BREAK(): nothing is logged, INVALID_PRONG is returned
            r.prong = None
            if contract:
                issues.append(('random-none', 'region %d: ranks %r utilities %r rnd %r: no prong selected'
                               % (n.id, ranks, us, rnd)))
            elif 0.0 <= rnd < 1.0 and all(e[2] > 0.0 for e in self.ev[start:i] if e[0] == 'U'):
                issues.append(('random-none-headless',
                               'region %d: every utility() answer is positive, yet the top-rank candidates\' computed '
                               'utilities are %r (ranks %r): no prong selected, compoRequested = INVALID_PRONG'
                               % (n.id, us, ranks)))
            else:
                issues.append(('skip', 'out of contract'))
            return NAN, i + 1                 # nested: the library now reads utilities[INVALID_PRONG] — undefined
        e = self.ev[i + 1]
        r.prong = e[2]
        if int(g[1], 16) != int(e[3], 16) and e[2] is not None:
            issues.append(('rng-mismatch', 'region %d: generator produced %s, resolution logged %s' % (n.id, g[1], e[3])))
        if not contract:
            issues.append(('skip', 'out of contract'))
            return (us[e[2]] if e[2] is not None and e[2] < len(us) else 0.0), i + 2
        p = e[2]
        if p is None or p >= len(us):
            issues.append(('random-none', 'region %d: ranks %r utilities %r rnd %r: no prong selected' % (n.id, ranks, us, rnd)))
            return 0.0, i + 2
        if ranks[p] != top:
            issues.append(('random-rank', 'region %d: ranks %r (top %d), chosen prong %d has rank %d'
                           % (n.id, ranks, top, p, ranks[p])))
        if not us[p] > 0.0:
            issues.append(('random-zero', 'region %d: utilities %r, chosen prong %d has utility 0' % (n.id, us, p)))
        elif r.leaf_only:
            ex = [Fraction(u) for u in us]
            total = sum(ex)
            cursor = Fraction(rnd) * total
            pre = sum(ex[:p])
            tol = total * Fraction(8, 1 << 23)
            if not (pre - tol <= cursor < pre + ex[p] + tol):
                issues.append(('random-interval', 'region %d: utilities %r rnd %r: cursor %s outside [%s, %s) of prong %d'
                               % (n.id, us, rnd, float(cursor), float(pre), float(pre + ex[p]), p)))
        return us[p], i + 2

    # -- top level --------------------------------------------------------------------------------
    def top(self, hid, variant, i):
        """one top-level resolution of region `hid`: variant = (mode, 'argmax'|'random')"""
        n = self.t[hid]
        issues, found = [], []
        mode, what = variant
        if what == 'argmax':
            _, j = self.argmax_part(n, mode, i, issues, found, nested=False)
        else:
            _, j = self.random_part(n, mode, i, issues, found, nested=False)
        return j, issues, found


def candidates(tree, sid):
    """regions that could be the top-level target of a resolution whose first callback is on `sid`"""
    out = []
    c = sid
    while True:
        p = tree[c].parent
        if p is None:
            break
        if tree[p].kind == 'C':
            out.append(p)
        if tree[p].headed:
            break
        c = p
    return list(reversed(out))          # outermost first


def variants(n):
    v = [('U', 'argmax'), ('Z', 'random')]
    if n.strategy == 'utilitarian':
        v.append(('C', 'argmax'))
    if n.strategy == 'random':
        v.append(('C', 'random'))
    return v


def judge(hdr, ops, tree, config, rejections, stats):
    import oracles as O
    cfg = hdr.get('config', {})
    if not int(cfg.get('util', '1')):
        return
    if not int(cfg.get('log', '1')):
        stats.inc('c12_skipped_nolog')
        return
    rej = rejections.setdefault(PID, [])

    def reject(tag, what, idx):
        rej.append(dict(tag=tag, what=what, replay=O.replay_text(hdr, ops, idx)))

    prev_queue = {}
    for idx, op in enumerate(ops):
        ev = compact(op.events)
        if not any(e[0] in ('U', 'K', 'LU', 'LR', 'G') for e in ev):
            if op.snap is not None:
                prev_queue[op.inst] = op.snap.get('Q')
            continue
        P = Parser(tree, ev, None)
        i = 0
        all_found = []
        unparsed_lr = 0
        while i < len(ev):
            e = ev[i]
            if e[0] not in ('U', 'K', 'LU', 'LR', 'G'):
                i += 1
                continue
            done = False
            if e[0] in ('U', 'K'):
                for hid in candidates(tree, e[1]):
                    for var in variants(tree[hid]):
                        try:
                            j, issues, found = P.top(hid, var, i)
                        except ParseFail:
                            continue
                        skip = any(t == 'skip' for t, _ in issues)
                        for r in found:
                            stats.inc('checks_' + PID)
                            stats.inc('c12_%s_%s' % ('utilize' if r.kind == 'U' else 'random', 'nested' if r.nested else 'top'))
                        if skip:
                            stats.inc('c12_out_of_contract')
                        for tag, what in issues:
                            if tag != 'skip':
                                reject(tag, what, idx)
                        all_found.extend(found)
                        i = j
                        done = True
                        break
                    if done:
                        break
            if not done:
                stats.inc('checks_' + PID)
                reject('structure', 'events from %r on are not a well-formed utility/random resolution: %s'
                       % (e[:3], ' '.join('%s:%s' % (x[0], x[1] if len(x) > 1 else '') for x in ev[i:i + 12])), idx)
                # resynchronise after the next barrier
                while i < len(ev) and ev[i][0] != 'B':
                    if ev[i][0] == 'LR' and tree[ev[i][1]].kind == 'C':
                        unparsed_lr += 1
                    i += 1
        # one random number per random region resolved
        n_rng = sum(1 for e in ev if e[0] == 'G')
        n_res = sum(1 for r in all_found if r.kind == 'Z') + unparsed_lr
        stats.inc('checks_' + PID)
        if n_rng != n_res:
            reject('rng-count', '%d generator calls for %d random regions resolved in `%s`' % (n_rng, n_res, op.name), idx)
        # lone immediate utilize / randomize: the resolved prong is the active sub-state afterwards
        if op.name == 'imm' and op.args and op.args[0] in ('U', 'Z') and op.snap is not None \
                and prev_queue.get(op.inst) == '[]' and len([r for r in all_found if not r.nested]) == 1:
            dest = int(op.args[1])
            top = [r for r in all_found if not r.nested][0]
            quiet = all(e[0] != 'cb' or e[7] == '.' or e[2] in ('utility', 'rank') for e in op.events)
            entered = any(e[0] == 'cb' and e[2] == 'enter' for e in op.events)
            if quiet and entered and top.head == dest and top.prong is not None and tree[dest].kind == 'C':
                subs = O.parse_subs(op.snap['S'])
                stats.inc('checks_' + PID)
                stats.inc('c12_activation')
                if subs[dest] != top.prong:
                    reject('activated', 'immediate %s of region %d resolved prong %d but activeSubState is %r'
                           % (op.args[0], dest, top.prong, subs[dest]), idx)
        if op.snap is not None:
            prev_queue[op.inst] = op.snap.get('Q')


def main(argv):
    import oracles as O
    import shapes as S
    path = argv[1]
    stats, rejections = O.Stats(), {}
    for hdr, ops in O.scenarios(path):
        tree = O.build_tree(S.parse(hdr['shape']))
        judge(hdr, ops, tree, hdr.get('config', {}), rejections, stats)
    import collections
    print(stats.as_dict())
    print('tags:', dict(collections.Counter(r['tag'] for r in rejections.get(PID, []))))
    for r in rejections.get(PID, [])[:int(argv[2]) if len(argv) > 2 else 5]:
        print('REJECT', r['tag'], r['what'])
        if len(argv) > 3:
            print(r['replay'])
    print('rejections:', len(rejections.get(PID, [])))


if __name__ == '__main__':
    main(sys.argv)
