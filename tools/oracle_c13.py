#!/usr/bin/env python3
"""Oracle for C13 (activity, resumable and pending queries agree with each other and with the outcome),
evaluated on transcripts of the real library; nothing is taken from the Lean model.

A. Every `snap` line and every callback observation (`a:/r:/s:` masks):
     query-ortho     isActive / isResumable of the sub-states of an orthogonal region differ from the region's
                     own answer (they share the nearest composite ancestor and the prong)
     query-substate  activeSubState(r) of a composite region does not name its (only) active sub-state, or is
                     set while r is inactive
     query-resumable more than one sub-state of a composite region is resumable, or the root is resumable
                     (a sub-state may be active and resumable at once: `schedule` of the active one)
B. `resume` outcome: an operation that processed the single request `resume(d)` of a composite region
   (one approved guard round with that request alone, or an immediate resume on an empty queue that ran no
   guard at all) and in which no callback requested anything: activeSubState(d) afterwards is the sub-state
   that was resumable before (else 0):
     resume-outcome
     ortho-only-ancestry   KNOWN FINDING KF-C02-ortho-only-ancestry (S8 of Props/C13.lean): d has no composite ancestor (it sits directly below an orthogonal root,
                      or below orthogonal regions only): requestImmediate finds no composite fork to mark and the
                      request is silently dropped — no guard, no callback, nothing changes (same for every kind)
C. Pending queries inside guards, for operations with exactly one guard round, a single pending request, no
   earlier approved round (`currentTransitions` empty), no cancellation and no SILENT VETO (below): the
   `/p:e.x.c` masks of every guard callback are compared with the enter / exit callbacks that follow in the
   same operation.
   Silent veto (KF-C04-silent-veto = KF-C02-ortho-root-dropped, not a C13 matter: the queries describe what the
   request is "about to" do, and a round the library itself refuses has no outcome to compare with, exactly
   like a round a guard cancelled): a request addressed to an orthogonal root (or a region without composite
   ancestor) of a machine with a plain state below orthogonal regions only — `deepForwardExitGuard` walks
   that plain state, which answers `false`, so the round is refused although no guard cancelled.  Recognised
   from observations and structure only (`silently_vetoed`): no guard cancelled, the exit guards ran but NO
   entry guard, no enter / exit / reenter callback in the whole operation, A= and S= of the snapshot
   unchanged, destination without composite ancestor below an orthogonal root, a plain state without
   composite ancestor exists.  Such rounds are counted (`c13_silent_veto_rounds`) and not judged; a round
   that was not committed for any other reason is still judged (and rejected).  The library
   answers from the nearest composite ancestor only (DESIGN §8 F6), so disagreements of the following
   KNOWN kinds are classified and counted in `stats` (`c13_kf_<signature>`), not rejected (F6 = the pending
   queries look at the nearest composite ancestor only; `exit-deep`, `enter-loser`, `change-loser` are F6
   combined with KF-C02-stale-candidate-marks, tag `stale-candidate-mark`):

     exit-idle        isPendingExit(s) = 1, s active, s not exited; no sub-state of s's nearest composite
                      ancestor region C changed (C carries no request: requested = INVALID != active)      [F6]
     change-idle      isPendingChange(s) = 1, s neither entered nor exited, C active and unchanged          [F6]
     change-sibling   isPendingChange(s) = 1, s untouched, but another sub-state of C was entered or exited
                      (the query compares requested != active of C, whatever s is)
     enter-root       s is entered but isPendingEnter(s) = isPendingChange(s) = 0 and s has no composite ancestor
                      (root state, or below orthogonal regions only): all queries answer 0 there
     exit-root        same for an exited state without composite ancestor
     restart-in-place s is exited AND entered in the same operation while all three queries answer 0
                      (C restarts the same sub-state: requested == active)
     exit-deep        s is exited because an ancestor region switches, but isPendingExit(s) = 0
                      (C itself has requested == active)
     enter-loser      isPendingEnter(s) = 1 (and isPendingChange) but s is not entered: C is not entered (it is
                      inactive and stays so, or it is being exited) and keeps the mark of a utility / random
                      resolution it lost
     change-loser     isPendingChange(s) = 1, s untouched, C inactive and not entered (same cause)
   Anything else is a rejection:
     pending-enter / pending-exit / pending-change   (with the structural relation in the text)
"""
from __future__ import annotations
import sys, os

sys.path.insert(0, os.path.dirname(os.path.abspath(__file__)))
sys.path.insert(0, os.path.join(os.path.dirname(os.path.abspath(__file__)), '..', 'gen'))

PID = 'C13'


def nearest_compo(tree, sid):
    """(region id, prong of the branch containing sid) of the nearest composite ancestor, or None"""
    c = sid
    while True:
        p = tree[c].parent
        if p is None:
            return None
        if tree[p].kind == 'C':
            return p, tree[p].subs.index(c)
        c = p


def subtree(tree, sid):
    return range(sid, sid + tree[sid].size)


def check_masks(tree, a, r, subs, where, reject, stats, machine_active=True):
    """A: structural consistency of isActive / isResumable / activeSubState"""
    stats.inc('checks_' + PID)
    A = lambda i: bool(a >> i & 1)
    R = lambda i: bool(r >> i & 1)
    if R(0):
        reject('query-resumable', '%s: the root state is reported resumable' % where)
    for n in tree:
        if n.kind == 'O' and nearest_compo(tree, n.id) is not None:
            for c in n.subs:
                if A(c) != A(n.id) or R(c) != R(n.id):
                    reject('query-ortho', '%s: sub-state %d of orthogonal region %d: isActive=%d isResumable=%d, '
                           'the region itself: %d %d' % (where, c, n.id, A(c), R(c), A(n.id), R(n.id)))
        if n.kind == 'C':
            res = [c for c in n.subs if R(c)]
            act = [c for c in n.subs if A(c)]
            if len(res) > 1:
                reject('query-resumable', '%s: region %d has %d resumable sub-states' % (where, n.id, len(res)))
            if len(act) > 1:
                reject('query-substate', '%s: region %d has %d active sub-states' % (where, n.id, len(act)))
            s = subs[n.id] if n.id < len(subs) else None
            if act:
                if s is None or s >= len(n.subs) or n.subs[s] != act[0]:
                    reject('query-substate', '%s: activeSubState(%d)=%r but isActive names sub-state %d'
                           % (where, n.id, s, n.subs.index(act[0])))
            elif s is not None:
                reject('query-substate', '%s: activeSubState(%d)=%r although no sub-state is active' % (where, n.id, s))


def silently_vetoed(tree, req, round_guards, op_events, before, after):
    """The single, uncancelled guard round of this operation was refused by the library itself
    (KF-C04-silent-veto / KF-C02-ortho-root-dropped): see C in the header.  Observations and structure only."""
    _, kind, dest, _ = req
    if kind == 'H' or dest >= len(tree) or tree[0].kind != 'O' or nearest_compo(tree, dest) is not None:
        return False                # the known cause needs a destination that marks no orthogonal request bit
    if not any(n.kind == 'L' and nearest_compo(tree, n.id) is None for n in tree):
        return False                # no plain state the forward exit-guard walk could stumble over
    if not round_guards or any(e[2] != 'exitGuard' for e in round_guards):
        return False                # the veto is the answer of the exit-guard walk: entry guards never start
    if any(e[0] == 'cb' and e[2] in ('enter', 'exit', 'reenter') for e in op_events):
        return False                # something was committed
    if before is None or after is None:
        return False
    # (R= may move: a guard of the refused round may have issued `schedule`, which is applied afterwards)
    return all(before.get(k) == after.get(k) for k in ('A', 'S'))


def classify(tree, sid, q, pe, px, pc, entered, exited, active_before, sub_before, sub_after):
    """signature of a disagreement of query q ('enter' | 'exit' | 'change') for state sid, or None if unknown.
    Uses only observations: enter/exit callbacks of the operation, isActive before, activeSubState of the
    nearest composite ancestor region C before and after."""
    nc = nearest_compo(tree, sid)
    was_active = bool(active_before >> sid & 1)
    ent, ext = sid in entered, sid in exited
    if nc is None:
        if (ent or ext) and not (pe or px or pc):
            return 'enter-root' if ent else 'exit-root'
        return None
    C, k = nc
    c_active = bool(active_before >> C & 1)
    c_entered = C in entered if tree[C].headed else (not c_active and sub_after[C] is not None)
    c_exited = C in exited if tree[C].headed else (c_active and sub_after[C] is None)
    # did C itself switch / restart a sub-state?  (its direct sub-states' heads entered or exited, or its
    # active sub-state index changed)
    c_changed = sub_before[C] != sub_after[C] or any(c in entered or c in exited for c in tree[C].subs)
    if ent and ext:
        if not pe and not px and not pc:
            return 'restart-in-place'
        return None
    if q == 'exit':
        if px and not ext and was_active and not c_changed:
            return 'exit-idle'
        if ext and not px and c_exited:
            return 'exit-deep'
    if q == 'enter':
        if pe and not ent and not c_entered and (not c_active or c_exited):
            return 'enter-loser'
    if q == 'change':
        if pc and not ent and not ext:
            if c_active and not c_changed and not c_exited:
                return 'change-idle'
            if not c_active and not c_entered:
                return 'change-loser'
            return 'change-sibling'
        if ext and not ent and not pc and c_exited:
            return 'exit-deep'
    return None


def judge(hdr, ops, tree, config, rejections, stats):
    import oracles as O
    rej = rejections.setdefault(PID, [])
    last = {}          # inst -> last snap
    prev_queue = {}

    for idx, op in enumerate(ops):
        def reject(tag, what, idx=idx):
            rej.append(dict(tag=tag, what=what, replay=O.replay_text(hdr, ops, idx)))

        # A. masks inside callbacks and in the snapshot
        for e in op.events:
            if e[0] == 'cb' and e[4] != '-':
                obs = O.parse_obs(e[4])
                if obs is not None:
                    check_masks(tree, obs['a'], obs['r'], obs['s'], 'inside %s of state %s' % (e[2], e[1]), reject, stats)
        if op.snap is not None:
            sn = op.snap
            check_masks(tree, int(sn['A'], 16), int(sn['R'], 16), O.parse_subs(sn['S']), 'after `%s`' % op.name, reject, stats)

        # rounds of this operation
        guards = [e for e in op.events if e[0] == 'cb' and e[2] in ('entryGuard', 'exitGuard')]
        rounds = []
        for e in guards:
            key = (e[5], e[6])
            if not rounds or rounds[-1][0] != key:
                rounds.append((key, []))
            rounds[-1][1].append(e)
        cancelled = any('X' in e[7].split(';') for e in guards)
        single = len(rounds) == 1 and not cancelled and op.name not in ('new', 'enter', 'reset', 'load', 'replay')
        if single:
            pend = O.parse_list(rounds[0][0][0])
            curr = O.parse_list(rounds[0][0][1])
            single = len(pend) == 1 and len(curr) == 0
        # B. resume outcome: a lone resume(d) of a composite region, processed in this operation
        lone = None
        if single:
            o, kind, dest, _ = pend[0]
            if kind == 'M':
                lone = dest
        elif not guards and op.name == 'imm' and op.args and op.args[0] == 'M' and prev_queue.get(op.inst) == '[]':
            lone = int(op.args[1])          # no guard ran: nothing changed (or the request was dropped)
        if lone is not None and tree[lone].kind == 'C' and op.snap is not None and op.inst in last \
                and not any(e[0] == 'cb' and any(a.startswith('Q') for a in e[7].split(';')) for e in op.events):
            before = last[op.inst]
            rmask = int(before['R'], 16)
            want = 0
            for j, c in enumerate(tree[lone].subs):
                if rmask >> c & 1:
                    want = j
            got = O.parse_subs(op.snap['S'])[lone]
            stats.inc('checks_' + PID)
            stats.inc('c13_resume_outcomes')
            if got != want:
                if nearest_compo(tree, lone) is None and lone != 0 and not guards:
                    tag = 'ortho-only-ancestry'
                    what = ('resume(%d) of a region without composite ancestor was dropped: sub-state %d was resumable, '
                            'activeSubState(%d) stays %r and no callback ran' % (lone, want, lone, got))
                else:
                    tag = 'resume-outcome'
                    what = ('resume(%d): sub-state %d was resumable before, activeSubState(%d) is %r afterwards'
                            % (lone, want, lone, got))
                reject(tag, what)
        if guards:
            stats.inc('c13_ops_with_guards')
        if single and silently_vetoed(tree, pend[0], rounds[0][1], op.events, last.get(op.inst), op.snap):
            stats.inc('c13_silent_veto_rounds')       # refused by the library, no guard cancelled: no outcome
        elif single:
            stats.inc('c13_single_rounds')
            entered = set(int(e[1]) for e in op.events if e[0] == 'cb' and e[2] == 'enter')
            exited = set(int(e[1]) for e in op.events if e[0] == 'cb' and e[2] == 'exit')
            # C. pending masks of every guard callback of the round
            sub_after = O.parse_subs(op.snap['S']) if op.snap is not None else None
            for e in rounds[0][1]:
                if sub_after is None:
                    break
                obs = O.parse_obs(e[4])
                if obs is None or 'p' not in obs:
                    continue
                pe, px, pc = obs['p']
                for n in tree:
                    if not n.headed:
                        continue                      # an anonymous head has no callbacks: its fate is not observed
                    s = n.id
                    ent, ext = s in entered, s in exited
                    for q, said, did in (('enter', bool(pe >> s & 1), ent), ('exit', bool(px >> s & 1), ext),
                                         ('change', bool(pc >> s & 1), ent or ext)):
                        stats.inc('checks_' + PID)
                        if said == did:
                            continue
                        sig = classify(tree, s, q, bool(pe >> s & 1), bool(px >> s & 1), bool(pc >> s & 1),
                                       entered, exited, obs['a'], obs['s'], sub_after)
                        if sig is not None:
                            stats.inc('c13_kf_' + sig)
                            continue
                        nc = nearest_compo(tree, s)
                        reject('pending-' + q, 'guard of state %s, request %s: isPending%s(%d)=%d but the state was%s %s '
                               '(entered=%d exited=%d; nearest composite ancestor %s; active before=%d)'
                               % (e[1], rounds[0][0][0], q.capitalize(), s, said, '' if did else ' not',
                                  'entered/exited' if q == 'change' else q + 'ed' if q == 'enter' else 'exited',
                                  ent, ext, nc, obs['a'] >> s & 1))
                break          # the registry does not change during a round: one guard callback is enough
        if op.snap is not None:
            last[op.inst] = op.snap
            prev_queue[op.inst] = op.snap.get('Q')


def main(argv):
    import oracles as O
    import shapes as S
    import collections
    path = argv[1]
    stats, rejections = O.Stats(), {}
    for hdr, ops in O.scenarios(path):
        tree = O.build_tree(S.parse(hdr['shape']))
        judge(hdr, ops, tree, hdr.get('config', {}), rejections, stats)
    print({k: v for k, v in stats.as_dict().items() if k.startswith('c13') or k == 'checks_C13'})
    print('tags:', dict(collections.Counter(r['tag'] for r in rejections.get(PID, []))))
    for r in rejections.get(PID, [])[:int(argv[2]) if len(argv) > 2 else 5]:
        print('REJECT', r['tag'], r['what'])
        if len(argv) > 3:
            print(r['replay'])
    print('rejections:', len(rejections.get(PID, [])))


if __name__ == '__main__':
    main(sys.argv)
