#!/usr/bin/env python3
"""seeded_table.py: markdown table of the seeded defects under /verif/seeded (for DESIGN.md §8b)."""
import json, glob
print('| seeded change | property | needs, to manifest | caught by (found = concrete failing input, nfi = broken correspondence, no-failing-input-found) |')
print('|---|---|---|---|')
for f in sorted(glob.glob('/verif/seeded/*/meta.json')):
    m = json.load(open(f))
    kinds = m.get('detection_kind') or {}
    det = ', '.join('%s%s' % (c, (' (%s)' % kinds[c]) if c in kinds else '') for c in (m.get('detected_by') or [])) or '—'
    print('| `%s` | %s | %s | %s |' % (m['id'], m['property'], m.get('needs', '').replace('|', '/'), det))
