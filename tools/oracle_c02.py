#!/usr/bin/env python3
"""C02 oracle — "processing requests yields exactly the configuration the rules prescribe".

Independent implementation (no model involved) of the declarative specification of
lean/Hfsm/Proofs/C02Spec.lean, evaluated on what the *implementation* reported:

    configuration reported by the `snap` line after an operation
        ==  spec(configuration reported by the previous `snap` line of that instance, request)

Also judged: `update`/`react` with an empty queue during which no request is issued at all (no `log T`
record): the configuration must not change (C02_noop); `imm H` (immediate schedule) on an empty queue:
only the direct parent region, if composite, remembers the prong, and no callback runs (C02_schedule).

The main check, for every `imm` operation (immediateChangeTo / Restart / Resume / Select) that
  * ran on an activated instance with an empty request queue (previous `snap`: root active, Q=[]),
  * had no guard callback cancel (`X`) and no callback issue a further request (`Q…` action tokens),
  * left the queue empty,
  * is answer-free or answered by `select()` only: kinds R, M anywhere; C over composite / resumable
    / selectable regions; S with the `RS:<i>` answers of the `select` callbacks of this operation.
    (utilitarian / random resolution is C12's subject and skipped here.)

A configuration is, per composite region, its active sub-state (`S=` field, `activeSubState`) and its
resumable sub-state (the direct sub-state whose `isResumable` bit is set in `R=`).

The specification (see the Lean file for the prose):
  choose    a sub-tree entered fresh: every composite region picks by kind (restart 0; resume the
            resumable one else 0; select the head's answer; change by declared strategy), orthogonal
            regions enter every sub-state; entering the resumable sub-state clears the mark
  exited    a sub-tree that is left: each active composite region records the sub-state it leaves
  retarget  an active sub-tree re-targeted in place: pick == active -> recurse, else switch
  enterPath an inactive sub-tree entered along the path: regions on the path take the path's prong
  spec      walk the active configuration along the path; first composite region whose active prong
            differs switches; otherwise the active prong of the destination's lowest composite ancestor is
            re-targeted as a whole (reading R2: orthogonal siblings of the destination inside that prong
            are re-targeted too — this is what `deepForwardRequest`/`deepReenter` of `O_` do)

Known finding classified here (tag `KF-C02-ortho-only-ancestry`): a destination whose ancestors are all
orthogonal regions gets no mark from `requestImmediate`; the request is dropped (nothing changes),
although the rules prescribe re-targeting the destination region.

Second known finding of the same family (tag `KF-C02-ortho-root-dropped`): a request addressed to an
orthogonal ROOT that has a plain state reachable through orthogonal regions only: the resolution marks
every composite region below the root, but `deepForwardExitGuard` walks the unmarked orthogonal
sub-states down to a plain state, which answers `false`: the round is dropped without any guard
callback having cancelled it.

Usage as a script:  oracle_c02.py <transcript> [max-rejections-to-print] [with-replay]
"""
from __future__ import annotations
import sys, os

PID = 'C02'
KF_ORTHO = 'KF-C02-ortho-only-ancestry'
KF_ROOT = 'KF-C02-ortho-root-dropped'


class Skip(Exception):
    pass


# ---------------------------------------------------------------------------------------------------
# configuration <-> snapshot

def config_of_snap(tree, snap, parse_subs):
    """({region id: active prong|None}, {region id: resumable prong|None}) of the composite regions."""
    subs = parse_subs(snap['S'])
    rmask = int(snap['R'], 16)
    act, res = {}, {}
    for n in tree:
        if n.kind != 'C':
            continue
        a = subs[n.id]
        act[n.id] = a if a is not None and a < len(n.subs) else (None if a is None else a)
        r = [j for j, c in enumerate(n.subs) if rmask >> c & 1]
        if len(r) > 1:
            raise Skip('two resumable sub-states reported for region %d' % n.id)   # C13's subject
        res[n.id] = r[0] if r else None
    return act, res


def path_to(tree, dest):
    """nodes from the root down to dest (inclusive)"""
    p = []
    n = tree[dest]
    while n is not None:
        p.append(n)
        n = tree[n.parent] if n.parent is not None else None
    return p[::-1]


# ---------------------------------------------------------------------------------------------------
# the specification, on mutable dicts (act, res)

class Spec:
    def __init__(self, tree, kind, answers):
        self.tree, self.kind, self.answers = tree, kind, answers

    def pick(self, n, res):
        k = self.kind
        if k == 'C':
            k = {'composite': 'R', 'resumable': 'M', 'selectable': 'S', 'utilitarian': 'U', 'random': 'Z'}[n.strategy]
        if k == 'R':
            return 0
        if k == 'M':
            return res[n.id] if res[n.id] is not None else 0
        if k == 'S':
            if n.id not in self.answers:
                raise Skip('select() of region %d was not asked' % n.id)
            i = self.answers[n.id]
            if i >= len(n.subs):
                raise Skip('select() answer out of range')
            return i
        raise Skip('utility / random resolution (C12)')

    def choose(self, n, act, res):
        if n.kind == 'L':
            return
        if n.kind == 'O':
            for c in n.subs:
                self.choose(self.tree[c], act, res)
            return
        i = self.pick(n, res)
        act[n.id] = i
        if res[n.id] == i:
            res[n.id] = None
        self.choose(self.tree[n.subs[i]], act, res)

    def exited(self, n, act, res):
        if n.kind == 'L':
            return
        if n.kind == 'O':
            for c in n.subs:
                self.exited(self.tree[c], act, res)
            return
        a = act[n.id]
        if a is None:
            return
        act[n.id] = None
        res[n.id] = a
        self.exited(self.tree[n.subs[a]], act, res)

    def retarget(self, n, act, res):
        if n.kind == 'L':
            return
        if n.kind == 'O':
            for c in n.subs:
                self.retarget(self.tree[c], act, res)
            return
        a = act[n.id]
        if a is None:
            raise Skip('re-target of an inactive region (malformed snapshot, C01)')
        i = self.pick(n, res)
        if i == a:
            self.retarget(self.tree[n.subs[a]], act, res)
        else:
            self.exited(self.tree[n.subs[a]], act, res)
            act[n.id] = i
            res[n.id] = a
            self.choose(self.tree[n.subs[i]], act, res)

    def enter_path(self, path, k, act, res):
        """enter path[k] (inactive) on the way to path[-1]"""
        n = path[k]
        if k == len(path) - 1:
            self.choose(n, act, res)
            return
        nxt = path[k + 1]
        if n.kind == 'C':
            i = nxt.prong
            act[n.id] = i
            if res[n.id] == i:
                res[n.id] = None
            self.enter_path(path, k + 1, act, res)
        else:
            for c in n.subs:
                if c == nxt.id:
                    self.enter_path(path, k + 1, act, res)
                else:
                    self.choose(self.tree[c], act, res)

    @staticmethod
    def has_compo(path, k):
        """is there a composite region among path[k .. -2] (strictly above the destination)?"""
        return any(n.kind == 'C' for n in path[k:-1])

    def spec(self, path, k, act, res):
        n = path[k]
        if k == len(path) - 1:
            self.retarget(n, act, res)
            return
        nxt = path[k + 1]
        if n.kind == 'O':
            self.spec(path, k + 1, act, res)
            return
        a = act[n.id]
        if a is None:
            raise Skip('inactive region on the active path (malformed snapshot, C01)')
        i = nxt.prong
        if a == i:
            if self.has_compo(path, k + 1):
                self.spec(path, k + 1, act, res)
            else:
                self.retarget(nxt, act, res)          # the unit: the whole active prong
        else:
            self.exited(self.tree[n.subs[a]], act, res)
            act[n.id] = i
            res[n.id] = a
            self.enter_path(path, k + 1, act, res)


def expected(tree, act, res, kind, dest, answers):
    act, res = dict(act), dict(res)
    path = path_to(tree, dest)
    Spec(tree, kind, answers).spec(path, 0, act, res)
    return act, res


# ---------------------------------------------------------------------------------------------------

def ortho_leaf(tree, n):
    """is a plain state reachable from n through orthogonal regions only?"""
    if n.kind == 'L':
        return True
    if n.kind == 'C':
        return False
    return any(ortho_leaf(tree, tree[c]) for c in n.subs)


def actions_of(e):
    """action tokens of a `cb` line"""
    return e[7].split(';') if len(e) > 7 and e[7] != '.' else []


def show(tree, act, res):
    return ' '.join('%d:%s%s' % (i, '-' if act[i] is None else act[i], '' if res[i] is None else '/r%d' % res[i])
                    for i in sorted(act))


def judge(hdr, ops, tree, config, rejections, stats):
    import oracles as O
    rej = rejections.setdefault(PID, [])
    last = {}
    for idx, op in enumerate(ops):
        try:
            if op.snap is None or op.inst not in last:
                continue
            before, after = last[op.inst], op.snap
            # C02_noop: a step with nothing queued and no request issued anywhere changes nothing
            issued = any(e[0] == 'log' and e[1] == 'T' for e in op.events) or \
                any(e[0] == 'cb' and any(a.startswith('Q') for a in actions_of(e)) for e in op.events)
            # without a logger the plan executor's requests are invisible: judge only plan-free steps then
            # (a plan that existed before the step, or one a callback of this very step appended to)
            blind = str(hdr.get('config', {}).get('log', '1')) == '0' and (
                before.get('PL', '').strip('|') != '' or
                any(e[0] == 'cb' and any(a.startswith('PA') for a in actions_of(e)) for e in op.events))
            if op.name in ('update', 'react') and int(before['A'], 16) & 1 and before.get('Q') == '[]' \
                    and not issued and not blind:
                stats.inc('checks_' + PID)
                stats.inc('c02_judged_noop')
                if (before['A'], before['R'], before['S']) != (after['A'], after['R'], after['S']):
                    rej.append(dict(tag='noop', what='`%s` with an empty queue and no request issued changed the '
                                    'configuration: A=%s R=%s S=%s -> A=%s R=%s S=%s'
                                    % (op.name, before['A'], before['R'], before['S'], after['A'], after['R'], after['S']),
                                    replay=O.replay_text(hdr, ops, idx)))
                continue
            if op.name != 'imm':
                continue
            stats.inc('c02_imm_ops')
            kind, dest = op.args[0], int(op.args[1])
            # C02_schedule: only the direct parent, if composite, remembers the prong; nothing runs
            if kind == 'H' and int(before['A'], 16) & 1 and before.get('Q') == '[]' and 0 < dest < len(tree):
                act0, res0 = config_of_snap(tree, before, O.parse_subs)
                act1, res1 = config_of_snap(tree, after, O.parse_subs)
                par = tree[tree[dest].parent]
                want_r = dict(res0)
                if par.kind == 'C':
                    want_r[par.id] = tree[dest].prong
                stats.inc('checks_' + PID)
                stats.inc('c02_judged_H')
                if (act1, res1) != (act0, want_r) or any(e[0] == 'cb' for e in op.events):
                    rej.append(dict(tag='schedule', what='schedule(%d): prescribed %s, reported %s, callbacks run: %d'
                                    % (dest, show(tree, act0, want_r), show(tree, act1, res1),
                                       sum(1 for e in op.events if e[0] == 'cb')),
                                    replay=O.replay_text(hdr, ops, idx)))
                continue
            if kind not in 'CRMS':
                raise Skip('kind')
            if not (int(before['A'], 16) & 1):
                raise Skip('inactive instance')
            if before.get('Q') != '[]' or after.get('Q') != '[]':
                raise Skip('queue not empty')
            if dest >= len(tree):
                raise Skip('unknown destination')
            cbs = [e for e in op.events if e[0] == 'cb']
            toks = [a for e in cbs for a in actions_of(e)]
            if any(a == 'X' for a in toks):
                raise Skip('vetoed')
            if any(a.startswith('Q') for a in toks):
                raise Skip('requests from callbacks')
            answers = {}
            for e in cbs:
                if e[2] == 'select':
                    for a in actions_of(e):
                        if a.startswith('RS:'):
                            answers[int(e[1])] = int(a[3:])
            act0, res0 = config_of_snap(tree, before, O.parse_subs)
            act1, res1 = config_of_snap(tree, after, O.parse_subs)
            want_a, want_r = expected(tree, act0, res0, kind, dest, answers)
            stats.inc('checks_' + PID)
            stats.inc('c02_judged_' + kind)
            if (want_a, want_r) == (act1, res1):
                if (act1, res1) != (act0, res0):
                    stats.inc('c02_judged_changing')
                continue
            path = path_to(tree, dest)
            ortho_only = len(path) > 1 and not Spec.has_compo(path, 0)
            bad = [i for i in sorted(act0) if (want_a[i], want_r[i]) != (act1[i], res1[i])]
            what = ('%s(%d) [kind %s]: region %d should end with active=%s resumable=%s, the implementation reports '
                    'active=%s resumable=%s; before: %s; prescribed: %s; reported: %s'
                    % ({'C': 'changeTo', 'R': 'restart', 'M': 'resume', 'S': 'select'}[kind], dest, kind, bad[0],
                       want_a[bad[0]], want_r[bad[0]], act1[bad[0]], res1[bad[0]],
                       show(tree, act0, res0), show(tree, want_a, want_r), show(tree, act1, res1)))
            if ortho_only and (act1, res1) == (act0, res0):
                stats.inc('c02_kf_ortho_only')
                rej.append(dict(tag=KF_ORTHO, what='request to a state with only orthogonal ancestors is dropped: ' + what,
                                replay=O.replay_text(hdr, ops, idx)))
            elif dest == 0 and tree[0].kind == 'O' and ortho_leaf(tree, tree[0]) and (act1, res1) == (act0, res0):
                stats.inc('c02_kf_ortho_root')
                rej.append(dict(tag=KF_ROOT, what='request to an orthogonal root with a plain state below orthogonal '
                                'regions only is dropped: ' + what, replay=O.replay_text(hdr, ops, idx)))
            else:
                rej.append(dict(tag='config', what=what, replay=O.replay_text(hdr, ops, idx)))
        except Skip as s:
            stats.inc('c02_skip_' + str(s).split(' (')[0].replace(' ', '_')[:40])
        finally:
            if op.snap is not None:
                last[op.inst] = op.snap


def main(argv):
    here = os.path.dirname(os.path.abspath(__file__))
    for d in (here, os.path.join(here, '..', 'gen'), '/verif/tools', '/verif/gen'):
        if d not in sys.path:
            sys.path.insert(0, d)
    import oracles as O
    import shapes as S
    import collections
    stats, rejections = O.Stats(), {}
    for hdr, ops in O.scenarios(argv[1]):
        tree = O.build_tree(S.parse(hdr['shape']))
        judge(hdr, ops, tree, hdr.get('config', {}), rejections, stats)
    print({k: v for k, v in stats.as_dict().items() if k.startswith('c02') or k == 'checks_C02'})
    print('tags:', dict(collections.Counter(r['tag'] for r in rejections.get(PID, []))))
    for r in rejections.get(PID, [])[:int(argv[2]) if len(argv) > 2 else 5]:
        print('REJECT', r['tag'], r['what'])
        if len(argv) > 3:
            print(r['replay'])
    print('rejections:', len(rejections.get(PID, [])))


if __name__ == '__main__':
    main(sys.argv)
