#!/usr/bin/env python3
"""Whole-machine correspondence engine (DESIGN §5): generated programs against the current /repo
header, transcripts replayed through the Lean model, per-property oracles on the implementation's
own observations.  One run serves all machine-level properties; its result is cached under the
content hash of (library sources, harness, generator, model, tier, seed)."""
from __future__ import annotations
import os, sys, re, json, time, subprocess, concurrent.futures as cf
import vlib as V
sys.path.insert(0, V.GEN)
import shapes as S
import emit_mach as E
import oracles as O

MACH_PROPS = ['C01', 'C02', 'C03', 'C04', 'C05', 'C06', 'C08', 'C09', 'C10', 'C11', 'C12', 'C13', 'C14', 'C15', 'C16']

# which classes of model/implementation divergence untie which property (see classify())
RELEVANCE = {
    'log':        {'C16'},
    'attach':     {'C16'},      # any difference in the scenario that (de)attaches the logger in mid-run
    'snap:ST':    {'C16'},
    'snap:H':     {'C16'},
    'snap:PL':    {'C06', 'C14'},
    'snap:P':     {'C09', 'C14'},
    'snap:L':     {'C09', 'C14'},
    'snap:Q':     {'C02', 'C04', 'C06', 'C11', 'C14'},
    'snap:RQ':    {'C01', 'C02', 'C04'},
    'snap:RM':    {'C02', 'C04'},
    'snap:OB':    {'C01', 'C02', 'C04'},
    'snap:PX':    {'C06'},
    'snap:TS':    {'C06'},
    'snap:TF':    {'C06'},
    'snap:A':     {'C01', 'C02', 'C03', 'C05', 'C08', 'C09', 'C13'},
    'snap:S':     {'C01', 'C02', 'C13'},
    'snap:R':     {'C02', 'C08', 'C09', 'C13'},
    'order:tick': {'C05'},
    'order:guard': {'C04', 'C13', 'C02'},     # which guards are visited = which states the pending configuration exits/enters
    'order:life': {'C01', 'C02', 'C03', 'C04', 'C08', 'C09'},
    'order:util': {'C12', 'C02'},
    'order:plan': {'C06'},
    'obs':        {'C01', 'C13'},
    'obs:pend':   {'C13', 'C04', 'C02'},      # pending masks are read off the request marks the resolution left
    'lists':      {'C04', 'C09', 'C14'},
    'ret:save':   {'C08'},
    'ret:replay': {'C09'},
    'ret:planappend': {'C06'},
    'rng':        {'C12'},
    'other':      set(MACH_PROPS),
}

METHOD_CLASS = {
    'preUpdate': 'tick', 'update': 'tick', 'postUpdate': 'tick', 'preReact': 'tick', 'react': 'tick',
    'postReact': 'tick', 'query': 'tick', 'entryGuard': 'guard', 'exitGuard': 'guard', 'enter': 'life',
    'reenter': 'life', 'exit': 'life', 'select': 'util', 'rank': 'util', 'utility': 'util',
    'planSucceeded': 'plan', 'planFailed': 'plan',
}


def classify(msg):
    """Divergence classes of a driver DIVERGE message."""
    if msg.endswith(' [logger-sweep]'):
        return sorted(set(_classify(msg[:-len(' [logger-sweep]')]) + ['attach']))
    return _classify(msg)


def _classify(msg):
    m = re.search(r'event#\d+ expected\(model\)=(\S+) got\(impl\)=(\S+)', msg)
    if m:
        a, b = m.group(1).split('_'), m.group(2).split('_')
        if a[0] == 'log' or b[0] == 'log':
            if a[0] == b[0] == 'log' or '<nothing>' in (a[0], b[0]):
                kinds = {x[1] for x in (a, b) if x[0] == 'log' and len(x) > 1}
                extra = []
                if kinds & {'RU', 'RR', 'RS'}:
                    extra.append('order:util')       # a resolution record differs: the selection itself differs
                if kinds & {'K', 'P'}:
                    extra.append('order:plan')       # task / plan status records
                if kinds & {'T'}:
                    extra.append('lists')            # a request was (not) issued
                if kinds & {'X'}:
                    extra.append('order:guard')
                # method records (`log M <state> <method>`) that differ: the callback sequence itself differs
                for x in (a, b):
                    if x[0] == 'log' and len(x) > 3 and x[1] == 'M':
                        extra.append('order:' + METHOD_CLASS.get(x[3], 'life'))
                return ['log'] + sorted(set(extra))
            # a callback where a log record was expected (or vice versa): order of both streams
            other = a if a[0] == 'cb' else b
            return ['log', 'order:' + METHOD_CLASS.get(other[2] if len(other) > 2 else '', 'life')]
        if a[0] == 'cb' and b[0] == 'cb' and len(a) >= 7 and len(b) >= 7:
            if a[1:4] != b[1:4]:
                return sorted({'order:' + METHOD_CLASS.get(a[2], 'life'), 'order:' + METHOD_CLASS.get(b[2], 'life')})
            if a[4] != b[4]:
                pa, pb = a[4].split('/p:'), b[4].split('/p:')
                return ['obs'] if pa[0] != pb[0] else ['obs:pend']
            return ['lists']
        if '<nothing>' in (a[0], b[0]):
            other = a if a[0] != '<nothing>' else b
            if other[0] == 'log':
                return ['log']
            return ['order:' + METHOD_CLASS.get(other[2] if len(other) > 2 else '', 'life')]
        return ['other']
    m = re.search(r'snap (?:after=(\S*) )?expected\(model\)=(\S+) :: (.*)$', msg)
    if m:
        a = dict(f.split('=', 1) for f in m.group(2).split('_')[2:] if '=' in f)
        b = dict(f.split('=', 1) for f in m.group(3).split()[2:] if '=' in f)
        cls = sorted('snap:' + k for k in set(a) | set(b) if a.get(k) != b.get(k)) or ['other']
        # the state differs right after this operation: it unties the property that is about that operation too
        after = m.group(1) or ''
        if after in ('replay', 'replayenter'):
            cls.append('ret:replay')
        elif after in ('load', 'save'):
            cls.append('ret:save')
        return cls
    m = re.search(r'ret expected.* :: op \d+ (\w+)', msg)
    if m:
        return ['ret:' + m.group(1)] if 'ret:' + m.group(1) in RELEVANCE else ['other']
    if 'rng' in msg or 'generator stream' in msg:
        return ['rng']
    return ['other']


def tiers(tier, seed):
    """(shapes, configurations, scenarios, ops, sanitize)"""
    rng = S.SplitMix(seed * 2654435761 + 17)
    if tier == 'quick':
        nshapes, scen, ops, san = 9, 24, 45, False
        limits = dict(max_states=20, max_depth=4, max_width=6)
    else:
        nshapes, scen, ops, san = 120, 120, 70, True
        limits = dict(max_states=40, max_depth=6, max_width=10)
    pool = S.corpus() + [S.random_shape(rng, **limits) for _ in range(nshapes * 6)]
    jobs = []
    seen = set()

    def add(sh, cfg):
        if E.usable(sh, cfg):
            return False
        key = S.to_sexpr(sh) + json.dumps(cfg, sort_keys=True)
        if key in seen:
            return False
        seen.add(key)
        jobs.append((sh, cfg))
        return True

    # every run: the fixed shapes under the configurations that change control flow most
    variants = [dict(), dict(bottomup=1, manual=1), dict(log=2, limit=1, payload=2), dict(plans=0, bottomup=1, history=0),
                dict(bottomup=1, log=0, taskcap=1, payload=3), dict(plans=0, serial=0, struct=0, manual=1, log=2)]
    for sh in FIXED_SHAPES():
        for v in (variants if tier != 'quick' else variants[:4]):
            cfg = dict(E.DEFAULTS)
            cfg.update(v)
            add(sh, cfg)
    # shapes that matter for one mechanism only: fewer configurations
    for sh, vs in EXTRA_SHAPES():
        for v in vs:
            cfg = dict(E.DEFAULTS)
            cfg.update(v)
            add(sh, cfg)
    fixed = len(jobs)
    for sh in pool:
        cfg = dict(E.DEFAULTS)
        # vary the configuration with the shape (deterministic in seed)
        r = rng.below(1 << 30)
        cfg['bottomup'] = r & 1
        cfg['manual'] = (r >> 1) & 1
        cfg['limit'] = [1, 2, 4, 4][(r >> 2) & 3]
        cfg['log'] = [1, 1, 2, 0][(r >> 4) & 3]
        cfg['payload'] = [1, 1, 2, 3][(r >> 6) & 3]
        cfg['taskcap'] = [0, 0, 1, 3][(r >> 8) & 3]
        # optional features compiled out (1 in 8 each): the model follows the same switches
        if (r >> 10) & 7 == 0: cfg['plans'] = 0
        if (r >> 13) & 7 == 0: cfg['history'] = 0
        if (r >> 16) & 7 == 0: cfg['serial'] = 0
        if (r >> 19) & 7 == 0: cfg['struct'] = 0
        add(sh, cfg)
        if len(jobs) >= fixed + nshapes:
            break
    return jobs, scen, ops, san


def FIXED_SHAPES():
    """Shapes every run includes: small machines exercising each region kind and strategy."""
    P = S.parse
    return [
        P('(C h1 i0 composite (L i0) (C h1 i0 resumable (L i1) (L i0)) (O h1 i0 (C h1 i0 composite (L i0) (L i0)) (C h1 i0 utilitarian (L i0) (L i0))))'),
        P('(C h1 i0 composite (C h1 i0 selectable (L i0) (C h1 i0 composite (L i0) (L i0)) (L i0)) (C h1 i0 random (L i0) (L i0) (L i0) (L i0)) (L i2))'),
        P('(O h1 i0 (C h1 i0 resumable (L i0) (L i0) (L i0)) (C h1 i1 composite (L i0) (O h1 i0 (L i0) (L i0) (L i0))))'),
        # three nested composite regions (second-level ancestor climb of the general registry) whose outer one is
        # NOT initially active and starts with a region (resume/select fall back into a nested region), next to an
        # orthogonal region nested directly in an orthogonal region, and an anonymous resumable head
        P('(C h1 i0 composite (L i0) (C h1 i0 composite (C h1 i0 composite (L i0) (L i0)) (L i0)) '
          '(O h1 i0 (O h1 i0 (L i0) (L i0)) (C h0 i0 resumable (L i0) (L i0))))'),
    ]


def EXTRA_SHAPES():
    P = S.parse
    return [
        # orthogonal regions of exactly 8 sub-states (a whole unit of the request bits) followed / preceded by another
        # orthogonal region: unit arithmetic of BitArray views inside the registry
        # … and an orthogonal region whose LATER prong holds a nested composite region (a request of a batch must be
        # forwarded into every flagged prong, and resolved below it)
        # … an orthogonal region of 9 sub-states (two units) declared BEFORE another orthogonal region (unit offsets of later
        # regions: `orthoUnits[]`), the last one exactly 8 wide with a sub-region of its own
        (P('(C h1 i0 composite (L i0) (O h1 i0 (C h1 i0 composite (L i0) (L i0)) (C h1 i0 composite (L i0) (C h1 i0 composite (L i0) (L i0)))) '
           '(O h1 i0 (L i0) (L i0) (L i0) (L i0) (L i0) (L i0) (L i0) (L i0) (L i0)) '
           '(O h1 i0 (C h1 i0 composite (L i0) (L i0)) (L i0) (L i0) (L i0) (L i0) (L i0) (L i0) (L i0)))'),
         [dict(), dict(bottomup=1, manual=1, log=2)]),
        # utility regions nested in utility regions: a nested region's utility is its head's times that of the
        # sub-state it would activate, on the change / utilize / randomize paths, headed and anonymous
        # (the utilitarian region's FIRST candidate is a headed region: it wins an all-zero arg-max and must then still be
        # resolved inside — harness sweepZeroUtility)
        # the root is 5 wide with regions at a non-first position of its left half and in its right half (balanced-half
        # dispatch by prong in every wide* function), and a 4-wide Resumable region is a candidate of the utilitarian one
        (P('(C h1 i0 composite (L i0) (C h1 i0 utilitarian (C h1 i0 random (L i0) (L i0) (C h1 i0 utilitarian (L i0) (L i0))) (L i0) '
           '(C h1 i0 resumable (L i0) (L i0) (L i0) (L i0))) '
           '(C h1 i0 random (C h1 i0 utilitarian (L i0) (L i0)) (L i0) (C h0 i0 random (L i0) (L i0))) (L i0) (C h1 i0 composite (L i0) (L i0)))'),
         [dict(), dict(log=2, manual=1)]),
    ]


def _build(job):
    idx, text, flags, dev = job
    exe, err, dt, cached = V.build_cxx(None, flags, 'mach', dev=dev, src_text=text)
    return idx, exe, err, dt, cached


def _trim(rej, per_tag=6):
    """keep at most `per_tag` rejections per (property, tag): replay texts are large"""
    out = {}
    for prop, lst in rej.items():
        seen = {}
        for r in lst:
            t = r.get('tag', '')
            seen[t] = seen.get(t, 0) + 1
            if seen[t] <= per_tag:
                out.setdefault(prop, []).append(r)
            else:
                out.setdefault(prop + '#more', {}).setdefault(t, 0)
                out[prop + '#more'][t] += 1
    return out


def _tag_logger_sweep(path, msgs):
    """Mark the divergences that lie in the scenario in which the logger is detached / re-attached in mid-run
    (harness sweepLogger): whatever differs there unties C16 ("attaching a logger never changes behaviour")."""
    start = end = None
    try:
        scen_line = 0
        with open(path, 'r', errors='replace') as f:
            for k, line in enumerate(f, 1):
                if line.startswith('scenario '):
                    if start is not None and end is None:
                        end = k
                    scen_line = k
                elif start is None and ' attachlogger ' in line and line.startswith('op '):
                    start = scen_line
    except OSError:
        return msgs
    if start is None:
        return msgs
    out = []
    for m in msgs:
        g = re.search(r'line=(\d+)', m)
        if g and int(g.group(1)) >= start and (end is None or int(g.group(1)) < end):
            m = m + ' [logger-sweep]'
        out.append(m)
    return out


def _run(job):
    """Worker (own process): run one generated program, replay its transcript through the model, judge it."""
    idx, exe, seed, scen, ops, out, sweep, sexpr, cfg = job
    t0 = time.time()
    p = V.run_limited([exe, str(seed), str(scen), str(ops), str(sweep)], out, timeout=600 if scen <= 30 else 2400)
    st, err = p.returncode, p.stderr
    ok, n, msgs = (False, 0, ['harness failed']) if st != 0 else V.run_driver_all('mach', out, timeout=3000)
    if msgs and st == 0:
        msgs = _tag_logger_sweep(out, msgs)
    rej, asserts, oracle_err = {}, {}, None
    stats = O.Stats()
    try:
        O.judge_file(out, S.parse(sexpr), cfg, rej, stats, asserts)
    except Exception as e:       # an oracle bug must never masquerade as a pass
        import traceback
        oracle_err = '%r %s' % (e, traceback.format_exc()[-600:])
    return idx, st, err, ok, n, msgs, time.time() - t0, _trim(rej), stats.d, asserts, oracle_err


def full_run(tier, seed):
    """Run (or load from cache) the machine correspondence for this tree/tier/seed."""
    import glob as _glob
    oracle_files = [os.path.relpath(f, V.VERIF) for f in sorted(_glob.glob(os.path.join(V.VERIF, 'tools', 'oracle_c*.py')))]
    key = V.sha(V.tree_hash(), V.verif_hash('harness', 'gen', 'tools/oracles.py', 'tools/mach_engine.py', *oracle_files),
                V.verif_hash('lean/Hfsm/Model', 'lean/Hfsm/Drive', 'lean/Driver'), tier, str(seed))[:24]
    os.makedirs(V.CACHE, exist_ok=True)
    path = os.path.join(V.CACHE, 'mach_%s.json' % key)
    with V.Lock('mach_' + key):
        if os.path.exists(path):
            return json.load(open(path))
        V.lean_state()
        t0 = time.time()
        jobs, scen, ops, san = tiers(tier, seed)
        flags = V.SAN_FLAGS if san else V.FAST_FLAGS
        result = dict(tier=tier, seed=seed, programs=[], divergences=[], rejections={}, stats={}, broken=[], asserts={})
        texts = [(i, E.emit(sh, cfg), flags, bool(cfg.get('dev'))) for i, (sh, cfg) in enumerate(jobs)]
        with cf.ThreadPoolExecutor(max_workers=V.JOBS) as ex:
            built = list(ex.map(_build, texts))
        trdir = os.path.join(V.CACHE, 'tr_mach_%s' % key)
        os.makedirs(trdir, exist_ok=True)
        runs = []
        for idx, exe, err, dt, cached in built:
            sh, cfg = jobs[idx]
            prog = dict(shape=S.to_sexpr(sh), config=cfg, build_s=round(dt, 1), cached=cached)
            result['programs'].append(prog)
            if exe is None:
                result['broken'].append('generated program %d does not compile against the current header (shape %s): %s'
                                        % (idx, prog['shape'], err[-1200:]))
                prog['built'] = False
                continue
            prog['built'] = True
            prog['exe'] = exe
            runs.append((idx, exe, seed, scen, ops, os.path.join(trdir, 't%03d.txt' % idx), 600 if tier == 'quick' else 3000,
                         prog['shape'], cfg))
        with cf.ProcessPoolExecutor(max_workers=V.JOBS) as ex:
            done = list(ex.map(_run, runs))
        stats = O.Stats()
        for (idx, st, err, ok, n, msgs, dt, rej, sd, asserts, oracle_err), job in zip(done, runs):
            prog = result['programs'][idx]
            prog.update(status=st, replay_ok=ok, lines=n, run_s=round(dt, 1))
            if st != 0:
                result['rejections'].setdefault('C11', []).append(dict(
                    tag='crash', what='harness process died with status %d on shape %s: %s' % (st, prog['shape'], err[-600:]),
                    replay='shape %s\nconfig %s\nargs %d %d %d\n%s' % (prog['shape'], json.dumps(prog['config']), seed, scen, ops, err)))
            elif not ok:
                # one record per diverging scenario (scenarios are independent), at most 12 per program
                for msg in msgs[:12]:
                    result['divergences'].append(dict(program=idx, shape=prog['shape'], config=prog['config'],
                                                      message=msg[:2500], classes=classify(msg)))
            # oracles on the implementation's own observations (judged in the worker)
            if oracle_err:
                result['broken'].append('oracle crashed on program %d: %s' % (idx, oracle_err))
            for prop, lst in rej.items():
                if prop.endswith('#more'):
                    continue
                result['rejections'].setdefault(prop, []).extend(lst)
            for k, v in sd.items():
                stats.inc(k, v)
            for k, v in asserts.items():
                result['asserts'][k] = result['asserts'].get(k, 0) + v
        result['stats'] = stats.as_dict()
        result['wall_s'] = round(time.time() - t0, 1)
        # keep transcripts only for diverging programs (replay material)
        for job in runs:
            idx = job[0]
            if result['programs'][idx].get('replay_ok'):
                try:
                    os.remove(job[5])
                except OSError:
                    pass
            else:
                result['programs'][idx]['transcript'] = job[5]
        json.dump(result, open(path + '.tmp', 'w'))
        os.replace(path + '.tmp', path)
        return result


def search(pid, full, seed):
    """A proof obligation or the correspondence broke but no oracle of `pid` rejected anything yet:
    look harder for a concrete failing history — more seeds and longer scenarios on the programs whose
    transcripts diverged (or on all programs when the break is on the Lean side)."""
    seen_p, progs = set(), []
    for d in full['divergences']:
        if d['program'] not in seen_p:
            seen_p.add(d['program'])
            progs.append(full['programs'][d['program']])
    progs = progs or full['programs']
    progs = [p for p in progs if p.get('built') and p.get('exe') and os.path.exists(p['exe'])][:4]
    found, tried = [], 0
    stats = O.Stats()
    trdir = os.path.join(V.CACHE, 'search_%d' % os.getpid())
    os.makedirs(trdir, exist_ok=True)
    for k, p in enumerate(progs):
        for extra in range(1, 5):
            out = os.path.join(trdir, 's%d_%d.txt' % (k, extra))
            V.run_limited([p['exe'], str(seed * 1000 + extra), '60', '80'], out, timeout=600)
            rej = {}
            try:
                O.judge_file(out, S.parse(p['shape']), p['config'], rej, stats, {})
            except Exception:
                pass
            tried += 1
            os.remove(out)
            found += rej.get(pid, [])
            if found:
                break
        if found:
            break
    try:
        os.rmdir(trdir)
    except OSError:
        pass
    return found, 'searched %d extra transcripts (%d operations) of %d programs with the oracle of %s' % (
        tried, stats.d.get('ops', 0), len(progs), pid)


def _excerpt(full, d, before=45, after=2):
    """The history that leads to a divergence: the transcript lines before it (the run keeps the transcripts of
    diverging programs), so that the replay file is a concrete input on which model and code differ."""
    try:
        m = re.search(r'line=(\d+)', d['message'])
        tr = full['programs'][d['program']].get('transcript')
        if not m or not tr or not os.path.exists(tr):
            return ''
        n = int(m.group(1))
        out, scen = [], None
        with open(tr, errors='replace') as f:
            for k, line in enumerate(f, 1):
                if line.startswith('scenario '):
                    scen = line.strip()
                if k > n + after:
                    break
                if k >= n - before:
                    out.append(line.rstrip('\n')[:400])
        args = '%d <scenarios> <ops> <sweep>' % full.get('seed', 1)
        return ('\n      history (transcript of the real library, %s, harness arguments %s; the model differs at the last lines):\n        '
                % (scen or '?', args)) + '\n        '.join(out)
    except Exception as e:
        return ' [no excerpt: %r]' % (e,)


def finding_matches(known, rej):
    sig = known.get('signature', {})
    if 'tag' in sig and sig['tag'] != rej.get('tag'):
        return False
    if 'regex_tag' in sig and not re.search(sig['regex_tag'], rej.get('tag', '')):
        return False
    if 'contains' in sig and sig['contains'] not in rej.get('what', ''):
        return False
    if 'regex' in sig and not re.search(sig['regex'], rej.get('what', '')):
        return False
    return bool(sig)


def run(pid, tier, seed):
    full = full_run(tier, seed)
    res = dict(rejections=[], broken=[], coverage={}, assumptions=[
        'model/implementation agreement is established for the generated programs of this run only',
        'user callbacks are arbitrary decision streams in the theorems; in the harness they are seeded random scripts'])
    res['broken'] += full['broken']
    FEATURE_KEYS = ('plans', 'serial', 'history', 'util', 'struct', 'log', 'payload', 'limit', 'taskcap', 'dev')

    def featured(cfg):
        return [k for k in FEATURE_KEYS if int(cfg.get(k, E.DEFAULTS[k])) != E.DEFAULTS[k]]
    base_diverges = any(not featured(d['config']) for d in full['divergences'])
    for d in full['divergences']:
        classes = d['classes']
        hit = set()
        for c in classes:
            hit |= RELEVANCE.get(c, set(MACH_PROPS))
        # C15: the model and the code disagree only when an optional feature is switched away from its default
        # while every all-default program of this run still agrees: the switch changed unrelated behaviour
        if featured(d['config']) and not base_diverges:
            hit.add('C15')
        if pid in hit:
            res['broken'].append('correspondence (classes %s) on shape %s config %s: %s%s' % (
                ','.join(classes), d['shape'], json.dumps(d['config'], sort_keys=True), d['message'][:900],
                _excerpt(full, d)))
    # at most three examples per distinct kind of rejection
    seen = {}
    for r in full['rejections'].get(pid, []):
        k = re.sub(r'\d+', '#', r.get('what', ''))[:120]
        seen[k] = seen.get(k, 0) + 1
        if seen[k] <= 3:
            res['rejections'].append(r)
    res['rejections'] = res['rejections'][:60]
    progs = [p for p in full['programs'] if p.get('built')]
    lines = sum(p.get('lines', 0) for p in progs)
    st = full['stats']
    res['coverage'] = dict(
        programs=len(progs), traces_validated_against_impl=len([p for p in progs if p.get('replay_ok')]),
        evaluations=st.get('ops', 0), distinct_nontrivial=st.get('ops_with_transition', 0),
        rule='evaluation = one API operation on a generated machine (shape x configuration) with seeded scripted callbacks, '
             'replayed through the model and judged by the oracle of this property; non-trivial = the operation changed '
             'the active configuration or ran guards (counted by the oracle from the transcript)',
        transcript_lines=lines, distribution=st, oracle_checks=st.get('checks_' + pid, 0),
        samples=[dict(shape=p['shape'], config=p['config'], lines=p.get('lines', 0)) for p in progs[:3]] or ['none'],
        run_wall_s=full.get('wall_s'))
    res['summary'] = 'programs=%d ops=%d oracle_checks=%d' % (len(progs), st.get('ops', 0), st.get('checks_' + pid, 0))
    res['search_note'] = ('oracle of %s evaluated on %d operations over %d generated programs' %
                          (pid, st.get('ops', 0), len(progs)))
    res['full'] = full
    return res
