#!/usr/bin/env python3
"""C14 oracle — payloads reach the states they activate unchanged.

Judged on the implementation's own transcript only.  Every transition the implementation shows —
`pendingTransitions` / `currentTransitions` inside guard and lifecycle callbacks, the request queue `Q`,
`previousTransitions` `P` of the snap lines — is compared, as a whole value (origin, kind, destination,
payload), with the requests issued on that instance:

  * `req` / `imm` operations:            (-, kind, dest, payload)
  * `Q<kind>:<dest>:<payload>` actions:  (state of that callback, kind, dest, payload)
  * plan tasks (`planappend` operations, `PA:` actions, `PL` field): (some region head, C, dest, payload)
    — the executor always issues CHANGE (known finding F12), on behalf of the head of a region
  * `replay` operations: the replayed list (it was recorded on the other instance).

  provenance  a transition shown that no request of the instance ever carried (a payload that differs, a
              payload on a payload-less request or vice versa, fields of two requests mixed)
  stale       a transition shown in pending / current lists of a step, or left in `Q` / `P` after an
              operation, that was neither queued before the operation (`Q` of the previous snap) nor
              issued during it
  corrupt     a payload whose redundancy check fails (payload kinds 2 and 3 carry a checksum / alignment
              probe; the harness prints -999 for them)
  last        lastTransitionTo(s) (index `L[s]` into `P`) exposes exactly `P[L[s]]` (by construction of the
              transcript) — counted only
"""
import oracles as O

GUARDS = ('entryGuard', 'exitGuard')
LIFE = ('enter', 'exit', 'reenter')


def clean(sn):
    """a snap line that was not torn by an `assert` line written in the middle of it"""
    return sn is not None and all(k in sn for k in ('A', 'R', 'S', 'Q')) and not any('assert' in v for v in sn.values())


def acts_of(e):
    return [] if len(e) < 8 or e[7] == '.' else e[7].split(';')


def pay(s):
    return None if s == '-' else int(s)


def judge(hdr, ops, tree, config, rejections, stats):
    rej = rejections.setdefault('C14', [])
    heads = set(n.id for n in tree if n.kind in ('C', 'O'))
    issued = {0: set(), 1: set()}      # whole transitions ever issued on the instance
    tasks = {0: set(), 1: set()}       # (dest, payload) of plan tasks ever appended
    last = {}

    def reject(tag, what, idx):
        rej.append(dict(tag=tag, what=what, replay=O.replay_text(hdr, ops, idx)))

    def known(inst, t):
        if t in issued[inst]:
            return True
        o, k, d, p = t
        return k == 'C' and o in heads and (d, p) in tasks[inst]

    for idx, op in enumerate(ops):
        inst = op.inst
        if op.name == 'new':
            issued[inst], tasks[inst] = set(), set()
            last.pop(inst, None)
        before = last.get(inst)
        strict_ok = before is not None or op.name == 'new'     # is the queue before this operation known?
        fresh = set()                  # issued during this operation
        fresh_tasks = set()
        if op.name in ('req', 'imm') and len(op.args) >= 3:
            fresh.add((None, op.args[0], int(op.args[1]), pay(op.args[2])))
        if op.name == 'planappend' and len(op.args) >= 5:
            fresh_tasks.add((int(op.args[2]), pay(op.args[4])))
        if op.name == 'replay' and op.args:
            fresh.update(O.parse_list(op.args[0]))
        queued = set(O.parse_list(before.get('Q', '[]'))) if before else set()
        prev_tasks = set()
        if before and 'PL' in before:
            for part in before['PL'].split('|'):
                for item in part.split(';'):
                    if item:
                        o, k, d, p = item.split('>')
                        prev_tasks.add((int(d), pay(p)))
        issued[inst] |= fresh
        tasks[inst] |= fresh_tasks

        def check(lst, where, strict):
            for t in lst:
                stats.inc('checks_C14')
                if t[3] == -999:
                    reject('corrupt', '%s shows a payload whose redundancy check fails: %s' % (where, t), idx)
                    return False
                if not known(inst, t):
                    reject('provenance', '%s shows %s, which no request of this instance carried' % (where, t), idx)
                    return False
                if strict and strict_ok:
                    o, k, d, p = t
                    recent = t in queued or t in fresh or (k == 'C' and o in heads and ((d, p) in prev_tasks or (d, p) in fresh_tasks))
                    if not recent:
                        reject('stale', '%s shows %s, which was neither queued before this operation nor issued during it' % (where, t), idx)
                        return False
            return True

        ok = True
        for e in op.events:
            if e[0] != 'cb':
                continue
            sid = int(e[1])
            if ok and e[2] in GUARDS:
                ok = check(O.parse_list(e[5]), 'pendingTransitions in %s of state %d' % (e[2], sid), True) and \
                     check(O.parse_list(e[6]), 'currentTransitions in %s of state %d' % (e[2], sid), True)
            elif ok and e[2] in LIFE and op.name not in ('replay',):
                ok = check(O.parse_list(e[6]), 'currentTransitions in %s of state %d' % (e[2], sid), True)
            # actions of this callback are issued from now on
            for a in acts_of(e):
                if a.startswith('Q') and ':' in a:
                    k, d, p = a[1:].split(':')
                    t = (sid, k, int(d), pay(p))
                    fresh.add(t)
                    issued[inst].add(t)
                    if p != '-':
                        stats.inc('c14_payload_requests')
                elif a.startswith('PA:'):
                    _, o, d, k, p = a.split(':')
                    fresh_tasks.add((int(d), pay(p)))
                    tasks[inst].add((int(d), pay(p)))
        if op.snap is not None and not clean(op.snap):
            last.pop(inst, None)
        elif op.snap is not None:
            sn = op.snap
            if ok and 'Q' in sn and sn['Q'] != '?':
                ok = check(O.parse_list(sn['Q']), 'the request queue after `%s`' % op.name, True)
            if ok and 'P' in sn:
                P = O.parse_list(sn['P'])
                if op.name in ('update', 'react', 'imm', 'replay'):
                    ok = check(P, 'previousTransitions after `%s`' % op.name, True)
                else:
                    ok = check(P, 'previousTransitions after `%s`' % op.name, False)
                if ok:
                    stats.inc('c14_last_exposed', sum(1 for x in sn.get('L', '').split(',') if x not in ('-', '')))
            last[inst] = sn
        if op.name == 'destroy':
            last.pop(inst, None)
