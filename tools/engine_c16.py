#!/usr/bin/env python3
"""engine_c16.py — per-method logger records in interface (non-verbose) logging mode (DESIGN §7 C16, §8b round 9).

The machine model gives every state with handlers ALL handlers (`headed`), which is what the generated programs do; the
library however decides per METHOD whether a state overrides it (`log<>(&Head::method, …)` compares the member pointer
with the empty state's) and writes a method record only then.  That per-method decision is outside the model, so it is
checked here directly on the real code: five machine variants in one translation unit; variant v gives every scripted
state exactly the handlers whose 1-based index has bit v set, so any two handlers are told apart by some variant (one
overridden, the other not).  The oracle is the statement of `Props.C16.method_records_are_group_heads` /
`no_bare_methods_unless_verbose` read on the implementation's own output: in interface mode every method record is
followed at once by the callback it announces (same state, same method), and every callback is announced.
"""
import os, sys, re
sys.path.insert(0, os.path.dirname(os.path.abspath(__file__)))
import vlib as V

METHODS = [   # (name, C++ definition with {ID} and {NAME})
    ('entryGuard',    'void entryGuard(GuardControl&) {{ cb({ID}, "entryGuard"); }}'),
    ('enter',         'void enter(PlanControl&) {{ cb({ID}, "enter"); }}'),
    ('reenter',       'void reenter(PlanControl&) {{ cb({ID}, "reenter"); }}'),
    ('preUpdate',     'void preUpdate(FullControl&) {{ cb({ID}, "preUpdate"); }}'),
    ('update',        'void update(FullControl&) {{ cb({ID}, "update"); }}'),
    ('postUpdate',    'void postUpdate(FullControl&) {{ cb({ID}, "postUpdate"); }}'),
    ('preReact',      'void preReact(const Ev&, EventControl&) {{ cb({ID}, "preReact"); }}'),
    ('react',         'void react(const Ev&, EventControl&) {{ cb({ID}, "react"); }}'),
    ('postReact',     'void postReact(const Ev&, EventControl&) {{ cb({ID}, "postReact"); }}'),
    ('query',         'void query(Qy&, ConstControl&) const {{ cb({ID}, "query"); }}'),
    ('exitGuard',     'void exitGuard(GuardControl&) {{ cb({ID}, "exitGuard"); }}'),
    ('exit',          'void exit(PlanControl&) {{ cb({ID}, "exit"); }}'),
    ('planSucceeded', 'void planSucceeded(FullControl&) {{ cb({ID}, "planSucceeded"); }}'),
    ('planFailed',    'void planFailed(FullControl&) {{ cb({ID}, "planFailed"); }}'),
    ('select',        'hfsm2::Prong select(const Control&) {{ cb({ID}, "select"); return 1; }}'),
    ('rank',          'Rank rank(const Control&) {{ cb({ID}, "rank"); return 0; }}'),
    ('utility',       'Utility utility(const Control&) {{ cb({ID}, "utility"); return 0.5f; }}'),
]
ALWAYS_RECORDED = ('preReact', 'react', 'postReact', 'query')
VARIANTS = 5          # 17 methods < 2^5
STATES = ['Idle', 'H', 'L1', 'L2', 'G', 'P1', 'P2', 'U', 'V1', 'V2']


def source():
    w = []
    w.append('#define HFSM2_ENABLE_LOG_INTERFACE\n#define HFSM2_ENABLE_UTILITY_THEORY\n#define HFSM2_ENABLE_PLANS\n')
    w.append('#include <hfsm2/machine.hpp>\n#include <cstdio>\n')
    w.append('struct Ev {}; struct Qy {};\n')
    w.append('static void cb(int sid, const char* m) { std::printf("cb %d %s\\n", sid, m); }\n')
    w.append('using M = hfsm2::MachineT<hfsm2::Config::ContextT<int>>;\n')
    w.append('struct Logger : M::LoggerInterface {\n'
             '\tvoid recordMethod(const Context&, const hfsm2::StateID origin, const hfsm2::Method method) noexcept override {\n'
             '\t\tstd::printf("log %d %s\\n", static_cast<int>(origin), hfsm2::methodName(method));\n\t}\n};\n')
    for v in range(VARIANTS):
        w.append('namespace v%d {\n' % v)
        for s in STATES:
            w.append('struct %s;\n' % s)
        w.append('using FSM = M::PeerRoot<Idle, M::Random<H, L1, L2>, M::Selectable<G, P1, P2>, M::Utilitarian<U, V1, V2>>;\n')
        for s in STATES:
            body = []
            for i, (name, text) in enumerate(METHODS):
                if (i + 1) >> v & 1:
                    body.append('\t' + text.format(ID='FSM::stateId<%s>()' % s, NAME=name))
            w.append('struct %s : FSM::State {\n%s\n};\n' % (s, '\n'.join(body)))
        w.append('''static void run(Logger& logger) {
	std::printf("variant %d\\n");
	int ctx = 0;
	FSM::Instance m{ctx, &logger};
	auto op = [](const char* n) { std::printf("op %%s\\n", n); };
	op("update");    m.update();
	op("react");     m.react(Ev{});
	op("query");     { Qy q; m.query(q); }
	op("changeTo H");  m.changeTo<H>();  m.update();
	op("reenter L");   m.changeTo<L1>(); m.update(); m.changeTo<L1>(); m.update(); m.changeTo<L2>(); m.update(); m.changeTo<L2>(); m.update();
	op("randomize H"); m.randomize<H>(); m.update();
	op("utilize H");   m.utilize<H>();   m.update();
	op("restart H");   m.restart<H>();   m.update();
	op("react in H");  m.react(Ev{});
	op("query in H");  { Qy q; m.query(q); }
	op("plan ok");     m.changeTo<L1>(); m.update(); m.plan<H>().change<L1, L2>(); m.succeed<L1>(); m.update(); m.succeed<L2>(); m.update(); m.update();
	op("plan fail");   m.changeTo<L1>(); m.update(); m.plan<H>().change<L1, L2>(); m.fail<L1>(); m.update(); m.update();
	op("changeTo G");  m.changeTo<G>();  m.update();
	op("select G");    m.select<G>();    m.update();
	op("resume H");    m.resume<H>();    m.update();
	op("changeTo U");  m.changeTo<U>();  m.update();
	op("utilize U");   m.utilize<U>();   m.update();
	op("randomize U"); m.randomize<U>(); m.update();
	op("select root"); m.immediateSelect<Idle>(); m.immediateChangeTo<P2>(); m.immediateChangeTo<Idle>();
	op("destroy");
}
}
''' % v)
    w.append('int main() {\n\tLogger logger;\n')
    for v in range(VARIANTS):
        w.append('\tv%d::run(logger);\n' % v)
    w.append('\tstd::printf("done\\n");\n\treturn 0;\n}\n')
    return ''.join(w)


def judge(lines):
    """-> (rejections, stats)"""
    rej, stats = [], dict(records=0, callbacks=0, methods_seen=set(), pairs=set())
    variant, opname, hist = None, None, []
    for k, line in enumerate(lines):
        t = line.split()
        if not t:
            continue
        if t[0] == 'variant':
            variant, hist = t[1], []
            continue
        if t[0] == 'op':
            opname = ' '.join(t[1:])
        hist.append(line)
        nxt = lines[k + 1].split() if k + 1 < len(lines) else []
        prv = lines[k - 1].split() if k > 0 else []
        why = None
        if t[0] == 'log':
            stats['records'] += 1
            # preReact / react / postReact / query are member templates of the empty state: the library takes their
            # address through a cast to `Head::*`, cannot tell whether `Head` overrides them, and always writes the record
            if t[2] in ALWAYS_RECORDED:
                stats['records_of_templated_methods'] = stats.get('records_of_templated_methods', 0) + 1
            elif not (len(nxt) == 3 and nxt[0] == 'cb' and nxt[1:] == t[1:]):
                why = ('a method record `%s` of state %s is not followed by that callback (next: `%s`): the logger reports a '
                       'callback the state does not define, or a different one' % (t[2], t[1], ' '.join(nxt)))
        elif t[0] == 'cb':
            stats['callbacks'] += 1
            stats['methods_seen'].add(t[2])
            stats['pairs'].add((variant, t[2]))
            if not (len(prv) == 3 and prv[0] == 'log' and prv[1:] == t[1:]):
                why = ('callback `%s` of state %s ran without its method record (interface logging mode, logger attached; '
                       'previous line: `%s`)' % (t[2], t[1], ' '.join(prv)))
        if why:
            handlers = [n for i, (n, _) in enumerate(METHODS) if (i + 1) >> int(variant or 0) & 1]
            rej.append(dict(tag='method-record', what='variant %s, during `%s`: %s' % (variant, opname, why),
                            replay='engine_c16 per-method harness (tools/engine_c16.py), interface logging mode\n'
                                   'variant %s: every state defines exactly the handlers %s\n'
                                   'hierarchy: PeerRoot<Idle, Random<H, L1, L2>, Selectable<G, P1, P2>, Utilitarian<U, V1, V2>>\n'
                                   '%s\n\noutput of the real library for this variant up to the failure:\n%s' % (
                                       variant, handlers, why, '\n'.join(hist[-60:]))))
    return rej, stats


def run(tier, seed):
    res = dict(rejections=[], broken=[], coverage={}, assumptions=[
        'per-method override detection of the logger (interface mode) is checked on the real code by tools/engine_c16.py, not modelled: '
        'the machine model gives a state with handlers all handlers'])
    exe, err, dt, cached = V.build_cxx(None, V.FAST_FLAGS, 'c16m', src_text=source())
    if exe is None:
        res['broken'].append('per-method logging harness does not compile against the current header: %s' % err[-600:])
        return res
    out = exe + '.out'
    p = V.run_limited([exe], out, timeout=120)
    lines = open(out, errors='replace').read().splitlines() if os.path.exists(out) else []
    if p.returncode != 0 or not lines or lines[-1] != 'done':
        res['rejections'].append(dict(tag='method-record-crash',
                                      what='per-method logging harness died with status %s' % p.returncode,
                                      replay='engine_c16 harness status %s\n%s\n%s' % (p.returncode, (p.stderr or '')[-800:], '\n'.join(lines[-40:]))))
        return res
    rej, st = judge(lines)
    res['rejections'] = rej[:8]
    missing = [n for n, _ in METHODS if n not in st['methods_seen']]
    res['coverage'] = dict(evaluations=st['records'] + st['callbacks'], variants=VARIANTS, method_records=st['records'],
                           callbacks=st['callbacks'], methods_exercised=sorted(st['methods_seen']),
                           methods_never_invoked=missing, variant_method_pairs=len(st['pairs']))
    if missing:
        res['broken'].append('per-method logging harness no longer reaches the handlers %s' % missing)
    return res


if __name__ == '__main__':
    if len(sys.argv) > 1 and sys.argv[1] == 'src':
        sys.stdout.write(source())
    else:
        import json
        r = run('quick', 1)
        print(json.dumps(r, indent=1)[:3000])
