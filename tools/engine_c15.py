#!/usr/bin/env python3
"""C15 differential engine: optional features and header flavour never change unrelated behaviour.

Works on the real code only (the model side of C15 is Props/C15.lean).  Two checks:

 1. `tools/join.py` applied to the current /repo/development reproduces /repo/include/hfsm2/machine.hpp
    byte for byte (run on a *copy* of the tree under .cache; /repo is never written).
 2. The same generated program (shape + seed) is compiled under several feature configurations and both
    header flavours and run with the same seed; the transcripts, *projected to the observables the two
    configurations have in common*, must be equal line for line.

Why equality is expected.  Every scripted callback draws from one seeded generator, so two builds stay in
lock step only as long as exactly the same callbacks run, in the same order, and draw the same number of
values: any influence of the toggled feature on unrelated behaviour desynchronises the rest of the run.
The toggled feature must not change which *operations* the scenario performs either: the harness runs in
common-subset mode ($VH_SKIP, see harness/mach_main.hpp `skipped()`), where the operation kind is a
function of one draw and kinds outside the common subset of the two builds are skipped by both.

Pairs (base = all features on, interface logging, payload int, limit 4):
   log0, log2      drop `log` lines                                   (skip: nothing)
   struct0         drop ST=/H= of snaps                               (skip: nothing)
   history0        drop P=/L= of snaps                                (skip: replay; + struct off while the
                                                                        struct ∧ serial ∧ ¬history combination
                                                                        does not compile: finding N7)
   serial0         nothing to drop                                    (skip: saveload)
   dev1            nothing to drop: identical transcripts, only the file names in `assert` lines differ
 thorough tier adds
   payload0        identical; both builds run with $VH_NOPAYLOADUSE (payload type configured but never used ≡ void)
 thorough tier adds
   payload2/3      identical (the scripted payload value is carried by every payload type)
   util0           shapes without utility strategies, skip: utility   (no utilize/randomize requests)
   limit8          compared per scenario, scenarios in which the base run hit SUBSTITUTION_LIMIT are exempt
   plans0          drop PL=/PX=/TS=/TF= of snaps; both builds run with $VH_NOPLANUSE (the callbacks of the
                   plans-on build then draw exactly what the plans-off build draws and never touch plans or
                   task status) and skip task/planappend/planclear: "plans compiled in but unused ≡ compiled
                   out" on the real code (model side: Props/C15 `plans_unused_*`)
   …_bottomup1 / …_manual1   the same pair with the base configuration bottom-up / manually activated
"""
from __future__ import annotations
import os, sys, re, json, time, shutil, subprocess, concurrent.futures as cf
import vlib as V
sys.path.insert(0, V.GEN)
import shapes as S
import emit_mach as E
import oracles as O


# ---------------------------------------------------------------------------------------------------
# 1. join.py

def join_check():
    """Returns (ok, message)."""
    key = V.tree_hash()
    work = os.path.join(V.CACHE, 'joincheck_%s' % key)
    shutil.rmtree(work, ignore_errors=True)
    try:
        os.makedirs(os.path.join(work, 'include', 'hfsm2'))
        shutil.copytree(os.path.join(V.src_root(), 'development'), os.path.join(work, 'development'))
        os.makedirs(os.path.join(work, 'tools'))
        shutil.copy(os.path.join(V.src_root(), 'tools', 'join.py'), os.path.join(work, 'tools', 'join.py'))
        st, out, err = V.sh([sys.executable, 'join.py'], cwd=os.path.join(work, 'tools'), timeout=300)
        if st != 0:
            return False, 'tools/join.py failed (%d): %s' % (st, (err or out)[-600:])
        a = open(os.path.join(work, 'include', 'hfsm2', 'machine.hpp'), 'rb').read()
        b = open(os.path.join(V.src_root(), 'include', 'hfsm2', 'machine.hpp'), 'rb').read()
        if a == b:
            return True, 'join.py(development) == include/hfsm2/machine.hpp (%d bytes)' % len(b)
        la, lb = a.split(b'\n'), b.split(b'\n')
        k = next((i for i, (x, y) in enumerate(zip(la, lb)) if x != y), min(len(la), len(lb)))
        return False, ('include/hfsm2/machine.hpp is not what tools/join.py produces from development/: first difference at '
                       'line %d\n  joined : %s\n  include: %s' % (k + 1, la[k][:200].decode('utf8', 'replace') if k < len(la) else '<eof>',
                                                                   lb[k][:200].decode('utf8', 'replace') if k < len(lb) else '<eof>'))
    finally:
        shutil.rmtree(work, ignore_errors=True)


# ---------------------------------------------------------------------------------------------------
# 2. configurations

def _p(s):
    return S.parse(s)


def SHAPES(tier):
    fixed = [
        _p('(C h1 i0 composite (L i0) (C h1 i0 resumable (L i1) (L i0)) (O h1 i0 (C h1 i0 composite (L i0) (L i0)) (C h1 i0 utilitarian (L i0) (L i0))))'),
        _p('(C h1 i0 composite (C h1 i0 selectable (L i0) (C h1 i0 composite (L i0) (L i0)) (L i0)) (C h1 i0 random (L i0) (L i0) (L i0)) (L i2))'),
        _p('(O h1 i0 (C h1 i0 resumable (L i0) (L i0) (L i0)) (C h1 i1 composite (L i0) (O h1 i0 (L i0) (L i0) (L i0))))'),
    ]
    if tier == 'quick':
        return fixed
    return fixed + [s for s in S.corpus() if not E.usable(s, dict(E.DEFAULTS))][:9]


def has_utility(shape):
    return any(n.kind == 'C' and n.strategy in ('utilitarian', 'random') for n in shape.nodes())


# variant name -> (config overrides, base overrides, $VH_SKIP, projection name, needs shape without utility)
VARIANTS_QUICK = ['log0', 'log2', 'struct0', 'history0', 'dev1', 'plans0', 'plans0_bottomup1', 'payload0']
VARIANTS_THOROUGH = VARIANTS_QUICK + ['serial0', 'payload2', 'payload3', 'util0', 'limit8', 'log0_dev1', 'struct0_history0_serial0',
                                     'plans0_manual1', 'plans0_log2', 'serial0_bottomup1', 'history0_bottomup1_manual1']


def variant(name):
    v = dict(cfg={}, base={}, skip='', proj=set(), noutil=False, per_scenario_exempt=None, env={}, scale=1)
    for part in name.split('_'):
        if part == 'log0':
            v['cfg']['log'] = 0; v['proj'].add('log')
        elif part == 'log2':
            v['cfg']['log'] = 2; v['proj'].add('log')
        elif part == 'struct0':
            v['cfg']['struct'] = 0; v['proj'].add('struct')
        elif part == 'history0':
            v['cfg']['history'] = 0; v['proj'].add('history'); v['skip'] += ',replay'
            # finding N7: struct ∧ serial ∧ ¬history does not compile; keep the pair comparable
            v['cfg']['struct'] = 0; v['proj'].add('struct')
        elif part == 'serial0':
            v['cfg']['serial'] = 0; v['skip'] += ',saveload'
        elif part == 'dev1':
            v['cfg']['dev'] = 1; v['proj'].add('assertloc')
        elif part == 'payload0':
            # both builds run with $VH_NOPAYLOADUSE: no request or task carries a payload, so the build with a payload type
            # (the `TTP_` specialisations of FullControlT / PlanT / TransitionT) must behave like the `void` build
            # (assertions fire in the other copy of the duplicated code: compare that they fire, not the line)
            v['cfg']['payload'] = 0; v['env']['VH_NOPAYLOADUSE'] = '1'; v['proj'].add('assertloc')
            v['scale'] = 6        # the duplicated code is plan code: more scenarios, so that plans with several tasks per origin occur
        elif part in ('payload2', 'payload3'):
            v['cfg']['payload'] = int(part[-1])
        elif part == 'util0':
            v['cfg']['util'] = 0; v['skip'] += ',utility'; v['noutil'] = True
        elif part == 'plans0':
            # both builds run with $VH_NOPLANUSE: the plans-on build's callbacks draw what the plans-off build draws
            # and never touch plans or task status; plan operations of the API are skipped by both
            v['cfg']['plans'] = 0; v['skip'] += ',task,planappend,planclear'; v['proj'].add('plans'); v['env']['VH_NOPLANUSE'] = '1'
        elif part == 'bottomup1':
            v['base']['bottomup'] = 1
        elif part == 'manual1':
            v['base']['manual'] = 1
        elif part == 'limit8':
            v['cfg']['limit'] = 8; v['per_scenario_exempt'] = 'limit'
        else:
            raise ValueError(part)
    v['skip'] = v['skip'].strip(',')
    return v


def project(lines, proj):
    """Project a transcript (list of lines) to the observables common to a pair."""
    out = []
    for l in lines:
        if l.startswith('config ') or l.startswith('# stat'):
            continue
        if 'log' in proj and l.startswith('log '):
            continue
        if l.startswith('snap '):
            t = l.split()
            if 'struct' in proj:
                t = [x for x in t if not (x.startswith('ST=') or x.startswith('H='))]
            if 'history' in proj:
                t = [x for x in t if not (x.startswith('P=') or x.startswith('L='))]
            if 'plans' in proj:
                t = [x for x in t if not (x.startswith('PL=') or x.startswith('PX=') or x.startswith('TS=') or x.startswith('TF='))]
            l = ' '.join(t)
        if 'assertloc' in proj and l.startswith('assert '):
            l = 'assert'
        out.append(l)
    return out


def split_scenarios(lines):
    out, cur = [], []
    for l in lines:
        if l.startswith('scenario '):
            if cur:
                out.append(cur)
            cur = []
        cur.append(l)
    if cur:
        out.append(cur)
    return out


def hit_limit(scn):
    """Did this scenario (base run) ever leave requests queued after a processing step, i.e. hit the limit?"""
    name = None
    for l in scn:
        if l.startswith('op '):
            name = l.split()[2]
        elif l.startswith('assert '):
            return True         # the only assertion tied to the limit is judged by C11; be conservative
        elif l.startswith('snap ') and name in ('update', 'react', 'imm'):
            m = re.search(r' Q=(\S+)', l)
            if m and m.group(1) not in ('[]', '?'):
                return True
    return False


# ---------------------------------------------------------------------------------------------------

def harness_supports_common_subset():
    try:
        return 'VH_SKIP' in open(os.path.join(V.HARNESS, 'mach_main.hpp')).read()
    except OSError:
        return False


def _build(job):
    tag, text, flags, dev = job
    exe, err, dt, cached = V.build_cxx(None, flags, 'c15', dev=dev, src_text=text)
    return tag, exe, err, dt, cached


def _run(job):
    tag, exe, seed, scen, ops, skip, out = job[:7]
    env = dict(os.environ)
    env.pop('VH_NOPLANUSE', None)
    env.pop('VH_NOPAYLOADUSE', None)
    env.update(job[7] if len(job) > 7 else {})
    env['VH_SKIP'] = skip or 'none'
    p = V.run_limited([exe, str(seed), str(scen), str(ops)], out, timeout=900, env=env)
    return tag, p.returncode, p.stderr[-1500:]


def run(tier, seed):
    key = V.sha(V.tree_hash(), V.verif_hash('harness', 'gen', 'tools/engine_c15.py'), tier, str(seed))[:24]
    os.makedirs(V.CACHE, exist_ok=True)
    path = os.path.join(V.CACHE, 'c15_%s.json' % key)
    with V.Lock('c15_' + key):
        if os.path.exists(path):
            return json.load(open(path))
        t0 = time.time()
        res = dict(rejections=[], broken=[], coverage={}, assumptions=[
            'feature non-interference of the implementation is established for the generated programs, seeds and '
            'configuration pairs of this run only',
            'two builds are compared on the observables they have in common; the scripted callbacks share one seeded '
            'generator, so any influence of the toggled feature on which callbacks run desynchronises the rest of the run',
            'plans on/off is compared for programs that never use plans (VH_NOPLANUSE); a program that uses plans has no plans-off counterpart'])
        ok, msg = join_check()
        res['coverage']['join'] = msg
        if not ok:
            res['rejections'].append(dict(tag='join', what=msg, replay='cd /repo/tools && python3 join.py && git diff --stat ../include'))
        if not harness_supports_common_subset():
            res['broken'].append('harness/mach_main.hpp lacks the common-subset mode ($VH_SKIP): apply harness/proposed/mach_main.hpp.diff (see harness/proposed/README.md)')
            json.dump(res, open(path + '.tmp', 'w')); os.replace(path + '.tmp', path)
            return res
        shapes = SHAPES(tier)
        names = VARIANTS_QUICK if tier == 'quick' else VARIANTS_THOROUGH
        scen, ops = (12, 40) if tier == 'quick' else (60, 60)
        flags = V.FAST_FLAGS if tier == 'quick' else V.SAN_FLAGS
        trdir = os.path.join(V.CACHE, 'tr_c15_%s' % key)
        os.makedirs(trdir, exist_ok=True)
        # plan: for every shape and variant one (base, variant) pair of builds run under the variant's skip list
        builds, runs, pairs = {}, [], []
        for si, sh in enumerate(shapes):
            for name in names:
                v = variant(name)
                if v['noutil'] and has_utility(sh):
                    continue
                cfg_b = dict(E.DEFAULTS); cfg_b.update(v['base'])
                cfg_v = dict(cfg_b); cfg_v.update(v['cfg'])
                if E.usable(sh, cfg_b) or E.usable(sh, cfg_v):
                    continue
                tags = []
                for side, cfg in (('b', cfg_b), ('v', cfg_v)):
                    btag = 's%d_%s' % (si, '_'.join('%s%d' % kv for kv in sorted(cfg.items())))
                    if btag not in builds:
                        builds[btag] = (btag, E.emit(sh, cfg), flags, bool(cfg.get('dev')))
                    rtag = '%s__%s%s' % (btag, v['skip'] or 'none', ''.join('_' + k for k in sorted(v['env'])))
                    tags.append(rtag)
                    runs.append((rtag, btag, v['skip'], v['env'], v['scale']))
                pairs.append((si, name, tags[0], tags[1], cfg_b, cfg_v, v))
        with cf.ThreadPoolExecutor(max_workers=V.JOBS) as ex:
            built = {tag: (exe, err) for tag, exe, err, dt, cached in ex.map(_build, list(builds.values()))}
        for tag, (exe, err) in built.items():
            if exe is None:
                # a configuration that does not compile at all is a C15 violation in itself
                res['rejections'].append(dict(tag='compile', what='configuration %s does not compile against the current header: %s'
                                              % (tag, err[-500:]), replay='build tag %s\n%s' % (tag, err[-1500:])))
        todo = {}
        for rtag, btag, skip, renv, scale in runs:
            if rtag not in todo and built.get(btag, (None,))[0]:
                todo[rtag] = (rtag, built[btag][0], seed, scen * scale, ops, skip, os.path.join(trdir, rtag + '.txt'), renv)
        with cf.ThreadPoolExecutor(max_workers=V.JOBS) as ex:
            done = {tag: (st, err) for tag, st, err in ex.map(_run, list(todo.values()))}
        compared = scenarios_compared = exempt = lines_compared = 0
        for si, name, tb, tv, cfg_b, cfg_v, v in pairs:
            if tb not in done or tv not in done:
                continue
            bad = [(t, done[t]) for t in (tb, tv) if done[t][0] != 0]
            if bad:
                for t, (st, err) in bad:
                    res['rejections'].append(dict(tag='crash', what='program %s died with status %d: %s' % (t, st, err[-300:]),
                                                  replay='shape %s\nconfig %s' % (S.to_sexpr(shapes[si]), json.dumps(cfg_v if t == tv else cfg_b))))
                continue
            a = project(open(todo[tb][6], errors='replace').read().split('\n'), v['proj'])
            b = project(open(todo[tv][6], errors='replace').read().split('\n'), v['proj'])
            compared += 1
            sa, sb = split_scenarios(a), split_scenarios(b)
            for k, (x, y) in enumerate(zip(sa, sb)):
                if v['per_scenario_exempt'] == 'limit' and hit_limit(x):
                    exempt += 1
                    continue
                scenarios_compared += 1
                lines_compared += len(x)
                if x != y:
                    j = next((i for i, (p, q) in enumerate(zip(x, y)) if p != q), min(len(x), len(y)))
                    lo = max(0, j - 6)
                    res['rejections'].append(dict(
                        tag='feature-interference',
                        what='shape %s: configurations base and %s behave differently (seed %d, scenario %d, projected line %d): '
                             'base `%s` vs %s `%s`' % (S.to_sexpr(shapes[si]), name, seed, k, j,
                                                       (x[j] if j < len(x) else '<end>')[:160], name, (y[j] if j < len(y) else '<end>')[:160]),
                        replay='shape %s\nbase config %s\nother config %s\nVH_SKIP=%s args %d %d %d\n--- base (projected), from line %d\n%s\n--- %s\n%s'
                               % (S.to_sexpr(shapes[si]), json.dumps(cfg_b, sort_keys=True), json.dumps(cfg_v, sort_keys=True),
                                  v['skip'] or 'none', seed, scen, ops, lo, '\n'.join(x[lo:j + 3]), name, '\n'.join(y[lo:j + 3]))))
                    break
            if len(sa) != len(sb):
                res['rejections'].append(dict(tag='feature-interference', what='shape %s: %s produced %d scenarios, base %d'
                                              % (S.to_sexpr(shapes[si]), name, len(sb), len(sa)), replay=''))
        res['rejections'] = res['rejections'][:40]
        res['coverage'].update(dict(
            programs=len([1 for e in built.values() if e[0]]), pairs_compared=compared, evaluations=scenarios_compared,
            distinct_nontrivial=scenarios_compared, scenarios_exempt_limit=exempt, transcript_lines=lines_compared,
            variants=names, shapes=[S.to_sexpr(s) for s in shapes], traces_validated_against_impl=compared,
            rule='evaluation = one seeded scenario of a generated program run under two configurations and compared line by line '
                 'on the common observables; all are non-trivial (every scenario performs transitions)',
            run_wall_s=round(time.time() - t0, 1)))
        res['summary'] = 'join=%s builds=%d pairs=%d scenarios=%d' % ('ok' if ok else 'DIFFERS', len(built), compared, scenarios_compared)
        res['search_note'] = '%d configuration pairs over %d shapes compared scenario by scenario' % (compared, len(shapes))
        shutil.rmtree(trdir, ignore_errors=True)
        json.dump(res, open(path + '.tmp', 'w'))
        os.replace(path + '.tmp', path)
        return res


if __name__ == '__main__':
    r = run(sys.argv[1] if len(sys.argv) > 1 else 'quick', int(sys.argv[2]) if len(sys.argv) > 2 else 1)
    print(json.dumps({k: v for k, v in r.items() if k != 'rejections'}, indent=1)[:3000])
    for x in r['rejections'][:8]:
        print('REJECT', x['tag'], x['what'][:500])
