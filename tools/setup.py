#!/usr/bin/env python3
"""MANIFEST.setup_cmd: build the Lean library + driver and warm the content-addressed build cache
(harness binaries for the current /repo tree) so that the first quick check does not pay for it.
Everything is rebuilt automatically by the checks themselves when /repo changes."""
import os, sys, time, concurrent.futures as cf
sys.path.insert(0, os.path.dirname(os.path.abspath(__file__)))
import vlib as V
import leaf_engine as LE
import mach_engine as ME

t0 = time.time()
st = V.lean_state()
print('lean: driver_ok=%s lib_ok=%s theorems=%d (%.0fs)' % (st['driver_ok'], st['lib_ok'],
      sum(len(v) for v in st['theorems'].values()), time.time() - t0))
if not st['lib_ok']:
    print(st['log'][-3000:])
    sys.exit(1)


def leaf(pid):
    spec = LE.SPECS[pid]
    exe, err, dt, cached = V.build_cxx(os.path.join(V.HARNESS, spec['src']), V.FAST_FLAGS, spec['comp'])
    return pid, exe is not None, round(dt, 1), err[-300:]


with cf.ThreadPoolExecutor(max_workers=4) as ex:
    for r in ex.map(leaf, list(LE.SPECS)):
        print('harness', r)
seed = int(os.environ.get('VERIF_SEED', '1'))
full = ME.full_run('quick', seed)
print('machine programs: %d, divergences: %d, wall %.0fs' % (len(full['programs']), len(full['divergences']), time.time() - t0))
