/-
The instance: `R_` (root_0.inl) and the activation layer `RV_` (root_1.inl) — `initialEnter`,
`finalExit`, `update`, `react`, `query`, the request API, `processRequest / processTransitions /
applyRequest`, guards approval, `reset`, `save / load / loadEnter`, `replayTransitions /
replayEnter`, `udpateActivity`.
-/
import Hfsm.Model.Dispatch
import Hfsm.Model.Serial

namespace Hfsm
variable {U : Type} [UtilArith U]

/-- One machine instance. -/
structure Mach (U : Type) where
  root : Node
  w : World U
  structActive : List Bool := []     -- `structure()[i].isActive`
  activity : List Int := []          -- `activityHistory()[i]`

namespace World

/-- A freshly constructed control object (`PlanControl`, `FullControl`, `GuardControl`, …). -/
def freshControl (w : World U) : World U :=
  { w with origin := none, regionId := 0, regionStateId := 0, regionSize := w.cfg.stateCount,
           taskStatus := {}, cancelled := false, consumed := false, pending := [], current := [] }

/-- Registry snapshot for the pass that starts now. -/
def snapshot (w : World U) (root : Node) (observe guard : Bool) : World U :=
  { w with activeSnap := maskOf w.cfg.stateCount root.isActive
           obs := if observe then some (root.observe w.cfg.stateCount guard) else none }

def clearTargets (w : World U) : World U :=
  if w.cfg.history then { w with targets := List.replicate w.cfg.stateCount none } else w

/-- `PlanDataT::clearStatuses`. -/
def clearStatuses (w : World U) : World U :=
  { w with succ := 0, fail := 0
           headStatus := List.replicate w.cfg.regionCount {}
           subStatus := List.replicate w.cfg.regionCount {} }

/-- `PlanDataT::clear`. -/
def clearPlanData (w : World U) : World U :=
  ({ w with plans := List.replicate w.cfg.regionCount [], planExists := 0 }).clearStatuses

end World

namespace Mach

def create (shape : Shape) (cfg : Config) : Mach U :=
  let cfg := { cfg with stateCount := shape.stateCount, regionCount := shape.regionCount }
  let w : World U := { cfg := cfg }
  { root := shape.toNode 0 0
    w := (w.clearPlanData).clearTargets.freshControl
    structActive := List.replicate cfg.stateCount false
    activity := List.replicate cfg.stateCount 0 }

/-- `R_::udpateActivity` (root_0.inl). -/
def updateActivity (m : Mach U) : Mach U :=
  let act := (List.range m.w.cfg.stateCount).map m.root.isActive
  let step (a : Bool) (h : Int) : Int :=
    if a then (if h < 0 then 1 else if h < 127 then h + 1 else h)
    else (if h > 0 then -1 else if h > -128 then h - 1 else h)
  { m with structActive := act, activity := List.zipWith step act m.activity }

/-- `R_::applyRequest`. -/
def applyRequest (m : Mach U) (t : Transition) (index : Nat) : Mach U :=
  let w := m.w.snapshot m.root true false
  match t.kind with
  | .schedule =>
    match m.root.pathTo t.dest with
    | some p => { m with root := m.root.schedule p, w := w }
    | none => { m with w := w.fail' "schedule of an unknown state" }
  | k =>
    let rq : Req := { kind := k, index := some index }
    if t.dest = 0 then
      let (root, w) := m.root.request rq w
      { m with root := root, w := w }
    else
      match m.root.pathTo t.dest with
      | none => { m with w := w.fail' "request to an unknown state" }
      | some p =>
        let (root, w) := (m.root.mark p).1.fwdActive rq w
        { m with root := root, w := w }

/-- `R_::applyRequest` with `index = INVALID_SHORT`: the same marks, nothing is pinned (`ControlT::pinLastTransition`
ignores the invalid index).  Used by the replays for the entries of a history beyond the capacity of
`previousTransitions` (they are not recorded, so they cannot be pinned; /repo fix 6770c20). -/
def applyRequestNoPin (m : Mach U) (t : Transition) : Mach U :=
  let w := m.w.snapshot m.root true false
  match t.kind with
  | .schedule =>
    match m.root.pathTo t.dest with
    | some p => { m with root := m.root.schedule p, w := w }
    | none => { m with w := w.fail' "schedule of an unknown state" }
  | k =>
    let rq : Req := { kind := k, index := none }
    if t.dest = 0 then
      let (root, w) := m.root.request rq w
      { m with root := root, w := w }
    else
      match m.root.pathTo t.dest with
      | none => { m with w := w.fail' "request to an unknown state" }
      | some p =>
        let (root, w) := (m.root.mark p).1.fwdActive rq w
        { m with root := root, w := w }

/-- Apply `requests[from…]` in order with their queue indices. -/
def applyAll (m : Mach U) : List Transition → Nat → Mach U
  | [], _ => m
  | t :: rest, i =>
    let m := if t.dest < m.w.cfg.stateCount then m.applyRequest t i else m
    applyAll m rest (i+1)

/-- `R_::approvedByGuards`: exit guards then entry guards with a fresh `GuardControl`. -/
def approvedByGuards (m : Mach U) (current pending : List Transition) : Mach U × Bool :=
  let w := ({ m.w.freshControl with pending := pending, current := current }).snapshot m.root true true
  let (w, ok) := m.root.fwdExitGuard w
  let (w, ok) := if ok then m.root.fwdEntryGuard w else (w, false)
  ({ m with w := w }, ok)

/-- `R_::approvedByEntryGuards` (first activation). -/
def approvedByEntryGuards (m : Mach U) (current pending : List Transition) : Mach U × Bool :=
  let w := ({ m.w.freshControl with pending := pending, current := current }).snapshot m.root true true
  let (w, ok) := m.root.entryGuard w
  ({ m with w := w }, ok)

/-- The substitution loop shared by `processTransitions` and `initialEnter`. `backup` is the tree the
marks are compared with / restored from. Returns the machine and `currentTransitions`. -/
def rounds (initial : Bool) : Nat → Mach U → Node → List Transition → Mach U × List Transition
  | 0, m, _, current => (m, current)
  | fuel+1, m, backup, current =>
    if m.w.requests.isEmpty then (m, current) else
    let reqs := m.w.requests
    let m := m.applyAll reqs 0
    if m.root.marksDiffer backup then
      let m := { m with w := { m.w with requests := [] } }
      let (m, ok) := if initial then m.approvedByEntryGuards current reqs else m.approvedByGuards current reqs
      if ok then
        rounds initial fuel m m.root (current ++ reqs)
      else
        let w := if initial then m.w else m.w.clearTargets
        rounds initial fuel { m with root := m.root.restoreMarks backup, w := w } backup current
    else
      rounds initial fuel { m with w := { m.w with requests := [] } } backup current

/-- `R_::processTransitions` + the tail of `R_::processRequest`. -/
def processRequest (m : Mach U) : Mach U :=
  let m := { m with w := m.w.clearTargets }
  if m.w.requests.isEmpty then
    { m with w := { m.w with previous := if m.w.cfg.history then [] else m.w.previous } }
  else
    let m := { m with w := m.w.freshControl }
    let (m, current) := rounds false m.w.cfg.substitutionLimit m m.root []
    -- requests left over after the last round stay queued (`HFSM2_ASSERT(requests.count() == 0)`)
    let m := if current.isEmpty then m else
      let w := ({ m.w.freshControl with current := current }).snapshot m.root false false
      let (root, w) := m.root.commit w
      { m with root := root, w := w }
    let m := { m with root := m.root.clearMarks }
    let m := m.updateActivity
    { m with w := { m.w with previous := if m.w.cfg.history then current else m.w.previous } }

/-- `R_::initialEnter`. -/
def initialEnter (m : Mach U) : Mach U :=
  let w := (m.w.clearTargets.freshControl).snapshot m.root true false
  let (root, w) := m.root.request { kind := .change, index := none } w
  let m := { m with root := root, w := w }
  let (m, _) := m.approvedByEntryGuards [] []
  let (m, current) := rounds true m.w.cfg.substitutionLimit m m.root []
  let w0 := m.w.freshControl
  let w1 := { w0 with current := current, previous := (if w0.cfg.history then current else w0.previous) }
  let w := w1.snapshot m.root false false
  let (root, w) := m.root.enter w
  ({ m with root := root.clearMarks, w := w }).updateActivity

/-- `R_::finalExit`. -/
def finalExit (m : Mach U) : Mach U :=
  let w := (m.w.freshControl).snapshot m.root false false
  let (root, w) := m.root.exit w
  let w := { w.clearPlanData.clearTargets with requests := [], previous := [] }
  ({ m with root := root.cleared, w := w }).updateActivity

/-- `R_::update`. -/
def update (m : Mach U) : Mach U :=
  let w := (m.w.freshControl).snapshot m.root true false
  let (w, _) := m.root.tick .preUpdate w
  let (w, _) := m.root.tick .update w
  let (w, _) := m.root.tick .postUpdate w
  let w := if w.cfg.plans then (m.root.updatePlans w).1.clearStatuses else w
  ({ m with w := w }).processRequest

/-- `R_::react`. -/
def react (m : Mach U) : Mach U :=
  let td := m.w.cfg.topDown
  let w := (m.w.freshControl).snapshot m.root true false
  let (w, _) := m.root.react .preReact td false w
  let (w, _) := m.root.react .react td false { w with consumed := false }
  let (w, _) := m.root.react .postReact (!td) true { w with consumed := false }
  let w := if w.cfg.plans then (m.root.updatePlans w).1.clearStatuses else w
  ({ m with w := w }).processRequest

/-- `R_::query`. -/
def query (m : Mach U) : Mach U :=
  let w := (m.w.freshControl).snapshot m.root true false
  { m with w := m.root.query m.w.cfg.topDown w }

/-- `R_::changeTo/…/schedule(stateId)` and the `…With(stateId, payload)` variants: queue a request. -/
def request (m : Mach U) (kind : Kind) (dest : Nat) (payload : Option Nat) : Mach U :=
  let t : Transition := { origin := none, dest := dest, kind := kind, payload := payload }
  let w := if m.w.requests.length < m.w.cfg.queueCap then { m.w with requests := m.w.requests ++ [t] } else m.w
  { m with w := w.logRec (.transition none kind dest) }

/-- `R_::immediateChangeTo/…`. -/
def immediate (m : Mach U) (kind : Kind) (dest : Nat) (payload : Option Nat) : Mach U :=
  (m.request kind dest payload).processRequest

/-- `R_::succeed(stateId)` / `R_::fail(stateId)`. -/
def setTask (m : Mach U) (sid : Nat) (success : Bool) : Mach U :=
  if 0 < sid && sid < m.w.cfg.stateCount then
    let w := if success then { m.w with succ := World.setBit m.w.succ sid }
             else { m.w with fail := World.setBit m.w.fail sid }
    { m with w := w.logRec (.taskStatus none sid success) }
  else m

/-- `R_::reset`. -/
def reset (m : Mach U) : Mach U :=
  let w := (m.w.freshControl).snapshot m.root false false
  let (root, w) := m.root.exit w
  let w := { w.clearTargets with previous := [] }
  let root := root.cleared
  let w := w.snapshot root true false
  let (root, w) := root.request { kind := .change, index := none } w
  let (root, w) := root.enter (w.snapshot root false false)
  ({ m with root := root.clearMarks, w := w }).updateActivity

/-- `RV_::save`: the activity bit, then `deepSaveActive`. -/
def save (m : Mach U) : List Bool :=
  if m.w.cfg.manual && !m.root.machineActive then [false] else true :: m.root.saveActive

/-- `R_::load(stream)` for an active instance. -/
def loadActive (m : Mach U) (st : List Bool) : Mach U :=
  match (m.root.clearMarks.noResumable).loadRequested st with
  | none => { m with w := m.w.fail' "load: malformed buffer" }
  | some (root, _) =>
    let w := { m.w.clearPlanData.clearTargets with requests := [], previous := [] }
    let w := (w.freshControl).snapshot root false false
    let (root', w) := root.commit w
    ({ m with root := root'.withResumableOf root, w := w }).updateActivity

/-- `RV_<Manual>::loadEnter`. -/
def loadEnter (m : Mach U) (st : List Bool) : Mach U :=
  match m.root.loadRequested st with
  | none => { m with w := m.w.fail' "load: malformed buffer" }
  | some (root, _) =>
    let w := (m.w.freshControl).snapshot root false false
    let (root', w) := root.enter w
    ({ m with root := root'.withResumableOf root, w := w }).updateActivity

/-- `RV_::load(buffer)`. -/
def load (m : Mach U) (st : List Bool) : Mach U :=
  match st with
  | [] => { m with w := m.w.fail' "load: empty buffer" }
  | true :: st => if m.root.machineActive then m.loadActive st else
                  if m.w.cfg.manual then m.loadEnter st else { m with w := m.w.fail' "load into an inactive automatic instance" }
  | false :: _ => if m.w.cfg.manual then (if m.root.machineActive then m.finalExit else m)
                  else { m with w := m.w.fail' "load: inactive image into an automatic instance" }

/-- `R_::applyRequests`. -/
def applyRequests (m : Mach U) (ts : List Transition) : Mach U × Bool :=
  let backup := m.root
  let m := { m with w := m.w.freshControl }
  let m := ts.zipIdx.foldl (fun m (t, i) => if i < m.w.cfg.historyCap then m.applyRequest t i else m.applyRequestNoPin t) m
  (m, m.root.marksDiffer backup)

/-- `R_::replayTransitions`. -/
def replayTransitions (m : Mach U) (ts : List Transition) : Mach U × Bool :=
  let m := { m with w := { m.w.clearTargets with previous := [] } }
  if ts.isEmpty then (m, false) else
  let (m, changed) := m.applyRequests ts
  if changed then
    let w := ({ m.w.freshControl with previous := ts.take m.w.cfg.historyCap }).snapshot m.root false false
    let (root, w) := m.root.commit w
    (({ m with root := root.clearMarks, w := w }).updateActivity, true)
  else (m, false)

/-- `RV_<Manual>::replayEnter`. -/
def replayEnter (m : Mach U) (ts : List Transition) : Mach U × Bool :=
  let m := { m with w := m.w.clearTargets }
  if ts.isEmpty then (m, false) else
  let w := (m.w.freshControl).snapshot m.root true false
  let (root, w) := m.root.request { kind := .change, index := none } w
  let (m, changed) := ({ m with root := root, w := w }).applyRequests ts
  if changed then
    let w := ({ m.w.freshControl with previous := ts.take m.w.cfg.historyCap }).snapshot m.root false false
    let (root, w) := m.root.enter w
    (({ m with root := root.clearMarks, w := w }).updateActivity, true)
  else (m, false)

/-- `plan(regionId).append(...)` through the instance. -/
def planAppend (m : Mach U) (rid : Nat) (t : Task) : Mach U := { m with w := m.w.planAppend rid t }

mutual
def findRegion : Node → Nat → Option (Nat × Nat)
  | .leaf .., _ => none
  | .compo id rid _ _ _ _ _ _ _ s, r => if rid = r then some (id, 1 + s.size) else findRegionIn s r
  | .ortho id rid _ _ s, r => if rid = r then some (id, 1 + s.size) else findRegionIn s r
def findRegionIn : Subs → Nat → Option (Nat × Nat)
  | .nil, _ => none
  | .cons _ n rest, r => match findRegion n r with
    | some x => some x
    | none => findRegionIn rest r
end

/-- `plan(regionId).clear()` through the instance. -/
def planClear (m : Mach U) (rid : Nat) : Mach U :=
  match findRegion m.root rid with
  | some (hid, size) => { m with w := m.w.planClear rid hid size }
  | none => { m with w := m.w.fail' "unknown region" }

/-- `attachLogger(logger)` (`R_::attachLogger`, machine.hpp: `_core.logger = logger;`): `attached = false`
is `attachLogger(nullptr)`.  Nothing else of the instance changes; verbosity is a compile-time switch. -/
def attachLogger (m : Mach U) (attached : Bool) : Mach U :=
  { m with w := { m.w with cfg := { m.w.cfg with logging := attached } } }

/-- `lastTransitionTo(stateId)`. -/
def lastTransitionTo (m : Mach U) (sid : Nat) : Option Transition :=
  match m.w.targets.getD sid none with
  | some i => m.w.previous[i]?
  | none => none

end Mach
end Hfsm
