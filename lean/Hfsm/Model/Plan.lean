/-
Executable model of plan storage:
`PlanDataT` (development/hfsm2/detail/root/plan_data.hpp/.inl), `PlanT` / `PayloadPlanT` and their
iterators (root/plan_1.hpp/.inl, root/plan_2.hpp/.inl), `CPlanT` (root/plan_0.hpp/.inl).
Same text in include/hfsm2/machine.hpp.

Which links are which (checked against the source):
* the *pool's vacant list* lives in `TaskBase::prev/next`, which are unions with a task's
  `origin/destination` (model: `Item.prev/next` in `Hfsm.Model.Pool`);
* the *per-region task lists* live in the separate array `PlanDataT::taskLinks`
  (`StaticArrayT<TaskLink, TASK_CAPACITY>`, model: `PlanData.links`) indexed by the same slot
  number, with `PlanDataT::taskBounds[region] = {first, last}` (model: `PlanData.bounds`).
* `PlanDataT::taskPayloads` / `payloadExists` are declared and cleared but never read or written by
  any plan operation (payloads are stored inside `TaskT`); they are not modelled.

Only storage is modelled here: `PlanT::clear()` = `clearTasks()` + `clearStatuses()`; the status
bits (`tasksSuccesses`, `tasksFailures`, `headStatuses`, `subStatuses`) belong to C06.

All seven public kinds (`change / restart / resume / select / utilize / randomize / schedule`, each
in three overloads, plus the `…With` payload variants) are one-line forwards to
`append(origin, destination, TransitionType[, payload])`; the model has that one function.

Every `array[index]` is a bounds-checked read; `none` = out-of-bounds reference (undefined
behaviour) or a loop that would not terminate.
-/
import Hfsm.Model.Pool

namespace Hfsm.Model

/-- `TaskLink` (root/plan_data.hpp): default `{INVALID_LONG, INVALID_LONG}`. -/
structure TaskLink where
  prev : Nat
  next : Nat
  deriving DecidableEq, Repr, Inhabited

/-- `TaskLink{}` = `filler<TaskLink>()`. -/
def TaskLink.dflt : TaskLink := { prev := INVALID, next := INVALID }

/-- `Bounds` (root/plan_data.hpp): default `{INVALID_LONG, INVALID_LONG}`. -/
structure Bounds where
  first : Nat
  last  : Nat
  deriving DecidableEq, Repr, Inhabited

def Bounds.dflt : Bounds := { first := INVALID, last := INVALID }

/-- The storage part of `PlanDataT<Args>`: `tasks`, `taskLinks`, `taskBounds`, `planExists`.
`TASK_CAPACITY = tasks.cap = links.size`, `REGION_COUNT = bounds.size = planExists.size`. -/
structure PlanData where
  tasks      : Pool
  links      : Array TaskLink
  bounds     : Array Bounds
  planExists : Array Bool
  deriving Repr

namespace PlanData

/-- `TASK_CAPACITY` (= `TaskLinks::CAPACITY`). -/
def cap (pd : PlanData) : Nat := pd.tasks.cap

/-- A default-constructed `PlanDataT` (also the state after `PlanDataT::clear()`, which clears
`tasks`, fills `taskLinks` / `taskBounds` with their defaults and clears `planExists`). -/
def new (cap regions : Nat) : PlanData :=
  { tasks := Pool.new cap
    links := Array.replicate cap TaskLink.dflt
    bounds := Array.replicate regions Bounds.dflt
    planExists := Array.replicate regions false }

/-- `PlanDataT::clear()` (root/plan_data.inl), storage part: `tasks.clear()` keeps the items,
`taskLinks.clear()` / `taskBounds.clear()` fill with `filler<>() = T{}`, `planExists.clear()`. -/
def clear (pd : PlanData) : PlanData :=
  { tasks := pd.tasks.clear
    links := pd.links.map fun _ => TaskLink.dflt
    bounds := pd.bounds.map fun _ => Bounds.dflt
    planExists := pd.planExists.map fun _ => false }

/-- `PlanT::linkTask(index)` (root/plan_1.inl) for the plan of region `r`. -/
def linkTask (pd : PlanData) (r : Nat) (index : Nat) : Option (PlanData × Bool) :=
  if index ≠ INVALID then
    match pd.bounds[r]? with
    | none => none
    | some b =>
      if b.first = INVALID then
        some ({ pd with bounds := pd.bounds.setIfInBounds r { first := index, last := index } }, true)
      else
        match pd.links[b.last]? with
        | none => none
        | some lastLink =>
          let links := pd.links.setIfInBounds b.last { lastLink with next := index }
          match links[index]? with
          | none => none
          | some currLink =>
            let links := links.setIfInBounds index { currLink with prev := b.last }
            some ({ pd with links := links,
                            bounds := pd.bounds.setIfInBounds r { b with last := index } }, true)
  else some (pd, false)

/-- `PlanT::append(origin, destination, type)` (root/plan_1.inl) and
`PayloadPlanT::append(origin, destination, type, payload)` (root/plan_2.inl); `x` is the task built
from the arguments.  Returns `false` and changes nothing when `tasks.count() == TASK_CAPACITY`. -/
def append (pd : PlanData) (r : Nat) (x : Item) : Option (PlanData × Bool) :=
  if pd.tasks.count < pd.cap then
    -- `_planData.planExists.set(_regionId)`
    if r < pd.planExists.size then
      let pd1 := { pd with planExists := pd.planExists.setIfInBounds r true }
      match pd1.tasks.emplace x with
      | none => none
      | some (tasks, index) => linkTask { pd1 with tasks := tasks } r index
    else none
  else some (pd, false)

/-- `PlanT::remove(index)` (root/plan_1.inl, private; reached through `Iterator::remove()` and
`clearTasks()`).  `link` is a C++ reference, so it is re-read after the first write. -/
def remove (pd : PlanData) (r : Nat) (index : Nat) : Option PlanData :=
  match pd.links[index]?, pd.bounds[r]? with
  | some link, some b =>
    -- if (link.prev < CAPACITY) prev.next = link.next; else _bounds.first = link.next;
    let step1 : Option (Array TaskLink × Bounds) :=
      if link.prev < pd.cap then
        match pd.links[link.prev]? with
        | none => none
        | some prev => some (pd.links.setIfInBounds link.prev { prev with next := link.next }, b)
      else some (pd.links, { b with first := link.next })
    match step1 with
    | none => none
    | some (links1, b1) =>
      match links1[index]? with
      | none => none
      | some link1 =>
        -- if (link.next < CAPACITY) next.prev = link.prev; else _bounds.last = link.prev;
        let step2 : Option (Array TaskLink × Bounds) :=
          if link1.next < pd.cap then
            match links1[link1.next]? with
            | none => none
            | some next => some (links1.setIfInBounds link1.next { next with prev := link1.prev }, b1)
          else some (links1, { b1 with last := link1.prev })
        match step2 with
        | none => none
        | some (links2, b2) =>
          -- link.prev = link.next = INVALID_LONG; _planData.tasks.remove(index);
          match pd.tasks.remove index with
          | none => none
          | some tasks =>
            some { pd with tasks := tasks,
                           links := links2.setIfInBounds index TaskLink.dflt,
                           bounds := pd.bounds.setIfInBounds r b2 }
  | _, _ => none

/-- The `for` loop of `PlanT::clearTasks()`; `fuel` bounds the number of iterations
(`none` when exhausted: the C++ loop would not terminate). -/
def clearLoop : Nat → PlanData → Nat → Nat → Option PlanData
  | 0, _, _, _ => none
  | fuel + 1, pd, r, index =>
    if index ≠ INVALID then
      match pd.links[index]? with
      | none => none
      | some link =>
        match pd.remove r index with
        | none => none
        | some pd' => clearLoop fuel pd' r link.next
    else some pd

/-- `PlanT::clearTasks()` (root/plan_1.inl) = the storage effect of `PlanT::clear()`. -/
def clearTasks (pd : PlanData) (r : Nat) : Option PlanData :=
  match pd.bounds[r]? with
  | none => none
  | some b =>
    if b.first < pd.cap then
      match clearLoop (pd.cap + 1) pd r b.first with
      | none => none
      | some pd' => some { pd' with bounds := pd'.bounds.setIfInBounds r Bounds.dflt }
    else some pd

/-- `PlanT::operator bool()` / `CPlanT::operator bool()`: `_bounds.first < TASK_CAPACITY`. -/
def nonEmpty (pd : PlanData) (r : Nat) : Option Bool :=
  (pd.bounds[r]?).map fun b => decide (b.first < pd.cap)

/-- `CPlanT::first()` / `last()` (root/plan_0.inl): `tasks[_bounds.first]`, `tasks[_bounds.last]`. -/
def firstTask (pd : PlanData) (r : Nat) : Option Item :=
  (pd.bounds[r]?).bind fun b => pd.tasks.get b.first
def lastTask (pd : PlanData) (r : Nat) : Option Item :=
  (pd.bounds[r]?).bind fun b => pd.tasks.get b.last

end PlanData

/-- `PlanT::Iterator`, `PlanT::CIterator`, `CPlanT::Iterator` (identical code): `_curr`, `_next`. -/
structure PlanIter where
  curr : Nat
  next : Nat
  deriving DecidableEq, Repr

namespace PlanIter

/-- `Iterator::next()`: `taskLinks[_curr].next` when `_curr < TASK_CAPACITY`, else `INVALID_LONG`. -/
def nextOf (pd : PlanData) (curr : Nat) : Option Nat :=
  if curr < pd.cap then (pd.links[curr]?).map (·.next) else some INVALID

/-- `Iterator(plan)`: `_curr = _bounds.first`, `_next = next()`. -/
def begin (pd : PlanData) (r : Nat) : Option PlanIter :=
  match pd.bounds[r]? with
  | none => none
  | some b => (nextOf pd b.first).map fun n => { curr := b.first, next := n }

/-- `Iterator::operator bool()`. -/
def valid (pd : PlanData) (it : PlanIter) : Bool := decide (it.curr < pd.cap)

/-- `Iterator::operator ++()`: `_curr = _next; _next = next();`. -/
def advance (pd : PlanData) (it : PlanIter) : Option PlanIter :=
  (nextOf pd it.next).map fun n => { curr := it.next, next := n }

/-- `Iterator::operator *()`: `tasks[_curr]`. -/
def deref (pd : PlanData) (it : PlanIter) : Option Item := pd.tasks.get it.curr

/-- `Iterator::remove()`: `_plan.remove(_curr)`; the iterator itself is unchanged. -/
def remove (pd : PlanData) (r : Nat) (it : PlanIter) : Option PlanData := pd.remove r it.curr

end PlanIter

namespace PlanData

/-- Slots visited by a range-`for` over the plan of region `r` (`begin()`, `operator bool`, `++`),
with `fuel` iterations at most. -/
def walk (pd : PlanData) : Nat → Nat → List Nat
  | 0, _ => []
  | fuel + 1, curr =>
    if curr < pd.cap then
      match pd.links[curr]? with
      | none => [curr]
      | some l => curr :: walk pd fuel l.next
    else []

/-- The slots of region `r`'s plan in iteration order. -/
def chain (pd : PlanData) (r : Nat) : List Nat :=
  match pd.bounds[r]? with
  | none => []
  | some b => walk pd (pd.cap + 1) b.first

/-- The client loop `for (auto it = plan.begin(); it; ++it) { visit(*it); if (…) it.remove(); }`
with `remove()` called at the iteration positions listed in `rm` (positions count visited tasks
from `k`).  Returns the final storage and the visited tasks.  `fuel` bounds the iterations. -/
def iterLoop : Nat → PlanData → Nat → PlanIter → Nat → List Nat → Option (PlanData × List Item)
  | 0, _, _, _, _, _ => none
  | fuel + 1, pd, r, it, k, rm =>
    if it.valid pd then
      match it.deref pd with
      | none => none
      | some x =>
        match (if k ∈ rm then it.remove pd r else some pd) with
        | none => none
        | some pd' =>
          match it.advance pd' with
          | none => none
          | some it' => (iterLoop fuel pd' r it' (k + 1) rm).map fun (q, xs) => (q, x :: xs)
    else some (pd, [])

/-- Whole remove-while-iterating pass over region `r`. -/
def iterate (pd : PlanData) (r : Nat) (rm : List Nat) : Option (PlanData × List Item) :=
  match PlanIter.begin pd r with
  | none => none
  | some it => iterLoop (pd.cap + 1) pd r it 0 rm

/-- Abstraction function: the tasks of region `r`'s plan in iteration order. -/
def abs (pd : PlanData) (r : Nat) : List Item :=
  (pd.chain r).filterMap fun i => pd.tasks.get i

end PlanData

end Hfsm.Model
