/-
Model of HFSM2's bundled random generators (property C20).

C++ source: development/hfsm2/detail/shared/random.hpp / random.inl (joined into
include/hfsm2/machine.hpp), `widen` / `reinterpret` in development/hfsm2/detail/shared/utility.hpp.

Every numeric constant and every state index used below comes from `Hfsm.Generated.Rng`
(`Hfsm/Generated/RngFacts.lean`, regenerated from the current source by
`tools/extract_facts_rng.py` on every check).  The functions follow the C++ statement by statement;
the order of the `_state[a] ^= _state[b]` statements is itself data taken from the source.

All arithmetic is over `BitVec 64` / `BitVec 32`, which is exactly C++ `uint64_t` / `uint32_t`
arithmetic (wrap-around `+`, `*`, logical `>>`, `<<` with amounts below the width).
-/
import Hfsm.Generated.RngFacts

namespace Hfsm.Model.Rng

open Hfsm.Generated

/-! ## rotl, widen -/

/-- `rotl(x, k)` — random.inl: `return (x << k) | (x >> (WIDTH - k));` where `WIDTH` is the literal
in the source (`32` / `64`, extracted as `rotl32Width` / `rotl64Width`). -/
def rotl {w : Nat} (width : Nat) (x : BitVec w) (k : Nat) : BitVec w :=
  (x <<< k) ||| (x >>> (width - k))

/-- `widen(x, y)` — utility.hpp: `return static_cast<uint64_t>(x) << 32 | y;` -/
def widen (x y : BitVec 32) : BitVec 64 :=
  (x.zeroExtend 64 <<< Rng.widenShift) ||| y.zeroExtend 64

/-! ## SplitMix (`SimpleRandomT<8>` / `SimpleRandomT<4>`) -/

/-- Constants of one `SimpleRandomT<N>::rawNN()`. -/
structure SmParams (w : Nat) where
  inc : BitVec w
  k1  : Nat
  m1  : BitVec w
  k2  : Nat
  m2  : BitVec w
  k3  : Nat

/-- Constants of `SimpleRandomT<8>::raw64()` as they stand in the source. -/
def sm64 : SmParams 64 :=
  { inc := BitVec.ofNat 64 Rng.sm64Inc
    k1 := Rng.sm64Shift1, m1 := BitVec.ofNat 64 Rng.sm64Mul1
    k2 := Rng.sm64Shift2, m2 := BitVec.ofNat 64 Rng.sm64Mul2
    k3 := Rng.sm64Shift3 }

/-- Constants of `SimpleRandomT<4>::raw32()` as they stand in the source. -/
def sm32 : SmParams 32 :=
  { inc := BitVec.ofNat 32 Rng.sm32Inc
    k1 := Rng.sm32Shift1, m1 := BitVec.ofNat 32 Rng.sm32Mul1
    k2 := Rng.sm32Shift2, m2 := BitVec.ofNat 32 Rng.sm32Mul2
    k3 := Rng.sm32Shift3 }

/-- The three statements of `rawNN()` after the counter increment:
`z = (z ^ (z >> k1)) * m1; z = (z ^ (z >> k2)) * m2; return z ^ (z >> k3);` -/
def mix {w : Nat} (p : SmParams w) (z : BitVec w) : BitVec w :=
  let z := (z ^^^ (z >>> p.k1)) * p.m1
  let z := (z ^^^ (z >>> p.k2)) * p.m2
  z ^^^ (z >>> p.k3)

/-- `SimpleRandomT<N>::rawNN()`: `z = (_state += inc); …` — returns (new `_state`, result). -/
def raw {w : Nat} (p : SmParams w) (st : BitVec w) : BitVec w × BitVec w :=
  let st' := st + p.inc
  (st', mix p st')

/-- `SimpleRandomT<N>::uintNN()`: `for (;;) if (const uintNN_t number = rawNN()) return number;`
The unbounded loop is modelled with fuel; `none` = fuel exhausted (the loop would still be running).
`Hfsm.Props.C20.draw_terminates_nonzero` proves that fuel 2 always suffices. -/
def drawFuel {w : Nat} (p : SmParams w) : Nat → BitVec w → Option (BitVec w × BitVec w)
  | 0, _ => none
  | fuel + 1, st =>
    let r := raw p st
    if r.2 ≠ 0 then some r else drawFuel p fuel r.1

/-- Fuel used by the executable model for the retry loop (proved sufficient). -/
def drawBudget : Nat := 2

/-- `SimpleRandomT<N>::uintNN()` with the proved-sufficient fuel. -/
def draw {w : Nat} (p : SmParams w) (st : BitVec w) : Option (BitVec w × BitVec w) :=
  drawFuel p drawBudget st

/-- `n` consecutive calls of `SimpleRandomT<N>::uintNN()` on one object: (results, final counter). -/
def drawStream {w : Nat} (p : SmParams w) : Nat → BitVec w → Option (List (BitVec w) × BitVec w)
  | 0, st => some ([], st)
  | n + 1, st =>
    match draw p st with
    | none => none
    | some (st', v) =>
      match drawStream p n st' with
      | none => none
      | some (vs, st'') => some (v :: vs, st'')

/-! ## xoshiro state (`BaseRandomT<N>::_state[4]`) -/

/-- `uintNN_t _state[4]`. -/
structure S4 (w : Nat) where
  s0 : BitVec w
  s1 : BitVec w
  s2 : BitVec w
  s3 : BitVec w
deriving DecidableEq, Repr

/-- `_state[i]` (the extractor rejects a source that uses an index above 3). -/
def S4.get {w : Nat} (s : S4 w) : Nat → BitVec w
  | 0 => s.s0
  | 1 => s.s1
  | 2 => s.s2
  | _ => s.s3

/-- `_state[i] = v`. -/
def S4.set {w : Nat} (s : S4 w) (i : Nat) (v : BitVec w) : S4 w :=
  match i with
  | 0 => { s with s0 := v }
  | 1 => { s with s1 := v }
  | 2 => { s with s2 := v }
  | _ => { s with s3 := v }

/-- `s0 ^= _state[0]; s1 ^= _state[1]; s2 ^= _state[2]; s3 ^= _state[3];` -/
def S4.xor {w : Nat} (a b : S4 w) : S4 w :=
  ⟨a.s0 ^^^ b.s0, a.s1 ^^^ b.s1, a.s2 ^^^ b.s2, a.s3 ^^^ b.s3⟩

def S4.zero {w : Nat} : S4 w := ⟨0, 0, 0, 0⟩

/-- `BaseRandomT<N>::seed(SimpleRandom&&)` / the constructor's `_state{simple.uintNN(), …}`:
one `uintNN()` draw per listed index, in source order (braced initialisers are evaluated left to
right, so constructor and `seed()` agree).  `none` only if a draw runs out of fuel. -/
def seedFill {w : Nat} (p : SmParams w) : List Nat → BitVec w → S4 w → Option (S4 w)
  | [], _, s => some s
  | i :: rest, st, s =>
    match draw p st with
    | none => none
    | some (st', n) => seedFill p rest st' (s.set i n)

/-- `BaseRandomT<8>::BaseRandomT(uint64_t s)` = `BaseRandomT{SimpleRandom{s}}`. -/
def seed64 (s : BitVec 64) : Option (S4 64) := seedFill sm64 Rng.base8SeedOrder s S4.zero

/-- `BaseRandomT<4>::BaseRandomT(uint32_t s)` = `BaseRandomT{SimpleRandom{s}}`. -/
def seed32 (s : BitVec 32) : Option (S4 32) := seedFill sm32 Rng.base4SeedOrder s S4.zero

/-! ## xoshiro `next` and `jump` -/

/-- Shape of the `result` expression. -/
inductive Scrambler where
  /-- `result = _state[a] + _state[b]` (xoshiro+). -/
  | plus (a b : Nat)
  /-- `result = rotl(_state[i] * m1, r) * m2` (xoshiro**). -/
  | starstar (i m1 r m2 : Nat)

/-- Everything `FloatRandomT<N>/IntRandomT<N>::uintNN()` and `::jump()` are written with. -/
structure XoParams where
  width   : Nat
  scr     : Scrambler
  tIdx    : Nat
  shift   : Nat
  xorSeq  : List (Nat × Nat)
  tDst    : Nat
  rotDst  : Nat
  rotSrc  : Nat
  rot     : Nat
  jump    : List Nat
  jumpBits : Nat

/-- `FloatRandomT<8>` (xoshiro256+) as it stands in the source. -/
def f8 : XoParams :=
  { width := Rng.rotl64Width, scr := .plus Rng.f8ResA Rng.f8ResB
    tIdx := Rng.f8TIdx, shift := Rng.f8Shift, xorSeq := Rng.f8XorSeq, tDst := Rng.f8TDst
    rotDst := Rng.f8RotDst, rotSrc := Rng.f8RotSrc, rot := Rng.f8Rot
    jump := Rng.f8Jump, jumpBits := Rng.f8JumpBits }

/-- `FloatRandomT<4>` (xoshiro128+) as it stands in the source. -/
def f4 : XoParams :=
  { width := Rng.rotl32Width, scr := .plus Rng.f4ResA Rng.f4ResB
    tIdx := Rng.f4TIdx, shift := Rng.f4Shift, xorSeq := Rng.f4XorSeq, tDst := Rng.f4TDst
    rotDst := Rng.f4RotDst, rotSrc := Rng.f4RotSrc, rot := Rng.f4Rot
    jump := Rng.f4Jump, jumpBits := Rng.f4JumpBits }

/-- `IntRandomT<8>` (xoshiro256**) as it stands in the source. -/
def i8 : XoParams :=
  { width := Rng.rotl64Width, scr := .starstar Rng.i8ResIdx Rng.i8ResMul1 Rng.i8ResRot Rng.i8ResMul2
    tIdx := Rng.i8TIdx, shift := Rng.i8Shift, xorSeq := Rng.i8XorSeq, tDst := Rng.i8TDst
    rotDst := Rng.i8RotDst, rotSrc := Rng.i8RotSrc, rot := Rng.i8Rot
    jump := Rng.i8Jump, jumpBits := Rng.i8JumpBits }

/-- `IntRandomT<4>` (xoshiro128**) as it stands in the source. -/
def i4 : XoParams :=
  { width := Rng.rotl32Width, scr := .starstar Rng.i4ResIdx Rng.i4ResMul1 Rng.i4ResRot Rng.i4ResMul2
    tIdx := Rng.i4TIdx, shift := Rng.i4Shift, xorSeq := Rng.i4XorSeq, tDst := Rng.i4TDst
    rotDst := Rng.i4RotDst, rotSrc := Rng.i4RotSrc, rot := Rng.i4Rot
    jump := Rng.i4Jump, jumpBits := Rng.i4JumpBits }

/-- The `const uintNN_t result = …;` line. -/
def result {w : Nat} (p : XoParams) (s : S4 w) : BitVec w :=
  match p.scr with
  | .plus a b => s.get a + s.get b
  | .starstar i m1 r m2 => rotl p.width (s.get i * BitVec.ofNat w m1) r * BitVec.ofNat w m2

/-- One `_state[a] ^= _state[b];` statement. -/
def xorStmt {w : Nat} (s : S4 w) (ab : Nat × Nat) : S4 w :=
  s.set ab.1 (s.get ab.1 ^^^ s.get ab.2)

/-- `FloatRandomT<N>::uintNN()` / `IntRandomT<N>::uintNN()` — random.inl, statement by statement:
```
const T result = …;
const T t = _state[tIdx] << shift;
_state[2] ^= _state[0]; _state[3] ^= _state[1]; _state[1] ^= _state[2]; _state[0] ^= _state[3];   // xorSeq
_state[tDst] ^= t;
_state[rotDst] = rotl(_state[rotSrc], rot);
return result;
```
Returns (result, new state). -/
def next {w : Nat} (p : XoParams) (s : S4 w) : BitVec w × S4 w :=
  let res := result p s
  let t := s.get p.tIdx <<< p.shift
  let s := p.xorSeq.foldl xorStmt s
  let s := s.set p.tDst (s.get p.tDst ^^^ t)
  let s := s.set p.rotDst (rotl p.width (s.get p.rotSrc) p.rot)
  (res, s)

/-- Body of the inner `for (b = 0; b < jumpBits; ++b)` loop of `jump()`:
`if (JUMP[i] & UINTNN_C(1) << b) { s0 ^= _state[0]; … }  uintNN();` — pair = (accumulator, `_state`). -/
def jumpBit {w : Nat} (p : XoParams) (jw : BitVec w) (as : S4 w × S4 w) (b : Nat) : S4 w × S4 w :=
  let acc := if jw &&& ((1 : BitVec w) <<< b) ≠ 0 then as.1.xor as.2 else as.1
  (acc, (next p as.2).2)

/-- Body of the outer `for (i = 0; i < count(JUMP); ++i)` loop: the whole inner loop for `JUMP[i]`. -/
def jumpWord {w : Nat} (p : XoParams) (as : S4 w × S4 w) (jw : Nat) : S4 w × S4 w :=
  (List.range p.jumpBits).foldl (jumpBit p (BitVec.ofNat w jw)) as

/-- `FloatRandomT<N>::jump()` / `IntRandomT<N>::jump()` — the double loop, then
`_state[0] = s0; …; _state[3] = s3;`. -/
def jump {w : Nat} (p : XoParams) (s : S4 w) : S4 w :=
  (p.jump.foldl (jumpWord p) (S4.zero, s)).1

/-! ## the derived draws -/

/-- `FloatRandomT<8>::uint32()` / `IntRandomT<8>::uint32()`: `static_cast<uint32_t>(uint64())`. -/
def next32of64 (p : XoParams) (s : S4 64) : BitVec 32 × S4 64 :=
  let r := next p s
  (r.1.truncate 32, r.2)

/-- `FloatRandomT<4>::uint64()` / `IntRandomT<4>::uint64()` — random.hpp (after the repair
"draw the two halves of the 32-bit generators' uint64() in a defined order"):
`{ const uint32_t x = uint32(); const uint32_t y = uint32(); return widen(x, y); }`.
The two draws are sequenced declarations, so their order is defined by the language;
`firstDrawArg` is the source fact saying which argument of `widen` the FIRST draw is passed to
(`0` = first argument = high half, anything else = second argument = low half; the extractor only
emits 0 or 1 and rejects every shape whose evaluation order is not defined).

Historical remark: before the repair the body was `return widen(uint32(), uint32());`, whose two calls
are indeterminately sequenced — g++ 12 drew the right argument first, clang 14 the left one (measured,
-O0…-O3), so the result was compiler-dependent and the order had to be a measured parameter. -/
def next64of32 (firstDrawArg : Nat) (p : XoParams) (s : S4 32) : BitVec 64 × S4 32 :=
  let a := next p s
  let b := next p a.2
  if firstDrawArg = 0 then (widen a.1 b.1, b.2) else (widen b.1 a.1, b.2)

/-- `FloatRandomT<4>::uint64()` with the order of the current source. -/
def f4next64 (s : S4 32) : BitVec 64 × S4 32 := next64of32 Rng.f4WidenFirstDrawArg f4 s

/-- `IntRandomT<4>::uint64()` with the order of the current source. -/
def i4next64 (s : S4 32) : BitVec 64 × S4 32 := next64of32 Rng.i4WidenFirstDrawArg i4 s

/-! ## uniform -/

/-- The integer handed to `reinterpret<float>` by `uniform(uint32_t)`: `UINT32_C(0x7F) << 23 | uint >> 9`. -/
def uniformArg32 (x : BitVec 32) : BitVec 32 :=
  (BitVec.ofNat 32 Rng.uni32Exp <<< Rng.uni32ExpShift) ||| (x >>> Rng.uni32Shift)

/-- The integer handed to `reinterpret<double>` by `uniform(uint64_t)`: `UINT64_C(0x3FF) << 52 | uint >> 12`. -/
def uniformArg64 (x : BitVec 64) : BitVec 64 :=
  (BitVec.ofNat 64 Rng.uni64Exp <<< Rng.uni64ExpShift) ||| (x >>> Rng.uni64Shift)

/-- Real value of a finite non-negative IEEE-754 number given by its fields (`mbits` mantissa bits,
exponent bias `bias`, biased exponent `e` below the all-ones pattern, mantissa field `f`):
`e = 0` (zero / subnormal): `f · 2^(1 - bias - mbits)`; otherwise `2^(e-bias) · (1 + f / 2^mbits)`. -/
def ieeeValue (mbits bias : Nat) (e f : Nat) : Rat :=
  if e = 0 then (f : Rat) / (2 : Rat) ^ mbits * (2 : Rat) ^ (1 - (bias : Int))
  else (2 : Rat) ^ ((e : Int) - (bias : Int)) * (1 + (f : Rat) / (2 : Rat) ^ mbits)

/-- Real value of the binary32 number with bit pattern `b` (sign bit clear, exponent < 255). -/
def f32Value (b : BitVec 32) : Rat :=
  ieeeValue 23 127 ((b >>> 23).toNat % 256) (b.toNat % 2 ^ 23)

/-- Real value of the binary64 number with bit pattern `b` (sign bit clear, exponent < 2047). -/
def f64Value (b : BitVec 64) : Rat :=
  ieeeValue 52 1023 ((b >>> 52).toNat % 2048) (b.toNat % 2 ^ 52)

/-- `uniform(uint32_t)` as an exact rational: value of the constructed float, minus one.
TRUSTED STEP (IEEE-754, not proved in Lean): the C++ computes `fl(a − 1.0f)` in binary32 with
`a = reinterpret<float>(uniformArg32 x) ∈ [1,2)`; because `1 ≤ a ≤ 2·1` the subtraction is exact
(Sterbenz' lemma), so the returned float *is* the rational `f32Value (uniformArg32 x) - 1`. -/
def uniformRat32 (x : BitVec 32) : Rat := f32Value (uniformArg32 x) - 1

/-- `uniform(uint64_t)` as an exact rational (same trusted step in binary64). -/
def uniformRat64 (x : BitVec 64) : Rat := f64Value (uniformArg64 x) - 1

/-- Bit pattern of the non-negative binary-`(1+ebits+mbits)` number `m · 2^(-mbits)` for
`m < 2^mbits` (so the number is `0` or a normal number in `[2^-mbits, 1)`):
`m = 0 ↦ +0`; otherwise with `h = ⌊log2 m⌋`: biased exponent `bias - mbits + h`, mantissa field
`(m - 2^h) · 2^(mbits - h)`.  This is what the driver compares with the bits the harness prints. -/
def fracBits (mbits bias : Nat) (m : Nat) : Nat :=
  if m = 0 then 0 else
    let h := Nat.log2 m
    ((bias - mbits + h) <<< mbits) ||| ((m - 2 ^ h) <<< (mbits - h))

/-- Predicted bit pattern of the `float` returned by `uniform(uint32_t)`. -/
def uniformBits32 (x : BitVec 32) : BitVec 32 :=
  BitVec.ofNat 32 (fracBits 23 127 (x >>> Rng.uni32Shift).toNat)

/-- Predicted bit pattern of the `double` returned by `uniform(uint64_t)`. -/
def uniformBits64 (x : BitVec 64) : BitVec 64 :=
  BitVec.ofNat 64 (fracBits 52 1023 (x >>> Rng.uni64Shift).toNat)

/-! ## whole generators (what the transcript exercises) -/

/-- `FloatRandomT<N>::float32()` on the 8-byte variants: `uniform(uint32())` → (bits of result, state). -/
def float32of64 (p : XoParams) (s : S4 64) : BitVec 32 × S4 64 :=
  let r := next32of64 p s
  (uniformBits32 r.1, r.2)

/-- `float64()` on the 8-byte variants: `uniform(uint64())`. -/
def float64of64 (p : XoParams) (s : S4 64) : BitVec 64 × S4 64 :=
  let r := next p s
  (uniformBits64 r.1, r.2)

/-- `float32()` on the 4-byte variants: `uniform(uint32())`. -/
def float32of32 (p : XoParams) (s : S4 32) : BitVec 32 × S4 32 :=
  let r := next p s
  (uniformBits32 r.1, r.2)

/-- `float64()` on the 4-byte variants: `uniform(uint64())`, `uint64()` as above. -/
def float64of32 (firstDrawArg : Nat) (p : XoParams) (s : S4 32) : BitVec 64 × S4 32 :=
  let r := next64of32 firstDrawArg p s
  (uniformBits64 r.1, r.2)

/-- `FloatRandomT<4>::float64()` / `IntRandomT<4>::float64()` with the order of the current source. -/
def f4float64 (s : S4 32) : BitVec 64 × S4 32 := float64of32 Rng.f4WidenFirstDrawArg f4 s
def i4float64 (s : S4 32) : BitVec 64 × S4 32 := float64of32 Rng.i4WidenFirstDrawArg i4 s

/-- First `n` results of iterating a draw function (`n` calls in a row on one object). -/
def stream {σ α : Type} (f : σ → α × σ) : Nat → σ → List α
  | 0, _ => []
  | n + 1, s => let r := f s; r.1 :: stream f n r.2

end Hfsm.Model.Rng
