/-
Request marking and resolution: `RegistryT::requestImmediate/requestScheduled/backup/restore`
(root/registry_1.inl) and the downward passes `deepForwardActive / deepForwardRequest / deepRequest* /
deepReport* / resolveRandom` of `C_`, `CS_`, `O_`, `OS_`, `S_` (structure/composite*.inl,
structure/orthogonal*.inl, structure/state_1.inl).

Sub-state dispatch by prong (`CS_`'s balanced halves) is positional indexing; the balanced split
matters only for the association of floating-point sums and of the arg-max, which `treeFold` keeps.
-/
import Hfsm.Model.Tree
import Hfsm.Model.Callback

namespace Hfsm
variable {U : Type} [UtilArith U]
open UtilArith

/-! ### balanced fold (the shape of `CS_`'s `LHalf`/`RHalf` recursion) -/

/-- Fold a non-empty list the way `CS_<…, TL_<TS…>>` combines its halves: the left half has
`⌊n/2⌋` elements. -/
def treeFold {α : Type} (f : α → α → α) (dflt : α) : Nat → List α → α
  | _, [] => dflt
  | _, [a] => a
  | 0, a :: _ => a
  | fuel+1, l =>
    let k := l.length / 2
    f (treeFold f dflt fuel (l.take k)) (treeFold f dflt fuel (l.drop k))

/-- `l.utility >= r.utility ? l : r` over the halves (`CS_::wideReportUtilize`,
`wideReportChangeUtilitarian`): index and value of the winner. -/
def argMax (us : List U) : Option (Nat × U) :=
  match us with
  | [] => none
  | u :: _ =>
    let ps : List (Nat × U) := us.zipIdx.map (fun x => (x.2, x.1))
    some (treeFold (fun l r => if le r.2 l.2 then l else r) (0, u) ps.length ps)

/-- `l + r` over the halves (`CS_::wideReportRandomize`, `wideReportChangeRandom`). -/
def treeSum (us : List U) : U := treeFold add zero us.length us

/-- `l >= r ? l : r` over the halves (`CS_::wideReportRank`). -/
def topRank (rs : List Int) : Int := treeFold (fun l r => if l ≥ r then l else r) 0 rs.length rs

/-- `i + (rest)` (`OS_::wideReportChange/Utilize/Randomize`): right-nested sum, last element bare. -/
def chainSum : List U → U
  | [] => zero
  | [u] => u
  | u :: rest => add u (chainSum rest)

/-! ### marks -/

def Subs.anyBit : Subs → Bool
  | .nil => false
  | .cons b _ r => b || r.anyBit

def Subs.setBit : Subs → Nat → Subs
  | .nil, _ => .nil
  | .cons _ n r, 0 => .cons true n r
  | .cons b n r, i+1 => .cons b n (r.setBit i)

/-- Phase of `requestImmediate`'s upward walk reached below a node. -/
inductive Phase | p1 | p2 | p3
  deriving DecidableEq, Repr

mutual
/-- `RegistryT::requestImmediate` along the path to the destination, as a top-down recursion that
returns the phase the upward walk is in when it arrives at this node. -/
def Node.mark : Node → List Nat → Node × Phase
  | n, [] => (n, .p1)
  | .leaf id inj, _ :: _ => (.leaf id inj, .p1)
  | .compo id rid inj h st a r q m s, i :: rest =>
      let (s', ph) := s.markAt i rest
      match ph with
      | .p1 => (.compo id rid inj h st a r (some i) m s', .p2)
      | .p2 => if (q ≠ some i ∧ q ≠ none) ∨ a ≠ some i
               then (.compo id rid inj h st a r (some i) true s', .p2)
               else (.compo id rid inj h st a r q true s', .p3)
      | .p3 => (.compo id rid inj h st a r q true s', .p3)
  | .ortho id rid inj h s, i :: rest =>
      let (s', ph) := s.markAt i rest
      (.ortho id rid inj h (s'.setBit i), ph)
def Subs.markAt : Subs → Nat → List Nat → Subs × Phase
  | .nil, _, _ => (.nil, .p1)
  | .cons b n r, 0, p => let (n', ph) := n.mark p; (.cons b n' r, ph)
  | .cons b n r, i+1, p => let (r', ph) := r.markAt i p; (.cons b n r', ph)
end

mutual
/-- `RegistryT::requestScheduled`: the direct parent fork, if composite, remembers the prong. -/
def Node.schedule : Node → List Nat → Node
  | n, [] => n
  | .leaf id inj, _ :: _ => .leaf id inj
  | .compo id rid inj h st a r q m s, [i] => .compo id rid inj h st a (if i < s.len then some i else r) q m s
  | .compo id rid inj h st a r q m s, i :: j :: rest => .compo id rid inj h st a r q m (s.scheduleAt i (j :: rest))
  | .ortho id rid inj h s, [_] => .ortho id rid inj h s
  | .ortho id rid inj h s, i :: j :: rest => .ortho id rid inj h (s.scheduleAt i (j :: rest))
def Subs.scheduleAt : Subs → Nat → List Nat → Subs
  | .nil, _, _ => .nil
  | .cons b n r, 0, p => .cons b (n.schedule p) r
  | .cons b n r, i+1, p => .cons b n (r.scheduleAt i p)
end

mutual
/-- `registry != backup` (root/registry_1.inl, with `compoRemains` included): do the request marks of
two instances of the same tree differ? -/
def Node.marksDiffer : Node → Node → Bool
  | .compo _ _ _ _ _ _ _ q m s, .compo _ _ _ _ _ _ _ q' m' s' => q != q' || m != m' || s.marksDiffer s'
  | .ortho _ _ _ _ s, .ortho _ _ _ _ s' => s.marksDiffer s'
  | _, _ => false
def Subs.marksDiffer : Subs → Subs → Bool
  | .cons b n r, .cons b' n' r' => b != b' || n.marksDiffer n' || r.marksDiffer r'
  | _, _ => false
end

mutual
/-- `registry.restore(backup)`: take the request marks of `bak`, keep everything else of `cur`. -/
def Node.restoreMarks : Node → Node → Node
  | .compo id rid inj h st a r _ _ s, .compo _ _ _ _ _ _ _ q' m' s' =>
      .compo id rid inj h st a r q' m' (s.restoreMarks s')
  | .ortho id rid inj h s, .ortho _ _ _ _ s' => .ortho id rid inj h (s.restoreMarks s')
  | n, _ => n
def Subs.restoreMarks : Subs → Subs → Subs
  | .cons _ n r, .cons b' n' r' => .cons b' (n.restoreMarks n') (r.restoreMarks r')
  | s, _ => s
end

mutual
/-- `RegistryT::clearRequests`. -/
def Node.clearMarks : Node → Node
  | .leaf id inj => .leaf id inj
  | .compo id rid inj h st a r _ _ s => .compo id rid inj h st a r none false s.clearMarks
  | .ortho id rid inj h s => .ortho id rid inj h s.clearMarks
def Subs.clearMarks : Subs → Subs
  | .nil => .nil
  | .cons _ n r => .cons false n.clearMarks r.clearMarks
end

/-! ### head callbacks without control side effects -/

namespace World

/-- `S_::wrapUtility` (structure/state_1.inl, structure/state_2.inl): a headless region's anonymous
head answers the default `Utility{1}`, like a named state that does not override `utility()`. -/
def headUtility (w : World U) (sid inj : Nat) (headed : Bool) : World U × U :=
  -- a named head logs the method in every report pass (`S_::deepReport*` → `wrapUtility`); an anonymous
  -- head's `deepReportChange/deepReportUtilize` answer the default without logging anything
  let w := if headed then w.logRec (.method sid .utility) else w
  if headed then
    let (w, d) := w.invoke sid .utility inj
    match d.findSome? (fun | .retUtil u => some u | _ => none) with
    | some u => (w, u)
    | none => (w.fail' "utility() returned nothing", zero)
  else (w, one)

/-- `HeadState::wrapUtility` called by the region itself (`C_/O_::deepReportRandomize`): as `headUtility`,
except that verbose logging also records the method for an anonymous head. -/
def headUtilityWrap (w : World U) (sid inj : Nat) (headed : Bool) : World U × U :=
  if headed then w.headUtility sid inj true
  else ((if w.cfg.verbose then w.logRec (.method sid .utility) else w), one)

/-- `S_::wrapRank`. -/
def headRank (w : World U) (sid inj : Nat) (headed : Bool) : World U × Int :=
  let w := if headed || w.cfg.verbose then w.logRec (.method sid .rank) else w
  if headed then
    let (w, d) := w.invoke sid .rank inj
    match d.findSome? (fun | .retRank r => some r | _ => none) with
    | some r => (w, r)
    | none => (w.fail' "rank() returned nothing", 0)
  else (w, 0)

/-- `S_::wrapSelect`: a headless head answers the default `0`, like a named head that does not
override `select()`. -/
def headSelect (w : World U) (sid inj : Nat) (headed : Bool) : World U × Option Nat :=
  let w := if headed || w.cfg.verbose then w.logRec (.method sid .select) else w
  if headed then
    let (w, d) := w.invoke sid .select inj
    match d.findSome? (fun | .retSelect i => some i | _ => none) with
    | some i => (w, some i)
    | none => (w.fail' "select() returned nothing", none)
  else (w, some 0)

/-- `C_::resolveRandom` (structure/composite.inl): cumulative walk over the top-rank sub-states, falling
back to the last one with positive utility. -/
def resolveRandom (w : World U) (headId : Nat) (utils : List U) (sum : U) (ranks : List Int) (top : Int) :
    World U × Option Nat :=
  match w.rng with
  | [] => (w.fail' "generator stream exhausted", none)
  | rnd :: rest =>
    let w := { w with rng := rest }
    let chosen := go top utils ranks 0 (mul rnd sum) none
    match chosen with
    | some i => (w.logRec (.randomRes headId (some i) rnd), some i)
    | none => (w.fail' "resolveRandom selected nothing", none)
where
  go (top : Int) : List U → List Int → Nat → U → Option Nat → Option Nat
    | u :: us, rk :: rks, i, cursor, last =>
      if rk = top then
        let last := if !(le u zero) then some i else last
        if le u cursor then go top us rks (i+1) (sub cursor u) last
        else some i
      else go top us rks (i+1) cursor last
    | _, _, _, _, last => last

end World

/-- The resolution a composite region applies to a request of a given kind: `change` resolves by the
region's declared strategy (`C_::deepRequestChange`). -/
def effectiveKind (st : Strategy) : Kind → Kind
  | .change => match st with
    | .composite => .restart
    | .resumable => .resume
    | .selectable => .select
    | .utilitarian => .utilize
    | .random => .randomize
  | k => k

/-! ### report passes (utility theory) -/

mutual
/-- `deepReportChange` of `S_`, `C_` (by strategy), `O_`. Returns the reported utility. -/
def Node.reportChange : Node → World U → Node × World U × U
  | .leaf id inj, w => let (w, u) := w.headUtility id inj true; (.leaf id inj, w, u)
  | .compo id rid inj h st a r _ m s, w =>
    match st with
    | .composite =>
      let (w, hu) := w.headUtility id inj h
      let (s', w, su) := s.reportChangeAt 0 w
      (.compo id rid inj h st a r (some 0) m s', w, mul hu su)
    | .resumable | .selectable =>
      let i := r.getD 0
      let (w, hu) := w.headUtility id inj h
      let (s', w, su) := s.reportChangeAt i w
      (.compo id rid inj h st a r (some i) m s', w, mul hu su)
    | .utilitarian =>
      let (w, hu) := w.headUtility id inj h
      let (s', w, us) := s.reportChangeAll w
      match argMax us with
      | some (i, u) =>
        let w := w.logRec (.utilityRes id (some i) u)
        (.compo id rid inj h st a r (some i) m s', w, mul hu u)
      | none => (.compo id rid inj h st a r none m s', w.fail' "empty region", zero)
    | .random =>
      let (w, hu) := w.headUtility id inj h
      let (w, ranks) := s.reportRankAll w
      let top := topRank ranks
      let (s', w, us) := s.reportChangeTop ranks top w
      let (w, chosen) := w.resolveRandom id us (treeSum us) ranks top
      (.compo id rid inj h st a r chosen m s', w, mul hu (us.getD (chosen.getD 0) zero))
  | .ortho id rid inj h s, w =>
    let (w, hu) := w.headUtility id inj h
    let (s', w, us) := s.reportChangeAll w
    let sub := divNat (chainSum us) s.len
    let w := w.logRec (.utilityRes id none sub)
    (.ortho id rid inj h s', w, mul hu sub)
def Subs.reportChangeAt : Subs → Nat → World U → Subs × World U × U
  | .nil, _, w => (.nil, w.fail' "prong out of range", zero)
  | .cons b n r, 0, w => let (n', w, u) := n.reportChange w; (.cons b n' r, w, u)
  | .cons b n r, i+1, w => let (r', w, u) := r.reportChangeAt i w; (.cons b n r', w, u)
def Subs.reportChangeAll : Subs → World U → Subs × World U × List U
  | .nil, w => (.nil, w, [])
  | .cons b n r, w =>
    let (n', w, u) := n.reportChange w
    let (r', w, us) := r.reportChangeAll w
    (.cons b n' r', w, u :: us)
/-- `CS_::wideReportChangeRandom`: only sub-states of top rank report, the others count as 0. -/
def Subs.reportChangeTop : Subs → List Int → Int → World U → Subs × World U × List U
  | .nil, _, _, w => (.nil, w, [])
  | .cons b n r, rks, top, w =>
    if rks.headD 0 = top then
      let (n', w, u) := n.reportChange w
      let (r', w, us) := r.reportChangeTop rks.tail top w
      (.cons b n' r', w, u :: us)
    else
      let (r', w, us) := r.reportChangeTop rks.tail top w
      (.cons b n r', w, zero :: us)
/-- `CS_::wideReportRank`: `deepReportRank` of every sub-state is its head's `rank()`. -/
def Subs.reportRankAll : Subs → World U → World U × List Int
  | .nil, w => (w, [])
  | .cons _ n r, w =>
    let (w, rk) := match n with
      | .leaf id inj => w.headRank id inj true
      | .compo id _ inj h _ _ _ _ _ _ => w.headRank id inj h
      | .ortho id _ inj h _ => w.headRank id inj h
    let (w, rks) := r.reportRankAll w
    (w, rk :: rks)
end

mutual
/-- `deepReportUtilize` of `S_`, `C_`, `O_`. -/
def Node.reportUtilize : Node → World U → Node × World U × U
  | .leaf id inj, w => let (w, u) := w.headUtility id inj true; (.leaf id inj, w, u)
  | .compo id rid inj h st a r _ m s, w =>
    let (w, hu) := w.headUtility id inj h
    let (s', w, us) := s.reportUtilizeAll w
    match argMax us with
    | some (i, u) =>
      let w := w.logRec (.utilityRes id (some i) u)
      (.compo id rid inj h st a r (some i) m s', w, mul hu u)
    | none => (.compo id rid inj h st a r none m s', w.fail' "empty region", zero)
  | .ortho id rid inj h s, w =>
    let (w, hu) := w.headUtility id inj h
    let (s', w, us) := s.reportUtilizeAll w
    let sub := divNat (chainSum us) s.len
    let w := w.logRec (.utilityRes id none sub)
    (.ortho id rid inj h s', w, mul hu sub)
def Subs.reportUtilizeAll : Subs → World U → Subs × World U × List U
  | .nil, w => (.nil, w, [])
  | .cons b n r, w =>
    let (n', w, u) := n.reportUtilize w
    let (r', w, us) := r.reportUtilizeAll w
    (.cons b n' r', w, u :: us)
end

mutual
/-- `deepReportRandomize` of `S_`, `C_`, `O_`. -/
def Node.reportRandomize : Node → World U → Node × World U × U
  | .leaf id inj, w => let (w, u) := w.headUtility id inj true; (.leaf id inj, w, u)
  | .compo id rid inj h st a r _ m s, w =>
    let (w, hu) := w.headUtilityWrap id inj h
    let (w, ranks) := s.reportRankAll w
    let top := topRank ranks
    let (s', w, us) := s.reportRandomizeTop ranks top w
    let (w, chosen) := w.resolveRandom id us (treeSum us) ranks top
    (.compo id rid inj h st a r chosen m s', w, mul hu (us.getD (chosen.getD 0) zero))
  | .ortho id rid inj h s, w =>
    let (w, hu) := w.headUtilityWrap id inj h
    let (s', w, us) := s.reportRandomizeAll w
    let sub := divNat (chainSum us) s.len
    let w := w.logRec (.randomRes id none sub)
    (.ortho id rid inj h s', w, mul hu sub)
def Subs.reportRandomizeAll : Subs → World U → Subs × World U × List U
  | .nil, w => (.nil, w, [])
  | .cons b n r, w =>
    let (n', w, u) := n.reportRandomize w
    let (r', w, us) := r.reportRandomizeAll w
    (.cons b n' r', w, u :: us)
/-- `CS_::wideReportRandomize`. -/
def Subs.reportRandomizeTop : Subs → List Int → Int → World U → Subs × World U × List U
  | .nil, _, _, w => (.nil, w, [])
  | .cons b n r, rks, top, w =>
    if rks.headD 0 = top then
      let (n', w, u) := n.reportRandomize w
      let (r', w, us) := r.reportRandomizeTop rks.tail top w
      (.cons b n' r', w, u :: us)
    else
      let (r', w, us) := r.reportRandomizeTop rks.tail top w
      (.cons b n r', w, zero :: us)
end

/-! ### request passes -/

mutual
/-- `deepRequest` / `deepRequestChange|Restart|Resume|Select|Utilize|Randomize` of `S_`, `C_`, `O_`:
resolve a region that is about to be entered, recursively. -/
def Node.request : Node → Req → World U → Node × World U
  | .leaf id inj, rq, w => (.leaf id inj, w.pin id rq.index)
  | .ortho id rid inj h s, rq, w =>
    let (s', w) := s.requestAll rq (w.pin id rq.index)
    (.ortho id rid inj h s', w)
  | .compo id rid inj h st a r q m s, rq, w =>
    let w := w.pin id rq.index
    match effectiveKind st rq.kind with
    | .restart =>
      let (s', w) := s.requestAt 0 rq w
      (.compo id rid inj h st a r (some 0) m s', w)
    | .resume =>
      let i := r.getD 0
      let (s', w) := s.requestAt i rq w
      (.compo id rid inj h st a r (some i) m s', w)
    | .select =>
      let (w, sel) := w.headSelect id inj h
      match sel with
      | some i =>
        if i < s.len then
          let w := w.logRec (.selectRes id (some i))
          let (s', w) := s.requestAt i rq w
          (.compo id rid inj h st a r (some i) m s', w)
        else (.compo id rid inj h st a r q m s, w.fail' "select() out of range")
      | none => (.compo id rid inj h st a r q m s, w.fail' "select() returned nothing")
    | .utilize =>
      let (s', w, us) := if rq.kind = .change then s.reportChangeAll w else s.reportUtilizeAll w
      match argMax us with
      | some (i, u) =>
        (.compo id rid inj h st a r (some i) m s', w.logRec (.utilityRes id (some i) u))
      | none => (.compo id rid inj h st a r q m s', w.fail' "empty region")
    | .randomize =>
      let (w, ranks) := s.reportRankAll w
      let top := topRank ranks
      let (s', w, us) := if rq.kind = .change then s.reportChangeTop ranks top w
                         else s.reportRandomizeTop ranks top w
      let (w, chosen) := w.resolveRandom id us (treeSum us) ranks top
      (.compo id rid inj h st a r chosen m s', w)
    | .change | .schedule => (.compo id rid inj h st a r q m s, w.fail' "unresolvable request kind")
def Subs.requestAt : Subs → Nat → Req → World U → Subs × World U
  | .nil, _, _, w => (.nil, w.fail' "prong out of range")
  | .cons b n r, 0, rq, w => let (n', w) := n.request rq w; (.cons b n' r, w)
  | .cons b n r, i+1, rq, w => let (r', w) := r.requestAt i rq w; (.cons b n r', w)
def Subs.requestAll : Subs → Req → World U → Subs × World U
  | .nil, _, w => (.nil, w)
  | .cons b n r, rq, w =>
    let (n', w) := n.request rq w
    let (r', w) := r.requestAll rq w
    (.cons b n' r', w)
end

mutual
/-- `deepForwardRequest` of `S_`, `C_`, `O_`: below a region that is being (re)entered, follow existing
request marks and resolve where there are none. -/
def Node.fwdRequest : Node → Req → World U → Node × World U
  | .leaf id inj, rq, w => (.leaf id inj, w.pin id rq.index)
  | .compo id rid inj h st a r q m s, rq, w =>
    match q with
    | some qi =>
      let (s', w) := s.fwdRequestAt qi rq (w.pin id rq.index)
      (.compo id rid inj h st a r q m s', w)
    | none => Node.request (.compo id rid inj h st a r q m s) rq (w.pin id rq.index)
  | .ortho id rid inj h s, rq, w =>
    if s.anyBit then
      let (s', w) := s.fwdRequestAll rq (w.pin id rq.index)
      (.ortho id rid inj h s', w)
    else Node.request (.ortho id rid inj h s) rq (w.pin id rq.index)
def Subs.fwdRequestAt : Subs → Nat → Req → World U → Subs × World U
  | .nil, _, _, w => (.nil, w.fail' "prong out of range")
  | .cons b n r, 0, rq, w => let (n', w) := n.fwdRequest rq w; (.cons b n' r, w)
  | .cons b n r, i+1, rq, w => let (r', w) := r.fwdRequestAt i rq w; (.cons b n r', w)
def Subs.fwdRequestAll : Subs → Req → World U → Subs × World U
  | .nil, _, w => (.nil, w)
  | .cons b n r, rq, w =>
    let (n', w) := n.fwdRequest rq w
    let (r', w) := r.fwdRequestAll rq w
    (.cons b n' r', w)
end

mutual
/-- `deepForwardActive` of `S_`, `C_`, `O_`: walk down the active configuration to where marks begin. -/
def Node.fwdActive : Node → Req → World U → Node × World U
  | .leaf id inj, _, w => (.leaf id inj, w)
  | .compo id rid inj h st a r q m s, rq, w =>
    match q with
    | none =>
      match a with
      | some ai => let (s', w) := s.fwdActiveAt ai rq w; (.compo id rid inj h st a r q m s', w)
      | none => (.compo id rid inj h st a r q m s, w.fail' "forwardActive through an inactive region")
    | some qi =>
      let (s', w) := s.fwdRequestAt qi rq w
      (.compo id rid inj h st a r q m s', w)
  | .ortho id rid inj h s, rq, w =>
    let (s', w) := s.fwdActiveBits rq w
    (.ortho id rid inj h s', w)
def Subs.fwdActiveAt : Subs → Nat → Req → World U → Subs × World U
  | .nil, _, _, w => (.nil, w.fail' "prong out of range")
  | .cons b n r, 0, rq, w => let (n', w) := n.fwdActive rq w; (.cons b n' r, w)
  | .cons b n r, i+1, rq, w => let (r', w) := r.fwdActiveAt i rq w; (.cons b n r', w)
def Subs.fwdActiveBits : Subs → Req → World U → Subs × World U
  | .nil, _, w => (.nil, w)
  | .cons b n r, rq, w =>
    if b then
      let (n', w) := n.fwdActive rq w
      let (r', w) := r.fwdActiveBits rq w
      (.cons b n' r', w)
    else
      let (r', w) := r.fwdActiveBits rq w
      (.cons b n r', w)
end

end Hfsm
