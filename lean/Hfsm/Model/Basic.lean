/-
Basic vocabulary of the machine model: transitions, task status, user-callback decisions, trace
events, and the `World` record threaded through every traversal.

Everything here mirrors a C++ entity of /repo/include/hfsm2/machine.hpp (anchors in the doc comments
are file names under /repo/development/hfsm2/detail/).  No Mathlib.
-/
import Hfsm.Model.Shape

namespace Hfsm

/-- `enum class TransitionType` (features/transition.hpp); `schedule` is not a transition. -/
inductive Kind
  | change | restart | resume | select | utilize | randomize | schedule
  deriving DecidableEq, Repr, Inhabited

/-- `enum class Method` (features/logger_interface.hpp), the user callbacks the library invokes. -/
inductive Method
  | select | rank | utility
  | entryGuard | enter | reenter
  | preUpdate | update | postUpdate
  | preReact | react | postReact | query
  | planSucceeded | planFailed
  | exitGuard | exit
  deriving DecidableEq, Repr, Inhabited

/-- `TransitionT<Payload>`: `origin = none` is `INVALID_STATE_ID` (request made through the instance
API), the payload is an opaque value (`none` = `payloadSet == false`). -/
structure Transition where
  origin  : Option Nat
  dest    : Nat
  kind    : Kind
  payload : Option Nat
  deriving DecidableEq, Repr, Inhabited

/-- `TaskStatus::Result` (root/plan_data.hpp), ordered NONE < SUCCESS < FAILURE. -/
inductive TResult
  | none | success | failure
  deriving DecidableEq, Repr, Inhabited

def TResult.rank : TResult → Nat
  | .none => 0 | .success => 1 | .failure => 2

/-- `struct TaskStatus` (root/plan_data.hpp). -/
structure TaskStatus where
  result : TResult := .none
  outer  : Bool := false
  deriving DecidableEq, Repr, Inhabited

/-- `TaskStatus::operator bool`. -/
def TaskStatus.toBool (s : TaskStatus) : Bool := s.result != .none || s.outer

/-- `operator |` / `operator |=` on `TaskStatus` (root/plan_data.inl): max of results, or of flags. -/
def TaskStatus.or (l r : TaskStatus) : TaskStatus :=
  { result := if l.result.rank > r.result.rank then l.result else r.result
    outer  := l.outer || r.outer }

/-- A plan task (`TaskBase`, features/task.hpp). -/
structure Task where
  origin  : Nat
  dest    : Nat
  kind    : Kind
  payload : Option Nat
  deriving DecidableEq, Repr, Inhabited

/-- `TaskBase::cyclic`. -/
def Task.cyclic (t : Task) : Bool := t.origin == t.dest

/-- Arithmetic on utilities as the code uses it (`Config::Utility`, `float` by default).  The driver
instantiates it with `Float32`; theorems are stated for every instance satisfying the laws they
name.  `le a b` is `a <= b`. -/
class UtilArith (U : Type) where
  zero   : U
  one    : U
  add    : U → U → U
  sub    : U → U → U
  mul    : U → U → U
  divNat : U → Nat → U
  le     : U → U → Bool

/-- One thing a user callback did.  The harness performs it on the real control object and logs it;
the model replays it. -/
inductive Action (U : Type)
  | request (kind : Kind) (dest : Nat) (payload : Option Nat)  -- control.changeTo(…) … scheduleWith(…)
  | succeed (sid : Nat)                                        -- control.succeed(sid)
  | fail (sid : Nat)                                           -- control.fail(sid)
  | cancel                                                     -- guard: cancelPendingTransitions()
  | consume                                                    -- react: consumeEvent(), query: consumeQuery()
  | planAppend (origin dest : Nat) (kind : Kind) (payload : Option Nat)  -- control.plan().change(…) …
  | planClear                                                  -- control.plan().clear()
  | retSelect (i : Nat)                                        -- value returned by select()
  | retRank (r : Int)                                          -- value returned by rank()
  | retUtil (u : U)                                            -- value returned by utility()
  deriving Repr

/-- Everything one user-callback invocation did, in order. -/
abbrev Decision (U : Type) := List (Action U)

/-- What a callback can observe of the registry, as bit masks over state ids.  `pend` is present in
guard callbacks only: (isPendingEnter, isPendingExit, isPendingChange). -/
structure Obs where
  active    : Nat := 0
  resumable : Nat := 0
  subs      : List (Option Nat) := []          -- activeSubState(id) for every state id
  pend      : Option (Nat × Nat × Nat) := none
  deriving DecidableEq, Repr, Inhabited

/-- Logger records (`LoggerInterfaceT`, features/logger_interface.hpp). -/
inductive LogRec (U : Type)
  | method (sid : Nat) (m : Method)
  | transition (origin : Option Nat) (kind : Kind) (dest : Nat)
  | taskStatus (region : Option Nat) (sid : Nat) (success : Bool)
  | planStatus (region : Nat) (success : Bool)
  | cancelled (sid : Nat)
  | selectRes (head : Nat) (prong : Option Nat)
  | utilityRes (head : Nat) (prong : Option Nat) (u : U)
  | randomRes (head : Nat) (prong : Option Nat) (u : U)
  deriving Repr

/-- One element of the observable trace: a user-callback invocation or a logger record. -/
inductive Event (U : Type)
  /-- callback on state `sid`; `slot < inj` is the slot-th injected base, `slot = inj` the state's own
  handler; `obs` what it could observe; `pend`/`curr` the transition lists visible to it. -/
  | cb (sid : Nat) (m : Method) (slot : Nat) (obs : Option Obs) (pend curr : List Transition)
  | log (r : LogRec U)
  deriving Repr

/-- Compile-time configuration of an instance (`Config`, feature switches). -/
structure Config where
  substitutionLimit : Nat := 4
  queueCap   : Nat := 1          -- `COMPO_COUNT`, capacity of `requests`
  taskCap    : Nat := 2          -- `TASK_CAPACITY`
  stateCount : Nat := 1
  regionCount : Nat := 1
  topDown    : Bool := true      -- `Config::ReactOrder`
  manual     : Bool := false     -- `Config::ManualActivation`
  plans      : Bool := true      -- HFSM2_ENABLE_PLANS
  history    : Bool := true      -- HFSM2_ENABLE_TRANSITION_HISTORY
  verbose    : Bool := false     -- HFSM2_ENABLE_VERBOSE_DEBUG_LOG
  logging    : Bool := true      -- a logger is attached
  deriving Repr, Inhabited

/-- capacity of `previousTransitions` / `currentTransitions` (`TransitionSets`): `COMPO_COUNT × SUBSTITUTION_LIMIT`;
`DynamicArrayT::emplace` drops what does not fit -/
def Config.historyCap (c : Config) : Nat := c.queueCap * c.substitutionLimit

/-- `CoreT` minus the registry (which lives in the tree), plus the control registers of the
`ControlT` hierarchy, the decision/RNG streams and the trace. -/
structure World (U : Type) where
  cfg : Config
  -- CoreT
  requests  : List Transition := []            -- `_core.requests`
  plans     : List (List Task) := []           -- abstraction of `planData` lists, index = region id
  planExists : Nat := 0                        -- `planData.planExists`, bit mask over region ids
  succ      : Nat := 0                         -- `planData.tasksSuccesses`, bit mask over state ids
  fail      : Nat := 0                         -- `planData.tasksFailures`
  headStatus : List TaskStatus := []           -- `planData.headStatuses`, index = region id
  subStatus  : List TaskStatus := []           -- `planData.subStatuses`
  targets   : List (Option Nat) := []          -- `_core.transitionTargets`, index = state id
  previous  : List Transition := []            -- `_core.previousTransitions`
  -- control registers (root/control_*.hpp)
  origin    : Option Nat := none               -- `_originId`
  regionId  : Nat := 0                         -- `_regionId`
  regionStateId : Nat := 0                     -- `_regionStateId`
  regionSize : Nat := 0                        -- `_regionSize`
  taskStatus : TaskStatus := {}                -- `_taskStatus`
  cancelled : Bool := false                    -- `GuardControlT::_cancelled`
  consumed  : Bool := false                    -- `EventControlT::_consumed` / `ConstControlT::_consumed`
  pending   : List Transition := []            -- `GuardControlT::_pendingTransitions`
  current   : List Transition := []            -- `PlanControlT::_currentTransitions`
  -- snapshot of the registry taken at the start of the current pass
  obs       : Option Obs := none
  activeSnap : Nat := 0                        -- isActive(id) for every id, valid for the whole pass
  -- streams
  ds        : List (Decision U) := []          -- decisions of the user callbacks still to come
  rng       : List U := []                     -- numbers the generator will yield
  trace     : List (Event U) := []             -- newest first
  err       : Option String := none            -- first contract violation met by the model

namespace World
variable {U : Type}

def fail' (w : World U) (msg : String) : World U :=
  match w.err with
  | some _ => w
  | none => { w with err := some msg }

def emit (w : World U) (e : Event U) : World U := { w with trace := e :: w.trace }

def logRec (w : World U) (r : LogRec U) : World U :=
  if w.cfg.logging then w.emit (.log r) else w

def bit (mask i : Nat) : Bool := mask.testBit i
def setBit (mask i : Nat) : Nat := mask ||| (1 <<< i)
def clearBit (mask i : Nat) : Nat := if mask.testBit i then mask - (1 <<< i) else mask

/-- `isActive(id)` as of the start of the current pass. -/
def isActiveSnap (w : World U) (id : Nat) : Bool := bit w.activeSnap id

def getStatus (l : List TaskStatus) (i : Nat) : TaskStatus := l.getD i {}
def orStatus (l : List TaskStatus) (i : Nat) (s : TaskStatus) : List TaskStatus :=
  l.set i ((getStatus l i).or s)

def planOf (w : World U) (r : Nat) : List Task := w.plans.getD r []
def setPlan (w : World U) (r : Nat) (p : List Task) : World U := { w with plans := w.plans.set r p }
def taskCount (w : World U) : Nat := (w.plans.map List.length).sum

/-- `ControlT::pinLastTransition` (root/control_1.inl). -/
def pin (w : World U) (sid : Nat) (index : Option Nat) : World U :=
  match index with
  | none => w
  | some i =>
    if w.cfg.history && !w.isActiveSnap sid then { w with targets := w.targets.set sid (some i) } else w

end World

/-- `struct Request { type, index }` (structure/base.hpp): kind plus the index of the request in the
queue (`none` = `INVALID_SHORT`). -/
structure Req where
  kind  : Kind
  index : Option Nat
  deriving Repr, Inhabited

end Hfsm
