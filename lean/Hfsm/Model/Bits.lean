/-
Executable model of `hfsm2::detail::BitArrayT<NCapacity>` and its `Bits` / `CBits` views
(development/hfsm2/detail/containers/bit_array.hpp / .inl; same text in include/hfsm2/machine.hpp).

Storage is the member `uint8_t _storage[UNIT_COUNT]`, `UNIT_COUNT = contain(CAPACITY, 8)`, modelled as
`List (BitVec 8)`.  Every function follows the C++ body statement by statement; loops over the units
become `List.map` / `List.all` / `List.zipWith` (the loops visit every unit exactly once, in order) or a
structural recursion when the loop can leave early (`operator bool`).

Accesses.  The C++ accessors index `_storage` without a bounds check (only `HFSM2_ASSERT`, compiled
out unless `HFSM2_ENABLE_ASSERT`).  The value functions below are total (`getD` / `List.set`); each
has a companion `…Touched` giving the byte indices it dereferences, so that "touches no byte outside
the array / outside the view" is a statement about the model, and theorems carry the in-contract
hypothesis explicitly.  `View.toBoolRun` (the only accessor whose set of dereferenced bytes is data
dependent; before the repair of finding F9 it also read one byte past a whole-byte view) returns value
and trace from one loop, and is
parameterised by the value `oob` an out-of-array read would produce.
-/
namespace Hfsm.Model.Bits

abbrev Byte := BitVec 8

/-- `_storage` of a `BitArrayT`. -/
abbrev Storage := List Byte

/-- `contain(x, to)` — development/hfsm2/detail/shared/utility.hpp: `(x + (to - 1)) / to`. -/
def contain (x to : Nat) : Nat := (x + (to - 1)) / to

/-- `BitArrayT<N>::UNIT_COUNT = contain(CAPACITY, 8)`. -/
def unitCount (cap : Nat) : Nat := contain cap 8

/-- `BitArrayT<N>::BitArrayT()` — value-initialised storage, then `clear()`. -/
def mk (cap : Nat) : Storage := List.replicate (unitCount cap) 0#8

/-- `const uint8_t mask = 1 << bit;` (bit = index % 8 < 8, so the conversion to `uint8_t` is exact). -/
def mask (bit : Nat) : Byte := 1#8 <<< bit

/-! ### whole array, indexed (`get/set/clear(const TIndex)` and the `template <Short NIndex>` forms,
whose bodies are the same arithmetic with `constexpr` locals) -/

/-- Byte dereferenced by `get/set/clear(index)`: `_storage[index / 8]`. -/
def indexTouched (i : Nat) : List Nat := [i / 8]

/-- `BitArrayT::get(index)`: `(_storage[index / 8] & (1 << index % 8)) != 0`. -/
def get (s : Storage) (i : Nat) : Bool :=
  (s.getD (i / 8) 0#8 &&& mask (i % 8)) != 0#8

/-- `BitArrayT::set(index)`: `_storage[index / 8] |= mask`. -/
def set (s : Storage) (i : Nat) : Storage :=
  s.set (i / 8) (s.getD (i / 8) 0#8 ||| mask (i % 8))

/-- `BitArrayT::clear(index)`: `_storage[index / 8] &= ~mask`
(`~mask` is an `int`; the compound assignment converts back to `uint8_t`, i.e. the 8-bit complement). -/
def clear (s : Storage) (i : Nat) : Storage :=
  s.set (i / 8) (s.getD (i / 8) 0#8 &&& ~~~ mask (i % 8))

/-! ### whole array, all units -/

/-- `BitArrayT::set()`: every unit `= UINT8_MAX`, then (repair of the padding-bit finding)
`const Index tail = CAPACITY % 8; if (tail) _storage[UNIT_COUNT - 1] = (uint8_t) ((1 << tail) - 1);`
so the padding bits `CAPACITY … 8·UNIT_COUNT-1` of the last unit stay clear. -/
def setAll (cap : Nat) (s : Storage) : Storage :=
  let s1 := s.map (fun _ => 255#8)
  let tail := cap % 8
  if tail ≠ 0 then s1.set (unitCount cap - 1) ((1#8 <<< tail) - 1#8) else s1

/-- Unit written a second time by `set()` when `CAPACITY % 8 ≠ 0` (all units are written by the loop). -/
def setAllTailTouched (cap : Nat) : List Nat := if cap % 8 ≠ 0 then [unitCount cap - 1] else []

/-- `BitArrayT::clear()`: every unit `= 0`. -/
def clearAll (s : Storage) : Storage := s.map (fun _ => 0#8)

/-- `BitArrayT::empty()`: `false` at the first non-zero unit, else `true`. -/
def empty (s : Storage) : Bool := s.all (· == 0#8)

/-- `BitArrayT::operator !=`: `true` at the first unit that differs (both have `UNIT_COUNT` units). -/
def neq : Storage → Storage → Bool
  | a :: as, b :: bs => if a != b then true else neq as bs
  | _, _ => false

/-- `BitArrayT::operator &`: `false` at the first unit whose AND is zero, else `true`
(so: *every* unit has a common bit — not "the intersection is non-empty"). -/
def andAny : Storage → Storage → Bool
  | a :: as, b :: bs => if (a &&& b) == 0#8 then false else andAny as bs
  | _, _ => true

/-- `BitArrayT::operator &=`: `_storage[i] &= other._storage[i]` for every unit. -/
def andAssign (a b : Storage) : Storage := List.zipWith (· &&& ·) a b

/-! ### views: `Bits{_storage + unit, width}` / `CBits` (`bits<U,W>()`, `bits(const Units&)`) -/

namespace View

/-- `bits()/cbits()` precondition (`static_assert` / `HFSM2_ASSERT`):
`unit + contain(width, 8) <= UNIT_COUNT`. -/
def fits (s : Storage) (unit width : Nat) : Prop := unit + contain width 8 ≤ s.length

instance (s : Storage) (unit width : Nat) : Decidable (fits s unit width) := by
  unfold fits; infer_instance

/-- Byte dereferenced by `Bits::get/set/clear(index)`: `_storage[index / 8]` with `_storage` offset by `unit`. -/
def indexTouched (unit i : Nat) : List Nat := [unit + i / 8]

/-- `Bits::get(index)` / `CBits::get(index)` / `get<NIndex>()`. -/
def get (s : Storage) (unit i : Nat) : Bool :=
  (s.getD (unit + i / 8) 0#8 &&& mask (i % 8)) != 0#8

/-- `Bits::set(index)` / `set<NIndex>()`. -/
def set (s : Storage) (unit i : Nat) : Storage :=
  s.set (unit + i / 8) (s.getD (unit + i / 8) 0#8 ||| mask (i % 8))

/-- `Bits::clear(index)` / `clear<NIndex>()`. -/
def clear (s : Storage) (unit i : Nat) : Storage :=
  s.set (unit + i / 8) (s.getD (unit + i / 8) 0#8 &&& ~~~ mask (i % 8))

/-- Bytes written by `Bits::clear()`: `_storage[0 … contain(_width, 8))`, offset by `unit`. -/
def clearAllTouched (unit width : Nat) : List Nat :=
  (List.range (contain width 8)).map (unit + ·)

/-- The loop of `Bits::clear()`: `for (i = 0; i < unitCount; ++i) _storage[i] = 0`,
as a recursion on the number of units still to clear (`k` = `unitCount - i`, `at` = `unit + i`). -/
def clearUnits (s : Storage) («at» : Nat) : Nat → Storage
  | 0 => s
  | k + 1 => clearUnits (s.set «at» 0#8) («at» + 1) k

/-- `Bits::clear()`: zeroes `contain(_width, 8)` *whole* units, i.e. also the bits `width … 8·⌈width/8⌉-1`. -/
def clearAll (s : Storage) (unit width : Nat) : Storage :=
  clearUnits s unit (contain width 8)

/-- First loop of `Bits::operator bool` / `CBits::operator bool`:
`for (i = 0; i < fullUnits; ++i) if (_storage[i]) return true;`
Returns `(found, indices read so far)`; `k` = units still to scan, `at` = absolute index of the next. -/
def scanFull (oob : Byte) (s : Storage) («at» : Nat) : Nat → Bool × List Nat
  | 0 => (false, [])
  | k + 1 =>
    if s.getD «at» oob != 0#8 then (true, [«at»])
    else
      let r := scanFull oob s («at» + 1) k
      (r.1, «at» :: r.2)

/-- `Bits::operator bool()` / `CBits::operator bool()`, value and the byte indices it reads, in order.
After the full units: `const Short bit = _width % 8; if (bit == 0) return false;` (repair of F9: a
whole-byte view no longer reads the byte after it), else
`const uint8_t& unit = _storage[fullUnits]; (unit & mask) != 0` with `mask = (1 << bit) - 1`.
`oob` is what a read outside the array would yield. -/
def toBoolRun (oob : Byte) (s : Storage) (unit width : Nat) : Bool × List Nat :=
  let fullUnits := width / 8
  let r := scanFull oob s unit fullUnits
  if r.1 then (true, r.2)
  else
    let bit := width % 8
    if bit = 0 then (false, r.2)
    else
      let m : Byte := (1#8 <<< bit) - 1#8
      let u := s.getD (unit + fullUnits) oob
      ((u &&& m) != 0#8, r.2 ++ [unit + fullUnits])

/-- Value of `operator bool` (reads outside the array yield 0; `Props.C18` shows the value does not
depend on that choice). -/
def toBool (s : Storage) (unit width : Nat) : Bool := (toBoolRun 0#8 s unit width).1

/-- Byte indices read by `operator bool`. -/
def toBoolReads (s : Storage) (unit width : Nat) : List Nat := (toBoolRun 0#8 s unit width).2

end View

/-! ### rendering used by the transcript replayer -/

def hexDigit (d : Nat) : Char :=
  if d < 10 then Char.ofNat (48 + d) else Char.ofNat (87 + d)

/-- Two lower-case hex digits per unit, unit 0 first; `-` for zero units. -/
def toHex (s : Storage) : String :=
  if s.isEmpty then "-" else
  String.ofList (s.flatMap fun b => [hexDigit (b.toNat / 16), hexDigit (b.toNat % 16)])

end Hfsm.Model.Bits
