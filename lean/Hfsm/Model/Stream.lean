/-
Executable model of `StreamBufferT<NBitCapacity>`, `BitWriteStreamT<NBitCapacity>::write<NBitWidth>` and
`BitReadStreamT<NBitCapacity>::read<NBitWidth>`
(development/hfsm2/detail/shared/bit_stream.hpp / .inl; same text in include/hfsm2/machine.hpp).

The buffer `uint8_t _data[BYTE_COUNT]`, `BYTE_COUNT = contain(BIT_CAPACITY, 8)`, is a `List (BitVec 8)`.
The two chunk loops `for (Short itemWidth = BIT_WIDTH; itemWidth; ) { … }` are modelled as loops:
structural recursion on a fuel argument that the entry points set to the bit width (each iteration
consumes at least one bit, so the fuel never runs out before `itemWidth` reaches 0 — proved in
`Props.C18`).  Integer promotion / narrowing of the C++ is kept: `Item = UBitWidth<W>` is
`uint8_t / uint16_t / uint32_t` for `W ≤ 8 / 16 / 32` (larger `W` do not compile: `UBitWidth` is `void`),
`itemBits << byteChunkStart` is narrowed to `Item` and then to the `uint8_t&` it is OR-ed into.
Each loop also returns the byte indices it dereferenced, in order.
-/
import Hfsm.Model.Bits
namespace Hfsm.Model.Stream
open Hfsm.Model.Bits (Byte Storage contain)

/-- `StreamBufferT<N>::BYTE_COUNT = contain(BIT_CAPACITY, 8u)`. -/
def byteCount (bitCapacity : Nat) : Nat := contain bitCapacity 8

/-- `StreamBufferT<N>::clear()` (`fill(_data, 0)`), also the state after value-initialisation. -/
def cleared (bitCapacity : Nat) : Storage := List.replicate (byteCount bitCapacity) 0#8

/-- `StreamBufferT::operator ==`: `false` at the first byte that differs. -/
def bufEq : Storage → Storage → Bool
  | a :: as, b :: bs => if a != b then false else bufEq as bs
  | _, _ => true

/-- `StreamBufferT::operator !=`: `true` at the first byte that differs. -/
def bufNe : Storage → Storage → Bool
  | a :: as, b :: bs => if a != b then true else bufNe as bs
  | _, _ => false

/-- Number of value bits of `UBitWidth<W>` (utility.hpp): `uint8_t` for `W ≤ 8`, `uint16_t` for `W ≤ 16`,
`uint32_t` for `W ≤ 32`.  (`W > 32` is `void` in the code, i.e. does not compile; the model keeps 32 there
and every theorem carries `w ≤ 32`.) -/
def itemTypeBits (w : Nat) : Nat := if w ≤ 8 then 8 else if w ≤ 16 then 16 else 32

/-- Result of a stream operation: buffer, cursor, byte indices dereferenced (in order). -/
structure WOut where
  buf : Storage
  cursor : Nat
  touched : List Nat
deriving Repr

/-- The loop of `BitWriteStreamT::write<W>` (`T` = bits of `Item`):
```
byteIndex = _cursor >> 3;  byte = _buffer._data[byteIndex];
byteChunkStart = _cursor & 0x7;  byteDataWidth = 8 - byteChunkStart;
byteChunkWidth = min(byteDataWidth, itemWidth);
const Item byteChunk = itemBits << byteChunkStart;      // promoted, then narrowed to Item
byte |= byteChunk;                                       // narrowed to uint8_t
itemBits >>= byteChunkWidth; itemWidth -= byteChunkWidth; _cursor += byteChunkWidth;
``` -/
def writeLoop (T : Nat) : (fuel : Nat) → (itemBits itemWidth : Nat) → Storage → (cursor : Nat) → WOut
  | 0, _, _, buf, cursor => ⟨buf, cursor, []⟩
  | fuel + 1, itemBits, itemWidth, buf, cursor =>
    if itemWidth = 0 then ⟨buf, cursor, []⟩ else
    let byteIndex      := cursor >>> 3
    let byte           := buf.getD byteIndex 0#8
    let byteChunkStart := cursor &&& 7
    let byteDataWidth  := 8 - byteChunkStart
    let byteChunkWidth := min byteDataWidth itemWidth
    let byteChunk      := (itemBits <<< byteChunkStart) % 2 ^ T
    let byte'          := byte ||| BitVec.ofNat 8 byteChunk
    let r := writeLoop T fuel (itemBits >>> byteChunkWidth) (itemWidth - byteChunkWidth)
               (buf.set byteIndex byte') (cursor + byteChunkWidth)
    ⟨r.buf, r.cursor, byteIndex :: r.touched⟩

/-- `BitWriteStreamT<CAP>::write<w>(item)`.  The argument is converted to `UBitWidth<w>` at the call
(`item % 2^T`); the contract is `item < 2^w` and `cursor + w ≤ BIT_CAPACITY` (`HFSM2_ASSERT`). -/
def write (w item : Nat) (buf : Storage) (cursor : Nat) : WOut :=
  let T := itemTypeBits w
  writeLoop T w (item % 2 ^ T) w buf cursor

/-- `BitWriteStreamT(buffer, cursor)`: the constructor clears the buffer and starts at `cursor`. -/
def openWrite (buf : Storage) (cursor : Nat) : Storage × Nat := (buf.map (fun _ => 0#8), cursor)

/-- Result of `read`: the item, the cursor, the byte indices dereferenced. -/
structure ROut where
  item : Nat
  cursor : Nat
  touched : List Nat
deriving Repr

/-- The loop of `BitReadStreamT::read<W>` (`T` = bits of `Item`):
```
byteIndex = _cursor >> 3;  byte = _buffer._data[byteIndex];
byteChunkStart = _cursor & 0x7;  byteDataWidth = 8 - byteChunkStart;
byteChunkWidth = min(byteDataWidth, itemWidth);  byteChunkMask = (1 << byteChunkWidth) - 1;
const Item byteChunk = (byte >> byteChunkStart) & byteChunkMask;
const Item itemChunk = byteChunk << itemCursor;           // promoted, then narrowed to Item
item |= itemChunk;
itemCursor += byteChunkWidth; itemWidth -= byteChunkWidth; _cursor += byteChunkWidth;
``` -/
def readLoop (T : Nat) (buf : Storage) : (fuel : Nat) → (item itemCursor itemWidth cursor : Nat) → ROut
  | 0, item, _, _, cursor => ⟨item, cursor, []⟩
  | fuel + 1, item, itemCursor, itemWidth, cursor =>
    if itemWidth = 0 then ⟨item, cursor, []⟩ else
    let byteIndex      := cursor >>> 3
    let byte           := (buf.getD byteIndex 0#8).toNat
    let byteChunkStart := cursor &&& 7
    let byteDataWidth  := 8 - byteChunkStart
    let byteChunkWidth := min byteDataWidth itemWidth
    let byteChunkMask  := (1 <<< byteChunkWidth) - 1
    let byteChunk      := (byte >>> byteChunkStart) &&& byteChunkMask
    let itemChunk      := (byteChunk <<< itemCursor) % 2 ^ T
    let r := readLoop T buf fuel (item ||| itemChunk) (itemCursor + byteChunkWidth)
               (itemWidth - byteChunkWidth) (cursor + byteChunkWidth)
    ⟨r.item, r.cursor, byteIndex :: r.touched⟩

/-- `BitReadStreamT<CAP>::read<w>()`; contract `cursor + w ≤ BIT_CAPACITY` (`HFSM2_ASSERT`). -/
def read (w : Nat) (buf : Storage) (cursor : Nat) : ROut :=
  readLoop (itemTypeBits w) buf w 0 0 w cursor

/-- Write a sequence of `(width, value)` pairs; returns buffer and cursor. -/
def writeAll : List (Nat × Nat) → Storage → Nat → Storage × Nat
  | [], buf, c => (buf, c)
  | (w, v) :: xs, buf, c => let r := write w v buf c; writeAll xs r.buf r.cursor

/-- Read a sequence of widths; returns the items and the final cursor. -/
def readAll (buf : Storage) : List Nat → Nat → List Nat × Nat
  | [], c => ([], c)
  | w :: ws, c => let r := read w buf c; let rest := readAll buf ws r.cursor; (r.item :: rest.1, rest.2)

/-- The buffer as one little-endian natural number (byte 0 least significant). -/
def toNat : Storage → Nat
  | [] => 0
  | b :: bs => b.toNat + 256 * toNat bs

end Hfsm.Model.Stream
