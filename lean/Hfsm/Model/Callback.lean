/-
User callbacks as a decision stream.

Every user callback the library invokes consumes the next `Decision` of `World.ds`; the actions in
it are performed on the world exactly as the corresponding `ControlT` member functions do
(root/control_3.inl `FullControlBaseT::changeTo/…/succeed/fail`, root/control_4.inl
`cancelPendingTransitions`, root/control_5.hpp `consumeEvent`, root/control_0.hpp `consumeQuery`,
root/plan_1.inl `append/clear`), and one `Event.cb` is appended to the trace.
-/
import Hfsm.Model.Basic

namespace Hfsm
variable {U : Type}

/-- What a control object handed to a callback lets it do. -/
inductive CtlClass
  | const    -- select / rank / utility          (const Control&)
  | plan     -- enter / reenter / exit           (PlanControl&)
  | full     -- pre·/·/postUpdate, plan callbacks (FullControl&)
  | guard    -- entry / exit guards              (GuardControl&)
  | event    -- pre·/·/postReact                  (EventControl&)
  | query    -- query                            (ConstControl&)
  deriving DecidableEq, Repr

def Method.cls : Method → CtlClass
  | .select | .rank | .utility => .const
  | .enter | .reenter | .exit => .plan
  | .preUpdate | .update | .postUpdate | .planSucceeded | .planFailed => .full
  | .entryGuard | .exitGuard => .guard
  | .preReact | .react | .postReact => .event
  | .query => .query

def CtlClass.isFull : CtlClass → Bool
  | .full | .guard | .event => true
  | _ => false

namespace World

/-- `FullControlBaseT::changeTo/restart/resume/select/utilize/randomize/schedule` and the `…With`
variants (root/control_3.inl): append to the queue (a full queue rejects the request), flag a
transition leaving the current region, log. -/
def ctlRequest (w : World U) (kind : Kind) (dest : Nat) (payload : Option Nat) : World U :=
  let t : Transition := { origin := w.origin, dest := dest, kind := kind, payload := payload }
  let w := if w.requests.length < w.cfg.queueCap then { w with requests := w.requests ++ [t] } else w
  let w := if kind != .schedule && (dest < w.regionStateId || w.regionStateId + w.regionSize ≤ dest)
           then { w with taskStatus := { w.taskStatus with outer := true } } else w
  w.logRec (.transition w.origin kind dest)

/-- `FullControlBaseT::succeed(stateId)` (root/control_3.inl). -/
def ctlSucceed (w : World U) (sid : Nat) : World U :=
  if 0 < sid && sid < w.cfg.stateCount then
    let w := { w with taskStatus := { w.taskStatus with result := .success }, succ := setBit w.succ sid }
    w.logRec (.taskStatus (some w.regionStateId) sid true)
  else w

/-- `FullControlBaseT::fail(stateId)` (root/control_3.inl). -/
def ctlFail (w : World U) (sid : Nat) : World U :=
  if 0 < sid && sid < w.cfg.stateCount then
    let w := { w with taskStatus := { w.taskStatus with result := .failure }, fail := setBit w.fail sid }
    w.logRec (.taskStatus (some w.regionStateId) sid false)
  else w

/-- `PlanBaseT::append` on the plan of region `r` (root/plan_1.inl): fails when the pool is full. -/
def planAppend (w : World U) (r : Nat) (t : Task) : World U :=
  if w.taskCount < w.cfg.taskCap then
    let w := w.setPlan r (w.planOf r ++ [t])
    { w with planExists := setBit w.planExists r }
  else w

/-- bit mask with the bits `[lo, lo+n)` set -/
def rangeMask (lo n : Nat) : Nat := ((1 <<< n) - 1) <<< lo

/-- mask `m` with the bits `[lo, lo+n)` cleared -/
def clearRange (m lo n : Nat) : Nat := m - (m &&& rangeMask lo n)

/-- `PlanBaseT::clear` (root/plan_1.inl): `clearTasks` then `clearStatuses` of the region whose head is
`headId` and which spans `size` states. -/
def planClear (w : World U) (r headId size : Nat) : World U :=
  let w := w.setPlan r []
  { w with succ := clearRange w.succ headId size
           fail := clearRange w.fail headId size
           headStatus := w.headStatus.set r {}
           subStatus := w.subStatus.set r {} }

/-- Perform one action of a callback of control class `c`. Actions a control class does not offer
are a contract violation of the *harness*, recorded in `err`. -/
def act (c : CtlClass) (w : World U) : Action U → World U
  | .request k d p => if c.isFull then w.ctlRequest k d p else w.fail' "request from a non-full control"
  | .succeed s => if c.isFull then w.ctlSucceed s else w.fail' "succeed from a non-full control"
  | .fail s => if c.isFull then w.ctlFail s else w.fail' "fail from a non-full control"
  | .cancel =>
      if c = .guard then
        ({ w with cancelled := true }).logRec (.cancelled (w.origin.getD 0))
      else w.fail' "cancel outside a guard"
  | .consume => if c = .event || c = .query then { w with consumed := true } else w.fail' "consume outside react/query"
  | .planAppend o d k p =>
      if (c.isFull || c = .plan) && w.cfg.plans then w.planAppend w.regionId { origin := o, dest := d, kind := k, payload := p }
      else w.fail' "plan edit from a const control"
  | .planClear =>
      if (c.isFull || c = .plan) && w.cfg.plans then w.planClear w.regionId w.regionStateId w.regionSize
      else w.fail' "plan edit from a const control"
  | .retSelect _ | .retRank _ | .retUtil _ => w

/-- Invoke one user callback: `sid`'s method `m`, base slot `slot`. Returns the decision taken. -/
def invoke (w : World U) (sid : Nat) (m : Method) (slot : Nat) : World U × Decision U :=
  match w.ds with
  | [] => (w.fail' "decision stream exhausted", [])
  | d :: rest =>
    let w1 := d.foldl (act m.cls) { w with ds := rest }
    let showLists := m.cls = .guard || m.cls = .plan
    let ev : Event U := .cb sid m slot w.obs (if m.cls = .guard then w.pending else []) (if showLists then w.current else [])
    (w1.emit ev, d)

/-- Invoke the callbacks of the given base slots in order (`A_::wide…` then/around the own handler). -/
def invokeSlots (w : World U) (sid : Nat) (m : Method) : List Nat → World U
  | [] => w
  | s :: rest => invokeSlots (w.invoke sid m s).1 sid m rest

end World

/-- Order in which the injected bases (`0 … inj-1`) and the state's own handler (`inj`) run for each
method (structure/ancestors_1.inl `A_::wide…`, structure/state_1.inl `S_::deep…`). -/
def slotOrder (inj : Nat) : Method → List Nat
  | .postUpdate | .postReact | .exit => inj :: (List.range inj).reverse        -- own, then bases reversed
  | .exitGuard => (List.range inj).reverse ++ [inj]                            -- bases reversed, then own
  | .query => inj :: List.range inj                                            -- own, then bases in order
  | .select | .rank | .utility | .planSucceeded | .planFailed => [inj]          -- own only
  | _ => List.range inj ++ [inj]                                               -- bases in order, then own

namespace World

/-- A state's method with logging and origin scope: `HFSM2_LOG_STATE_METHOD`, `ScopedOrigin`, then
the handlers. A headless region's anonymous head (`EmptyT`) has no user code: nothing is invoked,
and only verbose logging records the method. -/
def stateMethod (w : World U) (sid inj : Nat) (headed : Bool) (m : Method) : World U :=
  let w := if headed || w.cfg.verbose then w.logRec (.method sid m) else w
  if headed then
    let saved := w.origin
    let w := ({ w with origin := some sid }).invokeSlots sid m (slotOrder inj m)
    { w with origin := saved }
  else w

end World
end Hfsm
