/-
The flat registry: `RegistryT<Args>` (root/registry_1.hpp) as the arrays it really is, and its
queries / request marking as the upward walks over the parent tables they really are
(root/registry_1.inl).  The machine model (Model/Tree.lean, Model/Forward.lean) uses path functions on
the tree instead; Proofs/FlatRegistry.lean proves that the two agree.

Conventions
* prongs in the dynamic arrays are `Option Nat` (`none` = `INVALID_PRONG`), as in the tree model;
  the static tables hold `Parent{forkId, prong}` with the sentinel values of the C++
  (`Parent.invalid = {INT16_MIN, UINT8_MAX}`), and `Parent::operator bool` is `Parent.valid`;
* every array read is a list lookup; an out-of-bounds read/write (undefined behaviour in C++) makes
  the operation return `none`;
* `for (…; parent; parent = forkParent(parent.forkId))` becomes recursion on a fuel argument; the
  entry points supply `STATE_COUNT + 1`, and Proofs/FlatRegistry.lean shows that this is never
  exhausted (a walk makes at most depth ≤ STATE_COUNT steps);
* `orthoRequested` is kept as one bit list per orthogonal region (index = `ORTHO_INDEX`) instead of
  the `ORTHO_UNITS * 8` bit array addressed through `orthoUnits[ORTHO_INDEX] = {unit, width}`;
  the unit layout is the subject of `Hfsm.Props.C17.register_tables`.
-/
import Hfsm.Model.ShapeInfo
import Hfsm.Model.Forward

namespace Hfsm

/-! ### the arrays -/

/-- The static tables filled by `deepRegister` (`unwritten` entries keep `Parent{}`). -/
structure Statics where
  stateParents : List Parent
  compoParents : List Parent
  orthoParents : List Parent
  deriving DecidableEq, Repr

/-- The dynamic arrays: `compoActive / compoResumable / compoRequested` (`CompoForks`),
`compoRemains` (`BitArrayT<COMPO_COUNT>`), `orthoRequested` (one bit list per orthogonal region). -/
structure Dyn where
  compoActive    : List (Option Nat)
  compoResumable : List (Option Nat)
  compoRequested : List (Option Nat)
  compoRemains   : List Bool
  orthoRequested : List (List Bool)
  deriving DecidableEq, Repr

/-- `RegistryT<Args>` without the plan-related `compoStatuses`. -/
structure Flat extends Statics, Dyn
  deriving DecidableEq, Repr

/-- `Parent::operator bool`: `forkId != INVALID_FORK_ID && prong != INVALID_PRONG`. -/
def Parent.valid (p : Parent) : Bool := p.forkId != invalidForkId && p.prong != invalidProng

/-- `forkParent(forkId)`: `forkId > 0 ? compoParents[forkId - 1] : orthoParents[-forkId - 1]`
(`HFSM2_ASSERT(forkId != 0)`: fork id 0 does not exist). -/
def Statics.forkParent (st : Statics) (forkId : Int) : Option Parent :=
  if forkId > 0 then st.compoParents[(forkId - 1).toNat]?
  else if forkId < 0 then st.orthoParents[(-forkId - 1).toNat]?
  else none

/-- The fuel the entry points give to a walk: more than the longest chain of parents. -/
def Statics.fuel (st : Statics) : Nat := st.stateParents.length + 1

/-! ### queries -/

/-- The common loop of `isActive / isResumable / isPendingEnter / isPendingChange / isPendingExit`:
```
for (Parent parent = …; parent; parent = forkParent(parent.forkId))
    if (parent.forkId > 0) return <answer of composite fork parent.forkId - 1 for parent.prong>;
return <dflt>;
```
-/
def Statics.query (st : Statics) (answer : Nat → Nat → Option Bool) (dflt : Option Bool) :
    Nat → Parent → Option Bool
  | 0, _ => none
  | fuel + 1, p =>
    if !p.valid then dflt
    else if p.forkId > 0 then answer (p.forkId - 1).toNat p.prong
    else (st.forkParent p.forkId).bind (st.query answer dflt fuel)

/-- `RegistryT::isActive()`: `compoActive[ROOT_ID] != INVALID_PRONG`. -/
def Flat.machineActive (fl : Flat) : Option Bool := fl.compoActive[0]?.map (·.isSome)

/-- Entry of the query loops: `if (HFSM2_CHECKED(stateId < STATE_COUNT)) … ; return false;`. -/
def Flat.queryState (fl : Flat) (answer : Nat → Nat → Option Bool) (dflt : Option Bool)
    (stateId : Nat) : Option Bool :=
  if stateId < fl.stateParents.length then
    fl.stateParents[stateId]?.bind (fl.toStatics.query answer dflt fl.toStatics.fuel)
  else some false

/-- `RegistryT::isActive(stateId)`: `parent.prong == compoActive[forkId - 1]`, falling back to
`isActive()`. -/
def flatIsActive (fl : Flat) (stateId : Nat) : Option Bool :=
  fl.queryState (fun ci prong => fl.compoActive[ci]?.map (fun a => a == some prong))
    fl.machineActive stateId

/-- `RegistryT::isResumable(stateId)`: `parent.prong == compoResumable[forkId - 1]`. -/
def flatIsResumable (fl : Flat) (stateId : Nat) : Option Bool :=
  fl.queryState (fun ci prong => fl.compoResumable[ci]?.map (fun r => r == some prong))
    (some false) stateId

/-- `RegistryT::isPendingEnter(stateId)`:
`parent.prong != compoActive[…] && parent.prong == compoRequested[…]`. -/
def flatIsPendingEnter (fl : Flat) (stateId : Nat) : Option Bool :=
  fl.queryState (fun ci prong => do
      let a ← fl.compoActive[ci]?
      let q ← fl.compoRequested[ci]?
      pure (a != some prong && q == some prong))
    (some false) stateId

/-- `RegistryT::isPendingExit(stateId)`:
`parent.prong == compoActive[…] && parent.prong != compoRequested[…]`. -/
def flatIsPendingExit (fl : Flat) (stateId : Nat) : Option Bool :=
  fl.queryState (fun ci prong => do
      let a ← fl.compoActive[ci]?
      let q ← fl.compoRequested[ci]?
      pure (a == some prong && q != some prong))
    (some false) stateId

/-- `RegistryT::isPendingChange(stateId)`: `compoRequested[…] != compoActive[…]`. -/
def flatIsPendingChange (fl : Flat) (stateId : Nat) : Option Bool :=
  fl.queryState (fun ci _ => do
      let a ← fl.compoActive[ci]?
      let q ← fl.compoRequested[ci]?
      pure (q != a))
    (some false) stateId

/-- `RegistryT::activeSubState(stateId)`: the active prong of the composite fork that is the parent
of state `stateId + 1`; `INVALID_PRONG` (`some none`) otherwise. -/
def flatActiveSubState (fl : Flat) (stateId : Nat) : Option (Option Nat) :=
  if stateId < fl.stateParents.length ∧ stateId + 1 < fl.stateParents.length then
    fl.stateParents[stateId + 1]?.bind fun parent =>
      if parent.valid then
        if parent.forkId > 0 then fl.compoActive[(parent.forkId - 1).toNat]?
        else some none
      else some none
  else some none

/-! ### request marking -/

/-- `array[i] = v`. -/
def setAt? {α : Type} (l : List α) (i : Nat) (v : α) : Option (List α) :=
  if i < l.length then some (l.set i v) else none

/-- `compoRequested[ci] = prong`. -/
def Dyn.setRequested (d : Dyn) (ci prong : Nat) : Option Dyn :=
  (setAt? d.compoRequested ci (some prong)).map fun l => { d with compoRequested := l }

/-- `compoRemains.set(ci)`. -/
def Dyn.setRemain (d : Dyn) (ci : Nat) : Option Dyn :=
  (setAt? d.compoRemains ci true).map fun l => { d with compoRemains := l }

/-- `compoResumable[ci] = prong`. -/
def Dyn.setResumable (d : Dyn) (ci prong : Nat) : Option Dyn :=
  (setAt? d.compoResumable ci (some prong)).map fun l => { d with compoResumable := l }

/-- `requestedOrthoFork(forkId).set(prong)` (`Bits::set` asserts `index < width`). -/
def Dyn.setOrthoBit (d : Dyn) (oi prong : Nat) : Option Dyn := do
  let bits ← d.orthoRequested[oi]?
  let bits' ← setAt? bits prong true
  pure { d with orthoRequested := d.orthoRequested.set oi bits' }

/-- One iteration of the loops of `requestImmediate` on a valid `parent`; the phase says which of
the three `for` loops is running, a `break` is the change of phase.
* loop 1 (`p1`), composite: `requested = prong; break`; orthogonal: set the bit;
* loop 2 (`p2`), composite: `compoRemains.set`; if `(requested != prong && requested != INVALID) ||
  active != prong` then `requested = prong` else `break`; orthogonal: set the bit;
* loop 3 (`p3`), composite: `compoRemains.set`; orthogonal: set the bit.
Fork id 0 is `HFSM2_BREAK()`. -/
def Dyn.stepRI (d : Dyn) (ph : Phase) (parent : Parent) : Option (Dyn × Phase) :=
  if parent.forkId > 0 then
    let ci := (parent.forkId - 1).toNat
    match ph with
    | .p1 => (d.setRequested ci parent.prong).map (·, .p2)
    | .p2 => do
      let d1 ← d.setRemain ci
      let a ← d1.compoActive[ci]?
      let q ← d1.compoRequested[ci]?
      if (q ≠ some parent.prong ∧ q ≠ none) ∨ a ≠ some parent.prong then
        (d1.setRequested ci parent.prong).map (·, .p2)
      else pure (d1, .p3)
    | .p3 => (d.setRemain ci).map (·, .p3)
  else if parent.forkId < 0 then
    (d.setOrthoBit (-parent.forkId - 1).toNat parent.prong).map (·, ph)
  else none

/-- The three consecutive loops of `RegistryT::requestImmediate`, sharing the running `parent`:
`for (…; parent; parent = forkParent(parent.forkId)) <stepRI>`. -/
def Statics.requestLoop (st : Statics) : Nat → Phase → Dyn → Parent → Option Dyn
  | 0, _, _, _ => none
  | fuel + 1, ph, d, p =>
    if !p.valid then some d
    else do
      let (d', ph') ← d.stepRI ph p
      let p' ← st.forkParent p.forkId
      st.requestLoop fuel ph' d' p'

/-- `RegistryT::requestImmediate(request)` for `request.destination = dest`. -/
def flatRequestImmediate (fl : Flat) (dest : Nat) : Option Flat := do
  let parent ← fl.stateParents[dest]?
  let d ← fl.toStatics.requestLoop fl.toStatics.fuel .p1 fl.toDyn parent
  pure { fl with toDyn := d }

/-- `RegistryT::requestScheduled(stateId)`: `if (parent.forkId > 0) compoResumable[forkId-1] = prong`. -/
def flatRequestScheduled (fl : Flat) (stateId : Nat) : Option Flat :=
  if stateId < fl.stateParents.length then do
    let parent ← fl.stateParents[stateId]?
    if parent.forkId > 0 then
      let d ← fl.toDyn.setResumable (parent.forkId - 1).toNat parent.prong
      pure { fl with toDyn := d }
    else pure fl
  else some fl

/-! ### from the tree to the arrays -/

mutual
/-- The declaration a tree was instantiated from (forgets ids and dynamic state). -/
def Node.shape : Node → Shape
  | .leaf _ inj => .leaf inj
  | .compo _ _ inj h st _ _ _ _ s => .compo h inj st s.shapes
  | .ortho _ _ inj h s => .ortho h inj s.shapes
def Subs.shapes : Subs → Shapes
  | .nil => .nil
  | .cons _ n r => .cons n.shape r.shapes
end

/-- The orthogonal request bits of a region's sub-states (cons-cell marks), prong order. -/
def Subs.bits : Subs → List Bool
  | .nil => []
  | .cons b _ r => b :: r.bits

def Dyn.empty : Dyn := ⟨[], [], [], [], []⟩

/-- Concatenation of array segments. -/
def Dyn.append (a b : Dyn) : Dyn :=
  { compoActive    := a.compoActive ++ b.compoActive
    compoResumable := a.compoResumable ++ b.compoResumable
    compoRequested := a.compoRequested ++ b.compoRequested
    compoRemains   := a.compoRemains ++ b.compoRemains
    orthoRequested := a.orthoRequested ++ b.orthoRequested }

instance : Append Dyn := ⟨Dyn.append⟩

mutual
/-- The dynamic arrays of a sub-tree: the composite nodes' `active / resumable / requested / remain`
in pre-order (= by `COMPO_INDEX`), the orthogonal regions' bit lists in pre-order (= by
`ORTHO_INDEX`). -/
def Node.dyn : Node → Dyn
  | .leaf .. => Dyn.empty
  | .compo _ _ _ _ _ a r q m s => (⟨[a], [r], [q], [m], []⟩ : Dyn) ++ s.dyn
  | .ortho _ _ _ _ s => (⟨[], [], [], [], [s.bits]⟩ : Dyn) ++ s.dyn
def Subs.dyn : Subs → Dyn
  | .nil => Dyn.empty
  | .cons _ n r => n.dyn ++ r.dyn
end

/-- The tables `deepRegister` leaves behind, unwritten entries being `Parent{}`. -/
def Statics.ofRegistry (reg : Registry) : Statics :=
  { stateParents := reg.stateParents.map (·.getD Parent.invalid)
    compoParents := reg.compoParents.map (·.getD Parent.invalid)
    orthoParents := reg.orthoParents.map (·.getD Parent.invalid) }

/-- The registry a machine tree stands for: static tables from `Shape.register` of its
declaration, dynamic arrays collected in pre-order.  (No tables if `register` fails, i.e. for a
declaration with an empty region, which C++ rejects.) -/
def Node.toFlat (n : Node) : Flat :=
  { toStatics := match n.shape.register with
      | some reg => Statics.ofRegistry reg
      | none => ⟨[], [], []⟩
    toDyn := n.dyn }

mutual
/-- Ids are the depth-first pre-order numbering starting at `id0` (what `Shape.toNode` assigns;
dynamic updates never change ids). -/
def Node.IdsFrom : Node → Nat → Prop
  | .leaf id _, id0 => id = id0
  | .compo id _ _ _ _ _ _ _ _ s, id0 => id = id0 ∧ s.IdsFrom (id0 + 1)
  | .ortho id _ _ _ s, id0 => id = id0 ∧ s.IdsFrom (id0 + 1)
def Subs.IdsFrom : Subs → Nat → Prop
  | .nil, _ => True
  | .cons _ n r, id0 => n.IdsFrom id0 ∧ r.IdsFrom (id0 + n.size)
end

end Hfsm
