/-
Periodic passes over the active configuration: `deepPreUpdate/deepUpdate/deepPostUpdate`,
`deepPreReact/deepReact/deepPostReact` through the `*ReactWrapperT` of both reaction orders
(structure/reactions.inl), `deepQuery`, and `deepUpdatePlans` with `FullControlT::updatePlan`
(root/control_3.inl).  None of them touches the registry, so they return the world only.
-/
import Hfsm.Model.Commit

namespace Hfsm
variable {U : Type}

namespace World

/-- A state's handler for a periodic method; the value is what `S_::deep…` returns: the control's
`_taskStatus` register for a user state, an empty status for an anonymous head. -/
def runState (w : World U) (sid inj : Nat) (headed : Bool) (m : Method) : World U × TaskStatus :=
  let w := w.stateMethod sid inj headed m
  (w, if headed then w.taskStatus else {})

def orHead (w : World U) (rid : Nat) (s : TaskStatus) : World U :=
  if w.cfg.plans then { w with headStatus := orStatus w.headStatus rid s } else w
def orSub (w : World U) (rid : Nat) (s : TaskStatus) : World U :=
  if w.cfg.plans then { w with subStatus := orStatus w.subStatus rid s } else w

end World

/-! ### update -/

mutual
/-- `deepPreUpdate` / `deepUpdate` (head, then sub-states) and `deepPostUpdate` (sub-states, then head);
`ph` is the method delivered. -/
def Node.tick (ph : Method) : Node → World U → World U × TaskStatus
  | .leaf id inj, w => w.runState id inj true ph
  | .compo id rid inj h _ a _ _ _ s, w =>
    match a with
    | none => (w.fail' "update of an inactive region", {})
    | some ai =>
      let (w, sv) := w.pushRegion rid id (1 + s.size)
      if ph = .postUpdate then
        let (w, ss) := s.tickAt ph ai w
        let (w, hs) := (w.orSub rid ss).runState id inj h ph
        ((w.orHead rid hs).popRegion sv, hs)
      else
        let (w, hs) := w.runState id inj h ph
        let (w, ss) := s.tickAt ph ai (w.orHead rid hs)
        ((w.orSub rid ss).popRegion sv, hs)
  | .ortho id rid inj h s, w =>
    let (w, sv) := w.pushRegion rid id (1 + s.size)
    if ph = .postUpdate then
      let (w, ss) := s.tickAll ph w
      let (w, hs) := (w.orSub rid ss).runState id inj h ph
      ((w.orHead rid hs).popRegion sv, hs)
    else
      let (w, hs) := w.runState id inj h ph
      let (w, ss) := s.tickAll ph (w.orHead rid hs)
      ((w.orSub rid ss).popRegion sv, hs)
def Subs.tickAt (ph : Method) : Subs → Nat → World U → World U × TaskStatus
  | .nil, _, w => (w.fail' "prong out of range", {})
  | .cons _ n _, 0, w => n.tick ph w
  | .cons _ _ r, i+1, w => r.tickAt ph i w
def Subs.tickAll (ph : Method) : Subs → World U → World U × TaskStatus
  | .nil, w => (w, {})
  | .cons _ n r, w =>
    let (w, i) := n.tick ph w
    let (w, rr) := r.tickAll ph w
    (w, (({} : TaskStatus).or i).or rr)
end

/-! ### react -/

mutual
/-- `deepPreReact/deepReact/deepPostReact` through `Pre|·|PostReactWrapperT<_, TopDown|BottomUp>`.
`headFirst` = the head is visited before the sub-states; `post` selects the post-phase wrapper shape. -/
def Node.react (ph : Method) (headFirst post : Bool) : Node → World U → World U × TaskStatus
  | .leaf id inj, w => w.runState id inj true ph
  | .compo id rid inj h _ a _ _ _ s, w =>
    match a with
    | none => (w.fail' "react of an inactive region", {})
    | some ai =>
      let (w, sv) := w.pushRegion rid id (1 + s.size)
      if w.consumed then (w.popRegion sv, {}) else
      if headFirst then
        let (w, hs) := w.runState id inj h ph
        let w := w.orHead rid hs
        if w.consumed then (w.popRegion sv, if post then {} else hs) else
        let (w, ss) := s.reactAt ph headFirst post ai w
        ((w.orSub rid ss).popRegion sv, if post then ss else hs)
      else
        let (w, ss) := s.reactAt ph headFirst post ai w
        let w := w.orSub rid ss
        if w.consumed then (w.popRegion sv, if post then {} else ss) else
        let (w, hs) := w.runState id inj h ph
        ((w.orHead rid hs).popRegion sv, if post then hs else ss)
  | .ortho id rid inj h s, w =>
    let (w, sv) := w.pushRegion rid id (1 + s.size)
    if w.consumed then (w.popRegion sv, {}) else
    if headFirst then
      let (w, hs) := w.runState id inj h ph
      let w := w.orHead rid hs
      if w.consumed then (w.popRegion sv, if post then {} else hs) else
      let (w, ss) := s.reactAll ph headFirst post w
      ((w.orSub rid ss).popRegion sv, if post then ss else hs)
    else
      let (w, ss) := s.reactAll ph headFirst post w
      let w := w.orSub rid ss
      if w.consumed then (w.popRegion sv, if post then {} else ss) else
      let (w, hs) := w.runState id inj h ph
      ((w.orHead rid hs).popRegion sv, if post then hs else ss)
def Subs.reactAt (ph : Method) (headFirst post : Bool) : Subs → Nat → World U → World U × TaskStatus
  | .nil, _, w => (w.fail' "prong out of range", {})
  | .cons _ n _, 0, w => n.react ph headFirst post w
  | .cons _ _ r, i+1, w => r.reactAt ph headFirst post i w
/-- `OS_::wide(Pre|Post)React`: the remaining siblings are skipped once the event is consumed. -/
def Subs.reactAll (ph : Method) (headFirst post : Bool) : Subs → World U → World U × TaskStatus
  | .nil, w => (w, {})
  | .cons _ n r, w =>
    let (w, i) := n.react ph headFirst post w
    if w.consumed then (w, ({} : TaskStatus).or i) else
    let (w, rr) := r.reactAll ph headFirst post w
    (w, (({} : TaskStatus).or i).or rr)
end

/-! ### query -/

mutual
/-- `deepQuery` through `QueryWrapperT`. -/
def Node.query (headFirst : Bool) : Node → World U → World U
  | .leaf id inj, w => w.stateMethod id inj true .query
  | .compo id _ inj h _ a _ _ _ s, w =>
    match a with
    | none => w.fail' "query of an inactive region"
    | some ai =>
      if headFirst then
        let w := if w.consumed then w else w.stateMethod id inj h .query
        if w.consumed then w else s.queryAt headFirst ai w
      else
        let w := if w.consumed then w else s.queryAt headFirst ai w
        if w.consumed then w else w.stateMethod id inj h .query
  | .ortho id _ inj h s, w =>
    if headFirst then
      let w := if w.consumed then w else w.stateMethod id inj h .query
      if w.consumed then w else s.queryAll headFirst w
    else
      let w := if w.consumed then w else s.queryAll headFirst w
      if w.consumed then w else w.stateMethod id inj h .query
def Subs.queryAt (headFirst : Bool) : Subs → Nat → World U → World U
  | .nil, _, w => w.fail' "prong out of range"
  | .cons _ n _, 0, w => n.query headFirst w
  | .cons _ _ r, i+1, w => r.queryAt headFirst i w
def Subs.queryAll (headFirst : Bool) : Subs → World U → World U
  | .nil, w => w
  | .cons _ n r, w =>
    let w := n.query headFirst w
    if w.consumed then w else r.queryAll headFirst w
end

/-! ### plans -/

namespace World

/-- `S_::deepUpdatePlans`: a state's own success / failure mark. -/
def stateTaskStatus (w : World U) (sid : Nat) : TaskStatus :=
  if bit w.fail sid then { result := .failure }
  else if bit w.succ sid then { result := .success }
  else {}

/-- The task loop of `FullControlT::updatePlan`: walk the plan in order while task origins are active;
a task whose origin is marked succeeded is executed (a `change` request on behalf of the region head)
and removed. Returns the remaining plan, the world and the successes to clear afterwards. -/
def runTasks (headId : Nat) : List Task → World U → Nat → List Task × World U × Nat
  | [], w, clr => ([], w, clr)
  | t :: rest, w, clr =>
    if !w.isActiveSnap t.origin then (t :: rest, w, clr) else
    if bit w.succ t.origin then
      let saved := w.origin
      let w := ({ w with origin := some headId }).ctlRequest .change t.dest t.payload
      let w := { w with origin := saved }
      let (w, clr) := if t.cyclic then ({ w with succ := clearBit w.succ t.origin }, clr)
                      else (w, setBit clr t.origin)
      runTasks headId rest w clr
    else
      let (rest', w, clr) := runTasks headId rest w clr
      (t :: rest', w, clr)

/-- `FullControlT::updatePlan(headState, subStatus)`. -/
def updatePlan (w : World U) (headId inj : Nat) (headed : Bool) (s : TaskStatus) : World U × TaskStatus :=
  match s.result with
  | .failure =>
    let w := { w with taskStatus := { w.taskStatus with result := .failure } }
    let w := w.logRec (.planStatus w.regionStateId false)
    let w := w.stateMethod headId inj headed .planFailed
    (w, { result := w.taskStatus.result })
  | .success =>
    let p := w.planOf w.regionId
    if !p.isEmpty then
      let (p', w, clr) := runTasks headId p w 0
      let w := w.setPlan w.regionId p'
      ({ w with succ := w.succ - (w.succ &&& clr) }, {})
    else
      let w := { w with taskStatus := { w.taskStatus with result := .success } }
      let w := w.logRec (.planStatus w.regionStateId true)
      let w := w.stateMethod headId inj headed .planSucceeded
      (w, { result := w.taskStatus.result })
  | .none => (w, {})

end World

mutual
/-- `deepUpdatePlans` of `S_`, `C_`, `O_`. -/
def Node.updatePlans : Node → World U → World U × TaskStatus
  | .leaf id _, w => (w, w.stateTaskStatus id)
  | .compo id rid inj h _ a _ _ _ s, w =>
    match a with
    | none => (w.fail' "updatePlans of an inactive region", {})
    | some ai =>
      let hs := (World.getStatus w.headStatus rid).or (w.stateTaskStatus id)
      let (w, sub) := s.updatePlansAt ai w
      let ss := (World.getStatus w.subStatus rid).or sub
      if hs.toBool then (w, hs) else
      if ss.outer then (w, { result := .none, outer := true }) else
      let (w, sv) := w.pushRegion rid id (1 + s.size)
      let (w, res) := if ss.toBool && World.bit w.planExists rid then w.updatePlan id inj h ss else (w, ss)
      (w.popRegion sv, res)
  | .ortho id rid inj h s, w =>
    let hs := (World.getStatus w.headStatus rid).or (w.stateTaskStatus id)
    let (w, sub) := s.updatePlansAll w
    let ss := (World.getStatus w.subStatus rid).or sub
    if hs.toBool then (w, hs) else
    if ss.outer then (w, { result := .none, outer := true }) else
    let (w, sv) := w.pushRegion rid id (1 + s.size)
    let (w, res) := if ss.toBool && World.bit w.planExists rid then w.updatePlan id inj h ss else (w, ss)
    (w.popRegion sv, res)
def Subs.updatePlansAt : Subs → Nat → World U → World U × TaskStatus
  | .nil, _, w => (w.fail' "prong out of range", {})
  | .cons _ n _, 0, w => n.updatePlans w
  | .cons _ _ r, i+1, w => r.updatePlansAt i w
def Subs.updatePlansAll : Subs → World U → World U × TaskStatus
  | .nil, w => (w, {})
  | .cons _ n r, w =>
    let (w, i) := n.updatePlans w
    let (w, rr) := r.updatePlansAll w
    (w, (({} : TaskStatus).or i).or rr)
end

end Hfsm
