/-
Static machine structure (what the user declares with `M::Root / Composite / Resumable / Selectable /
Utilitarian / Random / Orthogonal` and their `Peer*` headless variants).

A mutual inductive pair (own cons list) is used instead of a nested `List` so that every function
following the template recursion is a structural recursion and every proof a mutual structural one.
-/
namespace Hfsm

/-- Region selection strategy (`enum class Strategy`, machine.hpp). -/
inductive Strategy
  | composite | resumable | selectable | utilitarian | random
  deriving DecidableEq, Repr, Inhabited

mutual
/-- A declared state or region. `inj` = number of injected handler bases of the (head) state;
`headed = false` is a `…Peers<…>` region whose anonymous head (`EmptyT`) still occupies a state id. -/
inductive Shape
  | leaf  (inj : Nat)
  | compo (headed : Bool) (inj : Nat) (strat : Strategy) (subs : Shapes)
  | ortho (headed : Bool) (inj : Nat) (subs : Shapes)
/-- Sub-state list of a region, in declaration order. -/
inductive Shapes
  | nil
  | cons (s : Shape) (rest : Shapes)
end

end Hfsm
