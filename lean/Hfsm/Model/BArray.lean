/-
Executable model of the two bounded arrays of
development/hfsm2/detail/containers/array.hpp/.inl (same text in include/hfsm2/machine.hpp):

* `DynamicArrayT<T, NCapacity>` — `_count` plus `_items[CAPACITY]`; used for transition sets.
* `StaticArrayT<T, NCapacity>`  — `_items[CAPACITY]` only.

`emplace` on a full `DynamicArrayT` is out of contract in the code as written (`HFSM2_ASSERT(_count <
CAPACITY)` only; release builds write one past the end — defect F2 of DESIGN.md §8).  The model
returns `none` there, and the theorems are stated under `count < capacity`.
Items beyond `_count` are *stale*, not erased: `clear()` only resets `_count`, the implicit copy
constructor copies all `CAPACITY` items.  The model keeps them too.
-/
namespace Hfsm.Model

/-- `DynamicArrayT<T, NCapacity>` (containers/array.hpp): `_count`, `_items[CAPACITY]`
(`CAPACITY = items.size`). -/
structure DArray (α : Type) where
  count : Nat
  items : Array α
  deriving Repr

namespace DArray
variable {α : Type}

/-- `DynamicArrayT::CAPACITY`. -/
def cap (a : DArray α) : Nat := a.items.size

/-- Default-constructed array: `_count = 0`, `_items {}` value-initialised with `d = T{}`. -/
def new (cap : Nat) (d : α) : DArray α := { count := 0, items := Array.replicate cap d }

/-- `DynamicArrayT::emplace(args…)` (containers/array.inl): `new (&_items[_count]) Item{args…};
return _count++;`.  `none` = out of contract (`_count == CAPACITY`, asserted only). -/
def emplace (a : DArray α) (x : α) : Option (DArray α × Nat) :=
  if a.count < a.cap then
    some ({ count := a.count + 1, items := a.items.setIfInBounds a.count x }, a.count)
  else none

/-- `DynamicArrayT::operator[] (index)` (containers/array.inl); contract `index < _count`. -/
def get (a : DArray α) (i : Nat) : Option α :=
  if i < a.count then a.items[i]? else none

/-- `DynamicArrayT::count()`. -/
def size (a : DArray α) : Nat := a.count

/-- `DynamicArrayT::clear()`: `_count = 0` (items stay). -/
def clear (a : DArray α) : DArray α := { a with count := 0 }

/-- `DynamicArrayT::empty()`. -/
def empty (a : DArray α) : Bool := a.count == 0

/-- The items a range-`for` over the array visits (`first() = 0 … limit() = _count`). -/
def toList (a : DArray α) : List α := a.items.toList.take a.count

/-- Body of `operator +=`: `emplace` each visited item in turn. -/
def appendList (a : DArray α) : List α → Option (DArray α)
  | [] => some a
  | x :: xs => match a.emplace x with
    | none => none
    | some (a', _) => appendList a' xs

/-- `DynamicArrayT::operator += (other)` (containers/array.inl):
`for (const auto& item : other) emplace(item);`. -/
def append (a b : DArray α) : Option (DArray α) := a.appendList b.toList

/-- Implicit copy constructor / assignment: `_count` and all `CAPACITY` items. -/
def copy (a : DArray α) : DArray α := { count := a.count, items := a.items }

end DArray

/-- `StaticArrayT<T, NCapacity>` (containers/array.hpp): `_items[CAPACITY]`. -/
structure SArray (α : Type) where
  items : Array α
  deriving Repr

namespace SArray
variable {α : Type}

/-- `StaticArrayT::CAPACITY` = `count()`. -/
def cap (a : SArray α) : Nat := a.items.size

/-- `StaticArrayT() = default` with `_items {}`: every item `d = T{}`. -/
def new (cap : Nat) (d : α) : SArray α := { items := Array.replicate cap d }

/-- `StaticArrayT::fill(filler)`: `for (Item& item : _items) item = filler;`. -/
def fill (a : SArray α) (v : α) : SArray α := { items := a.items.map fun _ => v }

/-- `StaticArrayT::clear()`: `fill(filler<Item>())`; `flr` is `filler<Item>()`
(`T{}`, or `INVALID_SHORT` for `Short`). -/
def clear (a : SArray α) (flr : α) : SArray α := a.fill flr

/-- Loop of `StaticArrayT::empty()`: first item different from the filler answers `false`. -/
def emptyLoop [BEq α] (flr : α) : List α → Bool
  | [] => true
  | x :: xs => if x != flr then false else emptyLoop flr xs

/-- `StaticArrayT::empty()`. -/
def empty [BEq α] (a : SArray α) (flr : α) : Bool := emptyLoop flr a.items.toList

/-- Loop of `StaticArrayT::operator !=`: first differing index answers `true`. -/
def neLoop [BEq α] : List α → List α → Bool
  | x :: xs, y :: ys => if x != y then true else neLoop xs ys
  | _, _ => false

/-- `StaticArrayT::operator != (other)` (same `CAPACITY` by type). -/
def ne [BEq α] (a b : SArray α) : Bool := neLoop a.items.toList b.items.toList

/-- `StaticArrayT::operator[] (index)` read; contract `index < CAPACITY`. -/
def get (a : SArray α) (i : Nat) : Option α := a.items[i]?

/-- `StaticArrayT::operator[] (index) = v`; `none` = out of bounds. -/
def set (a : SArray α) (i : Nat) (v : α) : Option (SArray α) :=
  if i < a.cap then some { items := a.items.setIfInBounds i v } else none

end SArray

end Hfsm.Model
