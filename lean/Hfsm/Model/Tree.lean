/-
The machine tree: static structure *and* the dynamic registry state in one mutual inductive type.

`compoActive / compoResumable / compoRequested / compoRemains` of `RegistryT` (root/registry_1.hpp)
are the `active / resumable / requested / remain` fields of the composite node they belong to;
`orthoRequested` bits sit in the cons cell of the orthogonal region's sub-state they refer to.
The registry's upward walks over the parent tables become path functions (see `Node.pathTo`).
-/
import Hfsm.Model.Basic

namespace Hfsm

mutual
inductive Node
  | leaf  (id inj : Nat)
  | compo (id rid inj : Nat) (headed : Bool) (strat : Strategy)
          (active resumable requested : Option Nat) (remain : Bool) (subs : Subs)
  | ortho (id rid inj : Nat) (headed : Bool) (subs : Subs)
inductive Subs
  | nil
  | cons (bit : Bool) (n : Node) (rest : Subs)
end

instance : Inhabited Node := ⟨.leaf 0 0⟩
instance : Inhabited Subs := ⟨.nil⟩

/-! ### sizes and ids -/

mutual
/-- `STATE_COUNT` of the sub-tree (`REGION_SIZE` for a region). -/
def Node.size : Node → Nat
  | .leaf .. => 1
  | .compo _ _ _ _ _ _ _ _ _ s => 1 + s.size
  | .ortho _ _ _ _ s => 1 + s.size
def Subs.size : Subs → Nat
  | .nil => 0
  | .cons _ n r => n.size + r.size
end

def Subs.len : Subs → Nat
  | .nil => 0
  | .cons _ _ r => r.len + 1

def Node.id : Node → Nat
  | .leaf id _ => id
  | .compo id .. => id
  | .ortho id .. => id

mutual
def Shape.stateCount : Shape → Nat
  | .leaf _ => 1
  | .compo _ _ _ s => 1 + s.stateCount
  | .ortho _ _ s => 1 + s.stateCount
def Shapes.stateCount : Shapes → Nat
  | .nil => 0
  | .cons s r => s.stateCount + r.stateCount
end

mutual
def Shape.regionCount : Shape → Nat
  | .leaf _ => 0
  | .compo _ _ _ s => 1 + s.regionCount
  | .ortho _ _ s => 1 + s.regionCount
def Shapes.regionCount : Shapes → Nat
  | .nil => 0
  | .cons s r => s.regionCount + r.regionCount
end

mutual
def Shape.compoCount : Shape → Nat
  | .leaf _ => 0
  | .compo _ _ _ s => 1 + s.compoCount
  | .ortho _ _ s => s.compoCount
def Shapes.compoCount : Shapes → Nat
  | .nil => 0
  | .cons s r => s.compoCount + r.compoCount
end

def Shapes.len : Shapes → Nat
  | .nil => 0
  | .cons _ r => r.len + 1

mutual
/-- `COMPO_PRONGS` (structure/forward.hpp): sum of the widths of all composite regions. -/
def Shape.compoProngs : Shape → Nat
  | .leaf _ => 0
  | .compo _ _ _ s => s.len + s.compoProngs
  | .ortho _ _ s => s.compoProngs
def Shapes.compoProngs : Shapes → Nat
  | .nil => 0
  | .cons s r => s.compoProngs + r.compoProngs
end

mutual
/-- Instantiate a declared shape with state ids (DFS pre-order, head first) and region ids
(pre-order among regions), everything inactive and unmarked. -/
def Shape.toNode : Shape → Nat → Nat → Node
  | .leaf inj, id, _ => .leaf id inj
  | .compo h inj st s, id, rid => .compo id rid inj h st none none none false (s.toSubs (id+1) (rid+1))
  | .ortho h inj s, id, rid => .ortho id rid inj h (s.toSubs (id+1) (rid+1))
def Shapes.toSubs : Shapes → Nat → Nat → Subs
  | .nil, _, _ => .nil
  | .cons s r, id, rid => .cons false (s.toNode id rid) (r.toSubs (id + s.stateCount) (rid + s.regionCount))
end

/-! ### paths -/

mutual
/-- Path of prong indices from this node to the state with id `d`, if it is in the sub-tree. -/
def Node.pathTo : Node → Nat → Option (List Nat)
  | .leaf id _, d => if id = d then some [] else none
  | .compo id _ _ _ _ _ _ _ _ s, d => if id = d then some [] else s.pathIn d 0
  | .ortho id _ _ _ s, d => if id = d then some [] else s.pathIn d 0
def Subs.pathIn : Subs → Nat → Nat → Option (List Nat)
  | .nil, _, _ => none
  | .cons _ n r, d, i =>
      match n.pathTo d with
      | some p => some (i :: p)
      | none => r.pathIn d (i+1)
end

def Subs.get? : Subs → Nat → Option Node
  | .nil, _ => none
  | .cons _ n _, 0 => some n
  | .cons _ _ r, i+1 => r.get? i

def Node.subs : Node → Subs
  | .leaf .. => .nil
  | .compo _ _ _ _ _ _ _ _ _ s => s
  | .ortho _ _ _ _ s => s

/-- The node reached by following a path. -/
def Node.follow : Node → List Nat → Option Node
  | n, [] => some n
  | n, i :: rest => match n.subs.get? i with
    | some c => c.follow rest
    | none => none

/-! ### registry queries (root/registry_1.inl) as path functions

Each query of the C++ walks *up* from the state to the nearest composite ancestor and answers from
that fork only.  Top-down this is: remember the answer of the last composite fork passed. -/

/-- Answers of the nearest composite ancestor along a path; `dflt` when there is none. -/
def Node.nearest (f : (active resumable requested : Option Nat) → (prong : Nat) → Bool) :
    Node → List Nat → Bool → Bool
  | _, [], acc => acc
  | n, i :: rest, acc =>
    match n.subs.get? i with
    | none => acc
    | some c =>
      match n with
      | .compo _ _ _ _ _ a r q _ _ => Node.nearest f c rest (f a r q i)
      | _ => Node.nearest f c rest acc

mutual
/-- `compoActive[0] != INVALID_PRONG` — the active prong of the first composite region in pre-order. -/
def Node.firstCompoActive : Node → Option Bool
  | .leaf .. => none
  | .compo _ _ _ _ _ a _ _ _ _ => some a.isSome
  | .ortho _ _ _ _ s => s.firstCompoActive
def Subs.firstCompoActive : Subs → Option Bool
  | .nil => none
  | .cons _ n r => match n.firstCompoActive with
    | some b => some b
    | none => r.firstCompoActive
end

/-- `RegistryT::isActive()`. -/
def Node.machineActive (root : Node) : Bool := root.firstCompoActive.getD false

/-- `RegistryT::isActive(stateId)`. -/
def Node.isActive (root : Node) (id : Nat) : Bool :=
  match root.pathTo id with
  | none => false
  | some p => Node.nearest (fun a _ _ i => a == some i) root p root.machineActive

/-- `RegistryT::isResumable(stateId)`. -/
def Node.isResumable (root : Node) (id : Nat) : Bool :=
  match root.pathTo id with
  | none => false
  | some p => Node.nearest (fun _ r _ i => r == some i) root p false

/-- `RegistryT::isPendingEnter(stateId)`. -/
def Node.isPendingEnter (root : Node) (id : Nat) : Bool :=
  match root.pathTo id with
  | none => false
  | some p => Node.nearest (fun a _ q i => a != some i && q == some i) root p false

/-- `RegistryT::isPendingExit(stateId)`. -/
def Node.isPendingExit (root : Node) (id : Nat) : Bool :=
  match root.pathTo id with
  | none => false
  | some p => Node.nearest (fun a _ q i => a == some i && q != some i) root p false

/-- `RegistryT::isPendingChange(stateId)`. -/
def Node.isPendingChange (root : Node) (id : Nat) : Bool :=
  match root.pathTo id with
  | none => false
  | some p => Node.nearest (fun a _ q _ => q != a) root p false

/-- `RegistryT::activeSubState(stateId)`: the active prong of the composite fork that is the direct
parent of state `stateId + 1` (for a composite region head that is the region itself). -/
def Node.activeSubState (root : Node) (id : Nat) : Option Nat :=
  match root.pathTo (id + 1) with
  | none => none
  | some p =>
    if p.isEmpty then none else
    match root.follow p.dropLast with
    | some (.compo _ _ _ _ _ a _ _ _ _) => a
    | _ => none

/-- `activeSubState(id)` restricted to region heads (its documented domain); `none` for plain states. -/
def Node.regionSubState (root : Node) (id : Nat) : Option Nat :=
  match root.pathTo id with
  | some p => match root.follow p with
    | some (.leaf ..) => none
    | some _ => root.activeSubState id
    | none => none
  | none => none

def maskOf (n : Nat) (f : Nat → Bool) : Nat :=
  (List.range n).foldl (fun m i => if f i then m ||| (1 <<< i) else m) 0

/-- Everything a callback can observe of the registry. -/
def Node.observe (root : Node) (stateCount : Nat) (guard : Bool) : Obs :=
  { active := maskOf stateCount root.isActive
    resumable := maskOf stateCount root.isResumable
    subs := (List.range stateCount).map root.regionSubState
    pend := if guard then
      some (maskOf stateCount root.isPendingEnter, maskOf stateCount root.isPendingExit,
            maskOf stateCount root.isPendingChange) else none }

end Hfsm
