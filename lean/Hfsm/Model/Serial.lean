/-
Serialization: `deepSaveActive / deepSaveResumable / deepLoadRequested / deepLoadResumable` of `C_`,
`CS_`, `O_`, `OS_` (structure/composite.inl, composite_sub_1.inl, orthogonal*.inl).

The stream is a list of bits in write order (least significant bit of each item first), which is what
`BitWriteStreamT::write` lays down in the buffer (proved in `Props/C18`).
-/
import Hfsm.Model.Tree
import Hfsm.Model.ShapeInfo

namespace Hfsm

-- `bitContain` (shared/utility.hpp) is `Hfsm.bitContain` of Model/ShapeInfo.lean

/-- the `w` low bits of `v`, least significant first (`stream.write<w>(v)`) -/
def bitsOf : Nat → Nat → List Bool
  | 0, _ => []
  | w+1, v => (v % 2 == 1) :: bitsOf w (v / 2)

/-- `stream.read<w>()`: value and remaining stream; `none` when the stream is too short. -/
def readBits : Nat → List Bool → Option (Nat × List Bool)
  | 0, s => some (0, s)
  | _+1, [] => none
  | w+1, b :: s => match readBits w s with
    | some (v, s') => some ((if b then 1 else 0) + 2 * v, s')
    | none => none

/-- `INVALID_PRONG` truncated to a field, for completeness of `save` on an inactive region. -/
def prongBits (w : Nat) (p : Option Nat) : List Bool := bitsOf w (p.getD 255)

def resumableBits (wb : Nat) (r : Option Nat) : List Bool :=
  match r with
  | some ri => true :: bitsOf wb ri
  | none => [false]

mutual
def Node.saveActive : Node → List Bool
  | .leaf .. => []
  | .compo _ _ _ _ _ a r _ _ s =>
    let wb := bitContain s.len
    prongBits wb a ++ resumableBits wb r ++ s.saveActiveAt a 0
  | .ortho _ _ _ _ s => s.saveActiveAll
def Node.saveResumable : Node → List Bool
  | .leaf .. => []
  | .compo _ _ _ _ _ _ r _ _ s => resumableBits (bitContain s.len) r ++ s.saveResumableAll
  | .ortho _ _ _ _ s => s.saveResumableAll
/-- `CS_::wideSaveActive`: the active prong saves its active configuration, the others their resumable marks. -/
def Subs.saveActiveAt : Subs → Option Nat → Nat → List Bool
  | .nil, _, _ => []
  | .cons _ n r, a, i => (if a = some i then n.saveActive else n.saveResumable) ++ r.saveActiveAt a (i+1)
def Subs.saveActiveAll : Subs → List Bool
  | .nil => []
  | .cons _ n r => n.saveActive ++ r.saveActiveAll
def Subs.saveResumableAll : Subs → List Bool
  | .nil => []
  | .cons _ n r => n.saveResumable ++ r.saveResumableAll
end

/-- read the `resumable` record of a composite region -/
def readResumable (wb : Nat) (st : List Bool) : Option (Option Nat × List Bool) :=
  match st with
  | [] => none
  | false :: st => some (none, st)
  | true :: st => match readBits wb st with
    | some (v, st) => some (some v, st)
    | none => none

mutual
/-- `deepLoadRequested`: the loaded active prong becomes the region's *request*, the resumable mark is
overwritten. `none` = the stream ended early or a loaded prong is out of range. -/
def Node.loadRequested : Node → List Bool → Option (Node × List Bool)
  | .leaf id inj, st => some (.leaf id inj, st)
  | .compo id rid inj h sg a _ _ m s, st =>
    let wb := bitContain s.len
    match readBits wb st with
    | none => none
    | some (q, st) =>
      if q ≥ s.len then none else
      match readResumable wb st with
      | none => none
      | some (r, st) =>
        if (match r with | some ri => decide (ri ≥ s.len) | none => false) then none else
        match s.loadRequestedAt q 0 st with
        | some (s', st) => some (.compo id rid inj h sg a r (some q) m s', st)
        | none => none
  | .ortho id rid inj h s, st =>
    match s.loadRequestedAll st with
    | some (s', st) => some (.ortho id rid inj h s', st)
    | none => none
def Node.loadResumable : Node → List Bool → Option (Node × List Bool)
  | .leaf id inj, st => some (.leaf id inj, st)
  | .compo id rid inj h sg a _ q m s, st =>
    match readResumable (bitContain s.len) st with
    | none => none
    | some (r, st) =>
      if (match r with | some ri => decide (ri ≥ s.len) | none => false) then none else
      match s.loadResumableAll st with
      | some (s', st) => some (.compo id rid inj h sg a r q m s', st)
      | none => none
  | .ortho id rid inj h s, st =>
    match s.loadResumableAll st with
    | some (s', st) => some (.ortho id rid inj h s', st)
    | none => none
def Subs.loadRequestedAt : Subs → Nat → Nat → List Bool → Option (Subs × List Bool)
  | .nil, _, _, st => some (.nil, st)
  | .cons b n r, q, i, st =>
    match (if q = i then n.loadRequested st else n.loadResumable st) with
    | none => none
    | some (n', st) =>
      match r.loadRequestedAt q (i+1) st with
      | some (r', st) => some (.cons b n' r', st)
      | none => none
def Subs.loadRequestedAll : Subs → List Bool → Option (Subs × List Bool)
  | .nil, st => some (.nil, st)
  | .cons b n r, st =>
    match n.loadRequested st with
    | none => none
    | some (n', st) =>
      match r.loadRequestedAll st with
      | some (r', st) => some (.cons b n' r', st)
      | none => none
def Subs.loadResumableAll : Subs → List Bool → Option (Subs × List Bool)
  | .nil, st => some (.nil, st)
  | .cons b n r, st =>
    match n.loadResumable st with
    | none => none
    | some (n', st) =>
      match r.loadResumableAll st with
      | some (r', st) => some (.cons b n' r', st)
      | none => none
end

mutual
/-- copy the `resumable` marks of `snap` into `cur` (same structure) -/
def Node.withResumableOf : Node → Node → Node
  | .compo id rid inj h sg a _ q m s, .compo _ _ _ _ _ _ r' _ _ s' =>
      .compo id rid inj h sg a r' q m (s.withResumableOf s')
  | .ortho id rid inj h s, .ortho _ _ _ _ s' => .ortho id rid inj h (s.withResumableOf s')
  | n, _ => n
def Subs.withResumableOf : Subs → Subs → Subs
  | .cons b n r, .cons _ n' r' => .cons b (n.withResumableOf n') (r.withResumableOf r')
  | s, _ => s
end

mutual
/-- `RegistryT::clear`: nothing active, nothing resumable, no marks. -/
def Node.cleared : Node → Node
  | .leaf id inj => .leaf id inj
  | .compo id rid inj h sg _ _ _ _ s => .compo id rid inj h sg none none none false s.cleared
  | .ortho id rid inj h s => .ortho id rid inj h s.cleared
def Subs.cleared : Subs → Subs
  | .nil => .nil
  | .cons _ n r => .cons false n.cleared r.cleared
end

mutual
/-- `compoResumable.clear()`. -/
def Node.noResumable : Node → Node
  | .leaf id inj => .leaf id inj
  | .compo id rid inj h sg a _ q m s => .compo id rid inj h sg a none q m s.noResumable
  | .ortho id rid inj h s => .ortho id rid inj h s.noResumable
def Subs.noResumable : Subs → Subs
  | .nil => .nil
  | .cons b n r => .cons b n.noResumable r.noResumable
end

end Hfsm
