/-
Executable model of the fixed-capacity task pool `hfsm2::detail::TaskListT<TPayload, NCapacity>`
(development/hfsm2/detail/features/task_list.hpp/.inl; same text in include/hfsm2/machine.hpp) and of
its element type `TaskT<TPayload>` / `TaskBase` (development/hfsm2/detail/features/task.hpp).

Modelling decisions (all follow the code as written):

* `Long = uint16_t`, `TaskListT::INVALID = Index(-1) = 65535`.  Indices are `Nat`; no arithmetic in
  the modelled functions can wrap under the invariant proved in `Hfsm.Props.C19`
  (`++_last` only when `_last < CAPACITY - 1`, `++_count` only when `_count < CAPACITY`).
* `TaskBase` stores `origin`/`prev` and `destination`/`next` in two **unions**: the vacant-list links
  of a dead slot live in the same two words as the origin/destination of a live task.  The model
  therefore has exactly two fields `prev` (= `origin`) and `next` (= `destination`).
  (The per-region plan lists do *not* use these fields; they use the separate array
  `PlanDataT::taskLinks`, see `Hfsm.Model.Plan`.)
* Every formation of a reference `_items[k]` is a bounds-checked read in the model; an
  out-of-bounds index makes the operation return `none` (= undefined behaviour in C++).  The
  theorems prove that `none` never happens under the invariant and the documented contract.
* `clear()` resets the four scalar fields only; items (and their stale links) are kept.
-/
namespace Hfsm.Model

/-- `TaskListT::INVALID`, `INVALID_LONG`, `INVALID_STATE_ID` (shared/utility.hpp): `UINT16_MAX`. -/
def INVALID : Nat := 65535

/-- `TransitionType::COUNT` (features/transition.hpp): the `type` of a default-constructed task. -/
def TYPE_COUNT : Nat := 7

/-- `TaskT<TPayload>` (features/task.hpp).  `prev` aliases `origin`, `next` aliases `destination`
(unions in `TaskBase`); `payload = none` is `payloadSet == false` (always so for `TaskT<void>`); the payload type is
modelled as `Int` (the harness instantiates `TPayload = int`). -/
structure Item where
  prev    : Nat
  next    : Nat
  type    : Nat
  payload : Option Int
  deriving DecidableEq, Repr, Inhabited

/-- `origin` is the same storage as `prev` (union in `TaskBase`). -/
abbrev Item.origin (x : Item) : Nat := x.prev
/-- `destination` is the same storage as `next` (union in `TaskBase`). -/
abbrev Item.destination (x : Item) : Nat := x.next

/-- `TaskT()` / `TaskBase()`: origin = destination = INVALID_STATE_ID, type = COUNT, no payload. -/
def Item.dflt : Item := { prev := INVALID, next := INVALID, type := TYPE_COUNT, payload := none }

/-- Bounds-checked read of `_items[i]` (reference formation; `none` = out of bounds = UB). -/
def rd (a : Array Item) (i : Nat) : Option Item := a[i]?

/-- Write through a reference previously formed with `rd` (no effect when out of bounds; every
use in the model is guarded by a successful `rd` of the same index). -/
def wr (a : Array Item) (i : Nat) (v : Item) : Array Item := a.setIfInBounds i v

/-- `TaskListT<TPayload, NCapacity>` (features/task_list.hpp): the four `Index` fields and
`_items[CAPACITY]`.  `CAPACITY` is `items.size`. -/
structure Pool where
  vacantHead : Nat
  vacantTail : Nat
  last       : Nat
  count      : Nat
  items      : Array Item
  deriving Repr

/-- `TaskListT::CAPACITY`. -/
def Pool.cap (p : Pool) : Nat := p.items.size

/-- A default-constructed `TaskListT<_, cap>`: all four indices 0, items default-constructed. -/
def Pool.new (cap : Nat) : Pool :=
  { vacantHead := 0, vacantTail := 0, last := 0, count := 0, items := Array.replicate cap Item.dflt }

/-- `TaskListT::clear()` (task_list.inl): resets the scalars, leaves `_items` (stale links) alone. -/
def Pool.clear (p : Pool) : Pool :=
  { p with vacantHead := 0, vacantTail := 0, last := 0, count := 0 }

/-- `TaskListT::emplace(args…)` (task_list.inl).  `x` is the item built from `args…`.
Result `none`: an out-of-bounds `_items[…]` reference was formed (UB).  Result `some (p', i)`:
`i` is the returned index, `INVALID` in the *full* branch.  Branch order as in the source:
recycle (`_vacantHead != _vacantTail`), grow (`_last < CAPACITY - 1`), last, full. -/
def Pool.emplace (p : Pool) (x : Item) : Option (Pool × Nat) :=
  if p.count < p.cap then
    let index := p.vacantHead
    match rd p.items index with
    | none => none
    | some item =>
      if p.vacantHead ≠ p.vacantTail then
        -- recycle
        let nh := item.next
        match rd p.items nh with
        | none => none
        | some head =>
          let items := wr p.items nh { head with prev := INVALID }
          some ({ p with vacantHead := nh, items := wr items index x, count := p.count + 1 }, index)
      else if p.last + 1 < p.cap then
        -- grow  (`_last < CAPACITY - 1`, evaluated in `int`, CAPACITY ≥ 1)
        let l := p.last + 1
        match rd p.items l with
        | none => none
        | some vacant =>
          let items := wr p.items l { vacant with prev := INVALID, next := INVALID }
          some ({ vacantHead := l, vacantTail := l, last := l, count := p.count + 1,
                  items := wr items index x }, index)
      else
        -- last
        some ({ vacantHead := INVALID, vacantTail := INVALID, last := p.cap, count := p.count + 1,
                items := wr p.items index x }, index)
  else
    -- full
    some (p, INVALID)

/-- `TaskListT::remove(i)` (task_list.inl).  Contract (asserted only): `i < CAPACITY && _count`, and
slot `i` is occupied.  `none`: `_count == 0` (the `--_count` would wrap) or an out-of-bounds
reference.  Removing a *vacant* slot is not detected by the code and not by the model either; the
theorems assume the slot is live. -/
def Pool.remove (p : Pool) (i : Nat) : Option Pool :=
  if p.count = 0 then none else
  match rd p.items i with
  | none => none
  | some item =>
    if p.count < p.cap then
      let items := wr p.items i { item with prev := INVALID, next := p.vacantHead }
      match rd items p.vacantHead with
      | none => none
      | some head =>
        some { p with vacantHead := i, count := p.count - 1,
                      items := wr items p.vacantHead { head with prev := i } }
    else
      -- 0 -> 1
      some { p with vacantHead := i, vacantTail := i, count := p.count - 1,
                    items := wr p.items i { item with prev := INVALID, next := INVALID } }

/-- `TaskListT::operator[] (i)` (task_list.inl): plain `_items[i]`. -/
def Pool.get (p : Pool) (i : Nat) : Option Item := rd p.items i

/-- Operations of the pool's public interface, as driven by the harness. -/
inductive PoolOp
  | emplace (x : Item)
  | remove (i : Nat)
  | clear
  | count
  | get (i : Nat)
  deriving Repr

/-- What one operation lets the caller observe. -/
inductive PoolObs
  | index (i : Nat)     -- `emplace`: returned index (`INVALID` when full)
  | unit                -- `remove`, `clear`
  | num (n : Nat)       -- `count()`
  | item (x : Item)     -- `operator[]`
  deriving DecidableEq, Repr

/-- One public operation; `none` = undefined behaviour reached. -/
def Pool.step (p : Pool) : PoolOp → Option (Pool × PoolObs)
  | .emplace x => (p.emplace x).map fun (q, i) => (q, .index i)
  | .remove i  => (p.remove i).map fun q => (q, .unit)
  | .clear     => some (p.clear, .unit)
  | .count     => some (p, .num p.count)
  | .get i     => (p.get i).map fun x => (p, .item x)

end Hfsm.Model
