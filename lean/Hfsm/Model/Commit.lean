/-
Guards and the commit pass: `deep(Forward)EntryGuard / deep(Forward)ExitGuard`, `deepEnter`,
`deepReenter`, `deepExit`, `deepChangeToRequested` of `S_`, `C_`/`CS_`, `O_`/`OS_`
(structure/state_1.inl, composite.inl, orthogonal.inl and their `_sub_` files).
-/
import Hfsm.Model.Forward

namespace Hfsm
variable {U : Type}

namespace World

/-- `PlanControlT::Region` constructor (root/control_2.inl): returns the values to restore. -/
def pushRegion (w : World U) (rid hid size : Nat) : World U × (Nat × Nat × Nat) :=
  ({ w with regionId := rid, regionStateId := hid, regionSize := size },
   (w.regionId, w.regionStateId, w.regionSize))

/-- `PlanControlT::Region` destructor: restore the enclosing region and clear `_taskStatus`. -/
def popRegion (w : World U) (saved : Nat × Nat × Nat) : World U :=
  { w with regionId := saved.1, regionStateId := saved.2.1, regionSize := saved.2.2, taskStatus := {} }

/-- `S_::deepEntryGuard` / `deepExitGuard`: run the guard handlers; the result is false only for the
guard that flips `_cancelled`. -/
def guardState (w : World U) (sid inj : Nat) (headed : Bool) (m : Method) : World U × Bool :=
  let before := w.cancelled
  let w := w.stateMethod sid inj headed m
  (w, before || !w.cancelled)

end World

/-! ### guards (the registry is not modified) -/

mutual
/-- `deepEntryGuard`: entry guards of a sub-tree that is about to be entered. -/
def Node.entryGuard : Node → World U → World U × Bool
  | .leaf id inj, w => w.guardState id inj true .entryGuard
  | .compo id rid inj h _ _ _ q _ s, w =>
    match q with
    | none => (w.fail' "entry guard of an unresolved region", false)
    | some qi =>
      let (w, sv) := w.pushRegion rid id (1 + s.size)
      let (w, b) := w.guardState id inj h .entryGuard
      let (w, b) := if b then s.entryGuardAt qi w else (w, false)
      (w.popRegion sv, b)
  | .ortho id rid inj h s, w =>
    let (w, sv) := w.pushRegion rid id (1 + s.size)
    let (w, b) := w.guardState id inj h .entryGuard
    let (w, b) := if b then s.entryGuardAll w else (w, false)
    (w.popRegion sv, b)
def Subs.entryGuardAt : Subs → Nat → World U → World U × Bool
  | .nil, _, w => (w.fail' "prong out of range", false)
  | .cons _ n _, 0, w => n.entryGuard w
  | .cons _ _ r, i+1, w => r.entryGuardAt i w
/-- `OS_::wideEntryGuard`: every sibling is evaluated, the results are and-ed. -/
def Subs.entryGuardAll : Subs → World U → World U × Bool
  | .nil, w => (w, true)
  | .cons _ n r, w =>
    let (w, i) := n.entryGuard w
    let (w, rr) := r.entryGuardAll w
    (w, i && rr)
end

mutual
/-- `deepForwardEntryGuard`: walk down the active configuration to the regions with request marks. -/
def Node.fwdEntryGuard : Node → World U → World U × Bool
  | .leaf .., w => (w, true)
  | .compo id rid _ _ _ a _ q _ s, w =>
    let (w, sv) := w.pushRegion rid id (1 + s.size)
    let (w, b) := match q with
      | none => (match a with
                 | some ai => s.fwdEntryGuardAt ai w
                 | none => (w.fail' "forward guard through an inactive region", false))
      | some qi => s.entryGuardAt qi w
    (w.popRegion sv, b)
  | .ortho id rid _ _ s, w =>
    let (w, sv) := w.pushRegion rid id (1 + s.size)
    let (w, b) := if s.anyBit then s.fwdEntryGuardBits w else s.fwdEntryGuardAll w
    (w.popRegion sv, b)
def Subs.fwdEntryGuardAt : Subs → Nat → World U → World U × Bool
  | .nil, _, w => (w.fail' "prong out of range", false)
  | .cons _ n _, 0, w => n.fwdEntryGuard w
  | .cons _ _ r, i+1, w => r.fwdEntryGuardAt i w
def Subs.fwdEntryGuardBits : Subs → World U → World U × Bool
  | .nil, w => (w, true)
  | .cons b n r, w =>
    let (w, i) := if b then n.fwdEntryGuard w else (w, true)
    let (w, rr) := r.fwdEntryGuardBits w
    (w, i && rr)
def Subs.fwdEntryGuardAll : Subs → World U → World U × Bool
  | .nil, w => (w, true)
  | .cons _ n r, w =>
    let (w, i) := n.fwdEntryGuard w
    let (w, rr) := r.fwdEntryGuardAll w
    (w, i && rr)
end

mutual
/-- `deepExitGuard`: exit guards of an active sub-tree that is about to be left (sub-states first). -/
def Node.exitGuard : Node → World U → World U × Bool
  | .leaf id inj, w => w.guardState id inj true .exitGuard
  | .compo id rid inj h _ a _ _ _ s, w =>
    match a with
    | none => (w.fail' "exit guard of an inactive region", false)
    | some ai =>
      let (w, sv) := w.pushRegion rid id (1 + s.size)
      let (w, b) := s.exitGuardAt ai w
      let (w, b) := if b then w.guardState id inj h .exitGuard else (w, false)
      (w.popRegion sv, b)
  | .ortho id rid inj h s, w =>
    let (w, sv) := w.pushRegion rid id (1 + s.size)
    let (w, b) := s.exitGuardAll w
    let (w, b) := if b then w.guardState id inj h .exitGuard else (w, false)
    (w.popRegion sv, b)
def Subs.exitGuardAt : Subs → Nat → World U → World U × Bool
  | .nil, _, w => (w.fail' "prong out of range", false)
  | .cons _ n _, 0, w => n.exitGuard w
  | .cons _ _ r, i+1, w => r.exitGuardAt i w
def Subs.exitGuardAll : Subs → World U → World U × Bool
  | .nil, w => (w, true)
  | .cons _ n r, w =>
    let (w, i) := n.exitGuard w
    let (w, rr) := r.exitGuardAll w
    (w, i && rr)
end

mutual
/-- `deepForwardExitGuard`. A plain state answers `false` (structure/state_1.hpp); the walk never gets
there while the marks come from `requestImmediate`. -/
def Node.fwdExitGuard : Node → World U → World U × Bool
  | .leaf .., w => (w, false)
  | .compo id rid _ _ _ a _ q _ s, w =>
    match a with
    | none => (w.fail' "forward guard through an inactive region", false)
    | some ai =>
      let (w, sv) := w.pushRegion rid id (1 + s.size)
      let (w, b) := match q with
        | none => s.fwdExitGuardAt ai w
        | some _ => s.exitGuardAt ai w
      (w.popRegion sv, b)
  | .ortho id rid _ _ s, w =>
    let (w, sv) := w.pushRegion rid id (1 + s.size)
    let (w, b) := if s.anyBit then s.fwdExitGuardBits w else s.fwdExitGuardAll w
    (w.popRegion sv, b)
def Subs.fwdExitGuardAt : Subs → Nat → World U → World U × Bool
  | .nil, _, w => (w.fail' "prong out of range", false)
  | .cons _ n _, 0, w => n.fwdExitGuard w
  | .cons _ _ r, i+1, w => r.fwdExitGuardAt i w
def Subs.fwdExitGuardBits : Subs → World U → World U × Bool
  | .nil, w => (w, true)
  | .cons b n r, w =>
    let (w, i) := if b then n.fwdExitGuard w else (w, true)
    let (w, rr) := r.fwdExitGuardBits w
    (w, i && rr)
def Subs.fwdExitGuardAll : Subs → World U → World U × Bool
  | .nil, w => (w, true)
  | .cons _ n r, w =>
    let (w, i) := n.fwdExitGuard w
    let (w, rr) := r.fwdExitGuardAll w
    (w, i && rr)
end

/-! ### lifecycle -/

namespace World
/-- `S_::deepExit`: handlers, then `planData.clearTaskStatus(STATE_ID)`. -/
def exitState (w : World U) (sid inj : Nat) (headed : Bool) : World U :=
  let w := w.stateMethod sid inj headed .exit
  if headed && w.cfg.plans then { w with succ := clearBit w.succ sid, fail := clearBit w.fail sid } else w
end World

mutual
/-- `deepEnter`. -/
def Node.enter : Node → World U → Node × World U
  | .leaf id inj, w => (.leaf id inj, w.stateMethod id inj true .enter)
  | .compo id rid inj h st _ r q m s, w =>
    match q with
    | none => (.compo id rid inj h st none r q m s, w.fail' "enter of an unresolved region")
    | some qi =>
      let r' := if q = r then none else r
      let (w, sv) := w.pushRegion rid id (1 + s.size)
      let w := w.stateMethod id inj h .enter
      let (s', w) := s.enterAt qi w
      (.compo id rid inj h st (some qi) r' none m s', w.popRegion sv)
  | .ortho id rid inj h s, w =>
    let (w, sv) := w.pushRegion rid id (1 + s.size)
    let w := w.stateMethod id inj h .enter
    let (s', w) := s.enterAll w
    (.ortho id rid inj h s', w.popRegion sv)
def Subs.enterAt : Subs → Nat → World U → Subs × World U
  | .nil, _, w => (.nil, w.fail' "prong out of range")
  | .cons b n r, 0, w => let (n', w) := n.enter w; (.cons b n' r, w)
  | .cons b n r, i+1, w => let (r', w) := r.enterAt i w; (.cons b n r', w)
/-- `OS_::wideEnter`; `O_::deepEnter` has cleared the region's request bits. -/
def Subs.enterAll : Subs → World U → Subs × World U
  | .nil, w => (.nil, w)
  | .cons _ n r, w =>
    let (n', w) := n.enter w
    let (r', w) := r.enterAll w
    (.cons false n' r', w)
end

mutual
/-- `deepExit` (sub-states before the head; no region scope). -/
def Node.exit : Node → World U → Node × World U
  | .leaf id inj, w => (.leaf id inj, w.exitState id inj true)
  | .compo id rid inj h st a r q m s, w =>
    match a with
    | none => (.compo id rid inj h st a r q m s, w.fail' "exit of an inactive region")
    | some ai =>
      let (s', w) := s.exitAt ai w
      let w := w.exitState id inj h
      (.compo id rid inj h st none (some ai) q m s', w)
  | .ortho id rid inj h s, w =>
    let (s', w) := s.exitAll w
    (.ortho id rid inj h s', w.exitState id inj h)
def Subs.exitAt : Subs → Nat → World U → Subs × World U
  | .nil, _, w => (.nil, w.fail' "prong out of range")
  | .cons b n r, 0, w => let (n', w) := n.exit w; (.cons b n' r, w)
  | .cons b n r, i+1, w => let (r', w) := r.exitAt i w; (.cons b n r', w)
def Subs.exitAll : Subs → World U → Subs × World U
  | .nil, w => (.nil, w)
  | .cons b n r, w =>
    let (n', w) := n.exit w
    let (r', w) := r.exitAll w
    (.cons b n' r', w)
end

mutual
/-- `deepReenter`. -/
def Node.reenter : Node → World U → Node × World U
  | .leaf id inj, w => (.leaf id inj, w.stateMethod id inj true .reenter)
  | .compo id rid inj h st a r q m s, w =>
    match a, q with
    | some ai, some qi =>
      let (w, sv) := w.pushRegion rid id (1 + s.size)
      let w := w.stateMethod id inj h .reenter
      if ai = qi then
        let (s', w) := s.reenterAt ai w
        (.compo id rid inj h st a r none m s', w.popRegion sv)
      else
        let (s1, w) := Subs.exitAt s ai w
        let (s2, w) := Subs.enterAt s1 qi w
        (.compo id rid inj h st (some qi) (some ai) none m s2, w.popRegion sv)
    | _, _ => (.compo id rid inj h st a r q m s, w.fail' "reenter of an inactive or unresolved region")
  | .ortho id rid inj h s, w =>
    let (w, sv) := w.pushRegion rid id (1 + s.size)
    let w := w.stateMethod id inj h .reenter
    let (s', w) := s.reenterAll w
    (.ortho id rid inj h s', w.popRegion sv)
def Subs.reenterAt : Subs → Nat → World U → Subs × World U
  | .nil, _, w => (.nil, w.fail' "prong out of range")
  | .cons b n r, 0, w => let (n', w) := n.reenter w; (.cons b n' r, w)
  | .cons b n r, i+1, w => let (r', w) := r.reenterAt i w; (.cons b n r', w)
def Subs.reenterAll : Subs → World U → Subs × World U
  | .nil, w => (.nil, w)
  | .cons _ n r, w =>
    let (n', w) := n.reenter w
    let (r', w) := r.reenterAll w
    (.cons false n' r', w)
end

mutual
/-- `deepChangeToRequested`: forward / switch / restart in place / reenter. -/
def Node.commit : Node → World U → Node × World U
  | .leaf id inj, w => (.leaf id inj, w)
  | .compo id rid inj h st a r q m s, w =>
    match a with
    | none => (.compo id rid inj h st a r q m s, w.fail' "commit through an inactive region")
    | some ai =>
      let (w, sv) := w.pushRegion rid id (1 + s.size)
      match q with
      | none =>
        let (s', w) := s.commitAt ai w
        (.compo id rid inj h st a r q m s', w.popRegion sv)
      | some qi =>
        if qi ≠ ai then
          let (s1, w) := Subs.exitAt s ai w
          let (s2, w) := Subs.enterAt s1 qi w
          (.compo id rid inj h st (some qi) (some ai) none m s2, w.popRegion sv)
        else if m then
          let (s1, w) := Subs.exitAt s ai w
          let (s2, w) := Subs.enterAt s1 ai w
          (.compo id rid inj h st a r none m s2, w.popRegion sv)
        else
          let (s', w) := Subs.reenterAt s ai w
          (.compo id rid inj h st a r none m s', w.popRegion sv)
  | .ortho id rid inj h s, w =>
    let (s', w) := s.commitAll w
    (.ortho id rid inj h s', w)
def Subs.commitAt : Subs → Nat → World U → Subs × World U
  | .nil, _, w => (.nil, w.fail' "prong out of range")
  | .cons b n r, 0, w => let (n', w) := n.commit w; (.cons b n' r, w)
  | .cons b n r, i+1, w => let (r', w) := r.commitAt i w; (.cons b n r', w)
def Subs.commitAll : Subs → World U → Subs × World U
  | .nil, w => (.nil, w)
  | .cons b n r, w =>
    let (n', w) := n.commit w
    let (r', w) := r.commitAll w
    (.cons b n' r', w)
end

end Hfsm
