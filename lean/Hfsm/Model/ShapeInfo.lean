/-
Identifiers and structural metadata of a machine structure, computed the way the library's
template metaprogram computes them (property C17).

C++ anchors (paths below /repo/development/hfsm2/detail/):
* `structure/forward.hpp`   : `SI_ / CI_ / CSI_ / OI_ / OSI_` (counts, bit widths), `RF_` (published
                              counts, `stateId<>() / regionId<>()`), `I_<STATE_ID, COMPO_INDEX,
                              ORTHO_INDEX, ORTHO_UNIT>`, `LHalfCS / RHalfCS / RemainingOS` (offsets)
* `shared/type_list.hpp`    : `TL_`, `Merge`, `LowerT / UpperT` (`LHalfTypes / RHalfTypes`), `Find`
* `shared/utility.hpp`      : `bitContain`, `contain`, `max`, `Short = uint8_t`, `Long = uint16_t`
* `structure/composite*.hpp`, `structure/orthogonal*.hpp` : `C_ / CS_ / O_ / OS_` index derivation
* `structure/*.inl`         : `deepRegister / wideRegister`
* `root/registry_1.hpp`     : `Parent`, `RegistryT` tables

All arithmetic here is over `Nat` (mathematical integers).  The fixed-width effects of
`Short`/`Long` are modelled separately at the end of the file (`Info.wrap`, `Shape.infoFW`).
-/
import Hfsm.Model.Shape

namespace Hfsm

/-! ### utility.hpp -/

/-- `bitContain(v)` (shared/utility.hpp): number of bits needed to store a prong of a region of
width `v` — the chain of `v <= 1 << k` tests, saturating at 8. -/
def bitContain (v : Nat) : Nat :=
  if v ≤ 1 then 0 else
  if v ≤ 2 then 1 else
  if v ≤ 4 then 2 else
  if v ≤ 8 then 3 else
  if v ≤ 16 then 4 else
  if v ≤ 32 then 5 else
  if v ≤ 64 then 6 else
  if v ≤ 128 then 7 else 8

/-- `contain(x, to)` (shared/utility.hpp): `(x + to - 1) / to`. -/
def contain (x to : Nat) : Nat := (x + to - 1) / to

/-! ### type_list.hpp -/

/-- `LowerT<NHalf, NIndex, Ts...>` (shared/type_list.hpp): keeps the elements whose running index
is `< half`. -/
def lowerT {α : Type} (half idx : Nat) : List α → List α
  | [] => []
  | x :: r => if idx < half then x :: lowerT half (idx + 1) r else lowerT half (idx + 1) r

/-- `UpperT<NHalf, NIndex, Ts...>` (shared/type_list.hpp): drops elements while the running index
is `< half`, then keeps the whole remaining list. -/
def upperT {α : Type} (half idx : Nat) : List α → List α
  | [] => []
  | x :: r => if idx < half then upperT half (idx + 1) r else x :: r

/-- `LHalfTypes<Ts...> = LowerTypes<sizeof...(Ts) / 2, 0, Ts...>`. -/
def lHalf {α : Type} (l : List α) : List α := lowerT (l.length / 2) 0 l

/-- `RHalfTypes<Ts...> = UpperTypes<sizeof...(Ts) / 2, 0, Ts...>`. -/
def rHalf {α : Type} (l : List α) : List α := upperT (l.length / 2) 0 l

/-! ### SI_ / CI_ / CSI_ / OI_ / OSI_ -/

/-- The `static constexpr` members of the info templates of structure/forward.hpp.
`width` is meaningful for `SI_ / CI_ / OI_` only (`CSI_ / OSI_` have no `WIDTH`; it is 0 there). -/
structure Info where
  width         : Nat
  stateCount    : Nat
  regionCount   : Nat
  compoCount    : Nat
  compoProngs   : Nat
  orthoCount    : Nat
  orthoUnits    : Nat
  reverseDepth  : Nat
  activeBits    : Nat
  resumableBits : Nat
  deriving DecidableEq, Repr, Inhabited

/-- `SI_<THead>`: a single state (also the head of a region; `THead = void` for a headless
region still yields `StateList = TL_<void>` of size 1). -/
def Info.state : Info :=
  { width := 1, stateCount := 1, regionCount := 0, compoCount := 0, compoProngs := 0,
    orthoCount := 0, orthoUnits := 0, reverseDepth := 1, activeBits := 0, resumableBits := 0 }

/-- No C++ counterpart: `CSI_<TL_<>>` / `OSI_<>` are incomplete types, a region needs at least one
sub-state.  Neutral element, only reached for the (inexpressible) empty `Shapes.nil` region. -/
def Info.zero : Info :=
  { width := 0, stateCount := 0, regionCount := 0, compoCount := 0, compoProngs := 0,
    orthoCount := 0, orthoUnits := 0, reverseDepth := 0, activeBits := 0, resumableBits := 0 }

/-- `CSI_<TL_<TI, TR...>>` from `Initial = WrapInfo<TI>` and `Remaining = CSI_<TL_<TR...>>`
(`StateList / RegionList` sizes add up under `Merge`; `ACTIVE_BITS` is a `max`). -/
def Info.consC (i r : Info) : Info :=
  { width := 0
    stateCount    := i.stateCount + r.stateCount
    regionCount   := i.regionCount + r.regionCount
    compoCount    := i.compoCount + r.compoCount
    compoProngs   := i.compoProngs + r.compoProngs
    orthoCount    := i.orthoCount + r.orthoCount
    orthoUnits    := i.orthoUnits + r.orthoUnits
    reverseDepth  := max i.reverseDepth r.reverseDepth
    activeBits    := max i.activeBits r.activeBits
    resumableBits := i.resumableBits + r.resumableBits }

/-- `OSI_<TI, TR...>`: as `CSI_` except that `ACTIVE_BITS` add up. -/
def Info.consO (i r : Info) : Info :=
  { Info.consC i r with activeBits := i.activeBits + r.activeBits }

/-- `CSI_<TL_<TI>>` / `OSI_<TI>`: everything is taken from `Initial` (no `WIDTH`). -/
def Info.single (i : Info) : Info := { i with width := 0 }

/-- `CSI_<TL_<Ts...>>` as a function of the `WrapInfo<T>` of the listed types: a right fold whose
last step is the one-element specialisation. -/
def csiFold : List Info → Info
  | [] => Info.zero
  | [i] => Info.single i
  | i :: r => Info.consC i (csiFold r)

/-- `OSI_<Ts...>` likewise. -/
def osiFold : List Info → Info
  | [] => Info.zero
  | [i] => Info.single i
  | i :: r => Info.consO i (osiFold r)

/-- `CI_<Strategy, THead, TSubStates...>` from `WIDTH = sizeof...(TSubStates)` and
`SubStates = CSI_<TL_<TSubStates...>>`; the head contributes one entry to both `StateList` and
`RegionList`. -/
def Info.compo (w : Nat) (s : Info) : Info :=
  { width := w
    stateCount    := 1 + s.stateCount
    regionCount   := 1 + s.regionCount
    compoCount    := s.compoCount + 1
    compoProngs   := s.compoProngs + w
    orthoCount    := s.orthoCount
    orthoUnits    := s.orthoUnits
    reverseDepth  := s.reverseDepth + 1
    activeBits    := s.activeBits + bitContain w
    resumableBits := s.resumableBits + bitContain w + 1 }

/-- `OI_<THead, TSubStates...>` from `WIDTH` and `SubStates = OSI_<TSubStates...>`. -/
def Info.ortho (w : Nat) (s : Info) : Info :=
  { width := w
    stateCount    := 1 + s.stateCount
    regionCount   := 1 + s.regionCount
    compoCount    := s.compoCount
    compoProngs   := s.compoProngs
    orthoCount    := s.orthoCount + 1
    orthoUnits    := s.orthoUnits + contain w 8
    reverseDepth  := s.reverseDepth + 1
    activeBits    := s.activeBits
    resumableBits := s.resumableBits }

/-- Number of declared sub-states (`sizeof...(TSubStates)`). -/
def Shapes.length : Shapes → Nat
  | .nil => 0
  | .cons _ r => r.length + 1

/-- Sub-states as a list. -/
def Shapes.toList : Shapes → List Shape
  | .nil => []
  | .cons s r => s :: r.toList

mutual
/-- `WrapInfo<T>`: `SI_<T>` for a plain state, the `CI_ / OI_` itself for a region. -/
def Shape.info : Shape → Info
  | .leaf _ => Info.state
  | .compo _ _ _ subs => Info.compo subs.length (csiFold subs.infos)
  | .ortho _ _ subs => Info.ortho subs.length (osiFold subs.infos)
/-- `WrapInfo<T>` of every listed sub-state, declaration order. -/
def Shapes.infos : Shapes → List Info
  | .nil => []
  | .cons s r => s.info :: r.infos
end

mutual
/-- Expressible with the library's templates: every region lists at least one sub-state
(`CSI_<TL_<>>` and `OSI_<>` are incomplete types). -/
def Shape.wf : Shape → Bool
  | .leaf _ => true
  | .compo _ _ _ subs => decide (1 ≤ subs.length) && subs.allWf
  | .ortho _ _ subs => decide (1 ≤ subs.length) && subs.allWf
def Shapes.allWf : Shapes → Bool
  | .nil => true
  | .cons s r => s.wf && r.allWf
end

/-- `Info::WIDTH` (1 for a plain state). -/
def Shape.width (s : Shape) : Nat := s.info.width

/-! ### RF_ : published numbers -/

/-- `RF_::SERIAL_BITS = 1 + ACTIVE_BITS + RESUMABLE_BITS`. -/
def Info.serialBits (i : Info) : Nat := 1 + i.activeBits + i.resumableBits

/-- `RF_::TASK_CAPACITY` when `Config::TASK_CAPACITY == INVALID_LONG`: `COMPO_PRONGS * 2`. -/
def Info.taskCapacity (i : Info) : Nat := i.compoProngs * 2

/-! ### StateList / RegionList (`Merge`) and the public `stateId<>() / regionId<>()`

The model has no type names; a declared state is identified by its *path*: the declaration
positions leading from the root to it (`[]` = the root region's head). -/

abbrev Path := List Nat

mutual
/-- `Info::StateList`: `Merge<HeadInfo::StateList, SubStates::StateList>`, i.e. the head followed
by the sub-states' lists in declaration order (paths relative to this node). -/
def Shape.stateList : Shape → List Path
  | .leaf _ => [[]]
  | .compo _ _ _ subs => [] :: subs.stateLists 0
  | .ortho _ _ subs => [] :: subs.stateLists 0
/-- `CSI_/OSI_::StateList`: `Merge<Initial::StateList, Remaining::StateList>`; `k` is the
declaration position of the first listed sub-state. -/
def Shapes.stateLists (k : Nat) : Shapes → List Path
  | .nil => []
  | .cons s r => s.stateList.map (k :: ·) ++ r.stateLists (k + 1)
end

mutual
/-- `Info::RegionList`: `TL_<>` for a state, `Merge<HeadInfo::StateList, SubStates::RegionList>`
for a region. -/
def Shape.regionList : Shape → List Path
  | .leaf _ => []
  | .compo _ _ _ subs => [] :: subs.regionLists 0
  | .ortho _ _ subs => [] :: subs.regionLists 0
def Shapes.regionLists (k : Nat) : Shapes → List Path
  | .nil => []
  | .cons s r => s.regionList.map (k :: ·) ++ r.regionLists (k + 1)
end

/-- `RF_::stateId<TState>() = index<StateList, TState>()` (`none` = `INVALID_LONG`: not in the list). -/
def Shape.stateId? (s : Shape) (p : Path) : Option Nat := s.stateList.idxOf? p

/-- `RF_::regionId<TState>() = index<RegionList, TState>()`. -/
def Shape.regionId? (s : Shape) (p : Path) : Option Nat := s.regionList.idxOf? p

/-! ### I_ and the offsets of the materialised types -/

/-- `I_<STATE_ID, COMPO_INDEX, ORTHO_INDEX, ORTHO_UNIT>`. -/
structure Idx where
  stateId    : Nat
  compoIndex : Nat
  orthoIndex : Nat
  orthoUnit  : Nat
  deriving DecidableEq, Repr, Inhabited

/-- `R_::Apex = MaterialT<I_<0, 0, 0, 0>, Args, TApex>` (root_0.hpp). -/
def Idx.root : Idx := ⟨0, 0, 0, 0⟩

/-- The offset step shared by `RHalfCST` and `RemainingOST`: add `STATE_COUNT`, `COMPO_COUNT`,
`ORTHO_COUNT`, `ORTHO_UNITS` of what lies before. -/
def Idx.skip (ix : Idx) (i : Info) : Idx :=
  ⟨ix.stateId + i.stateCount, ix.compoIndex + i.compoCount,
   ix.orthoIndex + i.orthoCount, ix.orthoUnit + i.orthoUnits⟩

/-- Indices of `C_::SubStates`: `I_<STATE_ID + 1, COMPO_INDEX + 1, ORTHO_INDEX, ORTHO_UNIT>`. -/
def Idx.compoSubs (ix : Idx) : Idx :=
  ⟨ix.stateId + 1, ix.compoIndex + 1, ix.orthoIndex, ix.orthoUnit⟩

/-- Indices of `O_::SubStates`:
`I_<STATE_ID + 1, COMPO_INDEX, ORTHO_INDEX + 1, ORTHO_UNIT + contain(WIDTH, 8)>`. -/
def Idx.orthoSubs (ix : Idx) (width : Nat) : Idx :=
  ⟨ix.stateId + 1, ix.compoIndex, ix.orthoIndex + 1, ix.orthoUnit + contain width 8⟩

/-- `C_/O_::REGION_ID = COMPO_INDEX + ORTHO_INDEX`. -/
def Idx.regionId (ix : Idx) : Nat := ix.compoIndex + ix.orthoIndex

/-- `C_::COMPO_ID = COMPO_INDEX + 1` (a `ForkID`, positive). -/
def Idx.compoId (ix : Idx) : Int := (ix.compoIndex : Int) + 1

/-- `O_::ORTHO_ID = -ORTHO_INDEX - 1` (a `ForkID`, negative). -/
def Idx.orthoId (ix : Idx) : Int := - (ix.orthoIndex : Int) - 1

/-- (termination of `csAssign`) -/
theorem lowerT_length {α : Type} (half idx : Nat) (l : List α) :
    (lowerT half idx l).length = min (half - idx) l.length := by
  induction l generalizing idx with
  | nil => simp [lowerT]
  | cons x r ih =>
    simp only [lowerT]
    split
    · simp only [List.length_cons, ih]; omega
    · simp only [List.length_cons, ih]; omega

/-- (termination of `csAssign`) -/
theorem upperT_length {α : Type} (half idx : Nat) (l : List α) :
    (upperT half idx l).length = l.length - (half - idx) := by
  induction l generalizing idx with
  | nil => simp [upperT]
  | cons x r ih =>
    simp only [upperT]
    split
    · simp only [List.length_cons, ih]; omega
    · simp only [List.length_cons]; omega

/-- What the materialised `CS_<I_<…>, Args, SG, NProng, TL_<Ts...>>` tree assigns to each listed
sub-state, as a function of the `WrapInfo` of the listed types (structure/composite_sub_1.hpp,
composite_sub_2.hpp, forward.hpp `LHalfCST / RHalfCST`):
* one type: `Single = MaterialT<Indices, Args, T>` with `PRONG_INDEX = NProng`;
* otherwise `LHalf` keeps `Indices` and `NProng`, `RHalf` gets
  `I_<… + CSI_<LHalfTypes>::{STATE_COUNT, COMPO_COUNT, ORTHO_COUNT, ORTHO_UNITS}>` and
  `NProng + LHalfTypes::SIZE`.
The result lists `(Indices, PRONG_INDEX)` of the singles, left to right. -/
def csAssign (ix : Idx) (np : Nat) (l : List Info) : List (Idx × Nat) :=
  match l with
  | [] => []                       -- not expressible (`static_assert(sizeof...(TStates) >= 2)` / one-type specialisation)
  | [_] => [(ix, np)]
  | a :: b :: r =>
    csAssign ix np (lHalf (a :: b :: r)) ++
    csAssign (ix.skip (csiFold (lHalf (a :: b :: r)))) (np + (lHalf (a :: b :: r)).length)
      (rHalf (a :: b :: r))
termination_by l.length
decreasing_by
  · simp only [lHalf, lowerT_length, List.length_cons]; omega
  · simp only [rHalf, upperT_length, List.length_cons]; omega

/-- A node of the materialised `CS_` tree of one composite region. -/
inductive CsNode
  /-- `CS_<…, TL_<Ts...>>`, two or more types: `Indices`, `PRONG_INDEX`, `sizeof...(Ts)`,
  `L_PRONG`, `R_PRONG`. -/
  | split (ix : Idx) (prong n lProng rProng : Nat)
  /-- `CS_<…, TL_<T>>`: `Indices`, `PRONG_INDEX`. -/
  | single (ix : Idx) (prong : Nat)
  deriving DecidableEq, Repr

/-- All nodes of the materialised `CS_` tree, in `LHalf`-before-`RHalf` pre-order (the order in
which the harness prints them). -/
def csTrace (ix : Idx) (np : Nat) (l : List Info) : List CsNode :=
  match l with
  | [] => []
  | [_] => [.single ix np]
  | a :: b :: r =>
    .split ix np (r.length + 2) np (np + (lHalf (a :: b :: r)).length) ::
      (csTrace ix np (lHalf (a :: b :: r)) ++
       csTrace (ix.skip (csiFold (lHalf (a :: b :: r)))) (np + (lHalf (a :: b :: r)).length)
         (rHalf (a :: b :: r)))
termination_by l.length
decreasing_by
  · simp only [lHalf, lowerT_length, List.length_cons]; omega
  · simp only [rHalf, upperT_length, List.length_cons]; omega

/-! ### deepRegister -/

/-- `INVALID_FORK_ID = INT16_MIN` (shared/utility.hpp). -/
def invalidForkId : Int := -32768
/-- `INVALID_PRONG = INVALID_SHORT = UINT8_MAX`. -/
def invalidProng : Nat := 255

/-- `struct Parent { ForkID forkId; Prong prong; }` (root/registry_1.hpp). -/
structure Parent where
  forkId : Int
  prong  : Nat
  deriving DecidableEq, Repr, Inhabited

/-- `Parent{}`: what `R_::R_()` passes to `_apex.deepRegister`. -/
def Parent.invalid : Parent := ⟨invalidForkId, invalidProng⟩

inductive NodeKind
  | leaf
  | compo (strat : Strategy)
  | ortho
  deriving DecidableEq, Repr, Inhabited

/-- What the declaration says about one node (a plain state, or a region = its head state). -/
structure Decl where
  /-- declaration positions from the root (identifies the declared type) -/
  path   : Path
  kind   : NodeKind
  /-- `false`: the head is the anonymous `EmptyT<Args>` of a `…Peers<>` region -/
  headed : Bool
  /-- number of declared sub-states (1 for a plain state, as `SI_::WIDTH`) -/
  width  : Nat
  deriving DecidableEq, Repr, Inhabited

/-- materialised as a `C_` (any of the five strategies) -/
def Decl.isCompo (d : Decl) : Bool := match d.kind with | .compo _ => true | _ => false
/-- materialised as an `O_` -/
def Decl.isOrtho (d : Decl) : Bool := match d.kind with | .ortho => true | _ => false
/-- a `C_` or an `O_` (has an entry in `RegionList`) -/
def Decl.isRegion (d : Decl) : Bool := match d.kind with | .leaf => false | _ => true

/-- One materialised `S_` (plain state), `C_` or `O_` together with everything its `deepRegister`
is called with / writes. -/
structure NodeRec extends Decl where
  /-- `Indices` (for a region: of the region = of its `HeadState`) -/
  idx    : Idx
  /-- the `parent` argument of `deepRegister` -/
  parent : Parent
  /-- `REGION_SIZE = Info::STATE_COUNT` (1 for a state) -/
  size   : Nat
  deriving DecidableEq, Repr, Inhabited

/-- The fork id under which the sub-states of this region are registered
(`COMPO_ID` / `ORTHO_ID`); `invalidForkId` for a plain state. -/
def NodeRec.forkId (r : NodeRec) : Int :=
  match r.kind with
  | .leaf => invalidForkId
  | .compo _ => r.idx.compoId
  | .ortho => r.idx.orthoId

mutual
/-- The traversal `deepRegister` makes through the materialised types, started like
`MaterialT<ix, Args, T>::deepRegister(registry, parent)`:
* `S_` (state_1.inl / state_2.inl): one node;
* `C_` (composite.inl): the region, then `SubStates::wideRegister(Parent{COMPO_ID})` where
  `SubStates = CS_<I_<STATE_ID+1, COMPO_INDEX+1, ORTHO_INDEX, ORTHO_UNIT>, …, 0, TL_<…>>`;
* `O_` (orthogonal.inl): the region, then `SubStates::wideRegister(ORTHO_ID)` where
  `SubStates = OS_<I_<STATE_ID+1, COMPO_INDEX, ORTHO_INDEX+1, ORTHO_UNIT+contain(WIDTH,8)>, …, 0, …>`.
Result: every node in visiting order (head first, sub-states in declaration order). -/
def Shape.walk (ix : Idx) (parent : Parent) (path : Path) : Shape → List NodeRec
  | .leaf _ =>
    [{ path, kind := .leaf, headed := true, idx := ix, parent, width := 1, size := 1 }]
  | .compo h _ st subs =>
    { path, kind := .compo st, headed := h, idx := ix, parent, width := subs.length,
      size := (Info.compo subs.length (csiFold subs.infos)).stateCount } ::
      subs.walkC (csAssign ix.compoSubs 0 subs.infos) ix.compoId path 0
  | .ortho h _ subs =>
    { path, kind := .ortho, headed := h, idx := ix, parent, width := subs.length,
      size := (Info.ortho subs.length (osiFold subs.infos)).stateCount } ::
      subs.walkO (ix.orthoSubs subs.length) 0 ix.orthoId path
/-- `CS_::wideRegister` (composite_sub_1.inl / composite_sub_2.inl): the `k`-th listed sub-state
is the `Single` whose `(Indices, PRONG_INDEX)` is the `k`-th entry of `csAssign`; it is
registered with `Parent{forkId, PRONG_INDEX}`. -/
def Shapes.walkC (assign : List (Idx × Nat)) (forkId : Int) (path : Path) (k : Nat) :
    Shapes → List NodeRec
  | .nil => []
  | .cons s r =>
    match assign with
    | [] => []     -- never taken: `csAssign` has one entry per listed type (`csAssign_length`)
    | (ix, np) :: rest =>
      s.walk ix ⟨forkId, np⟩ (path ++ [k]) ++ r.walkC rest forkId path (k + 1)
/-- `OS_::wideRegister` (orthogonal_sub_1.inl / orthogonal_sub_2.inl): `Initial` is registered with
`Parent{forkId, PRONG_INDEX}`, `Remaining = OS_<I_<… + WrapInfo<TInitial>::…>, Args, NProng + 1, TR...>`
(forward.hpp `RemainingOST`). -/
def Shapes.walkO (ix : Idx) (np : Nat) (forkId : Int) (path : Path) : Shapes → List NodeRec
  | .nil => []
  | .cons s r =>
    s.walk ix ⟨forkId, np⟩ (path ++ [np]) ++ r.walkO (ix.skip s.info) (np + 1) forkId path
end

/-- The whole machine: `_apex.deepRegister(_core.registry, Parent{})` with
`Apex = MaterialT<I_<0,0,0,0>, Args, TApex>` (root_0.hpp / root_0.inl). -/
def Shape.nodes (s : Shape) : List NodeRec := s.walk Idx.root Parent.invalid []

/-! ### RegistryT tables -/

/-- The structural tables of `RegistryT<Args>` (root/registry_1.hpp).  `none` = not written by
`deepRegister`.  Capacities: `stateParents : STATE_COUNT`, `compoParents : COMPO_COUNT`,
`orthoParents : ORTHO_COUNT`, `orthoUnits : ORTHO_UNITS` (sic; indexed by `ORTHO_INDEX`),
`regionHeads / regionSizes : REGION_COUNT`. -/
structure Registry where
  stateParents : List (Option Parent)
  compoParents : List (Option Parent)
  orthoParents : List (Option Parent)
  orthoUnits   : List (Option (Nat × Nat))
  regionHeads  : List (Option Nat)
  regionSizes  : List (Option Nat)
  deriving DecidableEq, Repr

def Registry.empty (i : Info) : Registry :=
  { stateParents := List.replicate i.stateCount none
    compoParents := List.replicate i.compoCount none
    orthoParents := List.replicate i.orthoCount none
    orthoUnits   := List.replicate i.orthoUnits none
    regionHeads  := List.replicate i.regionCount none
    regionSizes  := List.replicate i.regionCount none }

/-- `array[i] = v` on a `StaticArrayT`; `none` = index out of bounds (undefined behaviour in C++). -/
def setAt {α : Type} (l : List (Option α)) (i : Nat) (v : α) : Option (List (Option α)) :=
  if i < l.length then some (l.set i (some v)) else none

/-- The writes of one `deepRegister` body:
`S_` : `stateParents[STATE_ID] = parent`;
`C_` : `compoParents[COMPO_INDEX] = parent; regionHeads[REGION_ID] = HEAD_ID;
        regionSizes[REGION_ID] = REGION_SIZE; HeadState::deepRegister(registry, parent)`;
`O_` : `orthoParents[ORTHO_INDEX] = parent; orthoUnits[ORTHO_INDEX] = Units{ORTHO_UNIT, WIDTH};
        regionHeads…; regionSizes…; HeadState::deepRegister(registry, parent)`. -/
def Registry.addNode (reg : Registry) (r : NodeRec) : Option Registry :=
  match r.kind with
  | .leaf => do
    let sp ← setAt reg.stateParents r.idx.stateId r.parent
    pure { reg with stateParents := sp }
  | .compo _ => do
    let cp ← setAt reg.compoParents r.idx.compoIndex r.parent
    let rh ← setAt reg.regionHeads r.idx.regionId r.idx.stateId
    let rs ← setAt reg.regionSizes r.idx.regionId r.size
    let sp ← setAt reg.stateParents r.idx.stateId r.parent
    pure { reg with compoParents := cp, regionHeads := rh, regionSizes := rs, stateParents := sp }
  | .ortho => do
    let op ← setAt reg.orthoParents r.idx.orthoIndex r.parent
    let ou ← setAt reg.orthoUnits r.idx.orthoIndex (r.idx.orthoUnit, r.width)
    let rh ← setAt reg.regionHeads r.idx.regionId r.idx.stateId
    let rs ← setAt reg.regionSizes r.idx.regionId r.size
    let sp ← setAt reg.stateParents r.idx.stateId r.parent
    pure { reg with orthoParents := op, orthoUnits := ou, regionHeads := rh, regionSizes := rs,
                    stateParents := sp }

/-- All writes in visiting order. -/
def Registry.addNodes (reg : Registry) : List NodeRec → Option Registry
  | [] => some reg
  | r :: t => (reg.addNode r).bind (·.addNodes t)

/-- The registry after `R_`'s constructor; `none` if some write would be out of bounds. -/
def Shape.register (s : Shape) : Option Registry :=
  (Registry.empty s.info).addNodes s.nodes

/-! ### Fixed-width arithmetic (`Short = uint8_t`, `Long = uint16_t`) -/

/-- Reduction of each member to the width of its C++ type: `Short WIDTH, REGION_COUNT, COMPO_COUNT,
ORTHO_COUNT, ORTHO_UNITS`; `Long STATE_COUNT, COMPO_PRONGS, REVERSE_DEPTH, ACTIVE_BITS,
RESUMABLE_BITS` (forward.hpp). -/
def Info.wrap (i : Info) : Info :=
  { width         := i.width % 256
    stateCount    := i.stateCount % 65536
    regionCount   := i.regionCount % 256
    compoCount    := i.compoCount % 256
    compoProngs   := i.compoProngs % 65536
    orthoCount    := i.orthoCount % 256
    orthoUnits    := i.orthoUnits % 256
    reverseDepth  := i.reverseDepth % 65536
    activeBits    := i.activeBits % 65536
    resumableBits := i.resumableBits % 65536 }

/-- `CSI_` with every member stored in its fixed-width type. -/
def csiFoldFW : List Info → Info
  | [] => Info.zero
  | [i] => Info.single i
  | i :: r => (Info.consC i (csiFoldFW r)).wrap

/-- `OSI_` with every member stored in its fixed-width type. -/
def osiFoldFW : List Info → Info
  | [] => Info.zero
  | [i] => Info.single i
  | i :: r => (Info.consO i (osiFoldFW r)).wrap

mutual
/-- `Shape.info` with every intermediate `static constexpr` member reduced to the width of its
type, i.e. what the compiler computes when a quantity does not fit (`bitContain` takes a `Short`). -/
def Shape.infoFW : Shape → Info
  | .leaf _ => Info.state
  | .compo _ _ _ subs =>
    (Info.compo (subs.length % 256) (csiFoldFW subs.infosFW)).wrap
  | .ortho _ _ subs =>
    (Info.ortho (subs.length % 256) (osiFoldFW subs.infosFW)).wrap
def Shapes.infosFW : Shapes → List Info
  | .nil => []
  | .cons s r => s.infoFW :: r.infosFW
end

/-- `RF_::SERIAL_BITS` is a `Long`. -/
def Info.serialBitsFW (i : Info) : Nat := (1 + i.activeBits + i.resumableBits) % 65536

/-- `ArgsT::SERIAL_BITS = NSerialBits`, a `Long` like the `RF_::SERIAL_BITS` it receives; it sizes
`SerialBuffer = StreamBufferT<SERIAL_BITS>` (forward.hpp).  (Before /repo commit "fix: keep the
serialization bit count in a Long inside ArgsT" the member was a `Short`, i.e. `… % 256`.) -/
def Info.argsSerialBits (i : Info) : Nat := i.serialBitsFW

/-- `RF_::TASK_CAPACITY` is a `Long`. -/
def Info.taskCapacityFW (i : Info) : Nat := (i.compoProngs * 2) % 65536

/-- Bounds under which no member wraps. -/
structure Info.Fits (i : Info) : Prop where
  width         : i.width < 256
  stateCount    : i.stateCount < 65536
  regionCount   : i.regionCount < 256
  compoCount    : i.compoCount < 256
  compoProngs   : i.compoProngs < 65536
  orthoCount    : i.orthoCount < 256
  orthoUnits    : i.orthoUnits < 256
  reverseDepth  : i.reverseDepth < 65536
  activeBits    : i.activeBits < 65536
  resumableBits : i.resumableBits < 65536

instance (i : Info) : Decidable i.Fits :=
  decidable_of_iff
    (i.width < 256 ∧ i.stateCount < 65536 ∧ i.regionCount < 256 ∧ i.compoCount < 256 ∧
     i.compoProngs < 65536 ∧ i.orthoCount < 256 ∧ i.orthoUnits < 256 ∧ i.reverseDepth < 65536 ∧
     i.activeBits < 65536 ∧ i.resumableBits < 65536)
    ⟨fun ⟨a, b, c, d, e, f, g, h, j, k⟩ => ⟨a, b, c, d, e, f, g, h, j, k⟩,
     fun ⟨a, b, c, d, e, f, g, h, j, k⟩ => ⟨a, b, c, d, e, f, g, h, j, k⟩⟩

end Hfsm
