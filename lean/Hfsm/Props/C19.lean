/-
Property C19 — "Fixed-capacity task pool and bounded arrays behave like ideal containers".

Part A: `TaskListT` (model `Hfsm.Model.Pool`) refines an ideal finite map `live : slot → Option Item`,
for every capacity `1 ≤ cap ≤ 65535` and every sequence of in-contract operations.
Part B: `DynamicArrayT` / `StaticArrayT` (model `Hfsm.Model.BArray`) container laws.

Everything is proved for all inputs (induction over operation lists, invariant `Rep`); no bounded
search.  The only hypotheses are the code's own contract (`remove`/`operator[]` on a live slot,
`DynamicArrayT::emplace` below capacity) and they are spelled out in each statement.
-/
import Hfsm.Proofs.PoolSim
import Hfsm.Model.BArray

namespace Hfsm.Props.C19
open Hfsm.Model

/-! ## Part A — the task pool -/

/-- `PoolInv`: the concrete pool represents *some* reference state whose ideal contents are `live`.
Unfolded (`Hfsm.Model.Rep`): the vacant list is a duplicate-free `prev`/`next`-consistent chain from
`_vacantHead` to `_vacantTail` through exactly the non-live slots `≤ _last`; slots above `_last` were
never used; `_count` = number of live slots; `_vacantTail = _last` while `_last < CAPACITY`;
head = tail = INVALID and `_last = CAPACITY` when the chain is empty; live slots hold their contents.
Nothing is required of the chain head's `prev` or the chain end's `next` (stale after `clear()`). -/
def PoolInv (cap : Nat) (p : Pool) (live : Live) : Prop :=
  ∃ g : G, Rep cap p g ∧ g.live = live

/-- A default-constructed pool satisfies the invariant with no live slot. -/
theorem pool_inv_new {cap : Nat} (hpos : 0 < cap) (hle : cap ≤ INVALID) :
    PoolInv cap (Pool.new cap) Live.empty :=
  ⟨G.new, Rep.new hpos hle, rfl⟩

/-- `clear()` re-establishes the invariant with no live slot, from *any* object state of the right
size — it does not depend on the (stale) link fields or on the invariant having held before. -/
theorem pool_inv_clear {cap : Nat} (p : Pool) (hpos : 0 < cap) (hle : cap ≤ INVALID)
    (hsz : p.items.size = cap) : PoolInv cap p.clear Live.empty :=
  ⟨G.new, Rep.clear p hpos hle hsz, rfl⟩

/-- `count()` is the number of live slots, and never exceeds the capacity. -/
theorem pool_count {cap : Nat} {p : Pool} {live : Live} (h : PoolInv cap p live) :
    p.count = liveCount cap live ∧ p.count ≤ cap := by
  obtain ⟨g, r, rfl⟩ := h
  exact ⟨r.count, r.count_le⟩

/-- `emplace`: never undefined; below capacity it returns a slot `< cap` that was **not live**,
makes exactly that slot live with the given contents and leaves every other slot's liveness and
contents alone; at capacity (and only then) it returns `INVALID` and changes nothing. -/
theorem pool_emplace {cap : Nat} {p : Pool} {live : Live} (h : PoolInv cap p live) (x : Item) :
    ∃ p' idx, p.emplace x = some (p', idx) ∧
      ((p.count < cap ∧ idx < cap ∧ live idx = none ∧ PoolInv cap p' (live.set idx (some x))
          ∧ p'.count = p.count + 1)
       ∨ (p.count = cap ∧ idx = INVALID ∧ p' = p)) := by
  obtain ⟨g, r, rfl⟩ := h
  obtain ⟨p', he, r'⟩ := emplace_sim r x
  refine ⟨p', _, he, ?_⟩
  cases hv : g.vac with
  | nil =>
    right
    have := emplace_full r x hv
    rw [this.1] at he
    simp only [Option.some.injEq, Prod.mk.injEq] at he
    refine ⟨r.vac_nil_count hv, ?_, he.1.symm⟩
    rw [this.2]
  | cons hd t =>
    left
    have hm := (r.mem hd).mp (by simp [hv])
    have hc := r.count_lt_of_vac (by simp [hv] : g.vac ≠ [])
    have hidx : (g.emplace cap x).2 = hd := by
      simp only [G.emplace, hv]; cases t <;> simp <;> split <;> rfl
    have hlive : (g.emplace cap x).1.live = g.live.set hd (some x) := by
      simp only [G.emplace, hv]; cases t <;> simp <;> split <;> rfl
    rw [hidx]
    refine ⟨hc, hm.1, hm.2.2, ⟨_, r', hlive⟩, ?_⟩
    rw [r'.count, hlive, liveCount_set_some cap g.live x hm.1 hm.2.2, r.count]

/-- `emplace` fails exactly when the pool is full, and `INVALID` is never a slot. -/
theorem pool_emplace_invalid_iff {cap : Nat} {p : Pool} {live : Live} (h : PoolInv cap p live)
    (x : Item) {p' : Pool} {idx : Nat} (he : p.emplace x = some (p', idx)) :
    idx = INVALID ↔ p.count = cap := by
  have hle : cap ≤ INVALID := by obtain ⟨g, r, _⟩ := h; exact r.capLe
  obtain ⟨q, j, hq, hcase⟩ := pool_emplace h x
  rw [he] at hq
  simp only [Option.some.injEq, Prod.mk.injEq] at hq
  obtain ⟨rfl, rfl⟩ := hq
  rcases hcase with ⟨h1, h2, _⟩ | ⟨h1, h2, _⟩
  · constructor <;> intro <;> omega
  · exact ⟨fun _ => h1, fun _ => h2⟩

/-- `remove i` (contract: slot `i` is live): never undefined, frees exactly slot `i`, every other
slot keeps its liveness and contents, `count` drops by one. -/
theorem pool_remove {cap : Nat} {p : Pool} {live : Live} (h : PoolInv cap p live) {i : Nat}
    {y : Item} (hy : live i = some y) :
    ∃ p', p.remove i = some p' ∧ PoolInv cap p' (live.set i none) ∧ p'.count + 1 = p.count := by
  obtain ⟨g, r, rfl⟩ := h
  obtain ⟨p', he, r'⟩ := remove_sim r hy
  refine ⟨p', he, ⟨_, r', rfl⟩, ?_⟩
  rw [r'.count, r.count]
  exact liveCount_set_none cap g.live (r.bound i y hy).1 hy

/-- `operator[]` on a live slot returns the contents it was given (they survive every other
operation because `pool_emplace` / `pool_remove` only change `live` at the addressed slot). -/
theorem pool_get {cap : Nat} {p : Pool} {live : Live} (h : PoolInv cap p live) {i : Nat} {y : Item}
    (hy : live i = some y) : p.get i = some y ∧ i < cap := by
  obtain ⟨g, r, rfl⟩ := h
  exact ⟨r.cont i y hy, (r.bound i y hy).1⟩

/-- Live slots are below the capacity and never `INVALID`. -/
theorem pool_live_lt {cap : Nat} {p : Pool} {live : Live} (h : PoolInv cap p live) {i : Nat}
    {y : Item} (hy : live i = some y) : i < cap ∧ i ≠ INVALID := by
  obtain ⟨g, r, rfl⟩ := h
  have := (r.bound i y hy).1
  have := r.capLe
  omega

/-- The update used by the statements above touches only the addressed slot. -/
theorem live_set_frame (live : Live) (i j : Nat) (v : Option Item) (h : j ≠ i) :
    live.set i v j = live j := Live.set_ne live v h

/-! ### The ideal pool and trace refinement -/

/-- One step of the *ideal pool* of capacity `cap`: a finite map with nondeterministic choice of
the slot on insertion.  `emplace` may fail only when all `cap` slots are live. -/
inductive IdealStep (cap : Nat) : Live → PoolOp → PoolObs → Live → Prop
  | emplaceOk   {live : Live} {x : Item} {i : Nat} : i < cap → live i = none →
      IdealStep cap live (.emplace x) (.index i) (live.set i (some x))
  | emplaceFull {live : Live} {x : Item} : liveCount cap live = cap →
      IdealStep cap live (.emplace x) (.index INVALID) live
  | remove {live : Live} {i : Nat} {y : Item} : live i = some y →
      IdealStep cap live (.remove i) .unit (live.set i none)
  | clear  {live : Live} : IdealStep cap live .clear .unit Live.empty
  | count  {live : Live} : IdealStep cap live .count (.num (liveCount cap live)) live
  | get    {live : Live} {i : Nat} {y : Item} : live i = some y →
      IdealStep cap live (.get i) (.item y) live

/-- One concrete step simulates the reference machine: defined, same observation, invariant kept. -/
theorem pool_step_sim {cap : Nat} {p : Pool} {g : G} (r : Rep cap p g) {op : PoolOp}
    (hc : InContract g.live op) :
    ∃ p', p.step op = some (p', (g.step cap op).2) ∧ Rep cap p' (g.step cap op).1 := by
  cases op with
  | emplace x =>
    obtain ⟨p', he, r'⟩ := emplace_sim r x
    exact ⟨p', by simp [Pool.step, he, G.step], r'⟩
  | remove i =>
    simp only [InContract, Option.isSome_iff_exists] at hc
    obtain ⟨y, hy⟩ := hc
    obtain ⟨p', he, r'⟩ := remove_sim r hy
    exact ⟨p', by simp [Pool.step, he, G.step], r'⟩
  | clear => exact ⟨p.clear, rfl, Rep.clear p r.pos r.capLe r.size⟩
  | count => exact ⟨p, by simp [Pool.step, G.step, r.count], r⟩
  | get i =>
    simp only [InContract, Option.isSome_iff_exists] at hc
    obtain ⟨y, hy⟩ := hc
    exact ⟨p, by simp [Pool.step, Pool.get, G.step, r.cont i y hy, hy], r⟩

/-- Every reference-machine step (from a represented state, in contract) is a step the ideal pool
allows. -/
theorem pool_step_ideal {cap : Nat} {p : Pool} {g : G} (r : Rep cap p g) {op : PoolOp}
    (hc : InContract g.live op) :
    IdealStep cap g.live op (g.step cap op).2 (g.step cap op).1.live := by
  cases op with
  | emplace x =>
    cases hv : g.vac with
    | nil =>
      have h2 := (emplace_full r x hv).2
      simp only [G.step, h2]
      exact .emplaceFull (by rw [← r.count]; exact r.vac_nil_count hv)
    | cons hd t =>
      have hm := (r.mem hd).mp (by simp [hv])
      have hidx : (g.emplace cap x).2 = hd := by
        simp only [G.emplace, hv]; cases t <;> simp <;> split <;> rfl
      have hlive : (g.emplace cap x).1.live = g.live.set hd (some x) := by
        simp only [G.emplace, hv]; cases t <;> simp <;> split <;> rfl
      simp only [G.step, hidx, hlive]
      exact .emplaceOk hm.1 hm.2.2
  | remove i =>
    simp only [InContract, Option.isSome_iff_exists] at hc
    obtain ⟨y, hy⟩ := hc
    exact .remove hy
  | clear => exact .clear
  | count => exact .count
  | get i =>
    simp only [InContract, Option.isSome_iff_exists] at hc
    obtain ⟨y, hy⟩ := hc
    simp only [G.step, hy, Option.getD_some]
    exact .get hy

/-- "`p` (whose ideal contents are `live`) refines the ideal pool along `ops`": as long as each
operation is in contract w.r.t. the ideal contents, the concrete step is defined, its observation
is one the ideal pool allows, and the property continues to hold afterwards. -/
def Refines (cap : Nat) : Pool → Live → List PoolOp → Prop
  | _, _, [] => True
  | p, live, op :: rest =>
      InContract live op →
        ∃ p' obs live', p.step op = some (p', obs) ∧ IdealStep cap live op obs live' ∧
          Refines cap p' live' rest

/-- Trace refinement from any state satisfying the invariant, for every operation sequence. -/
theorem pool_refines_ideal_from {cap : Nat} :
    ∀ (ops : List PoolOp) (p : Pool) (live : Live), PoolInv cap p live → Refines cap p live ops
  | [], _, _, _ => trivial
  | op :: rest, p, _, ⟨g, r, rfl⟩ => by
    intro hc
    obtain ⟨p', hs, r'⟩ := pool_step_sim r hc
    exact ⟨p', _, _, hs, pool_step_ideal r hc,
      pool_refines_ideal_from rest p' _ ⟨_, r', rfl⟩⟩

/-- **Main refinement theorem**: for every capacity `1 ≤ cap ≤ 65535` and every operation
sequence, a fresh pool refines the ideal pool. -/
theorem pool_refines_ideal {cap : Nat} (hpos : 0 < cap) (hle : cap ≤ INVALID) (ops : List PoolOp) :
    Refines cap (Pool.new cap) Live.empty ops :=
  pool_refines_ideal_from ops _ _ (pool_inv_new hpos hle)

/-! ### `clear()` ≈ fresh: observational equivalence -/

/-- Observations of a whole operation sequence (`none` if undefined behaviour is reached). -/
def run : Pool → List PoolOp → Option (List PoolObs)
  | _, [] => some []
  | p, op :: rest =>
    match p.step op with
    | none => none
    | some (p', obs) => (run p' rest).map (obs :: ·)

/-- Observations of the reference machine. -/
def runRef (cap : Nat) : G → List PoolOp → List PoolObs
  | _, [] => []
  | g, op :: rest => (g.step cap op).2 :: runRef cap (g.step cap op).1 rest

/-- The sequence is in contract all along (evaluated on the reference machine, which by
`pool_run_ref` is what actually happens on any pool representing `g`). -/
def ContractRun (cap : Nat) : G → List PoolOp → Prop
  | _, [] => True
  | g, op :: rest => InContract g.live op ∧ ContractRun cap (g.step cap op).1 rest

/-- A concrete pool's observations are a function of the reference state it represents only —
in particular they do not depend on stale link fields or dead items. -/
theorem pool_run_ref {cap : Nat} :
    ∀ (ops : List PoolOp) (p : Pool) (g : G), Rep cap p g → ContractRun cap g ops →
      run p ops = some (runRef cap g ops)
  | [], _, _, _, _ => rfl
  | op :: rest, p, g, r, hc => by
    obtain ⟨p', hs, r'⟩ := pool_step_sim r hc.1
    simp only [run, hs, runRef, pool_run_ref rest p' _ r' hc.2, Option.map_some]

/-- **After `clear()` the pool behaves as new**: for every pool object `p` of capacity `cap`
(in any state whatsoever — full, fragmented, with arbitrary stale links, even one that violated the
invariant) and every in-contract operation sequence, `p.clear` yields exactly the observations
(returned indices, counts, contents) a freshly constructed pool yields. -/
theorem pool_clear_as_new {cap : Nat} (hpos : 0 < cap) (hle : cap ≤ INVALID) (p : Pool)
    (hsz : p.items.size = cap) (ops : List PoolOp) (hc : ContractRun cap G.new ops) :
    run p.clear ops = run (Pool.new cap) ops := by
  rw [pool_run_ref ops _ _ (Rep.clear p hpos hle hsz) hc,
      pool_run_ref ops _ _ (Rep.new hpos hle) hc]

/-- `clear` in the middle of any history: the invariant holds with the empty contents map. -/
theorem pool_clear_after {cap : Nat} {p : Pool} {live : Live} (h : PoolInv cap p live) :
    PoolInv cap p.clear Live.empty := by
  obtain ⟨g, r, _⟩ := h
  exact pool_inv_clear p r.pos r.capLe r.size

/-! ### Non-vacuity and edge cases (tests, not part of the proof) -/

/-- The hypotheses of `pool_remove` / `pool_get` are satisfiable for every capacity: after one
`emplace` on a fresh pool there is a live slot. -/
example {cap : Nat} (hpos : 0 < cap) (hle : cap ≤ INVALID) (x : Item) :
    ∃ p live i, PoolInv cap p live ∧ live i = some x := by
  obtain ⟨p', idx, _, hcase⟩ := pool_emplace (pool_inv_new hpos hle) x
  rcases hcase with ⟨_, _, _, hinv, _⟩ | ⟨hc, _, _⟩
  · exact ⟨p', _, idx, hinv, Live.set_same _ _ _⟩
  · simp [Pool.new] at hc; omega

private def t (n : Nat) : Item := { prev := 10 + n, next := 20 + n, type := n % 7, payload := none }

/-- Capacity 1 (`_last < CAPACITY - 1` is never true): last, full, from-full, last again. -/
example : run (Pool.new 1) [.emplace (t 0), .emplace (t 1), .count, .get 0, .remove 0, .count,
                            .emplace (t 2), .get 0]
    = some [.index 0, .index INVALID, .num 1, .item (t 0), .unit, .num 0, .index 0, .item (t 2)] := by
  decide

/-- Capacity 3: grow, grow, last, full, from-full remove, partial remove, recycle (LIFO), … -/
example : run (Pool.new 3) [.emplace (t 0), .emplace (t 1), .emplace (t 2), .emplace (t 3),
                            .remove 1, .remove 0, .count, .emplace (t 4), .emplace (t 5),
                            .emplace (t 6), .get 0, .get 1, .get 2]
    = some [.index 0, .index 1, .index 2, .index INVALID, .unit, .unit, .num 1, .index 0, .index 1,
            .index INVALID, .item (t 4), .item (t 5), .item (t 2)] := by
  decide

/-- Out of contract (removing a dead slot) is *not* covered: the model, like the code, corrupts
the pool — here `count()` wraps below zero is reported as undefined (`none`). -/
example : run (Pool.new 2) [.remove 0] = none := by decide

/-! ## Part B — bounded arrays -/

section DArrayLaws
variable {α : Type}

/-- Well-formedness of a `DynamicArrayT` object: `_count ≤ CAPACITY`. -/
def DWF (a : DArray α) : Prop := a.count ≤ a.items.size

theorem take_set_succ (x : α) : ∀ (l : List α) (n : Nat), n < l.length →
    (l.set n x).take (n + 1) = l.take n ++ [x]
  | [], _, h => by simp at h
  | _ :: l, 0, _ => by simp
  | y :: l, n + 1, h => by
    simp only [List.set_cons_succ, List.take_succ_cons, List.cons_append, List.cons.injEq, true_and]
    exact take_set_succ x l n (by simpa using h)

/-- A default-constructed array is empty and well formed, with the requested capacity. -/
theorem darray_new (cap : Nat) (d : α) :
    (DArray.new cap d).toList = [] ∧ DWF (DArray.new cap d) ∧ (DArray.new cap d).cap = cap := by
  simp [DArray.new, DArray.toList, DWF, DArray.cap]

/-- `count()` is the length of the visited sequence. -/
theorem darray_count {a : DArray α} (h : DWF a) : a.size = a.toList.length := by
  simp [DArray.size, DArray.toList, DWF] at *; omega

/-- `operator[]` returns the `i`-th visited item (and is out of contract beyond `count`). -/
theorem darray_get {a : DArray α} (i : Nat) : a.get i = a.toList[i]? := by
  simp only [DArray.get, DArray.toList, List.getElem?_take]
  split <;> simp

/-- `emplace` below capacity appends at the end, returns the old count, keeps the capacity and all
earlier items in order. -/
theorem darray_emplace {a : DArray α} (h : DWF a) (hc : a.count < a.cap) (x : α) :
    ∃ a', a.emplace x = some (a', a.count) ∧ a'.toList = a.toList ++ [x] ∧ a'.cap = a.cap ∧
      DWF a' ∧ a'.count = a.count + 1 := by
  refine ⟨{ count := a.count + 1, items := a.items.setIfInBounds a.count x },
    by simp [DArray.emplace, hc], ?_, by simp [DArray.cap], ?_, rfl⟩
  · simp only [DArray.toList, Array.toList_setIfInBounds]
    exact take_set_succ x _ _ (by simpa [DArray.cap] using hc)
  · have hh := h; simp only [DWF, DArray.cap, Array.size_setIfInBounds] at *; omega

/-- `emplace` on a full array is out of contract (model: `none`; code: asserts only, F2). -/
theorem darray_emplace_full {a : DArray α} (hc : ¬ a.count < a.cap) (x : α) : a.emplace x = none := by
  simp [DArray.emplace, hc]

theorem darray_appendList {xs : List α} : ∀ {a : DArray α}, DWF a → a.count + xs.length ≤ a.cap →
    ∃ a', a.appendList xs = some a' ∧ a'.toList = a.toList ++ xs ∧ a'.cap = a.cap ∧ DWF a' ∧
      a'.count = a.count + xs.length := by
  induction xs with
  | nil => intro a h _; exact ⟨a, rfl, by simp, rfl, h, rfl⟩
  | cons x xs ih =>
    intro a h hfit
    simp only [List.length_cons] at hfit
    obtain ⟨a1, he, hl, hcap, hwf, hcnt⟩ := darray_emplace h (by omega : a.count < a.cap) x
    obtain ⟨a2, he2, hl2, hcap2, hwf2, hcnt2⟩ := ih hwf (by rw [hcnt, hcap]; omega)
    refine ⟨a2, by simp [DArray.appendList, he, he2], ?_, by rw [hcap2, hcap], hwf2, ?_⟩
    · rw [hl2, hl]; simp
    · rw [hcnt2, hcnt]; simp; omega

/-- `a += b` when the result fits: `b`'s items are appended in order after `a`'s. -/
theorem darray_append {a b : DArray α} (ha : DWF a) (hb : DWF b) (hfit : a.count + b.count ≤ a.cap) :
    ∃ a', a.append b = some a' ∧ a'.toList = a.toList ++ b.toList ∧ a'.cap = a.cap ∧ DWF a' ∧
      a'.count = a.count + b.count := by
  have hlen : b.toList.length = b.count := (darray_count hb).symm
  have := darray_appendList (xs := b.toList) ha (by rw [hlen]; exact hfit)
  rw [hlen] at this
  exact this

theorem darray_appendList_overflow {xs : List α} : ∀ {a : DArray α}, DWF a →
    a.cap < a.count + xs.length → a.appendList xs = none := by
  induction xs with
  | nil => intro a h hov; simp [DWF, DArray.cap] at *; omega
  | cons x xs ih =>
    intro a h hov
    by_cases hc : a.count < a.cap
    · obtain ⟨a1, he, _, hcap, hwf, hcnt⟩ := darray_emplace h hc x
      simp only [DArray.appendList, he]
      exact ih hwf (by rw [hcap, hcnt]; simp at hov; omega)
    · simp [DArray.appendList, darray_emplace_full hc]

/-- `a += b` that does not fit is out of contract (some `emplace` on a full array). -/
theorem darray_append_overflow {a b : DArray α} (ha : DWF a) (hb : DWF b)
    (hov : a.cap < a.count + b.count) : a.append b = none :=
  darray_appendList_overflow ha (by rw [← darray_count hb]; exact hov)

/-- `clear()` empties the array and keeps its capacity. -/
theorem darray_clear (a : DArray α) : a.clear.toList = [] ∧ a.clear.cap = a.cap ∧ DWF a.clear := by
  simp [DArray.clear, DArray.toList, DArray.cap, DWF]

/-- Copy construction / assignment preserves everything (count, order, contents, capacity). -/
theorem darray_copy (a : DArray α) : a.copy = a ∧ a.copy.toList = a.toList := ⟨rfl, rfl⟩

/-- Operations on one `DynamicArrayT` object; `append xs` is `+= other` with `other` visiting `xs`. -/
inductive DOp (α : Type)
  | emplace (x : α)
  | append (other : DArray α)
  | clear
  | copy

/-- Model of an operation sequence (`none` = out of contract somewhere). -/
def drun : DArray α → List (DOp α) → Option (DArray α)
  | a, [] => some a
  | a, .emplace x :: r => match a.emplace x with
    | none => none
    | some (a', _) => drun a' r
  | a, .append b :: r => match a.append b with
    | none => none
    | some a' => drun a' r
  | a, .clear :: r => drun a.clear r
  | a, .copy :: r => drun a.copy r

/-- The ideal bounded sequence: a `List` with a length limit. -/
def dideal (cap : Nat) : List α → List (DOp α) → Option (List α)
  | l, [] => some l
  | l, .emplace x :: r => if l.length < cap then dideal cap (l ++ [x]) r else none
  | l, .append b :: r => if l.length + b.toList.length ≤ cap then dideal cap (l ++ b.toList) r else none
  | _, .clear :: r => dideal cap [] r
  | l, .copy :: r => dideal cap l r

/-- **Array refinement**: for every capacity and every sequence of append / bulk-append / copy /
clear operations (with well-formed right-hand sides), the array and the ideal bounded list agree:
both stay in contract or both leave it, and the visited items are equal. -/
theorem darray_refines_list : ∀ (ops : List (DOp α)) (a : DArray α), DWF a →
    (∀ b, DOp.append b ∈ ops → DWF b) →
    (drun a ops).map DArray.toList = dideal a.cap a.toList ops
  | [], _, _, _ => rfl
  | .emplace x :: r, a, h, hb => by
    have hlen := darray_count h
    simp only [DArray.size] at hlen
    by_cases hc : a.count < a.cap
    · obtain ⟨a1, he, hl, hcap, hwf, _⟩ := darray_emplace h hc x
      simp only [drun, he, dideal, ← hlen, hc, if_true]
      rw [← hl, ← hcap]
      exact darray_refines_list r a1 hwf (fun b hm => hb b (List.mem_cons_of_mem _ hm))
    · simp [drun, darray_emplace_full hc, dideal, ← hlen, hc]
  | .append b :: r, a, h, hb => by
    have hwb := hb b List.mem_cons_self
    have hlen := darray_count h
    have hlenb := darray_count hwb
    simp only [DArray.size] at hlen hlenb
    by_cases hfit : a.count + b.count ≤ a.cap
    · obtain ⟨a1, he, hl, hcap, hwf, _⟩ := darray_append h hwb hfit
      simp only [drun, he, dideal, ← hlen, ← hlenb, hfit, if_true]
      rw [← hl, ← hcap]
      exact darray_refines_list r a1 hwf (fun b hm => hb b (List.mem_cons_of_mem _ hm))
    · simp [drun, darray_append_overflow h hwb (by omega), dideal, ← hlen, ← hlenb, hfit]
  | .clear :: r, a, _, hb => by
    have hc := darray_clear a
    simp only [drun, dideal]
    rw [← hc.1, ← hc.2.1]
    exact darray_refines_list r a.clear hc.2.2 (fun b hm => hb b (List.mem_cons_of_mem _ hm))
  | .copy :: r, a, h, hb => by
    simp only [drun, dideal]
    exact darray_refines_list r a h (fun b hm => hb b (List.mem_cons_of_mem _ hm))

/-- Non-vacuity: a two-element array of capacity 4 is well formed and below capacity. -/
example : ∃ a : DArray Nat, DWF a ∧ a.count < a.cap ∧ a.toList = [7, 9] := by
  refine ⟨{ count := 2, items := #[7, 9, 0, 0] }, ?_, ?_, ?_⟩ <;> simp [DWF, DArray.cap, DArray.toList]

end DArrayLaws

section SArrayLaws
variable {α : Type}

/-- `count()` is the capacity, whatever was stored. -/
theorem sarray_new (cap : Nat) (d : α) :
    (SArray.new cap d).cap = cap ∧ ∀ i, i < cap → (SArray.new cap d).get i = some d := by
  refine ⟨by simp [SArray.new, SArray.cap], fun i hi => ?_⟩
  simp [SArray.new, SArray.get, hi]

/-- `fill(v)`: every item is `v`, capacity unchanged. -/
theorem sarray_fill (a : SArray α) (v : α) :
    (a.fill v).cap = a.cap ∧ ∀ i, i < a.cap → (a.fill v).get i = some v := by
  refine ⟨by simp [SArray.fill, SArray.cap], fun i hi => ?_⟩
  simp only [SArray.cap] at hi
  simp [SArray.fill, SArray.get, hi]

/-- `operator[]` write then read. -/
theorem sarray_set_get (a : SArray α) {i : Nat} (v : α) (hi : i < a.cap) :
    ∃ a', a.set i v = some a' ∧ a'.cap = a.cap ∧
      ∀ j, a'.get j = if j = i then some v else a.get j := by
  refine ⟨{ items := a.items.setIfInBounds i v }, by simp [SArray.set, hi], by simp [SArray.cap],
    fun j => ?_⟩
  simp only [SArray.cap] at hi
  simp only [SArray.get, Array.getElem?_setIfInBounds]
  by_cases hji : j = i
  · subst hji; simp [hi]
  · simp [hji, Ne.symm hji]

theorem emptyLoop_iff [BEq α] [LawfulBEq α] (flr : α) :
    ∀ l : List α, SArray.emptyLoop flr l = true ↔ ∀ x ∈ l, x = flr
  | [] => by simp [SArray.emptyLoop]
  | x :: xs => by
    simp only [SArray.emptyLoop, List.mem_cons, forall_eq_or_imp]
    by_cases hx : x = flr
    · simp [hx, emptyLoop_iff flr xs]
    · simp [hx]

/-- `empty()` is true exactly when every item equals the filler. -/
theorem sarray_empty_iff [BEq α] [LawfulBEq α] (a : SArray α) (flr : α) :
    a.empty flr = true ↔ ∀ i, i < a.cap → a.get i = some flr := by
  simp only [SArray.empty, emptyLoop_iff, SArray.get, SArray.cap]
  constructor
  · intro h i hi
    have : a.items[i] ∈ a.items.toList := by simp
    simp [hi, h _ this]
  · intro h x hx
    obtain ⟨i, hi, rfl⟩ := List.getElem_of_mem hx
    have := h i (by simpa using hi)
    simp at hi
    simpa [hi] using this

/-- `clear()` makes the array `empty()`. -/
theorem sarray_clear_empty [BEq α] [LawfulBEq α] (a : SArray α) (flr : α) :
    (a.clear flr).empty flr = true := by
  rw [sarray_empty_iff]
  intro i hi
  have := sarray_fill a flr
  rw [SArray.clear] at hi ⊢
  exact this.2 i (by rw [← this.1]; exact hi)

theorem neLoop_false_iff [BEq α] [LawfulBEq α] :
    ∀ (l m : List α), l.length = m.length → (SArray.neLoop l m = false ↔ l = m)
  | [], [], _ => by simp [SArray.neLoop]
  | [], _ :: _, h => by simp at h
  | _ :: _, [], h => by simp at h
  | x :: xs, y :: ys, h => by
    have ih := neLoop_false_iff xs ys (by simpa using h)
    simp only [SArray.neLoop, List.cons.injEq]
    by_cases hxy : x = y
    · simp [hxy, ih]
    · simp [hxy]

/-- `a != b` is false exactly when the two arrays (same `CAPACITY`) hold equal items everywhere. -/
theorem sarray_ne_iff [BEq α] [LawfulBEq α] (a b : SArray α) (hcap : a.cap = b.cap) :
    a.ne b = false ↔ ∀ i, i < a.cap → a.get i = b.get i := by
  simp only [SArray.cap] at hcap
  rw [SArray.ne, neLoop_false_iff _ _ (by simpa using hcap)]
  simp only [SArray.get, SArray.cap]
  constructor
  · intro h i _
    have : a.items = b.items := Array.toList_inj.mp h
    rw [this]
  · intro h
    have : a.items = b.items := by
      apply Array.ext hcap
      intro i h1 h2
      have := h i h1
      simpa [h1, h2] using this
    rw [this]

/-- Non-vacuity of `sarray_ne_iff`: two different arrays of the same capacity. -/
example : (SArray.mk #[1, 2, 3]).ne (SArray.mk #[1, 5, 3]) = true ∧
    (SArray.mk #[1, 2, 3]).cap = (SArray.mk #[1, 5, 3]).cap := by decide

end SArrayLaws

/-
Theorems that constitute property C19 (for `Props/INDEX.json`):

  Part A (task pool, every capacity 1 ≤ cap ≤ 65535, every operation sequence)
    pool_inv_new            fresh pool satisfies PoolInv with no live slot
    pool_inv_clear          clear() re-establishes PoolInv (empty) from any object state
    pool_clear_after        … in particular after any history
    pool_count              count() = number of live slots ≤ cap
    pool_emplace            emplace: defined; returns a non-live slot < cap and makes exactly it live
                            with the given contents, or (iff count = cap) INVALID and changes nothing
    pool_emplace_invalid_iff  INVALID ⇔ full
    pool_remove             remove(live i): defined; frees exactly i; count drops by one
    pool_get                operator[] on a live slot returns its contents
    pool_live_lt            live slots are < cap and ≠ INVALID
    pool_step_sim           each concrete step = reference-machine step (all 4 emplace / 2 remove branches)
    pool_step_ideal         each reference step is an ideal-pool step
    pool_refines_ideal_from / pool_refines_ideal   trace refinement of the ideal pool (induction on ops)
    pool_run_ref            observations depend only on the represented reference state
    pool_clear_as_new       after clear() every in-contract op sequence observes what a fresh pool does
  Part B (bounded arrays)
    darray_new darray_count darray_get darray_emplace darray_emplace_full darray_append
    darray_append_overflow darray_clear darray_copy darray_refines_list
    sarray_new sarray_fill sarray_set_get sarray_empty_iff sarray_clear_empty sarray_ne_iff
-/

end Hfsm.Props.C19
