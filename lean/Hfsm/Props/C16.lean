/-
C16 — logger and structure report faithfully mirror what the machine does.

Property text (properties.jsonl): with a logger attached, every user-defined callback the machine
invokes and every transition request, cancellation, task or plan status and select/utility/random
resolution is reported exactly once, in order, with the right ids; attaching or detaching a logger never
changes behaviour; `structure()[i].isActive = isActive(i)` after every step; `activityHistory()` is
positive for active and negative for inactive states, its magnitude counting consecutive report updates
in that condition up to saturation.

What is stated here, about the executable model (Model/*.lean; tied to the C++ by the transcript replay):

(a) `log_mirrors_callbacks*` — what any operation / operation sequence / construction appends to the
    trace is a sequence of `Item`s (Proofs/Mirror.lean): *callback groups* = the `.method sid m` record
    (logger attached) immediately followed by the handlers of state `sid` in `slotOrder`, each handler's
    own action records (requests with origin `sid`, task status, cancellation) immediately before its
    `cb` event; *loose records* (API requests, plan executor requests, plan status, resolutions); and in
    verbose mode the bare `.method` records of anonymous region heads.  `method_records_are_group_heads`
    and `callbacks_are_group_slots` read the grammar: the `.method` records, in order, are exactly the
    callback groups (+ anonymous heads in verbose mode), and the callbacks, in order, are exactly the
    slots of those groups.  The per-action lemmas (`request_logged` … `api_task_logged`,
    `random_resolution_logged`) say which record each action produces.
    Hypothesis `err = none`: an exhausted decision stream (a harness artefact) truncates a group.
    The overridden-vs-inherited distinction of interface logging is C++ overload resolution and is not
    modelled: every generated state overrides every method.
(b) `logging_noninterference*` — running with the logger detached gives the same tree, the same report
    and the same world except for the logger records of the trace (`World.recfg {noLog := true}`),
    for every operation sequence, all callbacks and generator outputs.
(c) `structure_report*` — `structure()[i].isActive = isActive(i)` holds for a fresh instance and is
    preserved by every operation (except a replay returning `false`, see `Api.step_fresh`); every
    operation refreshes the report at most once; which ones do (`refresh_*`, `no_refresh_*`: in
    particular an `update()` / `react()` with an empty request queue does NOT advance the history —
    `R_::processRequest` calls `udpateActivity` only `if (requests.count())`); the run-length law with
    saturation at 127 / −128.
-/
import Hfsm.Proofs.Mirror
import Hfsm.Proofs.RecfgMach
import Hfsm.Proofs.Report
import Hfsm.Proofs.DemoMach

set_option linter.unusedVariables false
set_option linter.unusedSectionVars false

namespace Hfsm.Props.C16
open Hfsm
variable {U : Type} [UtilArith U]

/-! ## (a) the logger mirrors the callbacks -/

/-- What an operation appends to the trace (newest first in `World.trace`) is a well-formed item list. -/
theorem log_mirrors_callbacks (m : Mach U) (o : Api.Op) (herr : (Api.step m o).w.err = none) :
    ∃ items : List (Item U),
      (∀ i ∈ items, i.ok m.w.cfg.logging m.w.cfg.verbose) ∧
      (Api.step m o).w.trace = (itemsEvents m.w.cfg.logging items).reverse ++ m.w.trace :=
  ((mirRel.step m o).2 herr).2

/-- The same for any operation sequence. -/
theorem log_mirrors_callbacks_run (m : Mach U) (ops : List Api.Op) (herr : (Api.run m ops).w.err = none) :
    ∃ items : List (Item U),
      (∀ i ∈ items, i.ok m.w.cfg.logging m.w.cfg.verbose) ∧
      (Api.run m ops).w.trace = (itemsEvents m.w.cfg.logging items).reverse ++ m.w.trace :=
  ((mirRel.run ops m).2 herr).2

/-- … and for the first activation, manual (`enter()`) or inside the constructor. -/
theorem log_mirrors_callbacks_enter (m : Mach U) (herr : m.initialEnter.w.err = none) :
    ∃ items : List (Item U),
      (∀ i ∈ items, i.ok m.w.cfg.logging m.w.cfg.verbose) ∧
      m.initialEnter.w.trace = (itemsEvents m.w.cfg.logging items).reverse ++ m.w.trace :=
  ((mirRel.mach_initialEnter m).2 herr).2

/-- The contract-violation flag is sticky, so `err = none` at the end means: none met on the way. -/
theorem err_none_throughout (m : Mach U) (ops : List Api.Op) (herr : (Api.run m ops).w.err = none) :
    m.w.err = none :=
  ((mirRel.run ops m).2 herr).1

-- non-vacuity: a concrete instance (logger attached) runs a program with 72 trace events and no error
example : (Api.run Demo.mach Demo.prog).w.err = none ∧ Demo.mach.w.cfg.logging = true ∧
    (Api.run Demo.mach Demo.prog).w.trace.length = 72 := by decide +kernel

/-- With a logger attached the `.method` records, in order, are exactly the heads of the items: one per
callback group, plus — in verbose mode only (`no_bare_methods_unless_verbose`) — one per method of an
anonymous region head. -/
theorem method_records_are_group_heads (vb : Bool) (items : List (Item U)) (hok : ∀ i ∈ items, i.ok true vb) :
    (itemsEvents true items).filterMap Event.methodRec? = items.filterMap Item.head? :=
  methods_of_items vb items hok

/-- The callbacks, in order, are exactly the handler slots of the groups (`slotOrder`: injected bases and
the state's own handler), group after group — so every callback belongs to exactly one group, and with a
logger attached that group is headed by its `.method` record. -/
theorem callbacks_are_group_slots (lg vb : Bool) (items : List (Item U)) (hok : ∀ i ∈ items, i.ok lg vb) :
    (itemsEvents lg items).filterMap Event.cb? = items.flatMap Item.cbs :=
  cbs_of_items lg vb items hok

theorem no_bare_methods_unless_verbose (lg : Bool) (items : List (Item U)) (hok : ∀ i ∈ items, i.ok lg false) :
    ∀ i ∈ items, ∀ s m, i ≠ .headless s m :=
  no_headless lg items hok

/-- Without a logger nothing but callbacks reaches the trace. -/
theorem no_records_without_logger (vb : Bool) (items : List (Item U)) (hok : ∀ i ∈ items, i.ok false vb) :
    ∀ e ∈ itemsEvents false items, ∃ x, e.cb? = some x :=
  no_logs vb items hok

/-! ### each action is reported exactly once, with the right ids -/

omit [UtilArith U] in
/-- `changeTo/restart/resume/select/utilize/randomize/schedule` from a callback: exactly one
`recordTransition(origin, kind, destination)`, origin = the state whose callback runs (`_originId`),
whether or not the queue had room. -/
theorem request_logged (c : CtlClass) (w : World U) (k : Kind) (d : Nat) (p : Option Nat) (hc : c.isFull = true) :
    (World.act c w (.request k d p)).trace =
      (if w.cfg.logging then [Event.log (.transition w.origin k d)] else []) ++ w.trace := by
  simp only [World.act, hc, if_true, World.ctlRequest, World.logRec, World.emit]
  split <;> split <;> split <;> simp_all

omit [UtilArith U] in
/-- `cancelPendingTransitions()` in a guard: exactly one `recordCancelledPending(origin)`. -/
theorem cancel_logged (w : World U) :
    (World.act .guard w .cancel).trace =
      (if w.cfg.logging then [Event.log (.cancelled (w.origin.getD 0))] else []) ++ w.trace := by
  simp only [World.act, if_true, World.logRec, World.emit]
  split <;> simp_all

omit [UtilArith U] in
/-- `succeed(stateId)` from a callback: one `recordTaskStatus(region, stateId, SUCCEEDED)` (the root, id 0,
and out-of-range ids are ignored by the library: no record). -/
theorem succeed_logged (c : CtlClass) (w : World U) (s : Nat) (hc : c.isFull = true)
    (hs : 0 < s ∧ s < w.cfg.stateCount) :
    (World.act c w (.succeed s)).trace =
      (if w.cfg.logging then [Event.log (.taskStatus (some w.regionStateId) s true)] else []) ++ w.trace := by
  have : (decide (0 < s) && decide (s < w.cfg.stateCount)) = true := by simp [hs.1, hs.2]
  simp only [World.act, hc, if_true, World.ctlSucceed, this, World.logRec, World.emit]
  split <;> simp_all

omit [UtilArith U] in
theorem fail_logged (c : CtlClass) (w : World U) (s : Nat) (hc : c.isFull = true)
    (hs : 0 < s ∧ s < w.cfg.stateCount) :
    (World.act c w (.fail s)).trace =
      (if w.cfg.logging then [Event.log (.taskStatus (some w.regionStateId) s false)] else []) ++ w.trace := by
  have : (decide (0 < s) && decide (s < w.cfg.stateCount)) = true := by simp [hs.1, hs.2]
  simp only [World.act, hc, if_true, World.ctlFail, this, World.logRec, World.emit]
  split <;> simp_all

-- the hypotheses are satisfiable: an update handler (`FullControl`) succeeding state 1 of a 3-state machine
example : CtlClass.full.isFull = true ∧ (0 < 1 ∧ 1 < Demo.mach.w.cfg.stateCount) := by decide +kernel

omit [UtilArith U] in
/-- A request through the instance API: one record with origin `INVALID_STATE_ID`. -/
theorem api_request_logged (m : Mach U) (k : Kind) (d : Nat) (p : Option Nat) :
    (m.request k d p).w.trace =
      (if m.w.cfg.logging then [Event.log (.transition none k d)] else []) ++ m.w.trace := by
  simp only [Mach.request, World.logRec, World.emit]
  split <;> split <;> simp_all

omit [UtilArith U] in
/-- `succeed(stateId)` / `fail(stateId)` through the instance API: one record with region `INVALID`. -/
theorem api_task_logged (m : Mach U) (s : Nat) (ok : Bool) (hs : 0 < s ∧ s < m.w.cfg.stateCount) :
    (m.setTask s ok).w.trace =
      (if m.w.cfg.logging then [Event.log (.taskStatus none s ok)] else []) ++ m.w.trace := by
  have : (decide (0 < s) && decide (s < m.w.cfg.stateCount)) = true := by simp [hs.1, hs.2]
  simp only [Mach.setTask, this, if_true, World.logRec, World.emit]
  cases ok <;> simp <;> split <;> simp_all

/-- `resolveRandom`: when a prong is chosen, exactly one `recordRandomResolution(head, prong, random)`
and nothing else reaches the trace. -/
theorem random_resolution_logged (w : World U) (headId : Nat) (us : List U) (sum : U) (rks : List Int) (top : Int)
    (i : Nat) (h : (w.resolveRandom headId us sum rks top).2 = some i) :
    ∃ rnd, w.rng.head? = some rnd ∧
      (w.resolveRandom headId us sum rks top).1.trace =
        (if w.cfg.logging then [Event.log (.randomRes headId (some i) rnd)] else []) ++ w.trace := by
  unfold World.resolveRandom at h ⊢
  cases hr : w.rng with
  | nil => simp [hr] at h
  | cons rnd rest =>
    simp only [hr] at h ⊢
    refine ⟨rnd, rfl, ?_⟩
    split
    · next j hj =>
      simp only [hj] at h
      have : j = i := by simpa using h
      subst this
      simp only [World.logRec, World.emit]
      split <;> simp_all
    · next hj => simp [hj] at h

/-! ## (b) attaching or detaching a logger never changes behaviour -/

/-- the re-configuration "no logger attached" -/
def detach : Recfg := { noLog := true }

/-- An operation on the instance with the logger detached = the operation on the instance with the logger,
then the logger detached: same tree, same structure report, same queue / plans / statuses / history /
control registers / streams / contract flag; the trace without its logger records. -/
theorem logging_noninterference (m : Mach U) (o : Api.Op) :
    Api.step (m.recfg detach) o = (Api.step m o).recfg detach :=
  Api.step_recfg detach rfl m o (fun h => by simp [detach] at h)

theorem logging_noninterference_run (m : Mach U) (ops : List Api.Op) :
    Api.run (m.recfg detach) ops = (Api.run m ops).recfg detach :=
  Api.run_recfg detach rfl ops m (fun h => by simp [detach] at h)

/-- … including the construction (first activation inside the constructor). -/
theorem logging_noninterference_boot (shape : Shape) (cfg : Config) (ds : List (Decision U)) (rng : List U)
    (ops : List Api.Op) :
    Api.run (Api.boot shape (cfg.recfg detach) ds rng) ops =
      (Api.run (Api.boot shape cfg ds rng) ops).recfg detach := by
  rw [Api.boot_recfg detach rfl, logging_noninterference_run]

/-- Spelled out: the callbacks (with everything they observed) are the same, in the same order; the tree,
the queue and the report are the same. -/
theorem logging_noninterference_observables (m : Mach U) (ops : List Api.Op) :
    (Api.run (m.recfg detach) ops).root = (Api.run m ops).root ∧
    (Api.run (m.recfg detach) ops).w.trace = (Api.run m ops).w.trace.filter Event.isCb ∧
    (Api.run (m.recfg detach) ops).w.requests = (Api.run m ops).w.requests ∧
    (Api.run (m.recfg detach) ops).w.plans = (Api.run m ops).w.plans ∧
    (Api.run (m.recfg detach) ops).w.previous = (Api.run m ops).w.previous ∧
    (Api.run (m.recfg detach) ops).w.ds = (Api.run m ops).w.ds ∧
    (Api.run (m.recfg detach) ops).w.rng = (Api.run m ops).w.rng ∧
    (Api.run (m.recfg detach) ops).w.err = (Api.run m ops).w.err ∧
    (Api.run (m.recfg detach) ops).structActive = (Api.run m ops).structActive ∧
    (Api.run (m.recfg detach) ops).activity = (Api.run m ops).activity := by
  rw [logging_noninterference_run]
  exact ⟨rfl, rfl, rfl, rfl, rfl, rfl, rfl, rfl, rfl, rfl⟩

/-- Two instances that differ only in the logging mode (none / interface / verbose) behave alike. -/
theorem logging_modes_agree (m₁ m₂ : Mach U) (h : m₁.recfg detach = m₂.recfg detach) (ops : List Api.Op) :
    (Api.run m₁ ops).recfg detach = (Api.run m₂ ops).recfg detach := by
  rw [← logging_noninterference_run, ← logging_noninterference_run, h]

-- non-vacuity of `logging_modes_agree`: the demonstration machine with interface and with verbose logging
example : (Api.boot Demo.shape Demo.cfg Demo.ds ([] : List Demo.DU)).recfg detach =
    (Api.boot Demo.shape { Demo.cfg with verbose := true } Demo.ds []).recfg detach := by
  rw [← Api.boot_recfg detach rfl, ← Api.boot_recfg detach rfl]; rfl

/-! ## (b') `attachLogger` in mid-run -/

/-- a step of a history in which `attachLogger(logger / nullptr)` calls are interleaved with the API operations -/
inductive LOp
  | op (o : Api.Op)
  | attach (attached : Bool)

def LOp.step (m : Mach U) : LOp → Mach U
  | .op o => Api.step m o
  | .attach a => m.attachLogger a

def runL (m : Mach U) (l : List LOp) : Mach U := l.foldl LOp.step m

/-- the same history with the `attachLogger` calls removed -/
def LOp.plain : List LOp → List Api.Op
  | [] => []
  | .op o :: r => o :: LOp.plain r
  | .attach _ :: r => LOp.plain r

/-- `attachLogger` changes nothing but the attachment: seen with the logger detached, it is the identity. -/
theorem attachLogger_detach (m : Mach U) (a : Bool) : (m.attachLogger a).recfg detach = m.recfg detach := by
  simp [Mach.attachLogger, Mach.recfg, World.recfg, Config.recfg, detach]

/-- `attachLogger` touches neither the tree nor any registry / queue / plan / history / stream field, nor the trace. -/
theorem attachLogger_frame (m : Mach U) (a : Bool) :
    (m.attachLogger a).root = m.root ∧ (m.attachLogger a).w.trace = m.w.trace ∧
    (m.attachLogger a).w.requests = m.w.requests ∧ (m.attachLogger a).w.plans = m.w.plans ∧
    (m.attachLogger a).w.previous = m.w.previous ∧ (m.attachLogger a).w.targets = m.w.targets ∧
    (m.attachLogger a).w.ds = m.w.ds ∧ (m.attachLogger a).w.rng = m.w.rng ∧ (m.attachLogger a).w.err = m.w.err ∧
    (m.attachLogger a).structActive = m.structActive ∧ (m.attachLogger a).activity = m.activity ∧
    (m.attachLogger a).w.cfg.logging = a :=
  ⟨rfl, rfl, rfl, rfl, rfl, rfl, rfl, rfl, rfl, rfl, rfl, rfl⟩

/-- Whenever and however often the logger is attached or detached during a run (any operations, any number of
`attachLogger` calls at any positions, any starting instance), the run is — apart from the logger records — the run
of the logger-less instance over the same operations: same tree, report, queue, plans, statuses, history, control
registers, streams and contract flag, same callbacks with the same observations in the same order. -/
theorem attachLogger_noninterference_run (m : Mach U) (l : List LOp) :
    (runL m l).recfg detach = Api.run (m.recfg detach) (LOp.plain l) := by
  induction l generalizing m with
  | nil => rfl
  | cons x r ih =>
    cases x with
    | op o =>
      show (runL (Api.step m o) r).recfg detach = Api.run (Api.step (m.recfg detach) o) (LOp.plain r)
      rw [ih, logging_noninterference]
    | attach a =>
      show (runL (m.attachLogger a) r).recfg detach = Api.run (m.recfg detach) (LOp.plain r)
      rw [ih, attachLogger_detach]

/-- … hence two runs over the same operations that differ only in where the logger was (de)attached agree on
everything but the records. -/
theorem attachLogger_positions_irrelevant (m : Mach U) (l₁ l₂ : List LOp) (h : LOp.plain l₁ = LOp.plain l₂) :
    (runL m l₁).recfg detach = (runL m l₂).recfg detach := by
  rw [attachLogger_noninterference_run, attachLogger_noninterference_run, h]

/-- Spelled out against the run without any `attachLogger` call. -/
theorem attachLogger_noninterference_observables (m : Mach U) (l : List LOp) :
    (runL m l).root = (Api.run m (LOp.plain l)).root ∧
    (runL m l).w.trace.filter Event.isCb = (Api.run m (LOp.plain l)).w.trace.filter Event.isCb ∧
    (runL m l).w.requests = (Api.run m (LOp.plain l)).w.requests ∧
    (runL m l).w.plans = (Api.run m (LOp.plain l)).w.plans ∧
    (runL m l).w.previous = (Api.run m (LOp.plain l)).w.previous ∧
    (runL m l).w.targets = (Api.run m (LOp.plain l)).w.targets ∧
    (runL m l).w.ds = (Api.run m (LOp.plain l)).w.ds ∧
    (runL m l).w.rng = (Api.run m (LOp.plain l)).w.rng ∧
    (runL m l).w.err = (Api.run m (LOp.plain l)).w.err ∧
    (runL m l).structActive = (Api.run m (LOp.plain l)).structActive ∧
    (runL m l).activity = (Api.run m (LOp.plain l)).activity := by
  have h : (runL m l).recfg detach = (Api.run m (LOp.plain l)).recfg detach := by
    rw [attachLogger_noninterference_run, logging_noninterference_run]
  have hw := congrArg Mach.w h
  have h1 := congrArg Mach.root h
  have h2 := congrArg World.trace hw
  have h3 := congrArg World.requests hw
  have h4 := congrArg World.plans hw
  have h5 := congrArg World.previous hw
  have h6 := congrArg World.targets hw
  have h7 := congrArg World.ds hw
  have h8 := congrArg World.rng hw
  have h9 := congrArg World.err hw
  have h10 := congrArg Mach.structActive h
  have h11 := congrArg Mach.activity h
  refine ⟨h1, ?_, h3, h4, ?_, ?_, h7, h8, h9, h10, h11⟩
  · simpa [Mach.recfg, World.recfg, detach] using h2
  · simpa [Mach.recfg, World.recfg, detach] using h5
  · simpa [Mach.recfg, World.recfg, detach] using h6

/-- While the logger is detached (`attachLogger(nullptr)`) an operation appends callbacks only: no record of any kind. -/
theorem no_records_while_detached (m : Mach U) (o : Api.Op)
    (herr : (Api.step (m.attachLogger false) o).w.err = none) :
    ∃ evs : List (Event U), (∀ e ∈ evs, ∃ x, e.cb? = some x) ∧
      (Api.step (m.attachLogger false) o).w.trace = evs.reverse ++ m.w.trace := by
  obtain ⟨items, hok, ht⟩ := log_mirrors_callbacks (m.attachLogger false) o herr
  exact ⟨itemsEvents false items, no_records_without_logger m.w.cfg.verbose items hok, ht⟩

/-- Re-attached (`attachLogger(&logger)`), the records resume at once: what the next operation appends is again a
well-formed list of callback groups headed by their method records, whatever the attachment was before. -/
theorem records_resume_when_attached (m : Mach U) (o : Api.Op)
    (herr : (Api.step (m.attachLogger true) o).w.err = none) :
    ∃ items : List (Item U), (∀ i ∈ items, i.ok true m.w.cfg.verbose) ∧
      (Api.step (m.attachLogger true) o).w.trace = (itemsEvents true items).reverse ++ m.w.trace :=
  log_mirrors_callbacks (m.attachLogger true) o herr

theorem runL_append (m : Mach U) (a b : List LOp) : runL m (a ++ b) = runL (runL m a) b := by
  simp [runL, List.foldl_append]

theorem runL_ops (m : Mach U) (ops : List Api.Op) : runL m (ops.map LOp.op) = Api.run m ops := by
  induction ops generalizing m with
  | nil => rfl
  | cons o r ih => exact ih (Api.step m o)

/-- Whatever the history of attaching and detaching before (`pre`: any operations, any toggles), the records of
everything done after the LATEST `attachLogger` call follow that call alone: the trace appended since then is a
well-formed item list for the attachment `a` — callback groups headed by their records when `a = true`, callbacks
only when `a = false` (`no_records_without_logger`). -/
theorem records_follow_latest_attachment (m : Mach U) (pre : List LOp) (a : Bool) (ops : List Api.Op)
    (herr : (runL m (pre ++ LOp.attach a :: ops.map LOp.op)).w.err = none) :
    ∃ items : List (Item U), (∀ i ∈ items, i.ok a (runL m pre).w.cfg.verbose) ∧
      (runL m (pre ++ LOp.attach a :: ops.map LOp.op)).w.trace =
        (itemsEvents a items).reverse ++ (runL m pre).w.trace := by
  have e : runL m (pre ++ LOp.attach a :: ops.map LOp.op) = Api.run ((runL m pre).attachLogger a) ops := by
    rw [runL_append]
    show runL ((runL m pre).attachLogger a) (ops.map LOp.op) = _
    rw [runL_ops]
  rw [e] at herr ⊢
  exact log_mirrors_callbacks_run ((runL m pre).attachLogger a) ops herr

-- non-vacuity of `records_follow_latest_attachment`: toggles before, then attached, then two operations, no contract violation
example : (runL (Api.boot Demo.shape Demo.cfg Demo.ds ([] : List Demo.DU))
      ([.op .update, .attach false, .op .update] ++ LOp.attach true :: [Api.Op.update, .react].map LOp.op)).w.err = none := by
  decide +kernel

-- non-vacuity of the two statements above: a detached / attached demonstration machine runs an update without contract violation
example : (Api.step ((Api.boot Demo.shape Demo.cfg Demo.ds ([] : List Demo.DU)).attachLogger false) .update).w.err = none ∧
    (Api.step ((Api.boot Demo.shape Demo.cfg Demo.ds ([] : List Demo.DU)).attachLogger true) .update).w.err = none := by
  decide +kernel

-- non-vacuity: the demonstration machine, logger detached before the first update and re-attached after it
example : (runL (Api.boot Demo.shape Demo.cfg Demo.ds ([] : List Demo.DU))
      [.attach false, .op .update, .attach true, .op .update]).w.cfg.logging = true := by
  decide +kernel

/-! ## (c) the structure report -/

/-- A freshly constructed (not yet activated) instance reports every state inactive — and that is right. -/
theorem structure_report_fresh (shape : Shape) (cfg : Config) : (Mach.create shape cfg : Mach U).ReportFresh :=
  create_fresh shape cfg

/-- `structure()[i].isActive = isActive(i)` is preserved by every operation (a replay is covered when it
returns `true`: `structure_report_replay`). -/
theorem structure_report (m : Mach U) (o : Api.Op) (ho : o.usesHistory = false) (hf : m.ReportFresh) :
    (Api.step m o).ReportFresh :=
  Api.step_fresh m o ho hf

theorem structure_report_replay (m : Mach U) (ts : List Transition) (h : (m.replayTransitions ts).2 = true) :
    (m.replayTransitions ts).1.ReportFresh :=
  ((Mach.replayTransitions_report m ts).1 h).1

/-- … hence after construction and any program without replays. -/
theorem structure_report_run (shape : Shape) (cfg : Config) (ds : List (Decision U)) (rng : List U) :
    (ops : List Api.Op) → (∀ o ∈ ops, o.usesHistory = false) →
    (Api.run (Api.boot shape cfg ds rng) ops).ReportFresh := by
  have hboot : (Api.boot shape cfg ds rng).ReportFresh := by
    unfold Api.boot
    have h0 : ({ (Mach.create shape cfg : Mach U) with
        w := { (Mach.create shape cfg : Mach U).w with ds := ds, rng := rng } } : Mach U).ReportFresh :=
      create_fresh shape cfg
    simp only []
    split
    · exact h0
    · exact (Mach.initialEnter_report _).1
  suffices h : ∀ (ops : List Api.Op) (m : Mach U), m.ReportFresh → (∀ o ∈ ops, o.usesHistory = false) →
      (Api.run m ops).ReportFresh from fun ops ho => h ops _ hboot ho
  intro ops
  induction ops with
  | nil => intro m hf _; exact hf
  | cons o os ih =>
    intro m hf ho
    exact ih _ (Api.step_fresh m o (ho o (List.mem_cons_self ..)) hf)
      (fun o' ho' => ho o' (List.mem_cons_of_mem _ ho'))

-- the program of the demonstration machine contains no replay
example : ∀ o ∈ Demo.prog, o.usesHistory = false := by decide

/-- Every operation refreshes the report at most once (flags := `isActive`, every counter one
`runLength` step) and touches it in no other way. -/
theorem report_refreshed_at_most_once (m : Mach U) (o : Api.Op) :
    Mach.Refreshed m (Api.step m o) ∨ Mach.SameReport m (Api.step m o) :=
  Api.step_report m o

/-- Operations that always refresh: first activation, final exit, `reset()`, `immediate…()`. -/
theorem refresh_enter (m : Mach U) : Mach.Refreshed m m.initialEnter := Mach.initialEnter_report m
theorem refresh_exit (m : Mach U) : Mach.Refreshed m m.finalExit := Mach.finalExit_report m
theorem refresh_reset (m : Mach U) : Mach.Refreshed m m.reset := Mach.reset_report m
theorem refresh_immediate (m : Mach U) (k : Kind) (d : Nat) (p : Option Nat) (hcap : 0 < m.w.cfg.queueCap) :
    Mach.Refreshed m (m.immediate k d p) := Mach.immediate_report m k d p hcap

example : 0 < Demo.mach.w.cfg.queueCap := by decide +kernel

/-- `update()` refreshes exactly when a request is queued by the time `processRequest` runs (queued
before, by a callback of this step, or by the plan executor); otherwise flags, counters and tree are
untouched: *the activity history does not advance on an idle `update()`*. -/
theorem refresh_update (m : Mach U) :
    ((Mach.updateWorldRp m).requests = [] → Mach.Untouched m m.update) ∧
    ((Mach.updateWorldRp m).requests ≠ [] → Mach.Refreshed m m.update) :=
  Mach.update_report m

theorem refresh_react (m : Mach U) :
    ((Mach.reactWorldRp m).requests = [] → Mach.Untouched m m.react) ∧
    ((Mach.reactWorldRp m).requests ≠ [] → Mach.Refreshed m m.react) :=
  Mach.react_report m

-- witness on the demonstration machine: the first `update()` performs a transition and advances the
-- counters, the second one is idle and leaves them where they were
example : (Api.run Demo.mach [.update]).activity = [2, -1, 1] ∧
    (Api.run Demo.mach [.update, .update]).activity = [2, -1, 1] := by decide +kernel

/-- Operations that never refresh (and cannot change what is active): deferred requests, task status,
plan edits, `query()`. -/
theorem no_refresh_request (m : Mach U) (k : Kind) (d : Nat) (p : Option Nat) : Mach.Untouched m (m.request k d p) :=
  Mach.request_report m k d p
theorem no_refresh_setTask (m : Mach U) (s : Nat) (ok : Bool) : Mach.Untouched m (m.setTask s ok) :=
  Mach.setTask_report m s ok
theorem no_refresh_planAppend (m : Mach U) (r : Nat) (t : Task) : Mach.Untouched m (m.planAppend r t) :=
  Mach.planAppend_report m r t
theorem no_refresh_planClear (m : Mach U) (r : Nat) : Mach.Untouched m (m.planClear r) :=
  Mach.planClear_report m r
theorem no_refresh_query (m : Mach U) : Mach.Untouched m m.query := Mach.query_report m

/-- `load()`: a refresh, or nothing at all (malformed buffer / nothing to do). -/
theorem refresh_load (m : Mach U) (st : List Bool) :
    Mach.Refreshed m (m.load st) ∨ Mach.Untouched m (m.load st) := Mach.load_report m st

/-- The counters stay in the range of `int8_t`. -/
theorem activity_in_range (a : Bool) (h : Int) (hl : -128 ≤ h) (hu : h ≤ 127) :
    -128 ≤ runLength a h ∧ runLength a h ≤ 127 := runLength_range a h hl hu

/-- positive for active, negative for inactive -/
theorem activity_sign (a : Bool) (h : Int) (hl : -128 ≤ h) (hu : h ≤ 127) :
    (a = true → 0 < runLength a h) ∧ (a = false → runLength a h < 0) := runLength_sign a h hl hu

example : (-128 : Int) ≤ 0 ∧ (0 : Int) ≤ 127 := by decide

/-- magnitude = number of consecutive report updates in that condition, saturating at 127 / 128 -/
theorem activity_counts_active_run (k : Nat) (h : Int) (hl : -128 ≤ h) (hneg : h ≤ 0) :
    runN true (k+1) h = min ((k : Int) + 1) 127 := runLength_active_run k h hl hneg

theorem activity_counts_inactive_run (k : Nat) (h : Int) (hu : h ≤ 127) (hpos : 0 ≤ h) :
    runN false (k+1) h = -min ((k : Int) + 1) 128 := runLength_inactive_run k h hu hpos

example : runN true 200 (-5) = 127 ∧ runN false 3 17 = -3 ∧ runN false 300 0 = -128 := by decide +kernel

end Hfsm.Props.C16

/-
Property theorems (for Props/INDEX.json):
  (a) log_mirrors_callbacks, log_mirrors_callbacks_run, log_mirrors_callbacks_enter, err_none_throughout,
      method_records_are_group_heads, callbacks_are_group_slots, no_bare_methods_unless_verbose,
      no_records_without_logger, request_logged, cancel_logged, succeed_logged, fail_logged,
      api_request_logged, api_task_logged, random_resolution_logged
  (b) logging_noninterference, logging_noninterference_run, logging_noninterference_boot,
      logging_noninterference_observables, logging_modes_agree
  (b') attachLogger_detach, attachLogger_frame, attachLogger_noninterference_run,
      attachLogger_positions_irrelevant, attachLogger_noninterference_observables,
      no_records_while_detached, records_resume_when_attached, records_follow_latest_attachment
      (runL_append, runL_ops: helpers)
  (c) structure_report_fresh, structure_report, structure_report_replay, structure_report_run,
      report_refreshed_at_most_once, refresh_enter, refresh_exit, refresh_reset, refresh_immediate,
      refresh_update, refresh_react, no_refresh_request, no_refresh_setTask, no_refresh_planAppend,
      no_refresh_planClear, no_refresh_query, refresh_load, activity_in_range, activity_sign,
      activity_counts_active_run, activity_counts_inactive_run
-/
