/-
Property C14 — "Transition and task payloads reach the states they activate unchanged".

In the model a `Transition` is an immutable value `(origin, dest, kind, payload)`; what has to be shown is
that the lists the library exposes — the request queue, `pendingTransitions` and `currentTransitions`
inside guard / lifecycle callbacks, `previousTransitions` and `lastTransitionTo` afterwards — only ever
contain, as whole values, transitions that were handed to the library by one of its three sources:

  * the instance API  `Mach.request / immediate`      →  `⟨none, dest, kind, payload⟩`
  * a callback        `World.ctlRequest` (`changeTo` … `scheduleWith` on a Full/Guard/Event control)
                                                       →  `⟨that state, dest, kind, payload⟩`
  * the plan executor `World.runTasks` (`FullControlT::updatePlan`)
                                                       →  `⟨region head, task.dest, change, task.payload⟩`
    (always `change`, whatever the task's kind: known finding F12)

Formalisation: `Closed S w` (Proofs/Payload.lean) — every transition the world holds satisfies `S`, and so
does every transition the inputs still to come (decision stream, plan tasks) can issue.  `S` is an
arbitrary predicate: taking `S := (· ∈ L)` for the list `L` of issued values gives "each exposed
transition is literally one of the issued ones — payload included, never a mixture"; taking
`S := fun t => t.payload = none` gives "payload-less requests expose none".  The invariant is preserved
by every walk of the tree (`Steps.closed`) and by every operation of the instance.

Not modelled: the C++ storage of a payload (aligned byte array, placement new, `payloadSet`); that part
is covered by correspondence only (payload kinds 2 and 3 of the harness carry a checksum / alignment
probe, judged by tools/oracle_c14.py).
-/
import Hfsm.Proofs.PayloadMach
import Hfsm.Proofs.Witness
import Hfsm.Proofs.Reach

set_option linter.unusedSectionVars false

namespace Hfsm.Props.C14
open Hfsm Hfsm.Mach
variable {U : Type} [UtilArith U]

/-! ## the three sources -/

/-- API request: the queue grows by exactly `⟨none, dest, kind, payload⟩`, or not at all (queue full). -/
theorem api_request_appends_whole_value (m : Mach U) (k : Kind) (dst : Nat) (p : Option Nat) :
    (m.request k dst p).w.requests = m.w.requests ∨
    (m.request k dst p).w.requests = m.w.requests ++ [⟨none, dst, k, p⟩] :=
  request_requests m k dst p

/-- Callback request: every transition a callback adds to the queue is `⟨origin of the control, dest, kind,
payload⟩` of one of the `request` actions of its decision; nothing already queued is altered
(the queue only grows at the end), and the transition lists shown to callbacks are not touched. -/
theorem callback_request_appends_whole_values (w : World U) (sid : Nat) (meth : Method) (slot : Nat) :
    (∃ add, (w.invoke sid meth slot).1.requests = w.requests ++ add ∧
      ∀ t ∈ add, ∃ d ∈ w.ds.head?, ∃ k dst p, Action.request k dst p ∈ d ∧ t = ⟨w.origin, dst, k, p⟩) ∧
    (w.invoke sid meth slot).1.pending = w.pending ∧ (w.invoke sid meth slot).1.current = w.current ∧
    (w.invoke sid meth slot).1.previous = w.previous := by
  cases World.invoke_rel w sid meth slot with
  | exhausted hds hw =>
    exact ⟨⟨[], by rw [hw.requests, List.append_nil], (fun _ h => nomatch h)⟩, hw.pending, hw.current, hw.previous⟩
  | ran d rest x hds hx hw =>
    obtain ⟨add, e, hadd⟩ := hx.requests
    refine ⟨⟨add, by rw [hw]; exact e, ?_⟩, by rw [hw]; exact hx.pending, by rw [hw]; exact hx.current,
      by rw [hw]; exact hx.previous⟩
    intro t ht
    obtain ⟨k, dst, p, hm, rfl⟩ := hadd t ht
    exact ⟨d, by rw [hds]; rfl, k, dst, p, hm, rfl⟩

/-- A state's callbacks run with `_originId` = that state: the transitions they queue carry it as origin. -/
theorem callback_origin_is_the_state (w : World U) (sid inj : Nat) (meth : Method) :
    ∃ add, (w.stateMethod sid inj true meth).requests = w.requests ++ add ∧ ∀ t ∈ add, t.origin = some sid := by
  have key : ∀ (l : List Nat) (x : World U), x.origin = some sid →
      ∃ add, (x.invokeSlots sid meth l).requests = x.requests ++ add ∧ (∀ t ∈ add, t.origin = some sid) ∧
        (x.invokeSlots sid meth l).origin = some sid := by
    intro l
    induction l with
    | nil => intro x hx; exact ⟨[], (List.append_nil _).symm, (fun _ h => nomatch h), hx⟩
    | cons s rest ih =>
      intro x hx
      simp only [World.invokeSlots]
      have ho : (x.invoke sid meth s).1.origin = some sid := by
        cases World.invoke_rel x sid meth s with
        | exhausted _ hw => rw [hw.origin]; exact hx
        | ran d r y hds hy hw => rw [hw]; show y.origin = _; rw [hy.origin]; exact hx
      obtain ⟨⟨a1, e1, p1⟩, _⟩ := callback_request_appends_whole_values x sid meth s
      obtain ⟨a2, e2, p2, o2⟩ := ih _ ho
      refine ⟨a1 ++ a2, by rw [e2, e1, List.append_assoc], ?_, o2⟩
      intro t ht
      rcases List.mem_append.mp ht with h | h
      · obtain ⟨_, _, k, dst, p, _, rfl⟩ := p1 t h; exact hx
      · exact p2 t h
  unfold World.stateMethod
  simp only [Bool.true_or, if_true]
  obtain ⟨add, e, p, _⟩ := key (slotOrder inj meth) { w.logRec (.method sid meth) with origin := some sid } rfl
  refine ⟨add, ?_, p⟩
  show (World.invokeSlots _ sid meth (slotOrder inj meth)).requests = _
  rw [e]; show (w.logRec _).requests ++ add = _; rw [World.logRec_requests]

/-- Plan executor: a task is turned into `⟨region head, task.dest, change, task.payload⟩` — the payload of
the request is the payload of the task. (The kind is always `change`: F12.) -/
theorem plan_task_payload_carried (w : World U) (head : Nat) (t : Task) :
    (({ w with origin := some head }).ctlRequest .change t.dest t.payload).requests = w.requests ∨
    (({ w with origin := some head }).ctlRequest .change t.dest t.payload).requests =
      w.requests ++ [⟨some head, t.dest, .change, t.payload⟩] := by
  obtain ⟨add, e, hadd⟩ := (World.ctlRequest_actsRel (d := [.request .change t.dest t.payload])
    ({ w with origin := some head }) .change t.dest t.payload List.mem_cons_self).requests
  unfold World.ctlRequest at e ⊢
  simp only [World.logRec_requests] at e ⊢
  split <;> split <;> first | exact .inr rfl | exact .inl rfl

/-! ## the invariant -/

/-- Every walk of the tree (request passes, guards, lifecycle, update / react / query passes, the plan
executor) preserves `Closed S`: no walk invents, alters or mixes a transition. -/
theorem walks_preserve_provenance {S : Transition → Prop} {allow : Perm} {w w' : World U}
    (h : Steps allow w w') (c : Closed S w) : Closed S w' := h.closed c

/-- The operations of the instance preserve `Closed S`; the API's own inputs must be in `S`. -/
theorem operations_preserve_provenance {S : Transition → Prop} (m : Mach U) (c : Closed S m.w) :
    Closed S m.processRequest.w ∧ Closed S m.update.w ∧ Closed S m.react.w ∧ Closed S m.query.w ∧
    Closed S m.initialEnter.w ∧ Closed S m.finalExit.w ∧ Closed S m.reset.w ∧
    (∀ k dst p, S ⟨none, dst, k, p⟩ → Closed S (m.request k dst p).w ∧ Closed S (m.immediate k dst p).w) ∧
    (∀ rid t, Task.Within S t → Closed S (m.planAppend rid t).w) ∧ (∀ rid, Closed S (m.planClear rid).w) ∧
    (∀ sid b, Closed S (m.setTask sid b).w) ∧ (∀ st, Closed S (m.load st).w) ∧
    (∀ ts, (∀ t ∈ ts, S t) → Closed S (m.replayTransitions ts).1.w ∧ Closed S (m.replayEnter ts).1.w) :=
  ⟨processRequest_closed m c, update_closed m c, react_closed m c, query_closed m c, initialEnter_closed m c,
   finalExit_closedS m c, reset_closed m c,
   fun k dst p hs => ⟨request_closed m k dst p c hs, immediate_closed m k dst p c hs⟩,
   fun rid t ht => planAppend_closed m rid t c ht, fun rid => planClear_closed m rid c,
   fun sid b => setTask_closed m sid b c, fun st => load_closed m st c,
   fun ts hts => ⟨replayTransitions_closed m ts c hts, replayEnter_closed m ts c hts⟩⟩

/-- A freshly created instance holds no transition at all; it is `Closed S` as soon as the decisions it will
be fed are. -/
theorem create_closed {S : Transition → Prop} (shape : Shape) (cfg : Config) (ds : List (Decision U))
    (hds : ∀ d ∈ ds, Decision.Within S d) :
    Closed S ({ (Mach.create (U := U) shape cfg).w with ds := ds }) := by
  have hw : (Mach.create (U := U) shape cfg).w.requests = [] ∧ (Mach.create (U := U) shape cfg).w.pending = [] ∧
      (Mach.create (U := U) shape cfg).w.current = [] ∧ (Mach.create (U := U) shape cfg).w.previous = [] ∧
      ∀ pl ∈ (Mach.create (U := U) shape cfg).w.plans, pl = [] := by
    unfold Mach.create World.freshControl World.clearTargets World.clearPlanData World.clearStatuses
    dsimp only
    split <;> exact ⟨rfl, rfl, rfl, rfl, fun pl h => List.eq_of_mem_replicate h⟩
  obtain ⟨h1, h2, h3, h4, h5⟩ := hw
  refine ⟨?_, ?_, ?_, ?_, hds, ?_⟩
  · show ∀ t ∈ (Mach.create (U := U) shape cfg).w.requests, S t
    rw [h1]; intro _ h; cases h
  · show ∀ t ∈ (Mach.create (U := U) shape cfg).w.pending, S t
    rw [h2]; intro _ h; cases h
  · show ∀ t ∈ (Mach.create (U := U) shape cfg).w.current, S t
    rw [h3]; intro _ h; cases h
  · show ∀ t ∈ (Mach.create (U := U) shape cfg).w.previous, S t
    rw [h4]; intro _ h; cases h
  · intro pl hpl tk htk
    rw [h5 pl hpl] at htk; cases htk

/-! ## what callbacks and queries expose -/

/-- Guards see in `pendingTransitions` exactly the queued requests of the round and in
`currentTransitions` the approved ones; lifecycle callbacks see the approved requests — all of them
elements of `S`, payload included (`step_trace` of C04 says which lists are shown; this says what is
in them). -/
theorem step_shows_only_issued {S : Transition → Prop} (m : Mach U) (c : Closed S m.w) :
    (∀ r ∈ m.stepLog, ∀ t ∈ r.1, S t) → (∀ t ∈ approvedOf m.stepLog, S t) ∧
    ∀ t ∈ m.processRequest.w.previous, S t := by
  intro hlog
  refine ⟨?_, (processRequest_closed m c).previous⟩
  have : ∀ (l : List (List Transition × Outcome)), (∀ r ∈ l, ∀ t ∈ r.1, S t) → ∀ t ∈ approvedOf l, S t := by
    intro l
    induction l with
    | nil => intro _ t h; cases h
    | cons r rest ih =>
      intro h t ht
      obtain ⟨reqs, o⟩ := r
      simp only [approvedOf] at ht
      rcases List.mem_append.mp ht with h1 | h1
      · split at h1
        · exact h (reqs, o) List.mem_cons_self t h1
        · cases h1
      · exact ih (fun r' hr' => h r' (List.mem_cons_of_mem _ hr')) t h1
  exact this _ hlog

/-- `lastTransitionTo(s)` is `none` or one of `previousTransitions`, hence — under `Closed S` — in `S`. -/
theorem lastTransitionTo_exposes_issued {S : Transition → Prop} (m : Mach U) (c : Closed S m.w) (s : Nat)
    (t : Transition) (h : m.lastTransitionTo s = some t) : S t := by
  unfold lastTransitionTo at h
  split at h
  · exact c.previous t (List.mem_of_getElem? h)
  · cases h

/-- Requests without a payload expose none: if nothing that was or will be issued carries a payload, then
nothing exposed does. -/
theorem payloadless_stays_payloadless (m : Mach U) (c : Closed (fun t => t.payload = none) m.w) :
    ∀ t ∈ m.processRequest.w.previous, t.payload = none :=
  (processRequest_closed m c).previous

/-- Distinct requests never mix: if everything issued is drawn from a list `L` of whole transitions, then
everything exposed is an element of `L` (same origin, kind, destination *and* payload together). -/
theorem exposed_is_one_of_the_issued (L : List Transition) (m : Mach U) (c : Closed (· ∈ L) m.w) :
    (∀ t ∈ m.processRequest.w.requests, t ∈ L) ∧ (∀ t ∈ m.processRequest.w.previous, t ∈ L) :=
  ⟨(processRequest_closed m c).requests, (processRequest_closed m c).previous⟩

namespace W
open Hfsm.Witness
/-- two API requests, one with payload 7, one without, on `shapeC`; the guards are idle -/
def twoRequests : Mach Nat :=
  ((fresh (start shapeC) (idle 20)).request .change 2 (some 7)).request .restart 3 none
end W

/-- the hypothesis `Closed (· ∈ L)` is satisfied by a real instance with a non-trivial `L` … -/
example : Closed (· ∈ [⟨none, 2, .change, some 7⟩, ⟨none, 3, .restart, none⟩]) W.twoRequests.w := by
  have e1 : W.twoRequests.w.requests = [⟨none, 2, .change, some 7⟩, ⟨none, 3, .restart, none⟩] := by decide +kernel
  have e2 : W.twoRequests.w.pending = [] := by decide +kernel
  have e3 : W.twoRequests.w.current = [] := by decide +kernel
  have e4 : W.twoRequests.w.previous = [] := by decide +kernel
  refine ⟨?_, ?_, ?_, ?_, ?_, ?_⟩
  · rw [e1]; exact fun _ h => h
  · rw [e2]; intro _ h; cases h
  · rw [e3]; intro _ h; cases h
  · rw [e4]; intro _ h; cases h
  · intro d hd
    have hds : ∀ (x : Mach Nat) k dst p, (x.request k dst p).w.ds = x.w.ds := by
      intro x k dst p
      unfold Mach.request World.logRec World.emit
      dsimp only
      split <;> split <;> rfl
    have : d = [] := List.eq_of_mem_replicate (by
      have : W.twoRequests.w.ds = List.replicate 20 [] := by
        unfold W.twoRequests
        rw [hds, hds]; rfl
      rw [this] at hd; exact hd)
    subst this
    exact ⟨(fun _ _ _ h => nomatch h), (fun _ _ _ _ h => nomatch h)⟩
  · intro pl hpl tk htk
    have : W.twoRequests.w.plans = [[]] := by decide +kernel
    rw [this] at hpl
    rw [List.mem_singleton.mp hpl] at htk; cases htk

/-- … and after the step the history shows the two requests unchanged, each with its own payload. -/
theorem payload_example :
    W.twoRequests.processRequest.w.previous = [⟨none, 2, .change, some 7⟩, ⟨none, 3, .restart, none⟩] ∧
    W.twoRequests.processRequest.lastTransitionTo 3 = some ⟨none, 3, .restart, none⟩ := by
  decide +kernel

/-
Theorems that constitute property C14 (for `Props/INDEX.json`):

    api_request_appends_whole_value          source 1: instance API
    callback_request_appends_whole_values    source 2: control of a callback (append-only, lists untouched)
    callback_origin_is_the_state             … with origin = the state whose callback runs
    plan_task_payload_carried                source 3: plan executor, payload of the task
    walks_preserve_provenance                every tree walk preserves `Closed S`
    operations_preserve_provenance           every operation of the instance preserves `Closed S`
    create_closed                            base case
    step_shows_only_issued, lastTransitionTo_exposes_issued     guards / enter / history expose issued values
    payloadless_stays_payloadless            `S := payload = none`
    exposed_is_one_of_the_issued             `S := (· ∈ L)`: no mixing
    payload_example                          concrete run
-/

end Hfsm.Props.C14

/-! ## end-to-end (composition over whole histories)

`operations_preserve_provenance` is per operation and `create_closed` is the base case; none of them needs a
well-formedness hypothesis, so what remains to compose is the induction over a history: if everything HANDED to
an instance during its life — the decisions of its callbacks, the arguments of its API calls — is in `S`, then
everything it ever exposes is.  Stated for both operation languages: `Mach.run` from `Mach.create` (the runs of
C01; every reachable instance is one, `reachableOf_iff`) and `Api.run` from `Api.boot` (no legality condition is
needed here). -/
namespace Hfsm.Props.C14
open Hfsm Hfsm.Mach
variable {U : Type} [UtilArith U]

/-- everything the call `s` hands to the library is in `S`: the decisions its callbacks will take and the
transitions / plan task among its arguments -/
def StepWithin (S : Transition → Prop) (s : ApiStep U) : Prop :=
  (∀ d ∈ s.ds, Decision.Within S d) ∧
  match s.op with
  | .request k d p => S ⟨none, d, k, p⟩
  | .immediate k d p => S ⟨none, d, k, p⟩
  | .planAppend _ t => Task.Within S t
  | .replayTransitions ts => ∀ t ∈ ts, S t
  | .replayEnter ts => ∀ t ∈ ts, S t
  | _ => True

/-- the same for a call of the `Api.run` language (its decisions were given at construction) -/
def OpWithin (S : Transition → Prop) : Api.Op → Prop
  | .request k d p => S ⟨none, d, k, p⟩
  | .immediate k d p => S ⟨none, d, k, p⟩
  | .planAppend _ t => Task.Within S t
  | .replay ts => ∀ t ∈ ts, S t
  | .replayEnter ts => ∀ t ∈ ts, S t
  | _ => True

theorem api_step_closed {S : Transition → Prop} (m : Mach U) (o : Api.Op) (c : Closed S m.w) (ho : OpWithin S o) :
    Closed S (Api.step m o).w := by
  obtain ⟨_, hu, hr, hq, hen, hex, hre, hreq, hpa, hpc, hst, hld, hrp⟩ := operations_preserve_provenance m c
  cases o with
  | enter => exact hen
  | exit => exact hex
  | update => exact hu
  | react => exact hr
  | query => exact hq
  | reset => exact hre
  | request k d p => exact (hreq k d p ho).1
  | immediate k d p => exact (hreq k d p ho).2
  | setTask sid b => exact hst sid b
  | planAppend rid t => exact hpa rid t ho
  | planClear rid => exact hpc rid
  | load bits => exact hld bits
  | replay ts => exact (hrp ts ho).1
  | replayEnter ts => exact (hrp ts ho).2

theorem step_closed {S : Transition → Prop} (m : Mach U) (s : ApiStep U) (c : Closed S m.w) (hs : StepWithin S s) :
    Closed S (m.step s).w := by
  have c1 : Closed S (m.feed s.ds s.rng).w := ⟨c.requests, c.pending, c.current, c.previous, hs.1, c.plans⟩
  rcases Mach.step_cases m s with ⟨msg, e⟩ | ⟨o, ho, _, e⟩
  · rw [e]; exact (World.fail'_logOnly _ msg).closed c1
  · rw [e]
    refine api_step_closed _ o c1 ?_
    have h2 := hs.2
    rw [← ho] at h2
    cases o <;> first | exact h2 | trivial

/-- **Provenance over a whole life.**  Every instance reached from `Mach.create` by calls that hand the library
only transitions of `S` holds and exposes only transitions of `S`. -/
theorem run_closed_reachable {S : Transition → Prop} (shape : Shape) (cfg : Config) (steps : List (ApiStep U))
    (hs : ∀ s ∈ steps, StepWithin S s) : Closed S ((Mach.create shape cfg : Mach U).run steps).w := by
  have h0 : Closed S (Mach.create shape cfg : Mach U).w := by
    exact create_closed (U := U) (S := S) shape cfg (Mach.create shape cfg : Mach U).w.ds (by
      rw [Mach.create_ds]; intro d hd; cases hd)
  suffices H : ∀ (steps : List (ApiStep U)) (m : Mach U), Closed S m.w → (∀ s ∈ steps, StepWithin S s) →
      Closed S (m.run steps).w from H steps _ h0 hs
  intro steps
  induction steps with
  | nil => intro m c _; exact c
  | cons s rest ih =>
    intro m c hall
    exact ih (m.step s) (step_closed m s c (hall s List.mem_cons_self))
      (fun x hx => hall x (List.mem_cons_of_mem _ hx))

/-- … in the `Api.run` language: decisions given at construction, arguments of the calls. -/
theorem api_run_closed_reachable {S : Transition → Prop} (shape : Shape) (cfg : Config) (ds : List (Decision U))
    (rng : List U) (ops : List Api.Op) (hds : ∀ d ∈ ds, Decision.Within S d) (hops : ∀ o ∈ ops, OpWithin S o) :
    Closed S (Api.run (Api.boot shape cfg ds rng : Mach U) ops).w := by
  have h0 : Closed S (Api.boot shape cfg ds rng : Mach U).w := by
    have c0 := create_closed (U := U) (S := S) shape cfg ds hds
    have c1 : Closed S ((Mach.create shape cfg : Mach U).feed ds rng).w :=
      ⟨c0.requests, c0.pending, c0.current, c0.previous, hds, c0.plans⟩
    unfold Api.boot
    split
    · exact c1
    · exact (operations_preserve_provenance _ c1).2.2.2.2.1
  suffices H : ∀ (ops : List Api.Op) (m : Mach U), Closed S m.w → (∀ o ∈ ops, OpWithin S o) →
      Closed S (Api.run m ops).w from H ops _ h0 hops
  intro ops
  induction ops with
  | nil => intro m c _; exact c
  | cons o rest ih =>
    intro m c hall
    exact ih (Api.step m o) (api_step_closed m o c (hall o List.mem_cons_self))
      (fun x hx => hall x (List.mem_cons_of_mem _ hx))

/-- Hence, after any such history: the transition history and `lastTransitionTo` expose only issued values,
whole (origin, destination, kind and payload together). -/
theorem history_exposes_only_issued_reachable {S : Transition → Prop} (shape : Shape) (cfg : Config)
    (steps : List (ApiStep U)) (hs : ∀ s ∈ steps, StepWithin S s) :
    (∀ t ∈ ((Mach.create shape cfg : Mach U).run steps).w.previous, S t) ∧
    (∀ t ∈ ((Mach.create shape cfg : Mach U).run steps).w.requests, S t) ∧
    ∀ sid t, ((Mach.create shape cfg : Mach U).run steps).lastTransitionTo sid = some t → S t :=
  have c := run_closed_reachable shape cfg steps hs
  ⟨c.previous, c.requests, fun sid t h => lastTransitionTo_exposes_issued _ c sid t h⟩

/-- a history in which nothing handed over carries a payload exposes none -/
theorem payloadless_history_reachable (shape : Shape) (cfg : Config) (steps : List (ApiStep U))
    (hs : ∀ s ∈ steps, StepWithin (fun t => t.payload = none) s) :
    ∀ t ∈ ((Mach.create shape cfg : Mach U).run steps).w.previous, t.payload = none :=
  (run_closed_reachable shape cfg steps hs).previous

/-- a concrete non-trivial reachable instance exists, and its whole history satisfies the hypotheses with
`S := payload = none` (one transition was issued by a callback, one through the API) -/
example : Reachable (Api.run Demo.mach Demo.prog) := Demo.reachable.reachable
example : (∀ d ∈ Demo.ds, Decision.Within (fun t => t.payload = none) d) ∧
    (∀ o ∈ Demo.prog, OpWithin (fun t => t.payload = none) o) ∧
    (Api.run Demo.mach Demo.prog).w.previous = [⟨none, 1, .change, none⟩] := by
  refine ⟨?_, ?_, by decide +kernel⟩
  · intro d hd
    have hd' : d = [] ∨ d = [.request .change 2 none] := by
      simp only [Demo.ds, List.mem_append, List.mem_cons, List.mem_replicate, List.mem_nil_iff, or_false] at hd
      rcases hd with (h | h | h | h | h | h | h) | h
      · exact .inl h
      · exact .inl h
      · exact .inl h
      · exact .inl h
      · exact .inl h
      · exact .inl h
      · exact .inr h
      · exact .inl h.2
    rcases hd' with rfl | rfl
    · exact ⟨fun _ _ _ h => (nomatch h), fun _ _ _ _ h => (nomatch h)⟩
    · refine ⟨fun k dst p h o => ?_, fun o dst k p h => ?_⟩
      · cases List.mem_singleton.mp h; rfl
      · cases List.mem_singleton.mp h
  · intro o ho
    simp only [Demo.prog, List.mem_cons, List.mem_nil_iff, or_false] at ho
    rcases ho with rfl | rfl | rfl | rfl
    · trivial
    · trivial
    · rfl
    · trivial

end Hfsm.Props.C14
