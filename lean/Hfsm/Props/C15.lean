/-
C15 — optional features and header flavour never change unrelated behaviour.

Property text: enabling or disabling optional features (plans, serialization, transition history,
structure report, logging, utility theory, payload type, substitution limit and task-capacity headroom)
and including the single header or the split development headers never changes behaviour that does not
depend on them.

What a theorem can say is non-interference of the *model* with respect to the `Config` fields that stand
for those switches; the rest is the differential engine tools/engine_c15.py on the real code (the same
generated program compiled under several configurations and both header flavours, transcripts compared on
the common observables; `tools/join.py` reproduces the single header byte for byte).

Proved here, for all trees, all operation sequences, all callback behaviours and generator outputs:
 * `reconfiguration_commutes*`: detaching the logger and/or disabling the transition history commutes with
   every operation: same tree, same callbacks with the same observations in the same order, same queue,
   plans, statuses, report; only the logger records resp. `transitionTargets`/`previousTransitions` go.
   (`history_noninterference*`, and `Props.C16.logging_noninterference*`, are the two instances.)
   A program that calls `replayTransitions`/`replayEnter` is outside the common feature subset of a
   build without history (`Api.Op.usesHistory`), exactly as in C++ where those members do not exist.
 * `substitution_limit_*`: once the substitution loop ends with an empty queue, more fuel changes nothing;
   hence raising `SUBSTITUTION_LIMIT` leaves a processing step that settles within the old limit alone.
 * `plans_unused_*`: with plans compiled in but no plan ever created, `deepUpdatePlans` is inert (no
   callback, no request, no record, nothing but control registers changes); with plans compiled out the
   status plumbing (`orHead/orSub`) is the identity.
 * `task_capacity_only_at_full_edge`: `TASK_CAPACITY` is read by `append` only and matters only when the
   pool is full.
Not modelled (hence by the engine only): the structure-report switch (the report is a pure observer in
the model: `Mach.updateActivity` writes two fields nothing reads), serialization (save/load exist or do
not), utility theory (strategies exist or do not), the payload *type*, the header flavour.
Not proved: the full "plans on but unused ≡ plans off" for whole operation sequences (it needs the
invariant "no callback touches plans or task status" threaded through every traversal; the inertness of
`deepUpdatePlans` is the non-trivial half).
-/
import Hfsm.Proofs.RecfgMach
import Hfsm.Proofs.Limit
import Hfsm.Proofs.PlansUnused
import Hfsm.Proofs.DemoMach

set_option linter.unusedVariables false
set_option linter.unusedSectionVars false

namespace Hfsm.Props.C15
open Hfsm
variable {U : Type} [UtilArith U]

/-! ## logger and transition history -/

/-- Any combination of "no logger" / "no history" commutes with every operation applicable under it. -/
theorem reconfiguration_commutes (r : Recfg) (hl : r.limit = none) (m : Mach U) (o : Api.Op)
    (ho : r.noHist = true → o.usesHistory = false) :
    Api.step (m.recfg r) o = (Api.step m o).recfg r :=
  Api.step_recfg r hl m o ho

theorem reconfiguration_commutes_run (r : Recfg) (hl : r.limit = none) (m : Mach U) (ops : List Api.Op)
    (ho : r.noHist = true → ∀ o ∈ ops, o.usesHistory = false) :
    Api.run (m.recfg r) ops = (Api.run m ops).recfg r :=
  Api.run_recfg r hl ops m ho

/-- From construction on: the program compiled without the feature(s) behaves as the program compiled
with them, minus the feature's own data. -/
theorem reconfiguration_commutes_boot (r : Recfg) (hl : r.limit = none) (shape : Shape) (cfg : Config)
    (ds : List (Decision U)) (rng : List U) (ops : List Api.Op)
    (ho : r.noHist = true → ∀ o ∈ ops, o.usesHistory = false) :
    Api.run (Api.boot shape (cfg.recfg r) ds rng) ops = (Api.run (Api.boot shape cfg ds rng) ops).recfg r := by
  rw [Api.boot_recfg r hl, reconfiguration_commutes_run r hl _ ops ho]

/-- HFSM2_ENABLE_TRANSITION_HISTORY off -/
def noHistory : Recfg := { noHist := true }

theorem history_noninterference (m : Mach U) (ops : List Api.Op) (ho : ∀ o ∈ ops, o.usesHistory = false) :
    Api.run (m.recfg noHistory) ops = (Api.run m ops).recfg noHistory :=
  Api.run_recfg noHistory rfl ops m (fun _ => ho)

/-- Spelled out: only `transitionTargets` and `previousTransitions` differ. -/
theorem history_noninterference_observables (m : Mach U) (ops : List Api.Op)
    (ho : ∀ o ∈ ops, o.usesHistory = false) :
    (Api.run (m.recfg noHistory) ops).root = (Api.run m ops).root ∧
    (Api.run (m.recfg noHistory) ops).w.trace = (Api.run m ops).w.trace ∧
    (Api.run (m.recfg noHistory) ops).w.requests = (Api.run m ops).w.requests ∧
    (Api.run (m.recfg noHistory) ops).w.plans = (Api.run m ops).w.plans ∧
    (Api.run (m.recfg noHistory) ops).w.succ = (Api.run m ops).w.succ ∧
    (Api.run (m.recfg noHistory) ops).w.fail = (Api.run m ops).w.fail ∧
    (Api.run (m.recfg noHistory) ops).w.ds = (Api.run m ops).w.ds ∧
    (Api.run (m.recfg noHistory) ops).w.rng = (Api.run m ops).w.rng ∧
    (Api.run (m.recfg noHistory) ops).w.err = (Api.run m ops).w.err ∧
    (Api.run (m.recfg noHistory) ops).structActive = (Api.run m ops).structActive ∧
    (Api.run (m.recfg noHistory) ops).activity = (Api.run m ops).activity := by
  rw [history_noninterference m ops ho]
  exact ⟨rfl, rfl, rfl, rfl, rfl, rfl, rfl, rfl, rfl, rfl, rfl⟩

-- the demonstration program does not use the history API
example : ∀ o ∈ Demo.prog, o.usesHistory = false := by decide

/-! ## substitution limit -/

/-- Extra rounds are never taken once the queue is empty. -/
theorem substitution_limit_extra_fuel (initial : Bool) (k j : Nat) (m : Mach U) (backup : Node)
    (cur : List Transition) (h : (Mach.rounds initial k m backup cur).1.w.requests = []) :
    Mach.rounds initial (k + j) m backup cur = Mach.rounds initial k m backup cur :=
  Mach.rounds_more_fuel initial k j m backup cur h

/-- Raising `SUBSTITUTION_LIMIT` to `L` does not change a processing step that settles within the
configured limit (apart from the configuration field itself). -/
theorem substitution_limit_irrelevant_when_settled (L : Nat) (m : Mach U)
    (hL : m.w.cfg.substitutionLimit ≤ L) (hs : m.settles) :
    (m.recfg { limit := some L }).processRequest = m.processRequest.recfg { limit := some L } :=
  Mach.recfg_processRequest_limit { limit := some L } L rfl m hL hs

-- the demonstration machine with a request queued settles in its first round
example : (Demo.mach.request .change 2 none).settles ∧ (Demo.mach.request .change 2 none).w.cfg.substitutionLimit ≤ 9 := by
  unfold Mach.settles; decide +kernel

/-! ## plans -/

/-- Plans compiled in, none created: `deepUpdatePlans` changes nothing but the control registers
(`_regionId`, `_regionStateId`, `_regionSize`, `_taskStatus`): no callback, no request, no logger record,
no status or plan change. -/
theorem plans_unused_updatePlans_inert (n : Node) (w : World U) (hp : w.planExists = 0) :
    w.coreEq (n.updatePlans w).1 :=
  Node.updatePlans_noPlans n w hp

-- a freshly constructed instance has no plan
example : Demo.mach.w.planExists = 0 := by decide +kernel

omit [UtilArith U] in
/-- Plans compiled out: the status plumbing of update/react is the identity. -/
theorem plans_off_status_plumbing (w : World U) (hp : w.cfg.plans = false) (rid : Nat) (s : TaskStatus) :
    w.orHead rid s = w ∧ w.orSub rid s = w := by
  simp [World.orHead, World.orSub, hp]

example : ({ cfg := { plans := false } } : World Demo.DU).cfg.plans = false := rfl

/-- `TASK_CAPACITY` only matters at the full edge. -/
theorem task_capacity_only_at_full_edge (w : World U) (r : Nat) (t : Task) (c : Nat)
    (h1 : w.taskCount < w.cfg.taskCap) (h2 : w.taskCount < c) :
    ({ w with cfg := { w.cfg with taskCap := c } } : World U).planAppend r t =
      { w.planAppend r t with cfg := { w.cfg with taskCap := c } } :=
  World.planAppend_taskCap w r t c h1 h2

example : Demo.mach.w.taskCount < Demo.mach.w.cfg.taskCap ∧ Demo.mach.w.taskCount < 7 := by decide +kernel

end Hfsm.Props.C15

/-
Property theorems (for Props/INDEX.json):
  reconfiguration_commutes, reconfiguration_commutes_run, reconfiguration_commutes_boot,
  history_noninterference, history_noninterference_observables,
  substitution_limit_extra_fuel, substitution_limit_irrelevant_when_settled,
  plans_unused_updatePlans_inert, plans_off_status_plumbing, task_capacity_only_at_full_edge
  (logging: Hfsm.Props.C16.logging_noninterference*)
-/
