/-
C15 — optional features and header flavour never change unrelated behaviour.

Property text: enabling or disabling optional features (plans, serialization, transition history,
structure report, logging, utility theory, payload type, substitution limit and task-capacity headroom)
and including the single header or the split development headers never changes behaviour that does not
depend on them.

What a theorem can say is non-interference of the *model* with respect to the `Config` fields that stand
for those switches; the rest is the differential engine tools/engine_c15.py on the real code (the same
generated program compiled under several configurations and both header flavours, transcripts compared on
the common observables; `tools/join.py` reproduces the single header byte for byte).

Proved here, for all trees, all operation sequences, all callback behaviours and generator outputs:
 * `reconfiguration_commutes*`: detaching the logger and/or disabling the transition history commutes with
   every operation: same tree, same callbacks with the same observations in the same order, same queue,
   plans, statuses, report; only the logger records resp. `transitionTargets`/`previousTransitions` go.
   (`history_noninterference*`, and `Props.C16.logging_noninterference*`, are the two instances.)
   A program that calls `replayTransitions`/`replayEnter` is outside the common feature subset of a
   build without history (`Api.Op.usesHistory`), exactly as in C++ where those members do not exist.
 * `substitution_limit_*`: once the substitution loop ends with an empty queue, more fuel changes nothing;
   hence raising `SUBSTITUTION_LIMIT` leaves a processing step that settles within the old limit alone.
 * `plans_unused_*`: with plans compiled in but no plan ever created, `deepUpdatePlans` is inert (no
   callback, no request, no record, nothing but control registers changes); with plans compiled out the
   status plumbing (`orHead/orSub`) is the identity.
 * `plans_unused_equiv_plans_off*` (end of the file): the full "plans compiled in but never used ≡ plans
   compiled out" for WHOLE operation sequences — for every shape, configuration, generator stream, every
   operation list without `succeed/fail/plan(…)` calls and every decision stream whose callbacks call none of
   `succeed/fail/plan().append…/plan().clear`, the two builds go through equal instances (tree, trace with
   nothing erased, request queue, history, structure report, every control register; only the switch differs).
   The invariant "no plan exists, no task-status bit is set, no callback to come touches plans"
   (`World.PI`, Proofs/PlansOff.lean) is threaded through every traversal and every operation; switching the
   feature off commutes with each of them (Proofs/PlansOffTrav.lean, Proofs/PlansOffMach.lean).
 * `task_capacity_only_at_full_edge`: `TASK_CAPACITY` is read by `append` only and matters only when the
   pool is full.
Not modelled (hence by the engine only): the structure-report switch (the report is a pure observer in
the model: `Mach.updateActivity` writes two fields nothing reads), serialization (save/load exist or do
not), utility theory (strategies exist or do not), the payload *type*, the header flavour.
Partial (see the comment above `plans_unused_equiv_plans_off`): the equation between the two builds includes the
model's contract-violation flag `err` only under the hypothesis that the run WITH plans met no violation;
unconditionally everything but `err` agrees (`…_modulo_err`, `…_observables`).  `plans_unused_err_flag_differs`
is the closed witness that `err` itself can differ: `react()` on a never-entered manual instance — outside the
contract of the real code (`R_::react` asserts `isActive()` in both builds), i.e. a gap of the model's flag.
-/
import Hfsm.Proofs.RecfgMach
import Hfsm.Proofs.Limit
import Hfsm.Proofs.PlansUnused
import Hfsm.Proofs.DemoMach
import Hfsm.Proofs.PlansOffMach

set_option linter.unusedVariables false
set_option linter.unusedSectionVars false

namespace Hfsm.Props.C15
open Hfsm
variable {U : Type} [UtilArith U]

/-! ## logger and transition history -/

/-- Any combination of "no logger" / "no history" commutes with every operation applicable under it. -/
theorem reconfiguration_commutes (r : Recfg) (hl : r.limit = none) (m : Mach U) (o : Api.Op)
    (ho : r.noHist = true → o.usesHistory = false) :
    Api.step (m.recfg r) o = (Api.step m o).recfg r :=
  Api.step_recfg r hl m o ho

theorem reconfiguration_commutes_run (r : Recfg) (hl : r.limit = none) (m : Mach U) (ops : List Api.Op)
    (ho : r.noHist = true → ∀ o ∈ ops, o.usesHistory = false) :
    Api.run (m.recfg r) ops = (Api.run m ops).recfg r :=
  Api.run_recfg r hl ops m ho

/-- From construction on: the program compiled without the feature(s) behaves as the program compiled
with them, minus the feature's own data. -/
theorem reconfiguration_commutes_boot (r : Recfg) (hl : r.limit = none) (shape : Shape) (cfg : Config)
    (ds : List (Decision U)) (rng : List U) (ops : List Api.Op)
    (ho : r.noHist = true → ∀ o ∈ ops, o.usesHistory = false) :
    Api.run (Api.boot shape (cfg.recfg r) ds rng) ops = (Api.run (Api.boot shape cfg ds rng) ops).recfg r := by
  rw [Api.boot_recfg r hl, reconfiguration_commutes_run r hl _ ops ho]

/-- HFSM2_ENABLE_TRANSITION_HISTORY off -/
def noHistory : Recfg := { noHist := true }

theorem history_noninterference (m : Mach U) (ops : List Api.Op) (ho : ∀ o ∈ ops, o.usesHistory = false) :
    Api.run (m.recfg noHistory) ops = (Api.run m ops).recfg noHistory :=
  Api.run_recfg noHistory rfl ops m (fun _ => ho)

/-- Spelled out: only `transitionTargets` and `previousTransitions` differ. -/
theorem history_noninterference_observables (m : Mach U) (ops : List Api.Op)
    (ho : ∀ o ∈ ops, o.usesHistory = false) :
    (Api.run (m.recfg noHistory) ops).root = (Api.run m ops).root ∧
    (Api.run (m.recfg noHistory) ops).w.trace = (Api.run m ops).w.trace ∧
    (Api.run (m.recfg noHistory) ops).w.requests = (Api.run m ops).w.requests ∧
    (Api.run (m.recfg noHistory) ops).w.plans = (Api.run m ops).w.plans ∧
    (Api.run (m.recfg noHistory) ops).w.succ = (Api.run m ops).w.succ ∧
    (Api.run (m.recfg noHistory) ops).w.fail = (Api.run m ops).w.fail ∧
    (Api.run (m.recfg noHistory) ops).w.ds = (Api.run m ops).w.ds ∧
    (Api.run (m.recfg noHistory) ops).w.rng = (Api.run m ops).w.rng ∧
    (Api.run (m.recfg noHistory) ops).w.err = (Api.run m ops).w.err ∧
    (Api.run (m.recfg noHistory) ops).structActive = (Api.run m ops).structActive ∧
    (Api.run (m.recfg noHistory) ops).activity = (Api.run m ops).activity := by
  rw [history_noninterference m ops ho]
  exact ⟨rfl, rfl, rfl, rfl, rfl, rfl, rfl, rfl, rfl, rfl, rfl⟩

-- the demonstration program does not use the history API
example : ∀ o ∈ Demo.prog, o.usesHistory = false := by decide

/-! ## substitution limit -/

/-- Extra rounds are never taken once the queue is empty. -/
theorem substitution_limit_extra_fuel (initial : Bool) (k j : Nat) (m : Mach U) (backup : Node)
    (cur : List Transition) (h : (Mach.rounds initial k m backup cur).1.w.requests = []) :
    Mach.rounds initial (k + j) m backup cur = Mach.rounds initial k m backup cur :=
  Mach.rounds_more_fuel initial k j m backup cur h

/-- Raising `SUBSTITUTION_LIMIT` to `L` does not change a processing step that settles within the
configured limit (apart from the configuration field itself). -/
theorem substitution_limit_irrelevant_when_settled (L : Nat) (m : Mach U)
    (hL : m.w.cfg.substitutionLimit ≤ L) (hs : m.settles) :
    (m.recfg { limit := some L }).processRequest = m.processRequest.recfg { limit := some L } :=
  Mach.recfg_processRequest_limit { limit := some L } L rfl m hL hs

-- the demonstration machine with a request queued settles in its first round
example : (Demo.mach.request .change 2 none).settles ∧ (Demo.mach.request .change 2 none).w.cfg.substitutionLimit ≤ 9 := by
  unfold Mach.settles; decide +kernel

/-! ## plans -/

/-- Plans compiled in, none created: `deepUpdatePlans` changes nothing but the control registers
(`_regionId`, `_regionStateId`, `_regionSize`, `_taskStatus`): no callback, no request, no logger record,
no status or plan change. -/
theorem plans_unused_updatePlans_inert (n : Node) (w : World U) (hp : w.planExists = 0) :
    w.coreEq (n.updatePlans w).1 :=
  Node.updatePlans_noPlans n w hp

-- a freshly constructed instance has no plan
example : Demo.mach.w.planExists = 0 := by decide +kernel

omit [UtilArith U] in
/-- Plans compiled out: the status plumbing of update/react is the identity. -/
theorem plans_off_status_plumbing (w : World U) (hp : w.cfg.plans = false) (rid : Nat) (s : TaskStatus) :
    w.orHead rid s = w ∧ w.orSub rid s = w := by
  simp [World.orHead, World.orSub, hp]

example : ({ cfg := { plans := false } } : World Demo.DU).cfg.plans = false := rfl

/-- `TASK_CAPACITY` only matters at the full edge. -/
theorem task_capacity_only_at_full_edge (w : World U) (r : Nat) (t : Task) (c : Nat)
    (h1 : w.taskCount < w.cfg.taskCap) (h2 : w.taskCount < c) :
    ({ w with cfg := { w.cfg with taskCap := c } } : World U).planAppend r t =
      { w.planAppend r t with cfg := { w.cfg with taskCap := c } } :=
  World.planAppend_taskCap w r t c h1 h2

example : Demo.mach.w.taskCount < Demo.mach.w.cfg.taskCap ∧ Demo.mach.w.taskCount < 7 := by decide +kernel


/-! ## plans compiled in but never used ≡ plans compiled out, for whole operation sequences

Full statement (property text, instance "plans"): for every shape, configuration, generator stream, every
operation list without `succeed / fail / plan(…).append… / plan(…).clear` (`Api.Op.plansFree`) and every
decision stream none of whose callbacks calls `succeed / fail / plan().append… / plan().clear`
(`Decision.plansFree`), the program built with `HFSM2_ENABLE_PLANS` and the program built without go through
the same instances: same tree, same trace (callbacks with the same observations and logger records, in the
same order — no record has to be erased: with no plan `deepUpdatePlans` never reaches `updatePlan`, so
neither `planSucceeded / planFailed` nor a `planStatus / taskStatus` record is produced), same request queue,
same history (`transitionTargets`, `previousTransitions`), same structure report, same control registers, and
on the plans side `planExists = tasksSuccesses = tasksFailures = 0` and clear status arrays throughout.

 * `plans_unused_equiv_plans_off` / `_run`: exactly that, as an equation between instances (`Mach.plansOff` flips
   the configuration switch and nothing else), under the hypothesis that the run WITH plans records no contract
   violation of the model (`err = none`).
 * `plans_unused_equiv_plans_off_modulo_err` / `_run_modulo_err` / `_observables`: without that hypothesis
   everything but the model's `err` flag agrees.
 * The hypothesis cannot be dropped for `err` itself (`plans_unused_err_flag_differs`, a closed witness): `react()`
   on a manual instance that was never entered, whose root is orthogonal, where a leaf consumes the event in
   `postReact` before an inactive composite sibling is reached.  The build without plans meets no `fail'` of
   the model; the build with plans runs `deepUpdatePlans`, which does not stop at a consumed event and is sent
   through the inactive composite (`HFSM2_ASSERT(active < WIDTH)` in `C_::deepUpdatePlans`).  This is outside
   the documented contract of the real code (`R_::react` asserts `isActive()` first, in both builds), so it is
   a gap of the model's `err` flag (it does not flag `update()/react()` on an inactive instance), not a
   difference in observable behaviour.
-/

/-- **Plans compiled in but never used ≡ plans compiled out** (any instance whose plans are idle and whose status
arrays are clear, e.g. a freshly constructed one): every operation sequence that does not touch plans takes
the two builds through the same instances. -/
theorem plans_unused_equiv_plans_off_run (m : Mach U) (ops : List Api.Op) (hI : m.w.PI) (hs : m.StatusClear)
    (hops : ∀ o ∈ ops, o.plansFree = true) (herr : (Api.run m ops).w.err = none) :
    Api.run (Mach.plansOff m) ops = Mach.plansOff (Api.run m ops) := by
  have hc : (Api.run m ops).w.cfg = m.w.cfg := (safeRel.run ops m).1
  rw [← Mach.po_eq_plansOff hs, Api.run_po false none m.w.cfg.regionCount ops m rfl hI hops (Or.inl rfl) (fun _ => herr),
    ← Mach.po_eq_plansOff (Api.run_statusClear ops m hI hs hops), hc]

/-- … and whatever the model's contract-violation flag says, everything else agrees. -/
theorem plans_unused_equiv_plans_off_run_modulo_err (m : Mach U) (ops : List Api.Op) (hI : m.w.PI)
    (hs : m.StatusClear) (hops : ∀ o ∈ ops, o.plansFree = true) :
    Mach.eraseErr (Api.run (Mach.plansOff m) ops) = Mach.eraseErr (Mach.plansOff (Api.run m ops)) := by
  have hI' : (Mach.plansOff m).w.PI := ⟨hI.pe, hI.su, hI.fa, hI.ds⟩
  have hs' : (Mach.plansOff m).StatusClear := ⟨hs.head, hs.sub⟩
  have e1 := Api.run_po false (some "") m.w.cfg.regionCount ops m rfl hI hops (Or.inl rfl) (fun h => nomatch h)
  have e2 := Api.run_po false (some "") m.w.cfg.regionCount ops (Mach.plansOff m) rfl hI' hops (Or.inl rfl)
    (fun h => nomatch h)
  have e3 : (Mach.plansOff m).po false (some "") (statusZero m.w.cfg.regionCount) (statusZero m.w.cfg.regionCount) =
      m.po false (some "") (statusZero m.w.cfg.regionCount) (statusZero m.w.cfg.regionCount) := rfl
  rw [e3, e1] at e2
  have hc : (Api.run m ops).w.cfg = m.w.cfg := (safeRel.run ops m).1
  have hc' : (Api.run (Mach.plansOff m) ops).w.cfg = (Mach.plansOff m).w.cfg := (safeRel.run ops (Mach.plansOff m)).1
  exact Mach.eraseErr_of_po_eq "" m.w.cfg.regionCount e2.symm (by rw [hc']; rfl) (by rw [hc']; rfl) (by rw [hc])
    (Api.run_statusClear ops _ hI' hs' hops) (Api.run_statusClear ops m hI hs hops)

/-- **The full statement, from construction on**: the program compiled without plans behaves as the program
compiled with plans that never uses them — same tree, trace, queue, history, report, registers. -/
theorem plans_unused_equiv_plans_off (shape : Shape) (cfg : Config) (ds : List (Decision U)) (rng : List U)
    (ops : List Api.Op) (hops : ∀ o ∈ ops, o.plansFree = true) (hds : ∀ d ∈ ds, Decision.plansFree d = true)
    (herr : (Api.run (Api.boot shape { cfg with plans := true } ds rng) ops).w.err = none) :
    Api.run (Api.boot shape { cfg with plans := false } ds rng) ops =
      Mach.plansOff (Api.run (Api.boot shape { cfg with plans := true } ds rng) ops) := by
  have hb := Api.boot_po false shape { cfg with plans := true } ds rng hds
  have hsc := Api.boot_statusClear shape { cfg with plans := true } ds rng hds
  have hrc := Api.boot_regionCount shape { cfg with plans := true } ds rng
  rw [← hrc, Mach.po_eq_plansOff hsc] at hb
  rw [show ({ cfg with plans := false } : Config) = { ({ cfg with plans := true } : Config) with plans := false } from rfl,
    hb]
  exact plans_unused_equiv_plans_off_run _ ops (Api.boot_PI shape _ ds rng hds) hsc hops herr

theorem plans_unused_equiv_plans_off_modulo_err (shape : Shape) (cfg : Config) (ds : List (Decision U))
    (rng : List U) (ops : List Api.Op) (hops : ∀ o ∈ ops, o.plansFree = true)
    (hds : ∀ d ∈ ds, Decision.plansFree d = true) :
    Mach.eraseErr (Api.run (Api.boot shape { cfg with plans := false } ds rng) ops) =
      Mach.eraseErr (Mach.plansOff (Api.run (Api.boot shape { cfg with plans := true } ds rng) ops)) := by
  have hb := Api.boot_po false shape { cfg with plans := true } ds rng hds
  have hsc := Api.boot_statusClear shape { cfg with plans := true } ds rng hds
  have hrc := Api.boot_regionCount shape { cfg with plans := true } ds rng
  rw [← hrc, Mach.po_eq_plansOff hsc] at hb
  rw [show ({ cfg with plans := false } : Config) = { ({ cfg with plans := true } : Config) with plans := false } from rfl,
    hb]
  exact plans_unused_equiv_plans_off_run_modulo_err _ ops (Api.boot_PI shape _ ds rng hds) hsc hops

/-- Spelled out (no hypothesis on `err`): the two builds agree on the tree, the trace, the request queue, the
history, the structure report and the streams consumed; and on both sides no plan exists, no task-status bit
is set and the status arrays are clear. -/
theorem plans_unused_equiv_plans_off_observables (shape : Shape) (cfg : Config) (ds : List (Decision U))
    (rng : List U) (ops : List Api.Op) (hops : ∀ o ∈ ops, o.plansFree = true)
    (hds : ∀ d ∈ ds, Decision.plansFree d = true) :
    let off := Api.run (Api.boot shape { cfg with plans := false } ds rng) ops
    let on := Api.run (Api.boot shape { cfg with plans := true } ds rng) ops
    off.root = on.root ∧ off.w.trace = on.w.trace ∧ off.w.requests = on.w.requests ∧
    off.w.targets = on.w.targets ∧ off.w.previous = on.w.previous ∧
    off.structActive = on.structActive ∧ off.activity = on.activity ∧
    off.w.ds = on.w.ds ∧ off.w.rng = on.w.rng ∧ off.w.plans = on.w.plans ∧
    off.w.headStatus = on.w.headStatus ∧ off.w.subStatus = on.w.subStatus ∧
    on.w.planExists = 0 ∧ on.w.succ = 0 ∧ on.w.fail = 0 ∧ off.w.planExists = 0 ∧ off.w.succ = 0 ∧ off.w.fail = 0 ∧
    (on.w.err = none → off.w.err = none) := by
  intro off on
  have h := plans_unused_equiv_plans_off_modulo_err shape cfg ds rng ops hops hds
  have key : ∀ {α : Type} (f : Mach U → α), (∀ m, f (Mach.eraseErr m) = f m) → (∀ m, f (Mach.plansOff m) = f m) →
      f off = f on := fun f h1 h2 => by rw [← h1 off, h, h1, h2]
  have hon : on.w.PI := Api.run_PI ops _ hops (Api.boot_PI shape _ ds rng hds)
  have hoff : off.w.PI := Api.run_PI ops _ hops (Api.boot_PI shape _ ds rng hds)
  refine ⟨key (·.root) (fun _ => rfl) (fun _ => rfl), key (·.w.trace) (fun _ => rfl) (fun _ => rfl),
    key (·.w.requests) (fun _ => rfl) (fun _ => rfl), key (·.w.targets) (fun _ => rfl) (fun _ => rfl),
    key (·.w.previous) (fun _ => rfl) (fun _ => rfl), key (·.structActive) (fun _ => rfl) (fun _ => rfl),
    key (·.activity) (fun _ => rfl) (fun _ => rfl), key (·.w.ds) (fun _ => rfl) (fun _ => rfl),
    key (·.w.rng) (fun _ => rfl) (fun _ => rfl), key (·.w.plans) (fun _ => rfl) (fun _ => rfl),
    key (·.w.headStatus) (fun _ => rfl) (fun _ => rfl), key (·.w.subStatus) (fun _ => rfl) (fun _ => rfl),
    hon.pe, hon.su, hon.fa, hoff.pe, hoff.su, hoff.fa, fun he => ?_⟩
  have := plans_unused_equiv_plans_off shape cfg ds rng ops hops hds he
  exact (congrArg (fun m : Mach U => m.w.err) this).trans he

-- the hypotheses are satisfiable: the demonstration machine (composite root, a callback that requests a
-- transition during the first `update()`), its program, both builds; no contract violation is met
example : (∀ o ∈ Demo.prog, o.plansFree = true) ∧ (∀ d ∈ Demo.ds, Decision.plansFree d = true) ∧
    (Api.run (Api.boot Demo.shape { Demo.cfg with plans := true } Demo.ds ([] : List Demo.DU)) Demo.prog).w.err = none ∧
    (Api.run (Api.boot Demo.shape { Demo.cfg with plans := true } Demo.ds ([] : List Demo.DU)) Demo.prog).root.isActive 1 = true := by
  decide +kernel

-- … hence the theorem applies to it
example :
    Api.run (Api.boot Demo.shape { Demo.cfg with plans := false } Demo.ds ([] : List Demo.DU)) Demo.prog =
      Mach.plansOff (Api.run (Api.boot Demo.shape { Demo.cfg with plans := true } Demo.ds ([] : List Demo.DU)) Demo.prog) :=
  plans_unused_equiv_plans_off _ _ _ _ _ (by decide) (by decide) (by decide +kernel)

example : Demo.mach.w.PI ∧ Demo.mach.StatusClear :=
  ⟨Api.boot_PI _ _ _ _ (by decide), Api.boot_statusClear _ _ _ _ (by decide)⟩

/-- a manual instance with an orthogonal root: a leaf and a composite region side by side -/
def errWitnessShape : Shape := .ortho true 0 (.cons (.leaf 0) (.cons (.compo true 0 .composite (.cons (.leaf 0) .nil)) .nil))

/-- the root consumes the event in `preReact` and `react`; in `postReact` (bottom-up) the leaf does -/
def errWitnessDs : List (Decision Demo.DU) := [[.consume], [.consume], [.consume]]

/-- **The `err` flag of the model is not part of the equivalence** (closed witness): `react()` on the
never-entered manual instance above.  Without plans the model records nothing; with plans `deepUpdatePlans`
walks into the inactive composite region and the model records its own contract violation.  Everything else
agrees (`plans_unused_equiv_plans_off_modulo_err`).  The real code asserts `isActive()` on entry of `react()`
in both builds, so the input is outside the documented contract. -/
theorem plans_unused_err_flag_differs :
    (∀ o ∈ [Api.Op.react], o.plansFree = true) ∧ (∀ d ∈ errWitnessDs, Decision.plansFree d = true) ∧
    (Api.run (Api.boot errWitnessShape { manual := true, plans := false } errWitnessDs ([] : List Demo.DU)) [.react]).w.err = none ∧
    (Api.run (Api.boot errWitnessShape { manual := true, plans := true } errWitnessDs ([] : List Demo.DU)) [.react]).w.err =
      some "updatePlans of an inactive region" := by
  decide +kernel

end Hfsm.Props.C15

/-
Property theorems (for Props/INDEX.json):
  reconfiguration_commutes, reconfiguration_commutes_run, reconfiguration_commutes_boot,
  history_noninterference, history_noninterference_observables,
  substitution_limit_extra_fuel, substitution_limit_irrelevant_when_settled,
  plans_unused_updatePlans_inert, plans_off_status_plumbing, task_capacity_only_at_full_edge,
  plans_unused_equiv_plans_off, plans_unused_equiv_plans_off_run,
  plans_unused_equiv_plans_off_modulo_err, plans_unused_equiv_plans_off_run_modulo_err,
  plans_unused_equiv_plans_off_observables, plans_unused_err_flag_differs
  (logging: Hfsm.Props.C16.logging_noninterference*)
-/
