/-
Property C20 — "Bundled generators are seed-determined, match xoshiro/splitmix, stay in [0,1)".

  The bundled random generators are fully determined by their seed, reproduce the published splitmix
  and xoshiro (+ and **) sequences including jump(), never hand out an all-zero internal state from
  the seeding routine, and every float or double they return lies in [0,1).  A machine using the
  built-in generator therefore makes the same random choices on every run and platform of the same
  pointer width.

Model: `Hfsm.Model.Rng` (defined from the constants `tools/extract_facts_rng.py` reads out of the
current source, `Hfsm.Generated.Rng`).  Helper lemmas: `Hfsm.Proofs.RngBits`, `Hfsm.Proofs.RngUniform`.

Parts
  §1  reference definitions, written from the published algorithms with the published constants
  §2  `facts_match_reference`: model (with the constants of the current source) = reference
  §3  seeding: the retry loop ends within two raw draws with a non-zero number; all four seeded words
      are non-zero for EVERY seed, both widths
  §4  determinism: every observation of a generator object is a function of the seed
  §5  `uniform`: exact rational value and range [0,1)
  §6  `FloatRandomT<4>/IntRandomT<4>::uint64()` (hence `float64()`): the two 32-bit draws are combined in
      the order the source defines (first draw = high half) — full statement, after the repair of the
      compiler-dependent `widen(uint32(), uint32())`

TRUSTED (not proved in Lean), see also DESIGN §11:
  * IEEE-754: for a binary32/binary64 number `a ∈ [1,2)` the machine subtraction `a − 1.0` is exact
    (Sterbenz' lemma: `1 ≤ a ≤ 2`), so the float returned by `uniform` *is* the rational
    `value(a) − 1`.  `uniformRat32/64` are defined as that rational; what is proved is its value
    `(x ≫ 9)/2^23` resp. `(x ≫ 12)/2^52`, its range, and that the bit pattern predicted by the driver
    (`uniformBits32/64`, compared hex for hex with the real code) denotes the same rational.
  * `reinterpret<float>(u)` yields the binary32 number whose bit pattern is `u` (memcpy / bit_cast).
  * `BitVec 64` / `BitVec 32` arithmetic = C++ `uint64_t` / `uint32_t` arithmetic.
-/
import Hfsm.Model.Rng
import Hfsm.Proofs.RngBits
import Hfsm.Proofs.RngUniform

namespace Hfsm.Props.C20

open Hfsm.Model.Rng Hfsm.Generated Hfsm.Proofs.Rng

/-! ## §1 Reference algorithms

Transcribed from the public-domain reference code of Blackman & Vigna (splitmix64.c,
xoshiro256plus.c 1.0, xoshiro256starstar.c 1.0, xoshiro128plus.c 1.0, xoshiro128starstar.c 1.1) and,
for splitmix32, from the thread the source cites (increment 0x9e3779b9 followed by the murmur3 32-bit
finaliser).  Literal published constants; nothing here refers to `Hfsm.Generated`. -/

namespace Ref

def rotl64 (x : BitVec 64) (k : Nat) : BitVec 64 := (x <<< k) ||| (x >>> (64 - k))
def rotl32 (x : BitVec 32) (k : Nat) : BitVec 32 := (x <<< k) ||| (x >>> (32 - k))

/-- splitmix64.c `next()`: (new `x`, result). -/
def splitmix64 (x : BitVec 64) : BitVec 64 × BitVec 64 :=
  let x := x + 0x9e3779b97f4a7c15#64
  let z := x
  let z := (z ^^^ (z >>> 30)) * 0xbf58476d1ce4e5b9#64
  let z := (z ^^^ (z >>> 27)) * 0x94d049bb133111eb#64
  (x, z ^^^ (z >>> 31))

/-- splitmix32: golden-ratio increment + murmur3 `fmix32`: (new `x`, result). -/
def splitmix32 (x : BitVec 32) : BitVec 32 × BitVec 32 :=
  let x := x + 0x9e3779b9#32
  let z := x
  let z := (z ^^^ (z >>> 16)) * 0x85ebca6b#32
  let z := (z ^^^ (z >>> 13)) * 0xc2b2ae35#32
  (x, z ^^^ (z >>> 16))

/-- State transition shared by xoshiro256+ and xoshiro256** (`next()` without the result). -/
def xoshiro256Step (s : S4 64) : S4 64 :=
  let t := s.s1 <<< 17
  let s2 := s.s2 ^^^ s.s0
  let s3 := s.s3 ^^^ s.s1
  let s1 := s.s1 ^^^ s2
  let s0 := s.s0 ^^^ s3
  let s2 := s2 ^^^ t
  let s3 := rotl64 s3 45
  ⟨s0, s1, s2, s3⟩

/-- xoshiro256plus.c `next()`: `result = s[0] + s[3]`. -/
def xoshiro256plus (s : S4 64) : BitVec 64 × S4 64 := (s.s0 + s.s3, xoshiro256Step s)
/-- xoshiro256starstar.c `next()`: `result = rotl(s[1] * 5, 7) * 9`. -/
def xoshiro256starstar (s : S4 64) : BitVec 64 × S4 64 := (rotl64 (s.s1 * 5#64) 7 * 9#64, xoshiro256Step s)

/-- State transition shared by xoshiro128+ and xoshiro128**. -/
def xoshiro128Step (s : S4 32) : S4 32 :=
  let t := s.s1 <<< 9
  let s2 := s.s2 ^^^ s.s0
  let s3 := s.s3 ^^^ s.s1
  let s1 := s.s1 ^^^ s2
  let s0 := s.s0 ^^^ s3
  let s2 := s2 ^^^ t
  let s3 := rotl32 s3 11
  ⟨s0, s1, s2, s3⟩

/-- xoshiro128plus.c `next()`: `result = s[0] + s[3]`. -/
def xoshiro128plus (s : S4 32) : BitVec 32 × S4 32 := (s.s0 + s.s3, xoshiro128Step s)
/-- xoshiro128starstar.c 1.1 `next()`: `result = rotl(s[1] * 5, 7) * 9`. -/
def xoshiro128starstar (s : S4 32) : BitVec 32 × S4 32 := (rotl32 (s.s1 * 5#32) 7 * 9#32, xoshiro128Step s)

/-- Body of the inner loop of the reference `jump()`:
`if (JUMP[i] & UINT64_C(1) << b) { s0 ^= s[0]; … }  next();` — pair = (accumulator, state). -/
def jumpBit {w : Nat} (step : S4 w → S4 w) (jw : BitVec w) (as : S4 w × S4 w) (b : Nat) : S4 w × S4 w :=
  (if jw &&& (1#w <<< b) ≠ 0#w then as.1.xor as.2 else as.1, step as.2)

/-- The reference `jump()`: for every table word, for every bit `b < bits`; result = accumulator. -/
def jumpGeneric {w : Nat} (step : S4 w → S4 w) (table : List (BitVec w)) (bits : Nat) (s : S4 w) : S4 w :=
  (table.foldl (fun as jw => (List.range bits).foldl (jumpBit step jw) as) (S4.zero, s)).1

/-- `jump()` of xoshiro256+ / xoshiro256** (same polynomial): 2^128 calls of `next()`. -/
def xoshiro256jump : S4 64 → S4 64 :=
  jumpGeneric xoshiro256Step
    [0x180ec6d33cfd0aba#64, 0xd5a61266f0c9392c#64, 0xa9582618e03fc9aa#64, 0x39abdc4529b1661c#64] 64

/-- `jump()` of xoshiro128+ / xoshiro128**: 2^64 calls of `next()`. -/
def xoshiro128jump : S4 32 → S4 32 :=
  jumpGeneric xoshiro128Step [0x8764000b#32, 0xf542d2d3#32, 0x6fa035c3#32, 0x77f2db5b#32] 32

end Ref

/-! ## §2 The model, instantiated with the constants of the current source, is the reference

All by definitional unfolding (`rfl`): the left-hand sides are built from `Hfsm.Generated.Rng.*`,
the right-hand sides from literals, so editing any constant, shift, rotate, index, statement order or
JUMP word in the source makes a `params_*` theorem (and with it `facts_match_reference`) fail to
compile; the `*_matches` theorems then show that a generator with exactly these parameters is the
published algorithm. -/

/-- The constants of `SimpleRandomT<8>::raw64()` in the current source are the published ones.
(Closed terms: a changed constant fails here at once, naming the generator.) -/
theorem params_sm64 : sm64 =
    { inc := 0x9e3779b97f4a7c15#64, k1 := 30, m1 := 0xbf58476d1ce4e5b9#64,
      k2 := 27, m2 := 0x94d049bb133111eb#64, k3 := 31 } := rfl

theorem params_sm32 : sm32 =
    { inc := 0x9e3779b9#32, k1 := 16, m1 := 0x85ebca6b#32,
      k2 := 13, m2 := 0xc2b2ae35#32, k3 := 16 } := rfl

/-- Shape and constants of `FloatRandomT<8>::uint64()/jump()` in the current source. -/
theorem params_f8 : f8 =
    { width := 64, scr := .plus 0 3, tIdx := 1, shift := 17,
      xorSeq := [(2, 0), (3, 1), (1, 2), (0, 3)], tDst := 2, rotDst := 3, rotSrc := 3, rot := 45,
      jump := [0x180ec6d33cfd0aba, 0xd5a61266f0c9392c, 0xa9582618e03fc9aa, 0x39abdc4529b1661c],
      jumpBits := 64 } := rfl

theorem params_i8 : i8 =
    { width := 64, scr := .starstar 1 5 7 9, tIdx := 1, shift := 17,
      xorSeq := [(2, 0), (3, 1), (1, 2), (0, 3)], tDst := 2, rotDst := 3, rotSrc := 3, rot := 45,
      jump := [0x180ec6d33cfd0aba, 0xd5a61266f0c9392c, 0xa9582618e03fc9aa, 0x39abdc4529b1661c],
      jumpBits := 64 } := rfl

theorem params_f4 : f4 =
    { width := 32, scr := .plus 0 3, tIdx := 1, shift := 9,
      xorSeq := [(2, 0), (3, 1), (1, 2), (0, 3)], tDst := 2, rotDst := 3, rotSrc := 3, rot := 11,
      jump := [0x8764000b, 0xf542d2d3, 0x6fa035c3, 0x77f2db5b], jumpBits := 32 } := rfl

theorem params_i4 : i4 =
    { width := 32, scr := .starstar 1 5 7 9, tIdx := 1, shift := 9,
      xorSeq := [(2, 0), (3, 1), (1, 2), (0, 3)], tDst := 2, rotDst := 3, rotSrc := 3, rot := 11,
      jump := [0x8764000b, 0xf542d2d3, 0x6fa035c3, 0x77f2db5b], jumpBits := 32 } := rfl

theorem splitmix64_matches : raw sm64 = Ref.splitmix64 := by
  rw [params_sm64]; funext x; rfl

theorem splitmix32_matches : raw sm32 = Ref.splitmix32 := by
  rw [params_sm32]; funext x; rfl

theorem xoshiro256plus_matches : next (w := 64) f8 = Ref.xoshiro256plus := by
  rw [params_f8]; funext s; rfl

theorem xoshiro256starstar_matches : next (w := 64) i8 = Ref.xoshiro256starstar := by
  rw [params_i8]; funext s; rfl

theorem xoshiro128plus_matches : next (w := 32) f4 = Ref.xoshiro128plus := by
  rw [params_f4]; funext s; rfl

theorem xoshiro128starstar_matches : next (w := 32) i4 = Ref.xoshiro128starstar := by
  rw [params_i4]; funext s; rfl

/-- The model's double loop is the reference double loop once the step functions agree. -/
theorem jump_generic {w : Nat} (p : XoParams) (step : S4 w → S4 w)
    (hstep : ∀ s, (next p s).2 = step s) (s : S4 w) :
    jump p s = Ref.jumpGeneric step (p.jump.map (BitVec.ofNat w)) p.jumpBits s := by
  have hb : ∀ jw, jumpBit (w := w) p jw = Ref.jumpBit step jw := by
    intro jw; funext as b
    simp only [jumpBit, Ref.jumpBit, hstep]
    rfl
  have hw : jumpWord (w := w) p =
      fun as jw => (List.range p.jumpBits).foldl (Ref.jumpBit step (BitVec.ofNat w jw)) as := by
    funext as jw
    simp only [jumpWord, hb]
  simp only [jump, Ref.jumpGeneric, hw, List.foldl_map]

theorem xoshiro256plus_jump_matches : jump (w := 64) f8 = Ref.xoshiro256jump := by
  funext s
  rw [jump_generic f8 Ref.xoshiro256Step (fun s => by rw [xoshiro256plus_matches]; rfl)]
  rfl

theorem xoshiro256starstar_jump_matches : jump (w := 64) i8 = Ref.xoshiro256jump := by
  funext s
  rw [jump_generic i8 Ref.xoshiro256Step (fun s => by rw [xoshiro256starstar_matches]; rfl)]
  rfl

theorem xoshiro128plus_jump_matches : jump (w := 32) f4 = Ref.xoshiro128jump := by
  funext s
  rw [jump_generic f4 Ref.xoshiro128Step (fun s => by rw [xoshiro128plus_matches]; rfl)]
  rfl

theorem xoshiro128starstar_jump_matches : jump (w := 32) i4 = Ref.xoshiro128jump := by
  funext s
  rw [jump_generic i4 Ref.xoshiro128Step (fun s => by rw [xoshiro128starstar_matches]; rfl)]
  rfl

/-- Remaining source-derived facts the model uses, pinned to the values the argument relies on:
`uniform`'s constants, `widen`'s shift, seeding order and default seed, and the argument of `widen`
that receives the first draw in `uint64()` of the 4-byte variants. -/
theorem facts_misc :
    Rng.uni32Exp = 0x7F ∧ Rng.uni32ExpShift = 23 ∧ Rng.uni32Shift = 9 ∧
    Rng.uni64Exp = 0x3FF ∧ Rng.uni64ExpShift = 52 ∧ Rng.uni64Shift = 12 ∧
    Rng.widenShift = 32 ∧
    Rng.base8SeedOrder = [0, 1, 2, 3] ∧ Rng.base4SeedOrder = [0, 1, 2, 3] ∧
    Rng.base8DefaultSeed = 0 ∧ Rng.base4DefaultSeed = 0 ∧ Rng.wrappersRecognised = 1 ∧
    Rng.f4WidenFirstDrawArg = 0 ∧ Rng.i4WidenFirstDrawArg = 0 := by
  decide

/-- **facts_match_reference.**  Every generator of the model, built from the constants of the
current source, is extensionally the published algorithm — `next` and `jump()` of all four xoshiro
variants and both splitmix variants; consequently every output stream is the published sequence. -/
theorem facts_match_reference :
    raw sm64 = Ref.splitmix64 ∧ raw sm32 = Ref.splitmix32 ∧
    next (w := 64) f8 = Ref.xoshiro256plus ∧ next (w := 64) i8 = Ref.xoshiro256starstar ∧
    next (w := 32) f4 = Ref.xoshiro128plus ∧ next (w := 32) i4 = Ref.xoshiro128starstar ∧
    jump (w := 64) f8 = Ref.xoshiro256jump ∧ jump (w := 64) i8 = Ref.xoshiro256jump ∧
    jump (w := 32) f4 = Ref.xoshiro128jump ∧ jump (w := 32) i4 = Ref.xoshiro128jump :=
  ⟨splitmix64_matches, splitmix32_matches, xoshiro256plus_matches, xoshiro256starstar_matches,
   xoshiro128plus_matches, xoshiro128starstar_matches, xoshiro256plus_jump_matches,
   xoshiro256starstar_jump_matches, xoshiro128plus_jump_matches, xoshiro128starstar_jump_matches⟩

/-- Streams: `n` consecutive outputs of the model are `n` consecutive outputs of the reference,
from any state, also after `jump()` — all four xoshiro variants. -/
theorem stream_matches_reference (n : Nat) :
    (∀ s, stream (next f8) n s = stream Ref.xoshiro256plus n s ∧
          stream (next f8) n (jump f8 s) = stream Ref.xoshiro256plus n (Ref.xoshiro256jump s)) ∧
    (∀ s, stream (next i8) n s = stream Ref.xoshiro256starstar n s ∧
          stream (next i8) n (jump i8 s) = stream Ref.xoshiro256starstar n (Ref.xoshiro256jump s)) ∧
    (∀ s, stream (next f4) n s = stream Ref.xoshiro128plus n s ∧
          stream (next f4) n (jump f4 s) = stream Ref.xoshiro128plus n (Ref.xoshiro128jump s)) ∧
    (∀ s, stream (next i4) n s = stream Ref.xoshiro128starstar n s ∧
          stream (next i4) n (jump i4 s) = stream Ref.xoshiro128starstar n (Ref.xoshiro128jump s)) := by
  rw [xoshiro256plus_matches, xoshiro256plus_jump_matches, xoshiro256starstar_matches,
    xoshiro256starstar_jump_matches, xoshiro128plus_matches, xoshiro128plus_jump_matches,
    xoshiro128starstar_matches, xoshiro128starstar_jump_matches]
  exact ⟨fun _ => ⟨rfl, rfl⟩, fun _ => ⟨rfl, rfl⟩, fun _ => ⟨rfl, rfl⟩, fun _ => ⟨rfl, rfl⟩⟩

/-! ## §3 Seeding never produces a zero word (hence never the all-zero state) -/

/-- The splitmix64 output function maps exactly the counter value 0 to 0 (it is injective: three
xor-shifts with positive amounts and two multiplications by odd constants, inverses
`0x96de1b173f119089`, `0x319642b2d24d8ec3` exhibited in `Proofs.Rng.good64`). -/
theorem mix64_eq_zero_iff (z : BitVec 64) : mix sm64 z = 0#64 ↔ z = 0#64 :=
  mix_eq_zero_iff sm64 good64 z

theorem mix32_eq_zero_iff (z : BitVec 32) : mix sm32 z = 0#32 ↔ z = 0#32 :=
  mix_eq_zero_iff sm32 good32 z

theorem mix64_injective : Function.Injective (mix sm64) := mix_injective sm64 good64
theorem mix32_injective : Function.Injective (mix sm32) := mix_injective sm32 good32

/-- `SimpleRandomT<8>::uint64()`: for EVERY counter value the retry loop ends within two raw draws,
returns a non-zero number and leaves the counter advanced by one or (only when the first raw draw
was 0) two increments. -/
theorem draw64_terminates_nonzero (st : BitVec 64) :
    ∃ st' v, draw sm64 st = some (st', v) ∧ v ≠ 0#64 ∧
      ((st' = st + sm64.inc ∧ v = mix sm64 (st + sm64.inc)) ∨
       (mix sm64 (st + sm64.inc) = 0#64 ∧ st' = st + sm64.inc + sm64.inc ∧
        v = mix sm64 (st + sm64.inc + sm64.inc))) :=
  drawFuel_two sm64 good64 st

theorem draw32_terminates_nonzero (st : BitVec 32) :
    ∃ st' v, draw sm32 st = some (st', v) ∧ v ≠ 0#32 ∧
      ((st' = st + sm32.inc ∧ v = mix sm32 (st + sm32.inc)) ∨
       (mix sm32 (st + sm32.inc) = 0#32 ∧ st' = st + sm32.inc + sm32.inc ∧
        v = mix sm32 (st + sm32.inc + sm32.inc))) :=
  drawFuel_two sm32 good32 st

/-- The fuel of the model's retry loop is immaterial: any fuel ≥ 2 gives the same answer, so the
fuel-2 function is the unbounded C++ `for (;;)` loop. -/
theorem draw_fuel_irrelevant (fuel : Nat) (hf : 2 ≤ fuel) :
    (∀ st, drawFuel sm64 fuel st = draw sm64 st) ∧ (∀ st, drawFuel sm32 fuel st = draw sm32 st) :=
  ⟨fun st => drawFuel_stable sm64 good64 st fuel hf, fun st => drawFuel_stable sm32 good32 st fuel hf⟩

example : (2 : Nat) ≤ 1000 := by decide

/-- The retry branch is real: from the seed `-increment` the first raw draw is 0 and is skipped. -/
theorem retry_branch_taken :
    (raw sm64 (0#64 - sm64.inc)).2 = 0#64 ∧
    draw sm64 (0#64 - sm64.inc) = some (sm64.inc, mix sm64 sm64.inc) ∧
    (raw sm32 (0#32 - sm32.inc)).2 = 0#32 ∧
    draw sm32 (0#32 - sm32.inc) = some (sm32.inc, mix sm32 sm32.inc) := by
  decide

/-- Any number of `uint64()` / `uint32()` calls on a `SimpleRandomT` succeed and are all non-zero. -/
theorem simple_stream_nonzero {w : Nat} (p : SmParams w) (g : Good p) (n : Nat) (st : BitVec w) :
    ∃ vs st', drawStream p n st = some (vs, st') ∧ vs.length = n ∧ ∀ v ∈ vs, v ≠ 0#w := by
  induction n generalizing st with
  | zero => exact ⟨[], st, rfl, rfl, by simp⟩
  | succ n ih =>
    obtain ⟨c, v, e, hv, _⟩ := drawFuel_two p g st
    obtain ⟨vs, c', e', hl, hall⟩ := ih c
    refine ⟨v :: vs, c', ?_, by simp [hl], ?_⟩
    · simp [drawStream, draw, drawBudget, e, e']
    · intro x hx
      cases hx with
      | head => exact hv
      | tail _ h => exact hall x h

example : ∃ vs st', drawStream sm64 5 0#64 = some (vs, st') ∧ vs.length = 5 ∧ ∀ v ∈ vs, v ≠ 0#64 :=
  simple_stream_nonzero sm64 good64 5 0#64

/-- **`BaseRandomT<8>` seeding**: for EVERY 64-bit seed the four state words are all non-zero. -/
theorem seed64_words_nonzero (sd : BitVec 64) :
    ∃ s, seed64 sd = some s ∧ s.s0 ≠ 0#64 ∧ s.s1 ≠ 0#64 ∧ s.s2 ≠ 0#64 ∧ s.s3 ≠ 0#64 :=
  seedFill_four sm64 good64 sd

/-- **`BaseRandomT<4>` seeding**: for EVERY 32-bit seed the four state words are all non-zero. -/
theorem seed32_words_nonzero (sd : BitVec 32) :
    ∃ s, seed32 sd = some s ∧ s.s0 ≠ 0#32 ∧ s.s1 ≠ 0#32 ∧ s.s2 ≠ 0#32 ∧ s.s3 ≠ 0#32 :=
  seedFill_four sm32 good32 sd

/-- The seeding routine never hands out the all-zero xoshiro state (either width, every seed). -/
theorem seeding_never_all_zero :
    (∀ sd : BitVec 64, ∃ s, seed64 sd = some s ∧ s ≠ S4.zero) ∧
    (∀ sd : BitVec 32, ∃ s, seed32 sd = some s ∧ s ≠ S4.zero) := by
  constructor
  · intro sd
    obtain ⟨s, e, h0, _⟩ := seed64_words_nonzero sd
    exact ⟨s, e, fun h => h0 (by rw [h]; rfl)⟩
  · intro sd
    obtain ⟨s, e, h0, _⟩ := seed32_words_nonzero sd
    exact ⟨s, e, fun h => h0 (by rw [h]; rfl)⟩

/-! ## §4 Determinism

The model consists of pure total functions, so equal inputs give equal outputs by construction; the
content of the statements below is *totality*: for every seed the seeding succeeds (never runs out
of fuel), hence every observation of a generator object — any number of outputs of any kind, before or
after any number of `jump()`s — is one well-defined value depending on the seed only. -/

/-- Every observation `obs` of a freshly seeded 8-byte generator is a function of the seed. -/
theorem seeded_observation_determined64 {α : Type} (obs : S4 64 → α) (sd : BitVec 64) :
    ∃ a, (seed64 sd).map obs = some a ∧ ∀ b, (seed64 sd).map obs = some b → b = a := by
  obtain ⟨s, e, _⟩ := seed64_words_nonzero sd
  refine ⟨obs s, by rw [e]; rfl, ?_⟩
  intro b hb
  rw [e] at hb
  exact (Option.some.inj hb).symm

/-- Every observation `obs` of a freshly seeded 4-byte generator is a function of the seed. -/
theorem seeded_observation_determined32 {α : Type} (obs : S4 32 → α) (sd : BitVec 32) :
    ∃ a, (seed32 sd).map obs = some a ∧ ∀ b, (seed32 sd).map obs = some b → b = a := by
  obtain ⟨s, e, _⟩ := seed32_words_nonzero sd
  refine ⟨obs s, by rw [e]; rfl, ?_⟩
  intro b hb
  rw [e] at hb
  exact (Option.some.inj hb).symm

/-- Instances: the `uint64()` stream of `FloatRandomT<8>`, the `float32()` stream (as bit patterns) of
`FloatRandomT<4>` after one `jump()`, the `uint32()` stream of `IntRandomT<8>`, the `uint64()` stream of
`IntRandomT<4>` and the `float64()` stream of `FloatRandomT<4>` (both built from two 32-bit draws in
the source-defined order) — each is determined by the seed, for every length. -/
theorem output_streams_determined_by_seed (n : Nat) :
    (∀ sd, ∃ l, (seed64 sd).map (stream (next f8) n) = some l ∧
        ∀ l', (seed64 sd).map (stream (next f8) n) = some l' → l' = l) ∧
    (∀ sd, ∃ l, (seed32 sd).map (fun s => stream (float32of32 f4) n (jump f4 s)) = some l ∧
        ∀ l', (seed32 sd).map (fun s => stream (float32of32 f4) n (jump f4 s)) = some l' → l' = l) ∧
    (∀ sd, ∃ l, (seed64 sd).map (stream (next32of64 i8) n) = some l ∧
        ∀ l', (seed64 sd).map (stream (next32of64 i8) n) = some l' → l' = l) ∧
    (∀ sd, ∃ l, (seed32 sd).map (stream i4next64 n) = some l ∧
        ∀ l', (seed32 sd).map (stream i4next64 n) = some l' → l' = l) ∧
    (∀ sd, ∃ l, (seed32 sd).map (stream f4float64 n) = some l ∧
        ∀ l', (seed32 sd).map (stream f4float64 n) = some l' → l' = l) :=
  ⟨fun sd => seeded_observation_determined64 _ sd,
   fun sd => seeded_observation_determined32 _ sd,
   fun sd => seeded_observation_determined64 _ sd,
   fun sd => seeded_observation_determined32 _ sd,
   fun sd => seeded_observation_determined32 _ sd⟩

/-- Two objects in the same state stay in lock step: the stream splits at any point into a prefix
and the stream of the state reached (so "position `k` of the stream" is well defined). -/
theorem stream_append {σ α : Type} (f : σ → α × σ) (n m : Nat) (s : σ) :
    ∃ s', stream f (n + m) s = stream f n s ++ stream f m s' := by
  induction n generalizing s with
  | zero => exact ⟨s, by simp [stream]⟩
  | succ n ih =>
    obtain ⟨s', h⟩ := ih (f s).2
    refine ⟨s', ?_⟩
    have : n + 1 + m = (n + m) + 1 := by omega
    rw [this]
    simp only [stream, h, List.cons_append]

/-! ## §5 `uniform` is exact and stays in [0,1) -/

/-- `uniform(uint32_t x)` returns exactly `(x >> 9) / 2^23` (given the trusted IEEE step in the
header comment: the constructed float has exponent field 127 and mantissa field `x >> 9`, i.e. value
`1 + (x >> 9)/2^23`, and subtracting `1.0f` from a float in [1,2) is exact). -/
theorem uniform32_exact (x : BitVec 32) : uniformRat32 x = ((x >>> 9).toNat : Rat) / 2 ^ 23 := by
  rw [uniformRat32, f32Value_uniformArg]
  grind

theorem uniform64_exact (x : BitVec 64) : uniformRat64 x = ((x >>> 12).toNat : Rat) / 2 ^ 52 := by
  rw [uniformRat64, f64Value_uniformArg]
  grind

/-- Every `float` returned by `uniform(uint32_t)` lies in [0,1). -/
theorem uniform32_range (x : BitVec 32) : 0 ≤ uniformRat32 x ∧ uniformRat32 x < 1 := by
  rw [uniform32_exact]
  exact frac_range _ 23 (ushiftRight_lt32 x)

/-- Every `double` returned by `uniform(uint64_t)` lies in [0,1). -/
theorem uniform64_range (x : BitVec 64) : 0 ≤ uniformRat64 x ∧ uniformRat64 x < 1 := by
  rw [uniform64_exact]
  exact frac_range _ 52 (ushiftRight_lt64 x)

/-- The result bit pattern the driver predicts (and compares hex for hex with the real code) is a
binary32 number whose value is exactly `uniformRat32 x`. -/
theorem uniform32_bits_value (x : BitVec 32) : f32Value (uniformBits32 x) = uniformRat32 x := by
  rw [uniform32_exact, f32Value_uniformBits]

theorem uniform64_bits_value (x : BitVec 64) : f64Value (uniformBits64 x) = uniformRat64 x := by
  rw [uniform64_exact, f64Value_uniformBits]

/-- Every `float32()` / `float64()` result of every bundled generator, from every state, denotes a
number in [0,1): they are all `uniform` of an integer draw. -/
theorem float_outputs_in_unit_interval (p : XoParams) (o : Nat) :
    (∀ s : S4 64, 0 ≤ f32Value (float32of64 p s).1 ∧ f32Value (float32of64 p s).1 < 1) ∧
    (∀ s : S4 64, 0 ≤ f64Value (float64of64 p s).1 ∧ f64Value (float64of64 p s).1 < 1) ∧
    (∀ s : S4 32, 0 ≤ f32Value (float32of32 p s).1 ∧ f32Value (float32of32 p s).1 < 1) ∧
    (∀ s : S4 32, 0 ≤ f64Value (float64of32 o p s).1 ∧ f64Value (float64of32 o p s).1 < 1) := by
  refine ⟨fun s => ?_, fun s => ?_, fun s => ?_, fun s => ?_⟩
  · simp only [float32of64, uniform32_bits_value]; exact uniform32_range _
  · simp only [float64of64, uniform64_bits_value]; exact uniform64_range _
  · simp only [float32of32, uniform32_bits_value]; exact uniform32_range _
  · simp only [float64of32, uniform64_bits_value]; exact uniform64_range _

/-- The bounds are attained / approached: `uniform(0) = 0` and `uniform(0xFFFFFFFF) = 1 - 2^-23`. -/
theorem uniform32_extremes :
    uniformBits32 0#32 = 0#32 ∧ uniformBits32 0xFFFFFFFF#32 = 0x3F7FFFFE#32 ∧
    uniformBits64 0#64 = 0#64 ∧ uniformBits64 0xFFFFFFFFFFFFFFFF#64 = 0x3FEFFFFFFFFFFFFE#64 := by
  decide

/-! ## §6 `uint64()` / `float64()` of the 4-byte variants: defined order of the two draws

Current source (random.hpp): `{ const uint32_t x = uint32(); const uint32_t y = uint32(); return widen(x, y); }`.
The two draws are separate, sequenced declarations, so which draw becomes which half is fixed by the
language; the extractor reads it out of the source (`f4/i4WidenFirstDrawArg`, pinned to 0 in
`facts_misc`) and refuses any shape whose evaluation order is not defined.  The harness still measures
the order the binary exhibits; the driver reports a divergence if it differs from the source fact.

Historical remark.  Before the repair ("fix: draw the two halves of the 32-bit generators' uint64() in a
defined order") the body was `return widen(uint32(), uint32());`: the two calls are indeterminately
sequenced, g++ 12 drew the right argument first and clang 14 the left one (measured, -O0…-O3), so the
value depended on the compiler.  This file then carried the order as a measured parameter, a
`next64of32_determined_partial` theorem and the witness that is kept below as
`widen_order_would_matter` (it shows the order fact is not idle: swapping it changes the value). -/

/-- The source passes the FIRST draw to `widen`'s first argument, in both 4-byte generators.
(Closed terms: a swapped `widen(y, x)` fails here at once.) -/
theorem params_widen_order : Rng.f4WidenFirstDrawArg = 0 ∧ Rng.i4WidenFirstDrawArg = 0 := ⟨rfl, rfl⟩

/-- **Full statement** (replaces the former `_partial`): `uint64()` of `FloatRandomT<4>` and
`IntRandomT<4>` is a function of the object's state alone — the first `uint32()` draw is the high
half, the second the low half, and the state left behind is the state after two draws. -/
theorem uint64of32_first_draw_high :
    (∀ s, f4next64 s = (widen (next f4 s).1 (next f4 (next f4 s).2).1, (next f4 (next f4 s).2).2)) ∧
    (∀ s, i4next64 s = (widen (next i4 s).1 (next i4 (next i4 s).2).1, (next i4 (next i4 s).2).2)) := by
  constructor
  · intro s; unfold f4next64 next64of32; rw [params_widen_order.1]; rfl
  · intro s; unfold i4next64 next64of32; rw [params_widen_order.2]; rfl

/-- `widen` puts its first argument in bits 63…32 and its second in bits 31…0. -/
theorem widen_halves (x y : BitVec 32) :
    (widen x y).toNat = x.toNat * 2 ^ 32 + y.toNat := by
  have hx : x.toNat < 2 ^ 32 := x.isLt
  have hy : y.toNat < 2 ^ 32 := y.isLt
  simp only [widen, Rng.widenShift, BitVec.toNat_or, BitVec.toNat_shiftLeft, BitVec.truncate_eq_setWidth,
    BitVec.toNat_setWidth]
  rw [Nat.mod_eq_of_lt (by omega : x.toNat < 2 ^ 64), Nat.mod_eq_of_lt (by omega : y.toNat < 2 ^ 64),
    Nat.shiftLeft_eq, Nat.mod_eq_of_lt (by omega : x.toNat * 2 ^ 32 < 2 ^ 64)]
  rw [← Nat.shiftLeft_eq, ← Nat.shiftLeft_add_eq_or_of_lt hy]

/-- The state left behind by `uint64()` does not depend on which half is which. -/
theorem next64of32_state (o o' : Nat) (p : XoParams) (s : S4 32) :
    (next64of32 o p s).2 = (next64of32 o' p s).2 := by
  unfold next64of32
  split <;> split <;> rfl

/-- Why the order fact matters (the pre-repair witness): on the state seeded with 12345 the two
possible orders give different `uint64()` values for both 4-byte generators. -/
theorem widen_order_would_matter :
    ∃ s, seed32 12345#32 = some s ∧
      (next64of32 0 i4 s).1 ≠ (next64of32 1 i4 s).1 ∧
      (next64of32 0 f4 s).1 ≠ (next64of32 1 f4 s).1 := by
  decide

/-
Theorems that constitute property C20
  facts_match_reference            model with current-source constants = published splitmix64/32,
                                   xoshiro256+/**, xoshiro128+/** next and jump()
    (params_sm64 params_sm32 params_f8 params_i8 params_f4 params_i4 : current-source constants = published)
    (splitmix64_matches splitmix32_matches xoshiro256plus_matches xoshiro256starstar_matches
     xoshiro128plus_matches xoshiro128starstar_matches xoshiro256plus_jump_matches
     xoshiro256starstar_jump_matches xoshiro128plus_jump_matches xoshiro128starstar_jump_matches)
  facts_misc                       uniform / widen / seeding-order constants of the source
  stream_matches_reference         output streams (also after jump) are the reference streams
  mix64_eq_zero_iff mix32_eq_zero_iff mix64_injective mix32_injective
  draw64_terminates_nonzero draw32_terminates_nonzero draw_fuel_irrelevant retry_branch_taken
  simple_stream_nonzero
  seed64_words_nonzero seed32_words_nonzero seeding_never_all_zero
  seeded_observation_determined64 seeded_observation_determined32
  output_streams_determined_by_seed stream_append
  uniform32_exact uniform64_exact uniform32_range uniform64_range
  uniform32_bits_value uniform64_bits_value float_outputs_in_unit_interval uniform32_extremes
  params_widen_order uint64of32_first_draw_high widen_halves next64of32_state
                                                             (4-byte uint64()/float64(): defined order)
  widen_order_would_matter                                   (remark: the order fact is not idle)
-/

end Hfsm.Props.C20
