/-
Property C04 — "Guards precede any change; a vetoed round changes nothing; rounds are bounded".

Everything is about `Mach.processRequest` (= `R_::processRequest` + `processTransitions`, root_0.inl), its
substitution loop `Mach.rounds` (iteration of `Mach.roundStep`, Proofs/Rounds.lean) and the walks it
calls.  Statements hold for every tree, every world (= every stream of callback decisions and random
numbers), every queue; proofs are by structural induction on the fuel of the loop and on the tree
(`Proofs/Steps*.lean`, `Rounds.lean`, `GuardCancel.lean`, `TreeFrame.lean`, `Coverage*.lean`,
`GuardVisit.lean`).  The trace is newest first: `w.trace = new ++ old`.

  (a) bounded        rounds_bounded, guard_phases_bounded, first_activation_rounds_bounded,
                     first_activation_entry_guards_only
  (b) order, pend    step_trace (the `LoopRun` specification), guard_phase_order, exit_veto_skips_entry_walk,
                     approved_round_not_cancelled, cancel_vetoes_round, guard_answer_false_iff,
                     orthogonal_siblings_all_evaluated, composite_short_circuit
  (c) commit last    lifecycle_after_guards, loop_has_no_lifecycle, commit_delivers_only_commitActs,
                     approved_guards_cover_commit_partial, commit_set_ignores_resumable,
                     unguarded_commit_witness (the full statement is FALSE of the code: witness)
  (d) veto           vetoed_round_restores_backup, round_without_schedule_keeps_resumable,
                     round_emits_no_lifecycle, vetoed_round_clears_targets, nothing_approved_nothing_changed,
                     silent_veto_witness (a round can be vetoed although no guard cancelled: witness)
  (e) substitution   loop_unfolds, round_queue_is_guard_output, apply_phase_keeps_queue
-/
import Hfsm.Proofs.CoverageMach
import Hfsm.Proofs.Witness
import Hfsm.Proofs.Reach

set_option linter.unusedSectionVars false

namespace Hfsm.Props.C04
open Hfsm Hfsm.Mach
variable {U : Type} [UtilArith U]

/-! ## (a) rounds are bounded -/

/-- The substitution loop of a processing step runs at most `SUBSTITUTION_LIMIT` rounds (`stepLog` is the
ghost log of the loop: requests and outcome of every round). Termination itself is structural. -/
theorem rounds_bounded (m : Mach U) : m.stepLog.length ≤ m.w.cfg.substitutionLimit := by
  unfold stepLog
  rw [← stepStart_cfg m]
  exact roundsLog_length_le _ _ _ _ _

/-- The same bound read off the trace: the guard callbacks of one step show at most `SUBSTITUTION_LIMIT`
different consecutive `pendingTransitions` lists (this is what tools/oracle_c04.py counts). -/
theorem guard_phases_bounded (m : Mach U) (hne : m.w.requests.isEmpty = false) :
    ∃ new, m.processRequest.w.trace = new ++ m.w.trace ∧ runs (guardPends new) ≤ m.w.cfg.substitutionLimit := by
  obtain ⟨life, evs, ht, hl, hlife, _, _⟩ := processRequest_trace m hne
  refine ⟨life ++ evs, ht, ?_⟩
  have h0 : guardPends life = [] := by
    unfold guardPends
    rw [List.filterMap_eq_nil_iff]
    intro e he
    cases e with
    | log r => rfl
    | cb sid meth slot obs p c =>
      have hc : meth.cls = .plan := (hlife _ he).1
      simp only [Event.guardPend?]
      rw [if_neg]; intro hg; rw [hg] at hc; cases hc
  have : guardPends (life ++ evs) = guardPends evs := by
    unfold guardPends at h0 ⊢
    rw [List.filterMap_append, h0, List.nil_append]
  rw [this]
  exact hl.guard_phases_le

example : ∃ m : Mach Nat, m.w.requests.isEmpty = false :=
  ⟨(Witness.start Witness.shapeC).request .change 2 none, by decide +kernel⟩

/-- The loop of the first activation (`R_::initialEnter`) obeys the same bound, and consults entry guards
only. -/
theorem first_activation_rounds_bounded (fuel : Nat) (m : Mach U) (backup : Node) (current : List Transition) :
    (roundsLog true fuel m backup current).length ≤ fuel := roundsLog_length_le true fuel m backup current

theorem first_activation_entry_guards_only (m : Mach U) (backup : Node) (current : List Transition)
    (hs : TargetsSized m.w) :
    ∃ fwd entry, (roundStep true m backup current).1.w.trace = entry ++ fwd ++ m.w.trace ∧
      (∀ e ∈ fwd, FwdEv e) ∧ (∀ e ∈ entry, GuardEv .entryGuard m.w.requests current e) := by
  obtain ⟨fwd, exit, entry, sp⟩ := roundStep_spec true m backup current hs
  have := sp.initialNoExit rfl
  subst this
  exact ⟨fwd, entry, by simpa using sp.trace, sp.fwdEv, sp.entryEv⟩

/-! ## (b) order inside a round, what the guards see, where the walks stop -/

/-- **The trace of a processing step.** `LoopRun limit [] evs log` (Proofs/Rounds.lean) says: `evs` is, newest
first, the concatenation over the rounds of `entryEvs ++ exitEvs ++ fwdEvs`, where `fwdEvs` are
`select / rank / utility` callbacks and log records of the apply phase, `exitEvs` are `exitGuard`
callbacks and `entryEvs` `entryGuard` callbacks, every guard callback showing
`pendingTransitions` = that round's requests and `currentTransitions` = the requests of the rounds
approved before it; a round that did not change the marks has no guard events.  After the loop, and
only if something was approved, come the lifecycle callbacks of the one commit pass, showing all
approved requests as `currentTransitions`. -/
theorem step_trace (m : Mach U) (hne : m.w.requests.isEmpty = false) :
    ∃ life evs, m.processRequest.w.trace = life ++ evs ++ m.w.trace ∧
      LoopRun m.w.cfg.substitutionLimit [] evs m.stepLog ∧
      (∀ e ∈ life, LifeEv (approvedOf m.stepLog) e) ∧ (approvedOf m.stepLog = [] → life = []) := by
  obtain ⟨life, evs, ht, hl, hlife, hnil, hc⟩ := processRequest_trace m hne
  exact ⟨life, evs, ht, hl, hc ▸ hlife, hc ▸ hnil⟩

/-- One guard phase (`R_::approvedByGuards`): first the forward exit-guard walk, then the forward entry-guard
walk; every callback sees the round's requests as pending and the approved ones as current; the tree
and `transitionTargets` are not touched; an answer `true` means nobody cancelled. -/
theorem guard_phase_order (m : Mach U) (curr pend : List Transition) :
    ∃ entryEvs exitEvs,
      (m.approvedByGuards curr pend).1.w.trace = entryEvs ++ exitEvs ++ m.w.trace ∧
      (∀ e ∈ exitEvs, GuardEv .exitGuard pend curr e) ∧ (∀ e ∈ entryEvs, GuardEv .entryGuard pend curr e) ∧
      (m.approvedByGuards curr pend).1.root = m.root ∧
      (m.approvedByGuards curr pend).1.w.targets = m.w.targets := by
  obtain ⟨en, ex, g⟩ := approvedByGuards_rel m curr pend
  exact ⟨en, ex, g.trace, g.exitEv, g.entryEv, approvedByGuards_root m curr pend, g.targets⟩

/-- If the exit-guard walk answers `false`, the entry-guard walk is not run at all. -/
theorem exit_veto_skips_entry_walk (m : Mach U) (curr pend : List Transition)
    (h : (m.root.fwdExitGuard (({ m.w.freshControl with pending := pend, current := curr }).snapshot m.root true true)).2 = false) :
    m.approvedByGuards curr pend =
      ({ m with w := (m.root.fwdExitGuard (({ m.w.freshControl with pending := pend, current := curr }).snapshot m.root true true)).1 }, false) := by
  unfold approvedByGuards
  dsimp only
  rw [h]
  rfl

/-- An approved guard phase ends with `_cancelled = false`: no guard of the round called
`cancelPendingTransitions()`. -/
theorem approved_round_not_cancelled (m : Mach U) (curr pend : List Transition)
    (h : (m.approvedByGuards curr pend).2 = true) : (m.approvedByGuards curr pend).1.w.cancelled = false := by
  obtain ⟨_, _, g⟩ := approvedByGuards_rel m curr pend
  exact g.noCancel h

/-- Contrapositive: once a guard has cancelled, the round is vetoed. -/
theorem cancel_vetoes_round (m : Mach U) (curr pend : List Transition)
    (h : (m.approvedByGuards curr pend).1.w.cancelled = true) : (m.approvedByGuards curr pend).2 = false := by
  cases hb : (m.approvedByGuards curr pend).2 with
  | false => rfl
  | true => rw [approved_round_not_cancelled m curr pend hb] at h; cases h

/-- `S_::deepEntryGuard / deepExitGuard`: a state's guard answers `false` exactly when it is the one that
flips `_cancelled` (guards evaluated after a cancellation answer `true`). -/
theorem guard_answer_false_iff (w : World U) (sid inj : Nat) (headed : Bool) (g : Method) :
    (w.guardState sid inj headed g).2 = false ↔
      (w.cancelled = false ∧ (w.guardState sid inj headed g).1.cancelled = true) := by
  unfold World.guardState
  dsimp only
  cases w.cancelled <;> cases (w.stateMethod sid inj headed g).cancelled <;> simp

/-- Orthogonal siblings are all evaluated, whatever the earlier ones answered (`OS_::wideEntryGuard`; the
same holds for `exitGuardAll`, `fwd*GuardAll`, `fwd*GuardBits` by their definitions). -/
theorem orthogonal_siblings_all_evaluated (b : Bool) (n : Node) (r : Subs) (w : World U) :
    (Subs.cons b n r).entryGuardAll w =
      ((r.entryGuardAll (n.entryGuard w).1).1, (n.entryGuard w).2 && (r.entryGuardAll (n.entryGuard w).1).2) := by
  simp only [Subs.entryGuardAll]

/-- A composite region short-circuits: when its head's entry guard answers `false`, the guard of the
requested sub-state is not invoked (the world is the one left by the head's guard). -/
theorem composite_short_circuit (id rid inj : Nat) (hd : Bool) (st : Strategy) (a r : Option Nat) (qi : Nat)
    (rm : Bool) (s : Subs) (w : World U)
    (h : ((w.pushRegion rid id (1 + s.size)).1.guardState id inj hd .entryGuard).2 = false) :
    (Node.compo id rid inj hd st a r (some qi) rm s).entryGuard w =
      ((((w.pushRegion rid id (1 + s.size)).1.guardState id inj hd .entryGuard).1).popRegion
        (w.pushRegion rid id (1 + s.size)).2, false) := by
  simp only [Node.entryGuard, h, Bool.false_eq_true, if_false]

/-! ## (c) the commit pass runs once, after all guards -/

/-- No event of the substitution loop is a lifecycle callback … -/
theorem loop_has_no_lifecycle {n : Nat} {curr : List Transition} {evs : List (Event U)}
    {log : List (List Transition × Outcome)} (h : LoopRun n curr evs log) : ∀ e ∈ evs, NotLife e :=
  h.no_lifecycle

/-- … hence in the trace of a step every `enter / exit / reenter` comes after (is newer than) every guard
callback of the step: `trace = life ++ evs ++ old` with `life` lifecycle callbacks only and `evs` free of
them. -/
theorem lifecycle_after_guards (m : Mach U) (hne : m.w.requests.isEmpty = false) :
    ∃ life evs, m.processRequest.w.trace = life ++ evs ++ m.w.trace ∧
      (∀ e ∈ evs, NotLife e) ∧ (∀ e ∈ life, LifeEv (approvedOf m.stepLog) e) := by
  obtain ⟨life, evs, ht, hl, hlife, _⟩ := step_trace m hne
  exact ⟨life, evs, ht, hl.no_lifecycle, hlife⟩

/-- The commit pass delivers exactly the callbacks `commitActs` computes from the tree. -/
theorem commit_delivers_only_commitActs (n : Node) (w : World U) :
    ∃ evs, (n.commit w).2.trace = evs ++ w.trace ∧
      ∀ sid meth slot obs pend cur, Event.cb sid meth slot obs pend cur ∈ evs → (sid, meth) ∈ n.commitActs :=
  Mach.commit_delivers_only_commitActs n w

/-- `commitActs` does not look at resumable marks: the tree the commit pass runs on equals the tree of
the last approved round up to resumable marks (`vetoed_round_restores_backup`), so it commits what
that round's guards were shown. -/
theorem commit_set_ignores_resumable {a b : Node} (h : a.noResumable = b.noResumable) :
    a.commitActs = b.commitActs := Node.commitActs_congr h

/-
FULL STATEMENT (false of the code, see `unguarded_commit_witness`):
  "every state the commit pass exits / enters / re-enters had its exit / entry guard invoked in the
   approved round whose marks it commits".
The guard walks enter only the orthogonal sub-states that carry a request bit
(`O_::deepForwardExitGuard/EntryGuard`: `if (requested) wideForward…(requested) else wideForward…()`), the
commit pass (`O_::deepChangeToRequested`) walks all of them.  A request addressed to the orthogonal
region itself (or to the root) marks sub-regions without setting bits; a second request of the same
batch sets a bit elsewhere; the unmarked-by-bit regions are then committed unguarded.
-/

/-- **(c), partial:** under the decidable hypothesis `BitsOK` (inside an active orthogonal region with
request bits the sub-states without a bit have nothing to commit) an approved guard phase has invoked
the exit guard of every state the commit pass of that tree exits and the entry guard of every state
it enters or re-enters; exit guards before entry guards. (`err = none`: the scripted decisions did not
run out, i.e. every callback the walk wanted to invoke was in fact invoked.) -/
theorem approved_guards_cover_commit_partial (m : Mach U) (curr pend : List Transition)
    (hb : m.root.BitsOK = true) (hok : (m.approvedByGuards curr pend).2 = true)
    (herr : (m.approvedByGuards curr pend).1.w.err = none) :
    ∃ entryEvs exitEvs, (m.approvedByGuards curr pend).1.w.trace = entryEvs ++ exitEvs ++ m.w.trace ∧
      ∀ p ∈ m.root.commitActs,
        (p.2 = .exit → HasCb exitEvs p.1 .exitGuard) ∧
        (p.2 = .enter ∨ p.2 = .reenter → HasCb entryEvs p.1 .entryGuard) :=
  Mach.approved_guards_cover_commit m curr pend hb hok herr

namespace W
open Hfsm.Witness

/-- the instance of `shapeO` with region 5 in its second sub-state (the inner orthogonal region 7) -/
def base : Mach Nat := (fresh (start shapeO) (idle 40)).immediate .change 7 none
/-- … with `changeTo(0)` and `changeTo(1)` queued (harness: `req C 0 -`, `imm C 1 -`) -/
def queued : Mach Nat := ((fresh base (idle 40)).request .change 0 none).request .change 1 none
/-- the tree after the apply phase of the only round -/
def applied : Node := (queued.stepStart.applyAll queued.w.requests 0).root
/-- a settled tree that satisfies the hypotheses of the partial theorem non-trivially -/
def good : Mach Nat := ((fresh base (idle 40)).request .change 6 none)
end W

/-- the hypotheses of `approved_guards_cover_commit_partial` are satisfiable with something to commit -/
example : (W.good.stepStart.applyAll W.good.w.requests 0).root.BitsOK = true ∧
    (W.good.stepStart.applyAll W.good.w.requests 0).root.commitActs ≠ [] := by decide +kernel

/-- **Witness that the full statement of (c) is false** (reproduced on the real library, transcript in the
report): on the orthogonal-root machine `shapeO`, the batch `[changeTo(0), changeTo(1)]` is approved in
one round in which only state 2's guards run; the commit pass then exits 8, 9, 10, 7 and enters 6 — no
guard of these states was ever invoked.  `BitsOK` is false of that tree. -/
theorem unguarded_commit_witness :
    W.queued.stepLog = [([⟨none, 0, .change, none⟩, ⟨none, 1, .change, none⟩], .approved)] ∧
    Witness.cbs W.queued.processRequest =
      [(2, .exitGuard), (2, .entryGuard), (2, .reenter), (8, .exit), (9, .exit), (10, .exit), (7, .exit), (6, .enter)] ∧
    W.queued.processRequest.w.err = none ∧ W.applied.BitsOK = false ∧
    (7, Method.exit) ∈ W.applied.commitActs ∧ 7 ∉ W.applied.fwdExitIds := by
  decide +kernel

/-! ## (d) a vetoed round changes nothing -/

/-- What a round does to the tree. `backup` is the tree of the last approved round (or the tree the step
started with); the loop keeps `m.root.frozen = backup.frozen` (same structure and active prongs).
Approved: the applied marks become the new backup. Vetoed: the tree is the backup again, except that
resumable marks are those left by the apply phase (`schedule` requests are not transitions and apply
regardless). Unchanged: marks equal the backup's. -/
theorem vetoed_round_restores_backup (initial : Bool) (m : Mach U) (backup : Node) (current : List Transition)
    (hinv : m.root.frozen = backup.frozen) :
    let r := roundStep initial m backup current
    let applied := (m.applyAll m.w.requests 0).root
    (r.2.2.2 = .approved → r.2.1 = applied ∧ r.1.root = applied) ∧
    (r.2.2.2 = .vetoed → r.2.1 = backup ∧ r.1.root = backup.withResumableOf applied) ∧
    (r.2.2.2 = .unchanged → r.2.1 = backup ∧ r.1.root = applied) ∧
    r.1.root.frozen = r.2.1.frozen ∧ r.1.root.marksDiffer r.2.1 = false :=
  roundStep_tree initial m backup current hinv

example : (Witness.start Witness.shapeC).root.frozen = (Witness.start Witness.shapeC).root.frozen := rfl

/-- The apply phase never touches structure or active prongs, and without `schedule` requests it touches
request marks only (so the resumable marks a vetoed round leaves are the old ones). -/
theorem round_without_schedule_keeps_resumable (m : Mach U) (ts : List Transition) (i : Nat) :
    (m.applyAll ts i).root.frozen = m.root.frozen ∧
    ((∀ t ∈ ts, t.kind ≠ .schedule) → (m.applyAll ts i).root.clearMarks = m.root.clearMarks) :=
  ⟨applyAll_frozen ts m i, applyAll_clearMarks ts m i⟩

/-- No round — vetoed, approved or unchanged — delivers a lifecycle callback: its events are forward-pass
callbacks (`select / rank / utility`) and guard callbacks. It does not touch `previousTransitions`. -/
theorem round_emits_no_lifecycle (initial : Bool) (m : Mach U) (backup : Node) (current : List Transition)
    (hs : TargetsSized m.w) :
    ∃ fwd exit entry, (roundStep initial m backup current).1.w.trace = entry ++ exit ++ fwd ++ m.w.trace ∧
      (∀ e ∈ fwd, FwdEv e) ∧ (∀ e ∈ exit, GuardEv .exitGuard m.w.requests current e) ∧
      (∀ e ∈ entry, GuardEv .entryGuard m.w.requests current e) ∧
      (roundStep initial m backup current).1.w.previous = m.w.previous := by
  obtain ⟨fwd, exit, entry, sp⟩ := roundStep_spec initial m backup current hs
  exact ⟨fwd, exit, entry, sp.trace, sp.fwdEv, sp.exitEv, sp.entryEv, sp.previous⟩

example : TargetsSized (Witness.start Witness.shapeC).stepStart.w := stepStart_sized _

/-- A vetoed round of a processing step clears `transitionTargets` (when the history feature is on), and
its requests are not appended to `currentTransitions`. -/
theorem vetoed_round_clears_targets (m : Mach U) (backup : Node) (current : List Transition)
    (hs : TargetsSized m.w) (hv : (roundStep false m backup current).2.2.2 = .vetoed)
    (hh : m.w.cfg.history = true) :
    (∀ s, (roundStep false m backup current).1.w.targets.getD s none = none) ∧
    (roundStep false m backup current).2.2.1 = current := by
  obtain ⟨_, _, _, sp⟩ := roundStep_spec false m backup current hs
  refine ⟨sp.vetoTargets hv rfl hh, ?_⟩
  rw [sp.current, hv]; rfl

/-- **A step in which no round is approved changes nothing:** no lifecycle callback at all, and the tree
after the step equals the tree before it in structure and active prongs, with no request marks left
(`noResumable` forgets the resumable marks, which scheduling may have changed). -/
theorem nothing_approved_nothing_changed (m : Mach U) (hne : m.w.requests.isEmpty = false)
    (hnone : approvedOf m.stepLog = []) :
    m.processRequest.root.noResumable = m.root.frozen ∧
    ∃ evs, m.processRequest.w.trace = evs ++ m.w.trace ∧ ∀ e ∈ evs, NotLife e := by
  refine ⟨processRequest_frozen_of_none_approved m hne hnone, ?_⟩
  obtain ⟨life, evs, ht, hl, _, hnil⟩ := step_trace m hne
  rw [hnil hnone] at ht
  exact ⟨evs, by simpa using ht, hl.no_lifecycle⟩

/-- **A round can be vetoed although no guard cancelled** (observed on the real library as well): on
`shapeO` the request `changeTo(1)` — region 1 has only the orthogonal root above it — sets an orthogonal
request bit and nothing else; the forward exit-guard walk reaches the plain state 2, `S_::deepForwardExitGuard`
answers `false`, the round is vetoed without a single callback. -/
theorem silent_veto_witness :
    ((Witness.fresh (Witness.start Witness.shapeO) (Witness.idle 40)).request .change 1 none).stepLog =
      [([⟨none, 1, .change, none⟩], .vetoed)] ∧
    Witness.cbs ((Witness.fresh (Witness.start Witness.shapeO) (Witness.idle 40)).immediate .change 1 none) = [] ∧
    ((Witness.fresh (Witness.start Witness.shapeO) (Witness.idle 40)).immediate .change 1 none).w.cancelled = false := by
  decide +kernel

/-! ## (e) requests issued by guards go through the same procedure -/

/-- The loop is the iteration of `roundStep` on whatever is queued: the requests the guards of a round
(approved or vetoed) queued are the `pendingTransitions` of the next round. -/
theorem loop_unfolds (initial : Bool) (fuel : Nat) (m : Mach U) (backup : Node) (current : List Transition) :
    rounds initial (fuel+1) m backup current =
      if m.w.requests.isEmpty then (m, current) else
        rounds initial fuel (roundStep initial m backup current).1 (roundStep initial m backup current).2.1
          (roundStep initial m backup current).2.2.1 :=
  rounds_succ initial fuel m backup current

/-- The apply phase leaves the queue alone (`select / rank / utility` get a const control). -/
theorem apply_phase_keeps_queue (m : Mach U) (ts : List Transition) (i : Nat) :
    (m.applyAll ts i).w.requests = m.w.requests := (applyAll_rel ts m i).requests

/-- After a round that consulted the guards, the queue is exactly what the guard phase — started with an
empty queue — left in it; after a round that did not, it is empty. -/
theorem round_queue_is_guard_output (m : Mach U) (backup : Node) (current : List Transition) :
    let applied := m.applyAll m.w.requests 0
    let m2 : Mach U := { applied with w := { applied.w with requests := [] } }
    ((roundStep false m backup current).2.2.2 = .unchanged → (roundStep false m backup current).1.w.requests = []) ∧
    ((roundStep false m backup current).2.2.2 ≠ .unchanged →
      (roundStep false m backup current).1.w.requests = (m2.approvedByGuards current m.w.requests).1.w.requests) := by
  unfold roundStep
  dsimp only
  by_cases hd : ((m.applyAll m.w.requests 0).root.marksDiffer backup) = true
  · simp only [hd, if_true, Bool.false_eq_true, if_false]
    cases hok : (Mach.approvedByGuards { (m.applyAll m.w.requests 0) with w := { (m.applyAll m.w.requests 0).w with requests := [] } } current m.w.requests).2 with
    | true => simp
    | false => simp [World.clearTargets_requests]
  · simp [hd]

/-
Theorems that constitute property C04 (for `Props/INDEX.json`):

    rounds_bounded, guard_phases_bounded,
    first_activation_rounds_bounded, first_activation_entry_guards_only   (a) at most SUBSTITUTION_LIMIT rounds
    step_trace                                                   (b)(c) shape of the whole trace (`LoopRun`)
    guard_phase_order, exit_veto_skips_entry_walk                (b) exit guards, then entry guards; lists shown
    approved_round_not_cancelled, cancel_vetoes_round            (b) approved ⇔ nobody cancelled (⇐ only; see
    guard_answer_false_iff, orthogonal_siblings_all_evaluated,       silent_veto_witness for the converse)
    composite_short_circuit                                      (b) where the walks stop
    loop_has_no_lifecycle, lifecycle_after_guards                (c) the commit pass comes last, once
    commit_delivers_only_commitActs, commit_set_ignores_resumable,
    approved_guards_cover_commit_partial                         (c) guards cover the commit set under BitsOK
    unguarded_commit_witness                                     (c) FALSE without BitsOK (orthogonal root + batch)
    vetoed_round_restores_backup, round_without_schedule_keeps_resumable,
    round_emits_no_lifecycle, vetoed_round_clears_targets,
    nothing_approved_nothing_changed                             (d) veto atomicity
    silent_veto_witness                                          (d) a veto without any cancellation exists
    loop_unfolds, apply_phase_keeps_queue, round_queue_is_guard_output   (e) substituted requests re-enter the loop
-/

end Hfsm.Props.C04

/-! ## end-to-end (composition with C01)

The theorems above are about `Mach.processRequest` of an ARBITRARY instance value `m` — they need no
well-formedness hypothesis, so there is nothing of C01 to discharge; what the composition adds is WHERE a
processing step occurs in the life of an instance and that the constants are those of its construction:
`m.atProcess o = some m'` (Proofs/Reach.lean) says that the API call `o` (`update`, `react`, an immediate
transition) on `m` has done its passes / queued its request and hands `m'` to `processRequest`
(`Api.step m o = m'.processRequest`, `m'.root = m.root`).  For every REACHABLE `m`
(`ReachableOf shape cfg m`: `Mach.create shape cfg` followed by any history of API calls): -/
namespace Hfsm.Props.C04
open Hfsm Hfsm.Mach
variable {U : Type} [UtilArith U] {shape : Shape} {cfg : Config} {m m' : Mach U} {o : Api.Op}

/-- (a) the substitution loop of the call runs at most `cfg.substitutionLimit` rounds — the limit the instance
was constructed with. -/
theorem rounds_bounded_reachable (h : ReachableOf shape cfg m) (hp : m.atProcess o = some m') :
    Api.step m o = m'.processRequest ∧ m'.stepLog.length ≤ cfg.substitutionLimit := by
  refine ⟨Mach.atProcess_step hp, ?_⟩
  have := rounds_bounded m'
  rwa [Mach.atProcess_cfg hp, h.cfg_substitutionLimit] at this

/-- (a) … read off the trace of the call: at most `cfg.substitutionLimit` guard phases. -/
theorem guard_phases_bounded_reachable (h : ReachableOf shape cfg m) (hp : m.atProcess o = some m')
    (hne : m'.w.requests.isEmpty = false) :
    ∃ new, (Api.step m o).w.trace = new ++ m'.w.trace ∧ runs (guardPends new) ≤ cfg.substitutionLimit := by
  obtain ⟨new, ht, hb⟩ := guard_phases_bounded m' hne
  rw [Mach.atProcess_cfg hp, h.cfg_substitutionLimit] at hb
  exact ⟨new, by rw [Mach.atProcess_step hp]; exact ht, hb⟩

/-- (b)(c) the trace of the call after the passes: the rounds of the loop (`LoopRun`), then — only if
something was approved — the lifecycle callbacks of the one commit pass; every `enter / exit / reenter` is
newer than every guard callback. -/
theorem lifecycle_after_guards_reachable (h : ReachableOf shape cfg m) (hp : m.atProcess o = some m')
    (hne : m'.w.requests.isEmpty = false) :
    ∃ life evs, (Api.step m o).w.trace = life ++ evs ++ m'.w.trace ∧
      LoopRun cfg.substitutionLimit [] evs m'.stepLog ∧ (∀ e ∈ evs, NotLife e) ∧
      (∀ e ∈ life, LifeEv (approvedOf m'.stepLog) e) ∧ (approvedOf m'.stepLog = [] → life = []) := by
  obtain ⟨life, evs, ht, hl, hlife, hnil⟩ := step_trace m' hne
  rw [Mach.atProcess_cfg hp, h.cfg_substitutionLimit] at hl
  exact ⟨life, evs, by rw [Mach.atProcess_step hp]; exact ht, hl, hl.no_lifecycle, hlife, hnil⟩

/-- (d) a call in which no round is approved changes nothing: the registry afterwards is the registry of `m`
in structure and active prongs, without request marks, and no lifecycle callback was delivered. -/
theorem nothing_approved_nothing_changed_reachable (_h : ReachableOf shape cfg m) (hp : m.atProcess o = some m')
    (hne : m'.w.requests.isEmpty = false) (hnone : approvedOf m'.stepLog = []) :
    (Api.step m o).root.noResumable = m.root.frozen ∧
    ∃ evs, (Api.step m o).w.trace = evs ++ m'.w.trace ∧ ∀ e ∈ evs, NotLife e := by
  rw [Mach.atProcess_step hp, ← Mach.atProcess_root hp]
  exact nothing_approved_nothing_changed m' hne hnone

/-- the queue handed over by an immediate transition is not empty as soon as the instance was constructed with
a queue (`hne` of the theorems above, discharged for `o = immediate …`) -/
theorem immediate_queue_nonempty_reachable (h : ReachableOf shape cfg m) (hq : 0 < cfg.queueCap)
    (k : Kind) (d : Nat) (p : Option Nat) : (m.request k d p).w.requests.isEmpty = false := by
  have hc := h.cfg_queueCap
  unfold Mach.request
  simp only [World.logRec_requests]
  split
  · simp
  · next hlt =>
    cases hr : m.w.requests with
    | nil => rw [hr, hc] at hlt; exact absurd hq hlt
    | cons _ _ => rfl

/-- … hence for an immediate transition on a reachable instance with a queue, unconditionally -/
theorem immediate_lifecycle_after_guards_reachable (h : ReachableOf shape cfg m) (hq : 0 < cfg.queueCap)
    (k : Kind) (d : Nat) (p : Option Nat) :
    ∃ life evs, (m.immediate k d p).w.trace = life ++ evs ++ (m.request k d p).w.trace ∧
      (m.request k d p).stepLog.length ≤ cfg.substitutionLimit ∧ (∀ e ∈ evs, NotLife e) ∧
      (∀ e ∈ life, LifeEv (approvedOf (m.request k d p).stepLog) e) := by
  have hp : m.atProcess (.immediate k d p) = some (m.request k d p) := rfl
  obtain ⟨life, evs, ht, _, hn, hl, _⟩ :=
    lifecycle_after_guards_reachable h hp (immediate_queue_nonempty_reachable h hq k d p)
  exact ⟨life, evs, ht, (rounds_bounded_reachable h hp).2, hn, hl⟩

/-- a concrete non-trivial reachable instance exists, and a processing step from it is not vacuous -/
example : Reachable (Api.run Demo.mach Demo.prog) := Demo.reachable.reachable
example : ∃ m : Mach Demo.DU, ReachableOf Demo.shape Demo.cfg m ∧ 0 < Demo.cfg.queueCap ∧
    (m.request .change 2 none).w.requests.isEmpty = false :=
  ⟨_, Demo.reachable, by decide, by decide +kernel⟩

end Hfsm.Props.C04
