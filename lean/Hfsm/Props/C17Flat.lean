/-
Property C17, flat-registry refinement (DESIGN §4.1 / §7 C17 stretch goal).

The machine model answers the registry queries and marks requests by *path functions on the tree*
(Model/Tree.lean `Node.isActive …`, Model/Forward.lean `Node.mark / Node.schedule`).  The library does
it by *upward walks over the flat parent tables* (root/registry_1.inl).  Here the flat algorithm is
modelled as it is coded (Model/FlatRegistry.lean) and proved equal to the path functions:

  for every tree `n` with `n.FlatOK` — it instantiates a declaration that C++ accepts (`wf`: every
  region non-empty), within the identifier types (`FitsIds`: in particular every width ≤ 255, so no
  prong collides with `INVALID_PRONG`), with the pre-order ids (`IdsFrom 0`) — and **every** dynamic
  state of the tree (`active / resumable / requested / remain` fields and orthogonal request bits are
  arbitrary), on `n.toFlat` (tables from `Shape.register`, dynamic arrays in pre-order):

  * the six queries agree for every state id below `STATE_COUNT`;
  * `requestImmediate(dest)` (three loops) agrees with `Node.mark` along `pathTo dest`;
  * `requestScheduled(id)` agrees with `Node.schedule`;
  * no array access is out of bounds and the fuel `STATE_COUNT + 1` is never exhausted (the flat
    functions return `some …`).
-/
import Hfsm.Proofs.FlatRegistry

namespace Hfsm.Props.C17
open Hfsm

/-! ### hypotheses are satisfiable -/

/-- A declaration with composite and orthogonal regions, a headless one among them. -/
def flatExampleShape : Shape :=
  .compo true 0 .resumable
    (.cons (.leaf 0) (.cons (.ortho false 0 (.cons (.compo true 1 .composite (.cons (.leaf 0)
      (.cons (.leaf 0) .nil))) (.cons (.leaf 0) .nil))) .nil))

/-- The hypotheses hold for the root every `Machine` starts from (`Shape.toNode 0 0`) … -/
theorem flatOK_initial (s : Shape) (hw : s.wf = true) (hf : s.FitsIds) : (s.toNode 0 0).FlatOK :=
  Shape.toNode_flatOK s hw hf

/-- … and are kept by request marking. -/
theorem flatOK_mark (n : Node) (ok : n.FlatOK) (p : List Nat) : (n.mark p).1.FlatOK :=
  Node.mark_flatOK n ok p

theorem flatOK_schedule (n : Node) (ok : n.FlatOK) (p : List Nat) : (n.schedule p).FlatOK :=
  Node.schedule_flatOK n ok p

example : (flatExampleShape.toNode 0 0).FlatOK :=
  flatOK_initial flatExampleShape (by decide) (by decide)

/-! ### the query loops -/

/-- The common part of the five boolean queries: along the chain of parents of state `id` the loop
returns what the tree's `nearest` returns along `pathTo id`. -/
theorem flat_queryState (n : Node) (ok : n.FlatOK) (answer : Nat → Nat → Option Bool)
    (f : Option Nat → Option Nat → Option Nat → Nat → Bool) (ha : Answers n.dyn answer f)
    (acc : Bool) (id : Nat) (hid : id < n.size) :
    n.toFlat.queryState answer (some acc) id =
      some (match n.pathTo id with
            | none => false
            | some p => Node.nearest f n p acc) := by
  obtain ⟨p, c, hp, hc, hcid⟩ := Node.pathTo_of_lt n ok id hid
  obtain ⟨hsp, hlink, fuel, hfuel⟩ := Node.state_walk n ok p c hc
  rw [hcid] at hsp
  have hlen := Node.stateParents_length n ok
  simp only [Flat.queryState, hlen, hid, if_true, hsp, Option.bind_some, hfuel, hp]
  rw [Statics.query_chain _ _ _ Parent.invalid (by decide) fuel _ hlink]
  have hq := Node.nearest_chain n.dyn answer f ha n Idx.root Dyn.empty Dyn.empty (by simp)
    ⟨rfl, rfl, rfl, rfl, rfl⟩ p (by rw [hc]; rfl) acc
  rw [hq, nearestG_eq]

/-- `RegistryT::isActive()` is the tree's `machineActive` (a machine has a composite region:
`static_assert(COMPO_COUNT >= 1)`, root_0.hpp). -/
theorem flat_machineActive (n : Node) (hc : 0 < n.shape.info.compoCount) :
    n.toFlat.machineActive = some n.machineActive := by
  have hl := (Node.dyn_lengths n).1
  simp only [Flat.machineActive, Node.machineActive, Node.firstCompoActive_eq,
    show n.toFlat.compoActive = n.dyn.compoActive from rfl]
  cases h : n.dyn.compoActive with
  | nil => rw [h] at hl; simp at hl; omega
  | cons a t => simp

/-- **`isActive(stateId)`**: the upward walk over `stateParents / compoParents / orthoParents`
answers what the path function of the model answers, for every state id and every dynamic state. -/
theorem flatIsActive_eq (n : Node) (ok : n.FlatOK) (hc : 0 < n.shape.info.compoCount)
    (id : Nat) (hid : id < n.size) : flatIsActive n.toFlat id = some (n.isActive id) := by
  rw [flatIsActive, flat_machineActive n hc]
  exact flat_queryState n ok _ (fun a _ _ i => a == some i)
    (by intro ci prong a r q h1 _ _
        simp [show n.toFlat.compoActive = n.dyn.compoActive from rfl, h1])
    _ id hid

/-- **`isResumable(stateId)`**. -/
theorem flatIsResumable_eq (n : Node) (ok : n.FlatOK) (id : Nat) (hid : id < n.size) :
    flatIsResumable n.toFlat id = some (n.isResumable id) := by
  rw [flatIsResumable]
  exact flat_queryState n ok _ (fun _ r _ i => r == some i)
    (by intro ci prong a r q _ h2 _
        simp [show n.toFlat.compoResumable = n.dyn.compoResumable from rfl, h2])
    _ id hid

/-- **`isPendingEnter(stateId)`**. -/
theorem flatIsPendingEnter_eq (n : Node) (ok : n.FlatOK) (id : Nat) (hid : id < n.size) :
    flatIsPendingEnter n.toFlat id = some (n.isPendingEnter id) := by
  rw [flatIsPendingEnter]
  exact flat_queryState n ok _ (fun a _ q i => a != some i && q == some i)
    (by intro ci prong a r q h1 _ h3
        simp [show n.toFlat.compoActive = n.dyn.compoActive from rfl,
          show n.toFlat.compoRequested = n.dyn.compoRequested from rfl, h1, h3])
    _ id hid

/-- **`isPendingExit(stateId)`**. -/
theorem flatIsPendingExit_eq (n : Node) (ok : n.FlatOK) (id : Nat) (hid : id < n.size) :
    flatIsPendingExit n.toFlat id = some (n.isPendingExit id) := by
  rw [flatIsPendingExit]
  exact flat_queryState n ok _ (fun a _ q i => a == some i && q != some i)
    (by intro ci prong a r q h1 _ h3
        simp [show n.toFlat.compoActive = n.dyn.compoActive from rfl,
          show n.toFlat.compoRequested = n.dyn.compoRequested from rfl, h1, h3])
    _ id hid

/-- **`isPendingChange(stateId)`**. -/
theorem flatIsPendingChange_eq (n : Node) (ok : n.FlatOK) (id : Nat) (hid : id < n.size) :
    flatIsPendingChange n.toFlat id = some (n.isPendingChange id) := by
  rw [flatIsPendingChange]
  exact flat_queryState n ok _ (fun a _ q _ => q != a)
    (by intro ci prong a r q h1 _ h3
        simp [show n.toFlat.compoActive = n.dyn.compoActive from rfl,
          show n.toFlat.compoRequested = n.dyn.compoRequested from rfl, h1, h3])
    _ id hid

theorem pathTo_lt (n : Node) (ok : n.FlatOK) (id : Nat) (p : List Nat) (h : n.pathTo id = some p) :
    id < n.size := by
  by_cases hlt : id < n.size
  · exact hlt
  · have := (Node.pathTo_complete n 0 ok.ids id).2 (by omega)
    rw [this] at h; cases h

/-- **`activeSubState(stateId)`**: reading `stateParents[stateId + 1]` and `compoActive` of that
fork is the model's "active prong of the composite region that is the direct parent of state
`stateId + 1`". -/
theorem flatActiveSubState_eq (n : Node) (ok : n.FlatOK) (id : Nat) (hid : id < n.size) :
    flatActiveSubState n.toFlat id = some (n.activeSubState id) := by
  have hlen := Node.stateParents_length n ok
  by_cases hsub : id + 1 < n.size
  · obtain ⟨p, c, hp, hc, hcid⟩ := Node.pathTo_of_lt n ok (id + 1) hsub
    rcases list_snoc_cases p with rfl | ⟨q, k, rfl⟩
    · simp only [Node.follow, Option.some.injEq] at hc
      subst hc
      have := Node.id_of_IdsFrom _ 0 ok.ids
      omega
    · obtain ⟨hsp, hlink, _⟩ := Node.state_walk n ok _ c hc
      obtain ⟨d, hd, hg⟩ := Node.follow_snoc n q k c hc
      obtain ⟨r, hr, _, _, hext, hkind⟩ := Node.root_record n ok q d hd
      obtain ⟨hreg, _, hch⟩ := hext k c hg
      simp only at hch
      rw [hcid, hch] at hsp
      rw [hch] at hlink
      have hvalid := hlink.1
      -- the arrays at the fork named by the chain are the fields of the node at `q`
      have hq := Node.nearest_chain (α := Option Nat) n.dyn (fun ci _ => n.dyn.compoActive[ci]?)
        (fun a _ _ _ => a) (by intro ci prong a r q h1 _ _; exact h1)
        n Idx.root Dyn.empty Dyn.empty (by simp) ⟨rfl, rfl, rfl, rfl, rfl⟩ (q ++ [k])
        (by rw [hc]; rfl) none
      rw [hch, nearestG_snoc _ n q k d c none hd hg] at hq
      simp only [chainQuery] at hq
      have hdrop : (q ++ [k]).dropLast = q := by simp
      simp only [flatActiveSubState, hlen, hid, hsub, and_self, if_true, hsp, Option.bind_some,
        List.headD_cons, hvalid, Node.activeSubState, hp, hdrop, hd]
      have hne : (q ++ [k]).isEmpty = false := by cases q <;> rfl
      rw [hne]
      simp only [Bool.false_eq_true, if_false]
      cases hk : r.kind with
      | leaf => simp [Decl.isRegion, hk] at hreg
      | compo st =>
        have hpos : r.forkId > 0 := by
          have := Idx.compoId_pos r.idx; simpa [NodeRec.forkId, hk] using this
        have hdc : d.isCompoB = true := by rw [← hkind]; simp [Decl.isCompo, hk]
        simp only [hpos, if_true] at hq ⊢
        cases d with
        | compo => exact hq
        | leaf => simp [Node.isCompoB] at hdc
        | ortho => simp [Node.isCompoB] at hdc
      | ortho =>
        have hneg : ¬ r.forkId > 0 := by
          have := Idx.orthoId_neg r.idx
          have e : r.forkId = r.idx.orthoId := by simp [NodeRec.forkId, hk]
          omega
        have hdc : d.isCompoB = false := by rw [← hkind]; simp [Decl.isCompo, hk]
        simp only [hneg, if_false]
        cases d with
        | compo => simp [Node.isCompoB] at hdc
        | leaf => rfl
        | ortho => rfl
  · have hnone := (Node.pathTo_complete n 0 ok.ids (id + 1)).2 (by omega)
    simp [flatActiveSubState, hlen, hsub, Node.activeSubState, hnone]

/-! ### request marking -/

theorem toFlat_of_shape_eq (n n' : Node) (h : n'.shape = n.shape) :
    n'.toFlat = { n.toFlat with toDyn := n'.dyn } := by
  simp only [Node.toFlat, h]

/-- **`requestImmediate`**: the three consecutive upward loops over the parent tables (set
`compoRequested` up to the first composite fork; then `compoRemains` and, where the region has to
switch, `compoRequested`; then `compoRemains` only; `orthoRequested` bits all the way) compute
exactly the top-down, phase-returning recursion `Node.mark` along the path of the destination — and
never leave the arrays or run out of fuel. -/
theorem flatRequestImmediate_eq (n : Node) (ok : n.FlatOK) (dest : Nat) (path : List Nat)
    (h : n.pathTo dest = some path) :
    flatRequestImmediate n.toFlat dest = some (n.mark path).1.toFlat := by
  obtain ⟨c, hc, hcid⟩ := Node.pathTo_sound n dest path h
  obtain ⟨hsp, hlink, fuel, hfuel⟩ := Node.state_walk n ok path c hc
  rw [hcid] at hsp
  have hrun := Node.mark_chain n Idx.root Dyn.empty Dyn.empty ⟨rfl, rfl, rfl, rfl, rfl⟩ path
    (by rw [hc]; rfl)
  simp only [Dyn.empty_append, Dyn.append_empty] at hrun
  simp only [flatRequestImmediate, hsp, Option.bind_eq_bind, Option.bind_some, hfuel,
    Statics.requestLoop_chain _ Parent.invalid (by decide) fuel _ hlink, Node.toFlat_dyn, hrun,
    Option.map_some, Option.pure_def]
  rw [toFlat_of_shape_eq n _ (Node.mark_shape n path)]

/-- **`requestScheduled`**: `compoResumable` of the direct parent fork, if composite, takes the
prong — `Node.schedule`. -/
theorem flatRequestScheduled_eq (n : Node) (ok : n.FlatOK) (id : Nat) (path : List Nat)
    (h : n.pathTo id = some path) :
    flatRequestScheduled n.toFlat id = some (n.schedule path).toFlat := by
  obtain ⟨c, hc, hcid⟩ := Node.pathTo_sound n id path h
  obtain ⟨hsp, _, _⟩ := Node.state_walk n ok path c hc
  rw [hcid] at hsp
  have hlt := pathTo_lt n ok id path h
  have hlen := Node.stateParents_length n ok
  simp only [flatRequestScheduled, hlen, hlt, if_true, hsp, Option.bind_eq_bind, Option.bind_some]
  cases path with
  | nil =>
    have : ¬ Parent.invalid.forkId > 0 := by decide
    cases n <;> simp [Node.chain, this, Node.schedule]
  | cons i rest =>
    have hs := Node.schedule_chain n Idx.root Dyn.empty Dyn.empty ⟨rfl, rfl, rfl, rfl, rfl⟩ i rest
      (by rw [hc]; rfl)
    simp only [Dyn.empty_append, Dyn.append_empty] at hs
    have hne := Node.chain_ne_nil n Idx.root i rest (by rw [hc]; rfl)
    cases hch : n.chain Idx.root (i :: rest) with
    | nil => exact absurd hch hne
    | cons x t =>
      rw [hch] at hs
      simp only [List.head?_cons, schedStep] at hs
      simp only [List.headD_cons]
      by_cases hpos : x.forkId > 0
      · simp only [hpos, if_true, Node.toFlat_dyn] at hs ⊢
        rw [hs, toFlat_of_shape_eq n _ (Node.schedule_shape n (i :: rest))]
        rfl
      · simp only [hpos, if_false, Option.some.injEq] at hs ⊢
        rw [toFlat_of_shape_eq n _ (Node.schedule_shape n (i :: rest)), ← hs]
        rfl

end Hfsm.Props.C17

/-
PROPERTY C17, flat-registry refinement — theorems (all for every tree with `FlatOK` and every
dynamic state; `some …` on the left = no out-of-bounds access, fuel not exhausted):

  Hfsm.Props.C17.flatOK_initial            FlatOK holds for `Shape.toNode 0 0` of a wf declaration within FitsIds
  Hfsm.Props.C17.flatOK_mark               … is kept by `Node.mark`
  Hfsm.Props.C17.flatOK_schedule           … is kept by `Node.schedule`
  Hfsm.Props.C17.flat_queryState           query loop over the parent tables = `Node.nearest` along `pathTo`
  Hfsm.Props.C17.flat_machineActive        `isActive()` = `machineActive`
  Hfsm.Props.C17.flatIsActive_eq           isActive(stateId)
  Hfsm.Props.C17.flatIsResumable_eq        isResumable(stateId)
  Hfsm.Props.C17.flatIsPendingEnter_eq     isPendingEnter(stateId)
  Hfsm.Props.C17.flatIsPendingExit_eq      isPendingExit(stateId)
  Hfsm.Props.C17.flatIsPendingChange_eq    isPendingChange(stateId)
  Hfsm.Props.C17.flatActiveSubState_eq     activeSubState(stateId)
  Hfsm.Props.C17.flatRequestImmediate_eq   requestImmediate (three upward loops) = `Node.mark` (top-down, phase-returning)
  Hfsm.Props.C17.flatRequestScheduled_eq   requestScheduled = `Node.schedule`
  Hfsm.Props.C17.pathTo_lt                 `pathTo id = some _` only for ids below STATE_COUNT

Lemmas they rest on (Hfsm/Proofs/FlatRegistry.lean):
  Hfsm.Node.chain_linked        the parent tables link the chain of every node up to `Parent{}`
  Hfsm.Node.state_walk          stateParents[id] is the chain's first element; fuel suffices
  Hfsm.Node.nearest_chain       tree query = first composite parent of the chain (arrays framed)
  Hfsm.Node.mark_chain          `mark` = phase fold `runRI` over the chain (arrays framed)
  Hfsm.Node.schedule_chain      `schedule` = one write for the chain's first element
  Hfsm.Statics.query_chain / Hfsm.Statics.requestLoop_chain   the fuel loops along a linked chain
  Hfsm.Node.walk_chain          the records of `Shape.walk` carry the chain
-/
