/-
C02 — "Processing requests yields exactly the configuration the rules prescribe."

The rules are written down as a declarative specification in `Proofs/C02Spec.lean` (`pickProng`,
`Node.choose`, `Node.exited`, `Node.retarget`, `Node.enterPath`, `Node.spec`, `Node.specTo`), which
does not mention any operational pass of the model.  The theorems below say that
`Mach.processRequest` of the model (= `R_::processRequest` of the library, by correspondence)
produces exactly that configuration.  All hypotheses are in the vocabulary of `Proofs/Wf.lean`
(`Settled` = `OK ∧ Act ∧ NoMarks ∧ ResumableOK`, maintained by C01).

Reading notes (where the property's prose needs a decision; the spec follows the code and says so):

 R1  "entering the resumable sub-state clears the resumable mark" — `deepEnter`'s documented behaviour;
     the property text is silent; `Node.choose` / `Node.enterPath` clear it.
 R2  The unit a request re-targets inside the active configuration is the *active prong of the lowest
     composite ancestor of the destination*.  When the destination sits directly below that ancestor
     this is the destination itself.  When orthogonal regions lie in between, the outermost of them is
     re-entered as a whole, so the orthogonal siblings of the destination are re-targeted by the
     request kind as well: with `R[ O⟂[ A[A0 A1] B[B0 B1] ] X ]` in `A1 B1`, `restart(A)` ends in
     `A0 B0`, not `A0 B1` (real library: trace `~O ~A -A1 +A0 ~B -B1 +B0`).  Under the literal reading
     "regions no request touches keep their sub-state" this is a deviation; it is what
     `O_::deepForwardRequest` / `O_::deepReenter` do.  `Node.specLit` is the literal reading;
     `C02_single_literal_partial` proves it under the decidable hypothesis "the destination's direct
     parent is a composite region", `example_R2` proves its negation on that witness.
     History: `enter; immediateChangeTo(A1); immediateChangeTo(B1); immediateRestart(A)`.

Where the full statement is false of the model, hence of the code (each with a witness below):

 E1  KF-C02-ortho-only-ancestry.  A destination (other than the root) all of whose ancestors are
     orthogonal regions gets no composite mark from `requestImmediate`; the forward pass walks the
     active configuration and finds nothing, `deepForwardExitGuard` of a plain state answers `false`,
     the round is dropped.  `restart(R)` of such a region does nothing at all.  `C02_single` carries
     the exact decidable hypothesis `p = [] ∨ root.hasCompo p`; `C02_single_orthoOnly` proves that in
     the complementary case nothing changes; `C02_single_orthoOnly_counterexample` is the witness.
 E2  N1.  "Later requests of a batch override earlier conflicting ones" is false:
     `[changeTo Rr, changeTo D]` ends in `Rr` (`C02_batch_counterexample`).
 E3  N7 (new).  Requests of one batch that address *different* orthogonal branches are not independent
     when their kinds differ: the later request walks the earlier request's branch again and
     re-resolves, with ITS kind, every orthogonal region the earlier request entered
     (`O_::deepForwardRequest` finds no request bits there and calls `deepRequest`).
     `[restart(A1), resume(B1)]` resumes the region nested in `A1` (`C02_batch_kind_leak_counterexample`).
     `C02_batch_partial` proves independence for equal answer-free kinds.

Answers of `select()` / `utility()` / `rank()` / the generator: the specification takes an oracle
`ans : region → prong`; the fully declarative theorems are for answer-free requests (`AnswerFree`:
`restart`, `resume`, or `change` over regions declared `composite`/`resumable`), for which `ans` is
never consulted (they hold for every `ans`).  For the answer-dependent kinds, `C02_select_prong`,
`C02_utilize_prong`, `C02_randomize_prong` identify the prong the resolution pass marks with the
value of `headSelect` / `argMax` / `resolveRandom` (characterised by C12), and `C02_commit_any` says
that, whatever the kind, the configuration after the step is the commit pass applied to those marks.

END TO END for the answer-dependent kinds (last section of this file): `Mach.answers m t` lists, in the
order of consumption, the pairs (region head id, prong) that the lone request `t` resolves by asking
user code or the generator; every prong is computed from the decision and generator streams at the start
of the step by the pure stream functions of C12 (`Sig.headSel`, `argMax ∘ utilizeSpecAll/changeSpecAll`,
`rankSpecAll`, `randomizeSpecTop/changeSpecTop`, `Sig.resolve`, positions threaded by `requestSpec` &c.;
definitions in `Proofs/C02Choices.lean` and `Proofs/C02PathChoices.lean`; `Node.requestCh_head` ties an entry
to C12's `requestChoice`).  The list is written by the recursion of `Node.spec` itself, without the
operational passes; `C02_answers_operational` identifies it with what `mark` + `deepForwardActive` consume.
`C02_single_answered`: for EVERY oracle that agrees with that list the step yields `Node.spec ans`;
`C02_single_ansOf`: on a tree numbered in pre-order (`IdsFrom 0`, an invariant of every reachable
machine) with `err = none` after the step, the oracle `Mach.ansOf m t` read off the list does.
`C02_single_of_answered`: `C02_single` is the special case "the list is empty".
 O2 (C12) at machine level: a utilitarian / random resolution marks the nested regions of ALL candidates.
     The marks of the losers are visible to the guards of the round (`isPendingEnter` is true for states
     that are never entered) but do NOT change the committed configuration of a lone request:
     that is what `C02_single_answered` proves (`Node.Sim`, `Proofs/C02Sim.lean`); witness of the
     observation: `C02_stale_marks_witness`.  (Inside a batch they do matter: C12 `witness_stale_mark_used`.)
 O1 (C12): under `change`, a SELECTABLE region nested in a utilitarian / random one is resolved by
     `deepReportChange`, which takes the resumable sub-state (or 0) and never calls `select()`;
     `Mach.answers` lists that prong, `Node.spec` consults the oracle there (`pickProng`), so the
     theorem holds with the listed value — it is NOT "what `select()` would have answered"
     (`C02_selectable_below_utilitarian_witness`).
 The list also contains the resolutions inside losing candidates (they consume answers); the
     hypothesis `Agrees` / `err = none` therefore also demands that those did not fail; a failed
     resolution is listed as `none` (`C02_select_out_of_range_witness`).  A vetoed round of any kind
     restores the tree: `C02_veto_unchanged_any`.
-/
import Hfsm.Proofs.C02Veto
import Hfsm.Proofs.C02Misc
import Hfsm.Proofs.C02Beq
import Hfsm.Proofs.C02Answered

namespace Hfsm.Props.C02
open Hfsm
variable {U : Type} [UtilArith U]

theorem C02_single (ans : Nat → Nat) (m : Mach U) (t : Transition) (p : List Nat)
    (hS : m.root.Settled) (hid : m.root.id = 0)
    (hq : m.w.requests = [t]) (hk : t.kind ≠ .schedule) (hd : t.dest < m.w.cfg.stateCount)
    (hp : m.root.pathTo t.dest = some p) (hl : 0 < m.w.cfg.substitutionLimit)
    (hf : AnswerFree t.kind m.root) (hu : m.Unvetoed)
    (hE : p = [] ∨ m.root.hasCompo p = true) :
    m.processRequest.root = m.root.spec ans t.kind p := by
  obtain ⟨-, hAct, hNM, -⟩ := hS
  have hne : m.w.requests ≠ [] := by rw [hq]; exact List.cons_ne_nil _ _
  have hv := C02.Node.pathTo_valid m.root t.dest p hp
  -- the tree the guards see
  have hroot : m.atGuards.root =
      if t.dest = 0 then m.root.requestR ans t.kind
      else (m.root.mark p).1.fwdActiveR ans t.kind := by
    have h1 : m.atGuards.root =
        (Mach.applyAll { m with w := m.w.clearTargets.freshControl } [t] 0).root := by
      unfold Mach.atGuards; rw [hq]
    have hd' : t.dest < (m.w.clearTargets.freshControl).cfg.stateCount := by
      have : (m.w.clearTargets.freshControl).cfg = m.w.cfg := C02.World.clearTargets_cfg _
      rw [this]; exact hd
    rw [h1, Mach.C02.applyAll_single _ _ hd',
      Mach.C02.applyRequest_root ans { m with w := m.w.clearTargets.freshControl } t 0 hk hf]
    simp only [hp]
  cases p with
  | nil =>
    have hd0 : t.dest = 0 := by rw [← hid]; exact ((C02.Node.pathTo_nil_iff m.root t.dest).1 hp).symm
    rw [hd0] at hroot
    simp only [↓reduceIte] at hroot
    rw [C02.Node.spec_nil, ← C02.Node.reenter_request ans t.kind m.root hAct hNM]
    cases hdf : m.atGuards.root.marksDiffer m.root with
    | true =>
      rw [Mach.C02.processRequest_root_differ m hne hl hdf hu, hroot, C02.Node.commit_request ans t.kind _ hNM]
    | false =>
      rw [Mach.C02.processRequest_root_same m hne hl hdf, hroot]
      rw [hroot] at hdf
      rw [C02.Node.requestR_same ans t.kind m.root hNM hdf, C02.Node.reenterR_id _ hNM]
  | cons i rest =>
    have hc : m.root.hasCompo (i :: rest) = true := by
      rcases hE with hE | hE
      · cases hE
      · exact hE
    have hd0 : t.dest ≠ 0 := by
      intro e
      have := (C02.Node.pathTo_nil_iff m.root t.dest).2 (by rw [hid, e])
      rw [hp] at this
      cases this
    simp only [hd0, ↓reduceIte] at hroot
    have hdf : m.atGuards.root.marksDiffer m.root = true := by
      rw [hroot]; exact C02.Node.marksDiffer_mark ans t.kind m.root i rest hNM hv
    rw [Mach.C02.processRequest_root_differ m hne hl hdf hu, hroot,
      C02.Node.commit_mark ans t.kind m.root _ hAct hNM hv hc]


/-- `C02_single` in terms of the destination id. -/
theorem C02_single_specTo (ans : Nat → Nat) (m : Mach U) (t : Transition) (p : List Nat)
    (hS : m.root.Settled) (hid : m.root.id = 0)
    (hq : m.w.requests = [t]) (hk : t.kind ≠ .schedule) (hd : t.dest < m.w.cfg.stateCount)
    (hp : m.root.pathTo t.dest = some p) (hl : 0 < m.w.cfg.substitutionLimit)
    (hf : AnswerFree t.kind m.root) (hu : m.Unvetoed)
    (hE : p = [] ∨ m.root.hasCompo p = true) :
    m.processRequest.root = m.root.specTo ans t.kind t.dest := by
  rw [C02_single ans m t p hS hid hq hk hd hp hl hf hu hE]
  simp only [Node.specTo, hp]

/-- The literal reading of the property text — only the destination is re-targeted, "regions no
request touches keep their sub-state" (`Node.specLit`) — holds when the direct parent of the
destination is a composite region (or the destination is the root).  When an orthogonal region is the
direct parent it is FALSE (reading note R2): witness `example_R2`. -/
theorem C02_single_literal_partial (ans : Nat → Nat) (m : Mach U) (t : Transition) (p : List Nat)
    (hS : m.root.Settled) (hid : m.root.id = 0)
    (hq : m.w.requests = [t]) (hk : t.kind ≠ .schedule) (hd : t.dest < m.w.cfg.stateCount)
    (hp : m.root.pathTo t.dest = some p) (hl : 0 < m.w.cfg.substitutionLimit)
    (hf : AnswerFree t.kind m.root) (hu : m.Unvetoed)
    (hpc : m.root.parentCompo p = true) :
    m.processRequest.root = m.root.specLit ans t.kind p := by
  have hE : p = [] ∨ m.root.hasCompo p = true := by
    by_cases hpn : p = []
    · exact .inl hpn
    · cases hc : m.root.hasCompo p with
      | true => exact .inr rfl
      | false =>
        have := C02.Node.parentCompo_false m.root p hpn hc
        rw [hpc] at this
        cases this
  rw [C02_single ans m t p hS hid hq hk hd hp hl hf hu hE, C02.Node.spec_eq_specLit ans t.kind m.root p hpc]

/-- the tree the guards of the single round see, for an answer-free request below the root -/
private theorem atGuards_root_single (ans : Nat → Nat) (m : Mach U) (t : Transition) (p : List Nat)
    (hq : m.w.requests = [t]) (hk : t.kind ≠ .schedule)
    (hd : t.dest < m.w.cfg.stateCount) (hp : m.root.pathTo t.dest = some p)
    (hf : AnswerFree t.kind m.root) :
    m.atGuards.root =
      if t.dest = 0 then m.root.requestR ans t.kind else (m.root.mark p).1.fwdActiveR ans t.kind := by
  have h1 : m.atGuards.root =
      (Mach.applyAll { m with w := m.w.clearTargets.freshControl } [t] 0).root := by
    unfold Mach.atGuards; rw [hq]
  have hd' : t.dest < (m.w.clearTargets.freshControl).cfg.stateCount := by
    have : (m.w.clearTargets.freshControl).cfg = m.w.cfg := C02.World.clearTargets_cfg _
    rw [this]; exact hd
  rw [h1, Mach.C02.applyAll_single _ _ hd',
    Mach.C02.applyRequest_root ans { m with w := m.w.clearTargets.freshControl } t 0 hk hf]
  simp only [hp]

/-- E1, exactly: a request to a state other than the root with only orthogonal ancestors changes
nothing (whether the guards answer yes or no), provided the guard callbacks queue nothing. -/
theorem C02_single_orthoOnly (ans : Nat → Nat) (m : Mach U) (t : Transition) (p : List Nat)
    (hS : m.root.Settled) (hid : m.root.id = 0)
    (hq : m.w.requests = [t]) (hk : t.kind ≠ .schedule) (hd : t.dest < m.w.cfg.stateCount)
    (hp : m.root.pathTo t.dest = some p) (hl : 0 < m.w.cfg.substitutionLimit)
    (hf : AnswerFree t.kind m.root)
    (hquiet : (m.atGuards.approvedByGuards [] m.w.requests).1.w.requests = [])
    (hE : p ≠ [] ∧ m.root.hasCompo p = false) :
    m.processRequest.root = m.root := by
  obtain ⟨-, hAct, hNM, -⟩ := hS
  have hne : m.w.requests ≠ [] := by rw [hq]; exact List.cons_ne_nil _ _
  have hv := C02.Node.pathTo_valid m.root t.dest p hp
  have hroot := atGuards_root_single ans m t p hq hk hd hp hf
  obtain ⟨hpne, hc⟩ := hE
  obtain ⟨i, rest, rfl⟩ := List.exists_cons_of_ne_nil hpne
  have hd0 : t.dest ≠ 0 := by
    intro e
    have := (C02.Node.pathTo_nil_iff m.root t.dest).2 (by rw [hid, e])
    rw [hp] at this
    cases this
  simp only [hd0, ↓reduceIte] at hroot
  have hdf : m.atGuards.root.marksDiffer m.root = true := by
    rw [hroot]; exact C02.Node.marksDiffer_mark ans t.kind m.root i rest hNM hv
  cases hok : (m.atGuards.approvedByGuards [] m.w.requests).2 with
  | true =>
    rw [Mach.C02.processRequest_root_differ m hne hl hdf ⟨hok, hquiet⟩, hroot,
      C02.Node.commit_mark_orthoOnly ans t.kind m.root _ hAct hNM hv hc]
  | false =>
    refine Mach.C02.processRequest_root_veto m hne hl hNM ?_ hdf hok hquiet
    rw [hroot, C02.Node.clearMarks_fwdActiveR, C02.Node.clearMarks_mark]

/-- A vetoed single round (whose guard callbacks queue nothing) changes nothing — for every
answer-free request. -/
theorem C02_veto_unchanged (ans : Nat → Nat) (m : Mach U) (t : Transition) (p : List Nat)
    (hS : m.root.Settled)
    (hq : m.w.requests = [t]) (hk : t.kind ≠ .schedule) (hd : t.dest < m.w.cfg.stateCount)
    (hp : m.root.pathTo t.dest = some p) (hl : 0 < m.w.cfg.substitutionLimit)
    (hf : AnswerFree t.kind m.root)
    (hveto : (m.atGuards.approvedByGuards [] m.w.requests).2 = false)
    (hquiet : (m.atGuards.approvedByGuards [] m.w.requests).1.w.requests = []) :
    m.processRequest.root = m.root := by
  obtain ⟨-, -, hNM, -⟩ := hS
  have hne : m.w.requests ≠ [] := by rw [hq]; exact List.cons_ne_nil _ _
  have hroot := atGuards_root_single ans m t p hq hk hd hp hf
  have hsame : m.atGuards.root.clearMarks = m.root.clearMarks := by
    rw [hroot]; split
    · exact C02.Node.clearMarks_requestR ans t.kind m.root
    · rw [C02.Node.clearMarks_fwdActiveR, C02.Node.clearMarks_mark]
  cases hdf : m.atGuards.root.marksDiffer m.root with
  | true => exact Mach.C02.processRequest_root_veto m hne hl hNM hsame hdf hveto hquiet
  | false =>
    rw [Mach.C02.processRequest_root_same m hne hl hdf, hsame, C02.Node.clearMarks_of_noMarks _ hNM]

/-- Whatever the kinds and strategies: after one approved round (guards queue nothing) the tree is
the commit pass applied to the marks the round left, with the marks cleared. -/
theorem C02_commit_any (m : Mach U) (hq : m.w.requests ≠ []) (hl : 0 < m.w.cfg.substitutionLimit)
    (hd : m.atGuards.root.marksDiffer m.root = true) (hu : m.Unvetoed) :
    m.processRequest.root = m.atGuards.root.commitR.clearMarks ∧
    ∀ w : World U, (m.atGuards.root.commit w).1 = m.atGuards.root.commitR :=
  ⟨Mach.C02.processRequest_root_differ m hq hl hd hu, fun w => C02.Node.commit_root _ w⟩

/-! ### the empty queue, `schedule` -/

/-- Processing with nothing queued changes nothing: not the tree, not the plans, not the streams, not
the trace.  Two bookkeeping fields are reset, as in `R_::processRequest`: `transitionTargets` is
cleared and `previousTransitions` becomes empty (both only with transition history enabled). -/
theorem C02_noop (m : Mach U) (h : m.w.requests = []) :
    m.processRequest =
      { m with w := { m.w.clearTargets with
                        previous := if m.w.cfg.history then [] else m.w.previous } } :=
  Mach.C02.processRequest_nil m h

theorem C02_noop_fields (m : Mach U) (h : m.w.requests = []) :
    m.processRequest.root = m.root ∧ m.processRequest.w.plans = m.w.plans ∧
    m.processRequest.w.requests = [] ∧ m.processRequest.w.ds = m.w.ds ∧
    m.processRequest.w.rng = m.w.rng ∧ m.processRequest.w.trace = m.w.trace ∧
    m.processRequest.w.succ = m.w.succ ∧ m.processRequest.w.fail = m.w.fail ∧
    m.processRequest.structActive = m.structActive ∧ m.processRequest.activity = m.activity := by
  rw [C02_noop m h]
  have hc : ∀ w : World U, w.clearTargets.plans = w.plans ∧ w.clearTargets.requests = w.requests ∧
      w.clearTargets.ds = w.ds ∧ w.clearTargets.rng = w.rng ∧ w.clearTargets.trace = w.trace ∧
      w.clearTargets.succ = w.succ ∧ w.clearTargets.fail = w.fail := by
    intro w; unfold World.clearTargets; split <;> simp
  obtain ⟨h1, h2, h3, h4, h5, h6, h7⟩ := hc m.w
  exact ⟨rfl, h1, by simpa [h] using h2, h3, h4, h5, h6, h7, rfl, rfl⟩

/-- `schedule x`, registry level.  (1) the composite region that is the direct parent of `x` (at path
`p`, `x` its prong `i`) remembers `i`; (2) no other region's resumable mark changes; (3) nothing but
resumable marks changes; (4) when the direct parent is an orthogonal region nothing changes at all. -/
theorem C02_schedule {id rid inj : Nat} {h : Bool} {st : Strategy} {a r q : Option Nat} {mk : Bool}
    {s : Subs} (n : Node) (p : List Nat) (i : Nat)
    (hpar : n.follow p = some (.compo id rid inj h st a r q mk s)) (hi : i < s.len) :
    (n.schedule (p ++ [i])).follow p = some (.compo id rid inj h st a (some i) q mk s) ∧
    (∀ p', p' ≠ p → (n.schedule (p ++ [i])).resumableAt p' = n.resumableAt p') ∧
    (n.schedule (p ++ [i])).noResumable = n.noResumable :=
  ⟨C02.Node.schedule_parent p i n hpar hi,
   fun p' hp' => C02.Node.schedule_frame (p ++ [i]) n p' (by simpa using hp'),
   C02.Node.schedule_noResumable n (p ++ [i])⟩

theorem C02_schedule_orthoParent {id rid inj : Nat} {h : Bool} {s : Subs} (n : Node) (p : List Nat)
    (i : Nat) (hpar : n.follow p = some (.ortho id rid inj h s)) : n.schedule (p ++ [i]) = n :=
  C02.Node.schedule_orthoParent p i n hpar

/-- `schedule x` through the machine: applying it runs no callback (decision stream, generator stream
and trace untouched), and a step whose queue holds only that request ends with exactly
`root.schedule path` (no guards, no commit pass). -/
theorem C02_schedule_step (m : Mach U) (t : Transition) (p : List Nat) (idx : Nat)
    (hk : t.kind = .schedule) (hp : m.root.pathTo t.dest = some p) :
    (m.applyRequest t idx).root = m.root.schedule p ∧
    (m.applyRequest t idx).w.ds = m.w.ds ∧ (m.applyRequest t idx).w.rng = m.w.rng ∧
    (m.applyRequest t idx).w.trace = m.w.trace ∧ (m.applyRequest t idx).w.requests = m.w.requests := by
  unfold Mach.applyRequest
  simp [hk, hp, World.snapshot]

theorem C02_schedule_process (m : Mach U) (t : Transition) (p : List Nat)
    (hn : m.root.NoMarks) (hq : m.w.requests = [t]) (hk : t.kind = .schedule)
    (hd : t.dest < m.w.cfg.stateCount) (hp : m.root.pathTo t.dest = some p)
    (hl : 0 < m.w.cfg.substitutionLimit) :
    m.processRequest.root = m.root.schedule p := by
  have hne : m.w.requests ≠ [] := by rw [hq]; exact List.cons_ne_nil _ _
  have hd' : t.dest < (m.w.clearTargets.freshControl).cfg.stateCount := by
    have : (m.w.clearTargets.freshControl).cfg = m.w.cfg := C02.World.clearTargets_cfg _
    rw [this]; exact hd
  have hroot : m.atGuards.root = m.root.schedule p := by
    have h1 : m.atGuards.root =
        (Mach.applyAll { m with w := m.w.clearTargets.freshControl } [t] 0).root := by
      unfold Mach.atGuards; rw [hq]
    rw [h1, Mach.C02.applyAll_single _ _ hd']
    exact (C02_schedule_step { m with w := m.w.clearTargets.freshControl } t p 0 hk hp).1
  have hdf : m.atGuards.root.marksDiffer m.root = false := by
    rw [hroot]; exact C02.Node.schedule_marksDiffer m.root p
  rw [Mach.C02.processRequest_root_same m hne hl hdf, hroot,
    C02.Node.clearMarks_of_noMarks _ (C02.Node.schedule_noMarks m.root p hn)]

/-! ### `reset` -/

/-- `reset` and the first activation compute their tree the same way, for every strategy and every
world: resolve the all-inactive tree by a `change` request, enter along the marks, clear the marks.
(`reset` leaves the request queue and the plans alone: it only clears `transitionTargets` and
`previousTransitions`.)  They therefore agree as soon as the two resolution passes return the same
marks, i.e. the `select`/`utility`/`rank` answers and generator outputs they consume agree. -/
theorem C02_reset_resolve (m m0 : Mach U) (h0 : m0.initialStage.w.requests = []) :
    (∃ w : World U, m.reset.root =
        ((m.root.cleared.request { kind := .change, index := none } w).1.enterR).clearMarks) ∧
    (∃ w : World U, m0.initialEnter.root =
        ((m0.root.request { kind := .change, index := none } w).1.enterR).clearMarks) := by
  constructor
  · obtain ⟨w, hw⟩ := Mach.C02.resetResolve_eq m
    exact ⟨w, by rw [Mach.C02.reset_root, hw]⟩
  · exact ⟨_, Mach.C02.initialEnter_root m0 h0⟩

theorem C02_reset_of_agreeing_answers (m m0 : Mach U) (h0 : m0.initialStage.w.requests = [])
    (hagree : m.resetResolve.1 = m0.initialResolve.1) :
    m.reset.root = m0.initialEnter.root := by
  rw [Mach.C02.reset_root, Mach.C02.initialEnter_root m0 h0, hagree]

/-- `reset` re-activates the machine exactly as its first activation would, with nothing resumable and
no marks — declaratively: every region picks by its declared strategy from the all-inactive tree.
`m0` is the freshly constructed machine (`m0.root` inactive and unmarked, e.g. `Mach.create shape cfg`),
`m` any later state of it (`m.root.cleared = m0.root`). -/
theorem C02_reset (ans : Nat → Nat) (m m0 : Mach U) (hsame : m.root.cleared = m0.root)
    (hplain : m0.root.plain = true) (h0 : m0.initialStage.w.requests = []) :
    m.reset.root = m0.initialEnter.root ∧
    m.reset.root = m0.root.choose ans .change ∧
    m.reset.root.noResumable = m.reset.root ∧ m.reset.root.NoMarks := by
  have hf : AnswerFree .change m0.root := .inr (.inr ⟨rfl, hplain⟩)
  have hnm : m0.root.NoMarks := by rw [← hsame]; exact C02.Node.cleared_noMarks _
  have hnr : m0.root.noResumable = m0.root := by rw [← hsame]; exact C02.Node.cleared_noRes _
  have hr : m.reset.root = m0.root.choose ans .change := by
    obtain ⟨w, hw⟩ := Mach.C02.resetResolve_eq m
    rw [Mach.C02.reset_root, hw, hsame,
      C02.Node.request_root ans m0.root { kind := .change, index := none } w hf,
      C02.Node.enter_request ans .change m0.root hnm]
  have hi : m0.initialEnter.root = m0.root.choose ans .change := by
    rw [Mach.C02.initialEnter_root m0 h0]
    unfold Mach.initialResolve
    rw [C02.Node.request_root ans m0.root { kind := .change, index := none } _ hf,
      C02.Node.enter_request ans .change m0.root hnm]
  refine ⟨by rw [hr, hi], hr, by rw [hr]; exact C02.Node.choose_noResumable ans .change m0.root hnr, ?_⟩
  rw [Mach.C02.reset_root]
  exact C02.Node.clearMarks_isNoMarks _

omit [UtilArith U] in
theorem C02_reset_create (shape : Shape) (cfg : Config) :
    (Mach.create shape cfg : Mach U).root.cleared = (Mach.create shape cfg : Mach U).root :=
  C02.Shape.toNode_cleared shape 0 0


/-! ### each region remembers the sub-state it last left -/

/-- The commit pass, on every marking of a well-formed active tree: every composite region whose
active sub-state `x` is replaced or left ends with `resumable = x` (this needs repair F8 of
`deepReenter`).  Holds for every batch and every request kind. -/
theorem C02_commit_remembers (n : Node) (ha : n.Act) : n.Remembers n.commitR :=
  C02.Node.remembers_commitR n ha

theorem C02_exit_remembers (n : Node) : n.Remembers n.exited ∧ ∀ {U : Type} (w : World U), (n.exit w).1 = n.exited :=
  ⟨C02.Node.remembers_exited n, fun w => C02.Node.exit_root n w⟩

/-- One answer-free request, approved or vetoed (guards queue nothing): every region of the resulting
tree remembers the sub-state it left. -/
theorem C02_remembers (ans : Nat → Nat) (m : Mach U) (t : Transition) (p : List Nat)
    (hS : m.root.Settled)
    (hq : m.w.requests = [t]) (hk : t.kind ≠ .schedule) (hd : t.dest < m.w.cfg.stateCount)
    (hp : m.root.pathTo t.dest = some p) (hl : 0 < m.w.cfg.substitutionLimit)
    (hf : AnswerFree t.kind m.root)
    (hquiet : (m.atGuards.approvedByGuards [] m.w.requests).1.w.requests = []) :
    m.root.Remembers m.processRequest.root := by
  have hS' := hS
  obtain ⟨-, hAct, hNM, -⟩ := hS
  have hne : m.w.requests ≠ [] := by rw [hq]; exact List.cons_ne_nil _ _
  have hroot := atGuards_root_single ans m t p hq hk hd hp hf
  have hsame : m.atGuards.root.clearMarks = m.root := by
    rw [hroot]; split
    · rw [C02.Node.clearMarks_requestR]; exact C02.Node.clearMarks_of_noMarks m.root hNM
    · rw [C02.Node.clearMarks_fwdActiveR, C02.Node.clearMarks_mark]; exact C02.Node.clearMarks_of_noMarks m.root hNM
  cases hdf : m.atGuards.root.marksDiffer m.root with
  | false =>
    rw [Mach.C02.processRequest_root_same m hne hl hdf, hsame]
    exact Node.Remembers.refl _
  | true =>
    cases hok : (m.atGuards.approvedByGuards [] m.w.requests).2 with
    | true =>
      rw [Mach.C02.processRequest_root_differ m hne hl hdf ⟨hok, hquiet⟩]
      exact C02.Node.remembers_commit_of_marking m.root m.atGuards.root hAct hsame
    | false =>
      rw [Mach.C02.processRequest_root_veto m hne hl hNM
        (by rw [hsame, C02.Node.clearMarks_of_noMarks m.root hNM]) hdf hok hquiet]
      exact Node.Remembers.refl _

/-! ### batches -/

/-- Two requests of the same answer-free kind into two different sub-states of an orthogonal root
(each destination having a composite region above it): the step yields the sequential composition
of the two specifications.  The full statement — for arbitrary batches, "later requests override
earlier conflicting ones" — is FALSE: see `C02_batch_counterexample` (N1) and
`C02_batch_kind_leak_counterexample` (N7, kinds differ). -/
theorem C02_batch_partial (ans : Nat → Nat) (m : Mach U) (t1 t2 : Transition)
    (id rid inj : Nat) (h : Bool) (s : Subs) (i1 i2 : Nat) (r1 r2 : List Nat)
    (hS : m.root.Settled) (hid : m.root.id = 0) (hroot : m.root = .ortho id rid inj h s)
    (hq : m.w.requests = [t1, t2]) (hkk : t1.kind = t2.kind) (hk : t1.kind ≠ .schedule)
    (hd1 : t1.dest < m.w.cfg.stateCount) (hd2 : t2.dest < m.w.cfg.stateCount)
    (hp1 : m.root.pathTo t1.dest = some (i1 :: r1)) (hp2 : m.root.pathTo t2.dest = some (i2 :: r2))
    (hne : i1 ≠ i2)
    (hc1 : m.root.hasCompo (i1 :: r1) = true) (hc2 : m.root.hasCompo (i2 :: r2) = true)
    (hl : 0 < m.w.cfg.substitutionLimit) (hf : AnswerFree t1.kind m.root) (hu : m.Unvetoed) :
    m.processRequest.root = (m.root.spec ans t1.kind (i1 :: r1)).spec ans t2.kind (i2 :: r2) := by
  obtain ⟨-, hAct, hNM, -⟩ := hS
  have hneq : m.w.requests ≠ [] := by rw [hq]; exact List.cons_ne_nil _ _
  have hv1 := C02.Node.pathTo_valid m.root t1.dest _ hp1
  have hv2 := C02.Node.pathTo_valid m.root t2.dest _ hp2
  have hk2 : t2.kind ≠ .schedule := hkk ▸ hk
  have hf2 : AnswerFree t2.kind m.root := hkk ▸ hf
  have hnz : ∀ (t : Transition) (i : Nat) (r : List Nat), m.root.pathTo t.dest = some (i :: r) → t.dest ≠ 0 := by
    intro t i r hp e
    have := (C02.Node.pathTo_nil_iff m.root t.dest).2 (by rw [hid, e])
    rw [hp] at this
    cases this
  -- the tree the guards see
  let m0 : Mach U := { m with w := m.w.clearTargets.freshControl }
  have hc0 : m0.w.cfg = m.w.cfg := C02.World.clearTargets_cfg _
  have hX : m.atGuards.root =
      (((m.root.mark (i1 :: r1)).1.fwdActiveR ans t1.kind).mark (i2 :: r2)).1.fwdActiveR ans t2.kind := by
    have h1 : m.atGuards.root = (Mach.applyAll m0 [t1, t2] 0).root := by
      unfold Mach.atGuards; rw [hq]
    have hm1c : (m0.applyRequest t1 0).w.cfg = m.w.cfg := by
      rw [C02.Mach.applyRequest_cfg m0 t1 0 hk hf, hc0]
    have hm1r : (m0.applyRequest t1 0).root = (m.root.mark (i1 :: r1)).1.fwdActiveR ans t1.kind :=
      C02.Mach.applyRequest_root_below ans m0 t1 0 _ hk hf (hnz t1 i1 r1 hp1) hp1
    have hcm : ((m.root.mark (i1 :: r1)).1.fwdActiveR ans t1.kind).clearMarks = m.root.clearMarks := by
      rw [C02.Node.clearMarks_fwdActiveR, C02.Node.clearMarks_mark]
    rw [h1]
    simp only [Mach.applyAll, hc0, hd1, ↓reduceIte, hm1c, hd2]
    rw [C02.Mach.applyRequest_root_below ans (m0.applyRequest t1 0) t2 1 (i2 :: r2) hk2
      (by rw [hm1r]; exact hf2.of_clearMarks_eq hcm) (hnz t2 i2 r2 hp2)
      (by rw [hm1r, C02.Node.pathTo_of_clearMarks_eq hcm]; exact hp2), hm1r]
  have hdf : m.atGuards.root.marksDiffer m.root = true := by
    rw [hX, hkk]
    rw [hroot] at hNM hv1 hv2 ⊢
    exact C02.Node.marksDiffer_two_ortho ans t2.kind id rid inj h s i1 i2 r1 r2 hNM hv1 hv2
  rw [Mach.C02.processRequest_root_differ m hneq hl hdf hu, hX, hkk]
  rw [hroot] at hAct hNM hv1 hv2 hc1 hc2 ⊢
  exact C02.Node.commit_two_ortho ans t2.kind id rid inj h s i1 i2 r1 r2 hne hAct hNM hv1 hv2 hc1 hc2

/-! ### answer-dependent kinds: the marked prong is the answer -/

/-- A region resolved by `select`: the prong it is marked with is the value `select()` returned. -/
theorem C02_select_prong (id rid inj : Nat) (h : Bool) (st : Strategy) (a r q : Option Nat) (mk : Bool)
    (s : Subs) (rq : Req) (w : World U) (i : Nat)
    (hk : effectiveKind st rq.kind = .select)
    (hsel : ((w.pin id rq.index).headSelect id inj h).2 = some i) (hi : i < s.len) :
    ∃ s' w', (Node.compo id rid inj h st a r q mk s).request rq w
      = (.compo id rid inj h st a r (some i) mk s', w') := by
  simp only [Node.request, hk]
  generalize (w.pin id rq.index).headSelect id inj h = res at hsel
  obtain ⟨w1, sel⟩ := res
  simp only at hsel
  subst hsel
  simp only [hi, ↓reduceIte]
  exact ⟨_, _, rfl⟩

/-- A region resolved by `utilize`: the prong it is marked with is `argMax` of the utilities its
sub-states reported. -/
theorem C02_utilize_prong (id rid inj : Nat) (h : Bool) (st : Strategy) (a r q : Option Nat) (mk : Bool)
    (s : Subs) (rq : Req) (w : World U)
    (hk : effectiveKind st rq.kind = .utilize) :
    ∃ (s' : Subs) (w' : World U) (us : List U),
      (if rq.kind = .change then s.reportChangeAll (w.pin id rq.index)
       else s.reportUtilizeAll (w.pin id rq.index)) = (s', w', us) ∧
      ∀ i u, argMax us = some (i, u) → ∃ w'', (Node.compo id rid inj h st a r q mk s).request rq w
        = (.compo id rid inj h st a r (some i) mk s', w'') := by
  simp only [Node.request, hk]
  generalize (if rq.kind = .change then s.reportChangeAll (w.pin id rq.index)
       else s.reportUtilizeAll (w.pin id rq.index)) = res
  obtain ⟨s', w', us⟩ := res
  refine ⟨s', w', us, rfl, ?_⟩
  intro i u hiu
  simp only [hiu]
  exact ⟨_, rfl⟩

/-- A region resolved by `randomize`: the prong it is marked with is what `resolveRandom` returns for
the reported ranks and utilities. -/
theorem C02_randomize_prong (id rid inj : Nat) (h : Bool) (st : Strategy) (a r q : Option Nat) (mk : Bool)
    (s : Subs) (rq : Req) (w : World U)
    (hk : effectiveKind st rq.kind = .randomize) :
    ∃ (s' : Subs) (w1 w2 : World U) (ranks : List Int) (us : List U),
      s.reportRankAll (w.pin id rq.index) = (w1, ranks) ∧
      (if rq.kind = .change then s.reportChangeTop ranks (topRank ranks) w1
       else s.reportRandomizeTop ranks (topRank ranks) w1) = (s', w2, us) ∧
      (Node.compo id rid inj h st a r q mk s).request rq w
        = (.compo id rid inj h st a r (w2.resolveRandom id us (treeSum us) ranks (topRank ranks)).2 mk s',
           (w2.resolveRandom id us (treeSum us) ranks (topRank ranks)).1) := by
  generalize hr1 : s.reportRankAll (w.pin id rq.index) = res1
  obtain ⟨w1, ranks⟩ := res1
  generalize hr2 : (if rq.kind = .change then s.reportChangeTop ranks (topRank ranks) w1
       else s.reportRandomizeTop ranks (topRank ranks) w1) = res2
  obtain ⟨s', w2, us⟩ := res2
  refine ⟨s', w1, w2, ranks, us, rfl, hr2, ?_⟩
  simp only [Node.request, hk, hr1, hr2]


/-! ### witnesses and examples (closed terms, checked by kernel evaluation) -/

section Witness
open Shape Shapes

/-- utilities as natural numbers, for closed-term witnesses only -/
local instance natArith : UtilArith Nat :=
  ⟨0, 1, (· + ·), (· - ·), (· * ·), (· / ·), fun a b => decide (a ≤ b)⟩

/-- user code that does nothing (200 empty decisions) -/
def quiet : List (Decision Nat) := List.replicate 200 []

/-- a machine of the given shape after its first activation -/
@[irreducible] def start (sh : Shape) : Mach Nat :=
  let m : Mach Nat := Mach.create sh { queueCap := 4 }
  ({ m with w := { m.w with ds := quiet } }).initialEnter

def ans0 : Nat → Nat := fun _ => 0

/-- W1 = `R(0)[ M(1)[ N(2)[ D0(3) D(4) ] ] Rr(5) ]`, all composite -/
def shapeW1 : Shape :=
  compo true 0 .composite
    (cons (compo true 0 .composite (cons (compo true 0 .composite (cons (leaf 0) (cons (leaf 0) nil))) nil))
    (cons (leaf 0) nil))
/-- W2 = `O⟂(0)[ A(1)[ A0(2) A1(3) ] B(4) ]` -/
def shapeW2 : Shape :=
  ortho true 0 (cons (compo true 0 .composite (cons (leaf 0) (cons (leaf 0) nil))) (cons (leaf 0) nil))
/-- W3 = `R(0)[ O⟂(1)[ A(2)[ A0(3) A1(4) ] B(5)[ B0(6) B1(7) ] ] X(8) ]` -/
def shapeW3 : Shape := compo true 0 .composite
  (cons (ortho true 0 (cons (compo true 0 .composite (cons (leaf 0) (cons (leaf 0) nil)))
                      (cons (compo true 0 .composite (cons (leaf 0) (cons (leaf 0) nil))) nil)))
  (cons (leaf 0) nil))
/-- W4 = `O⟂(0)[ A(1)[ A0(2) A1⟂(3)[ P(4)[ P0(5) P1(6) ] Q(7) ] ] B(8)[ B0(9) B1(10) ] ]` -/
def shapeW4 : Shape :=
  ortho true 0
    (cons (compo true 0 .composite
             (cons (leaf 0)
             (cons (ortho true 0 (cons (compo true 0 .composite (cons (leaf 0) (cons (leaf 0) nil))) (cons (leaf 0) nil))) nil)))
    (cons (compo true 0 .composite (cons (leaf 0) (cons (leaf 0) nil))) nil))

@[irreducible] def machW1 : Mach Nat := start shapeW1
/-- W2 after `changeTo(A1)` -/
@[irreducible] def machW2 : Mach Nat := (start shapeW2).immediate .change 3 none
/-- W3 after `changeTo(A1)`, `changeTo(B1)` -/
@[irreducible] def machW3 : Mach Nat := ((start shapeW3).immediate .change 4 none).immediate .change 7 none
/-- W4 after `changeTo(P1)`, `changeTo(A0)`: `A0 B0` active, `A1` and `P1` resumable -/
@[irreducible] def machW4 : Mach Nat := ((start shapeW4).immediate .change 6 none).immediate .change 2 none

def rootW1 : Node :=
  .compo 0 0 0 true .composite (some 0) none none false
    (.cons false (.compo 1 1 0 true .composite (some 0) none none false
        (.cons false (.compo 2 2 0 true .composite (some 0) none none false
            (.cons false (.leaf 3 0) (.cons false (.leaf 4 0) .nil))) .nil))
    (.cons false (.leaf 5 0) .nil))

omit [UtilArith U] in
private theorem request_root (m : Mach U) (k : Kind) (d : Nat) (pl : Option Nat) : (m.request k d pl).root = m.root :=
  rfl

private theorem machW1_root : machW1.root = rootW1 := C02.Node.eq_of_beq _ _ (by decide +kernel)

private theorem rootW1_settled : rootW1.Settled := by
  simp [rootW1, Node.Settled, Node.OK, Subs.OKAll, Subs.len, Node.Act, Subs.ActAt, Subs.CleanAll,
    Node.Clean, Node.NoMarks, Subs.NoMarksAll, Node.ResumableOK, Subs.ResumableOKAll]

/-- `C02_single` is not vacuous: `changeTo(D)` on W1 after its first activation satisfies every
hypothesis; the step switches `N` from `D0` to `D` and records `D0` as resumable. -/
example :
    (machW1.request .change 4 none).processRequest.root
      = (machW1.request .change 4 none).root.spec ans0 .change [0, 0, 1] ∧
    (machW1.request .change 4 none).processRequest.root.config
      = [(0, some 0, none), (1, some 0, none), (2, some 1, some 0)] := by
  refine ⟨C02_single ans0 (machW1.request .change 4 none) ⟨none, 4, .change, none⟩ [0, 0, 1]
    (by rw [request_root, machW1_root]; exact rootW1_settled)
    (by decide +kernel) (by decide +kernel) (by decide) (by decide +kernel) (by decide +kernel)
    (by decide +kernel) (by unfold AnswerFree; decide +kernel)
    (by unfold Mach.Unvetoed; decide +kernel) (by decide +kernel), by decide +kernel⟩

/-- Self transition: `changeTo(D0)` while `D0` is active re-enters it; the configuration is unchanged. -/
example : (machW1.request .change 3 none).processRequest.root = machW1.root ∧
    machW1.root.spec ans0 .change [0, 0, 0] = machW1.root :=
  ⟨C02.Node.eq_of_beq _ _ (by decide +kernel), C02.Node.eq_of_beq _ _ (by decide +kernel)⟩

def rootW2 : Node :=
  .ortho 0 0 0 true
    (.cons false (.compo 1 1 0 true .composite (some 1) (some 0) none false
        (.cons false (.leaf 2 0) (.cons false (.leaf 3 0) .nil)))
    (.cons false (.leaf 4 0) .nil))

private theorem machW2_root : machW2.root = rootW2 := C02.Node.eq_of_beq _ _ (by decide +kernel)

private theorem rootW2_settled : rootW2.Settled := by
  simp [rootW2, Node.Settled, Node.OK, Subs.OKAll, Subs.len, Node.Act, Subs.ActAt, Subs.ActAll,
    Subs.CleanAll, Node.Clean, Node.NoMarks, Subs.NoMarksAll, Node.ResumableOK, Subs.ResumableOKAll]

/-- `C02_single_orthoOnly` and `C02_remembers` are not vacuous: `restart(A)` on W2. -/
example :
    (machW2.request .restart 1 none).processRequest.root = (machW2.request .restart 1 none).root ∧
    (machW2.request .restart 1 none).root.Remembers (machW2.request .restart 1 none).processRequest.root :=
  ⟨C02_single_orthoOnly ans0 (machW2.request .restart 1 none) ⟨none, 1, .restart, none⟩ [0]
    (by rw [request_root, machW2_root]; exact rootW2_settled)
    (by decide +kernel) (by decide +kernel) (by decide) (by decide +kernel) (by decide +kernel)
    (by decide +kernel) (.inl rfl) (by decide +kernel) ⟨by decide, by decide +kernel⟩,
   C02_remembers ans0 (machW2.request .restart 1 none) ⟨none, 1, .restart, none⟩ [0]
    (by rw [request_root, machW2_root]; exact rootW2_settled)
    (by decide +kernel) (by decide) (by decide +kernel) (by decide +kernel)
    (by decide +kernel) (.inl rfl) (by decide +kernel)⟩

/-- E1 (KF-C02-ortho-only-ancestry), witness.  W2 with `A1` active, request `restart(A)`: `A`'s only
ancestor is the orthogonal root.  Every hypothesis of `C02_single` but the last holds (the path `[0]`
is not empty and has no composite region above `A`); the rules prescribe `A0` active with `A1`
resumable; the step changes nothing.  History: `enter; immediateChangeTo(A1); immediateRestart(A)`. -/
theorem C02_single_orthoOnly_counterexample :
    (machW2.request .restart 1 none).root.pathTo 1 = some [0] ∧
    (machW2.request .restart 1 none).root.hasCompo [0] = false ∧
    (machW2.root.spec ans0 .restart [0]).config = [(1, some 0, some 1)] ∧
    (machW2.request .restart 1 none).processRequest.root.config = [(1, some 1, some 0)] ∧
    (machW2.request .restart 1 none).processRequest.root = machW2.root ∧
    (machW2.request .restart 1 none).processRequest.root ≠ machW2.root.spec ans0 .restart [0] :=
  ⟨by decide +kernel, by decide +kernel, by decide +kernel, by decide +kernel,
   C02.Node.eq_of_beq _ _ (by decide +kernel), C02.Node.ne_of_beq_false (by decide +kernel)⟩

/-- E1, second form (KF-C02-ortho-root-dropped).  A request addressed to the orthogonal root itself
(`changeTo(O)`, path `[]`) does get its marks (`A` is resolved to `A0`), but the guards of the round
answer "no" although no callback cancels: `deepForwardExitGuard` walks the unmarked plain sub-state
`B`, which answers `false`.  So `Unvetoed` fails and nothing changes.
History: `enter; immediateChangeTo(A1); immediateChangeTo(O)`. -/
theorem C02_single_orthoRoot_counterexample :
    (machW2.request .change 0 none).root.pathTo 0 = some [] ∧
    ((machW2.request .change 0 none).atGuards.approvedByGuards []
        (machW2.request .change 0 none).w.requests).2 = false ∧
    (machW2.root.spec ans0 .change []).config = [(1, some 0, some 1)] ∧
    (machW2.request .change 0 none).processRequest.root = machW2.root :=
  ⟨by decide +kernel, by decide +kernel, by decide +kernel, C02.Node.eq_of_beq _ _ (by decide +kernel)⟩

/-- Reading note R2, on W3 in `A1 B1`: `restart(A)` re-enters the whole active prong `O⟂` of the root,
so `B` is restarted too (`B0` active, `B1` resumable).  The specification says so and the step does so. -/
theorem example_R2 :
    machW3.root.config = [(0, some 0, none), (2, some 1, some 0), (5, some 1, some 0)] ∧
    (machW3.request .restart 2 none).processRequest.root = machW3.root.spec ans0 .restart [0, 0] ∧
    (machW3.request .restart 2 none).processRequest.root.config
      = [(0, some 0, none), (2, some 0, some 1), (5, some 0, some 1)] ∧
    machW3.root.parentCompo [0, 0] = false ∧
    (machW3.root.specLit ans0 .restart [0, 0]).config
      = [(0, some 0, none), (2, some 0, some 1), (5, some 1, some 0)] ∧
    (machW3.request .restart 2 none).processRequest.root ≠ machW3.root.specLit ans0 .restart [0, 0] :=
  ⟨by decide +kernel, C02.Node.eq_of_beq _ _ (by decide +kernel), by decide +kernel, by decide +kernel,
   by decide +kernel, C02.Node.ne_of_beq_false (by decide +kernel)⟩

/-- E2 (N1), witness: W1 after its first activation, batch `[changeTo(Rr), changeTo(D)]`.  Both
requests are answer-free, no guard cancels, nothing else is queued.  The later request does NOT win:
the root ends in `Rr` (`D` inactive).  Processing the two requests one after the other ends in `D`;
so does the last request alone.
History: `enter; changeTo(Rr); changeTo(D); update`. -/
theorem C02_batch_counterexample :
    ((machW1.request .change 5 none).request .change 4 none).w.requests
      = [⟨none, 5, .change, none⟩, ⟨none, 4, .change, none⟩] ∧
    ((machW1.request .change 5 none).request .change 4 none).Unvetoed ∧
    ((machW1.request .change 5 none).request .change 4 none).processRequest.root.config
      = [(0, some 1, some 0), (1, none, some 0), (2, none, some 0)] ∧
    ((machW1.root.specTo ans0 .change 5).specTo ans0 .change 4).config
      = [(0, some 0, some 1), (1, some 0, none), (2, some 1, some 0)] ∧
    (machW1.root.specTo ans0 .change 4).config
      = [(0, some 0, none), (1, some 0, none), (2, some 1, some 0)] ∧
    ((machW1.request .change 5 none).request .change 4 none).processRequest.root
      ≠ (machW1.root.specTo ans0 .change 5).specTo ans0 .change 4 ∧
    ((machW1.request .change 5 none).request .change 4 none).processRequest.root
      ≠ machW1.root.specTo ans0 .change 4 :=
  ⟨by decide +kernel, by unfold Mach.Unvetoed; decide +kernel, by decide +kernel, by decide +kernel,
   by decide +kernel, C02.Node.ne_of_beq_false (by decide +kernel), C02.Node.ne_of_beq_false (by decide +kernel)⟩

/-- E3 (N7), witness: W4 in `A0 B0` with `A1`, `P1` resumable; batch `[restart(A1), resume(B1)]`: two
different sub-states of the orthogonal root, each destination below a composite region, no veto.
`restart(A1)` prescribes `P0`; the later `resume(B1)`, addressed to the other branch, walks `A`'s
branch again and re-resolves the orthogonal region `A1` with kind `resume`: `P1` ends up active.
With equal kinds the step is the composition of the specifications (`C02_batch_partial`, last clause:
its hypotheses hold here).  History: `enter; immediateChangeTo(P1); immediateChangeTo(A0);
restart(A1); resume(B1); update`. -/
theorem C02_batch_kind_leak_counterexample :
    machW4.root.config = [(1, some 0, some 1), (4, none, some 1), (8, some 0, none)] ∧
    ((machW4.request .restart 3 none).request .resume 10 none).Unvetoed ∧
    ((machW4.request .restart 3 none).request .resume 10 none).processRequest.root.config
      = [(1, some 1, some 0), (4, some 1, none), (8, some 1, some 0)] ∧
    ((machW4.root.spec ans0 .restart [0, 1]).spec ans0 .resume [1, 1]).config
      = [(1, some 1, some 0), (4, some 0, some 1), (8, some 1, some 0)] ∧
    ((machW4.request .restart 3 none).request .resume 10 none).processRequest.root
      ≠ (machW4.root.spec ans0 .restart [0, 1]).spec ans0 .resume [1, 1] ∧
    ((machW4.request .restart 3 none).request .restart 10 none).processRequest.root
      = (machW4.root.spec ans0 .restart [0, 1]).spec ans0 .restart [1, 1] :=
  ⟨by decide +kernel, by unfold Mach.Unvetoed; decide +kernel, by decide +kernel, by decide +kernel,
   C02.Node.ne_of_beq_false (by decide +kernel), C02.Node.eq_of_beq _ _ (by decide +kernel)⟩

/-- `C02_batch_partial` is not vacuous: its decidable hypotheses hold for `[restart(A1), restart(B1)]`
on W4. -/
example :
    machW4.root.id = 0 ∧ machW4.root.pathTo 3 = some [0, 1] ∧ machW4.root.pathTo 10 = some [1, 1] ∧
    machW4.root.hasCompo [0, 1] = true ∧ machW4.root.hasCompo [1, 1] = true ∧
    AnswerFree .restart machW4.root ∧
    ((machW4.request .restart 3 none).request .restart 10 none).Unvetoed :=
  ⟨by decide +kernel, by decide +kernel, by decide +kernel, by decide +kernel, by decide +kernel,
   .inl rfl, by unfold Mach.Unvetoed; decide +kernel⟩

/-- `C02_reset` is not vacuous, and `reset` after `changeTo(D)` returns W1 to its first configuration
with nothing resumable. -/
example :
    (machW1.immediate .change 4 none).root.cleared = (Mach.create shapeW1 { queueCap := 4 } : Mach Nat).root ∧
    (Mach.create shapeW1 { queueCap := 4 } : Mach Nat).root.plain = true ∧
    (machW1.immediate .change 4 none).reset.root.config
      = [(0, some 0, none), (1, some 0, none), (2, some 0, none)] :=
  ⟨C02.Node.eq_of_beq _ _ (by decide +kernel), by decide +kernel, by decide +kernel⟩

/-- `schedule(D)` on W1: only `N` remembers `D`; nothing is activated. -/
example :
    (machW1.request .schedule 4 none).processRequest.root.config
      = [(0, some 0, none), (1, some 0, none), (2, some 0, some 1)] := by decide +kernel

end Witness

/-
Theorems that constitute the property (for Props/INDEX.json):

  C02_single                          one unvetoed answer-free request: the tree after the step is `spec`
  C02_single_specTo                   same, stated with the destination id
  C02_single_orthoOnly                E1: destination with only orthogonal ancestors: nothing changes
  C02_single_orthoOnly_counterexample E1 witness (spec ≠ result)
  C02_single_orthoRoot_counterexample E1 second form: request to an orthogonal root is dropped by the guards' walk
  C02_veto_unchanged                  a vetoed single round restores the tree exactly
  C02_commit_any                      any kinds: tree after an approved round = commit pass of the marks, cleared
  C02_select_prong / C02_utilize_prong / C02_randomize_prong   the marked prong is the answer
  C02_noop, C02_noop_fields           empty queue: nothing changes (previousTransitions := [], targets cleared)
  C02_schedule, C02_schedule_orthoParent, C02_schedule_step, C02_schedule_process
  C02_reset_resolve, C02_reset_of_agreeing_answers, C02_reset, C02_reset_create
  C02_commit_remembers, C02_exit_remembers, C02_remembers   regions remember the sub-state they leave
  C02_batch_partial                   two same-kind requests into different sub-states of an orthogonal root
  C02_batch_counterexample            E2 / N1 witness
  C02_batch_kind_leak_counterexample  E3 / N7 witness
  C02_single_literal_partial          the literal reading (`specLit`) when the destination's parent is composite
  example_R2                          reading note R2 witness (the literal reading fails below an orthogonal parent)
-/

/-! ### answer-dependent kinds, end to end -/

/-- One approved request of ANY kind other than `schedule` (hypotheses of `C02_single`, with
`AnswerFree` replaced by `Agrees`): for every oracle that gives each region the request resolves by
`select()` / utilities / ranks / the generator the prong that resolution computes from the streams
(`Mach.answers`), the tree after the step is the specified one. -/
theorem C02_single_answered (ans : Nat → Nat) (m : Mach U) (t : Transition) (p : List Nat)
    (hS : m.root.Settled) (hid : m.root.id = 0)
    (hq : m.w.requests = [t]) (hk : t.kind ≠ .schedule) (hd : t.dest < m.w.cfg.stateCount)
    (hp : m.root.pathTo t.dest = some p) (hl : 0 < m.w.cfg.substitutionLimit)
    (ha : Agrees ans (m.answers t)) (hu : m.Unvetoed)
    (hE : p = [] ∨ m.root.hasCompo p = true) :
    m.processRequest.root = m.root.spec ans t.kind p :=
  Mach.C02.processRequest_answered ans m t p hS hid hq hk hd hp hl ha hu hE

/-- `Mach.answers` is written without the operational passes (`Node.specCh`: the recursion of `Node.spec`
over `Node.requestCh` and C12's stream functions).  On a settled tree it is the list of answers that
`requestImmediate` (`Node.mark`) followed by `deepForwardActive` / `deepRequest` consume. -/
theorem C02_answers_operational (m : Mach U) (t : Transition) (p : List Nat)
    (hS : m.root.Settled) (hid : m.root.id = 0)
    (hp : m.root.pathTo t.dest = some p) (hE : p = [] ∨ m.root.hasCompo p = true) :
    m.answers t =
      if t.dest = 0 then m.root.requestCh t.kind m.w.sig else (m.root.mark p).1.fwdActiveCh t.kind m.w.sig := by
  rw [Mach.C02.answers_eq_op m t p hS.2.1 hS.2.2.1 hid hp hE]
  simp only [Mach.answersOp, Node.answersTo, hp]

/-- If the model met no contract violation up to the guards of the round (`select()` answered a prong
in range, the generator stream was not exhausted, every draw selected something, …), no resolution of
the request failed. -/
theorem C02_answers_noFail (m : Mach U) (t : Transition) (p : List Nat)
    (hS : m.root.Settled) (hid : m.root.id = 0) (hq : m.w.requests = [t]) (hk : t.kind ≠ .schedule)
    (hd : t.dest < m.w.cfg.stateCount) (hp : m.root.pathTo t.dest = some p)
    (hE : p = [] ∨ m.root.hasCompo p = true) (he : m.atGuards.w.err = none) : NoFail (m.answers t) :=
  Mach.C02.answers_noFail m t p hS hid hq hk hd hp hE he

/-- On a tree numbered in pre-order the answers list each region at most once (head ids strictly
increasing), so the oracle read off the list, `Mach.ansOf`, agrees with it. -/
theorem C02_ansOf_agrees (m : Mach U) (t : Transition) (p : List Nat)
    (hS : m.root.Settled) (hI : m.root.IdsFrom 0)
    (hq : m.w.requests = [t]) (hk : t.kind ≠ .schedule) (hd : t.dest < m.w.cfg.stateCount)
    (hp : m.root.pathTo t.dest = some p) (hE : p = [] ∨ m.root.hasCompo p = true)
    (he : m.atGuards.w.err = none) :
    (m.answers t).Within 0 (0 + m.root.size) ∧ Agrees (m.ansOf t) (m.answers t) :=
  ⟨Mach.C02.answers_within m t p hS hI hp hE, Mach.C02.agrees_ansOf m t p hS hI hq hk hd hp hE he⟩

/-- END TO END.  One approved request of any kind other than `schedule` on a settled tree numbered in
pre-order, no contract violation during the step: the tree after the step is `Node.spec` with the
oracle `Mach.ansOf m t` = the choices C12's pure stream functions compute from the decision and
generator streams at the start of the step. -/
theorem C02_single_ansOf (m : Mach U) (t : Transition) (p : List Nat)
    (hS : m.root.Settled) (hI : m.root.IdsFrom 0)
    (hq : m.w.requests = [t]) (hk : t.kind ≠ .schedule) (hd : t.dest < m.w.cfg.stateCount)
    (hp : m.root.pathTo t.dest = some p) (hl : 0 < m.w.cfg.substitutionLimit)
    (he : m.processRequest.w.err = none) (hu : m.Unvetoed)
    (hE : p = [] ∨ m.root.hasCompo p = true) :
    m.processRequest.root = m.root.spec (m.ansOf t) t.kind p := by
  have hne : m.w.requests ≠ [] := by rw [hq]; exact List.cons_ne_nil _ _
  have he' := Mach.C02.atGuards_err_of_processRequest m hne hl he
  exact C02_single_answered (m.ansOf t) m t p hS (Node.IdsFrom.id_eq hI) hq hk hd hp hl
    (Mach.C02.agrees_ansOf m t p hS hI hq hk hd hp hE he') hu hE

/-- `C02_single_ansOf` in terms of the destination id. -/
theorem C02_single_ansOf_specTo (m : Mach U) (t : Transition) (p : List Nat)
    (hS : m.root.Settled) (hI : m.root.IdsFrom 0)
    (hq : m.w.requests = [t]) (hk : t.kind ≠ .schedule) (hd : t.dest < m.w.cfg.stateCount)
    (hp : m.root.pathTo t.dest = some p) (hl : 0 < m.w.cfg.substitutionLimit)
    (he : m.processRequest.w.err = none) (hu : m.Unvetoed)
    (hE : p = [] ∨ m.root.hasCompo p = true) :
    m.processRequest.root = m.root.specTo (m.ansOf t) t.kind t.dest := by
  rw [C02_single_ansOf m t p hS hI hq hk hd hp hl he hu hE]
  simp only [Node.specTo, hp]

/-- An answer-free request consumes no answer … -/
theorem C02_answers_answerFree (m : Mach U) (t : Transition) (p : List Nat)
    (hS : m.root.Settled) (hid : m.root.id = 0) (hp : m.root.pathTo t.dest = some p)
    (hE : p = [] ∨ m.root.hasCompo p = true) (hf : AnswerFree t.kind m.root) : m.answers t = [] :=
  Mach.C02.answers_answerFree m t p hS hid hp hE hf

/-- … so `C02_single` is the special case of `C02_single_answered` in which the oracle is never consulted. -/
theorem C02_single_of_answered (ans : Nat → Nat) (m : Mach U) (t : Transition) (p : List Nat)
    (hS : m.root.Settled) (hid : m.root.id = 0)
    (hq : m.w.requests = [t]) (hk : t.kind ≠ .schedule) (hd : t.dest < m.w.cfg.stateCount)
    (hp : m.root.pathTo t.dest = some p) (hl : 0 < m.w.cfg.substitutionLimit)
    (hf : AnswerFree t.kind m.root) (hu : m.Unvetoed)
    (hE : p = [] ∨ m.root.hasCompo p = true) :
    m.processRequest.root = m.root.spec ans t.kind p :=
  C02_single_answered ans m t p hS hid hq hk hd hp hl
    (by rw [C02_answers_answerFree m t p hS hid hp hE hf]; exact agrees_nil ans) hu hE

/-- The entry of a region resolved by `select` / `utilize` / `randomize` (or `change` of a region
declared so) is C12's `requestChoice` at the stream position where the traversal reaches it. -/
theorem C02_answer_is_requestChoice (id rid inj : Nat) (h : Bool) (st : Strategy) (a r q : Option Nat) (mk : Bool)
    (s : Subs) (k : Kind) (σ : Sig U)
    (hk : effectiveKind st k = .select ∨ effectiveKind st k = .utilize ∨ effectiveKind st k = .randomize) :
    ((Node.compo id rid inj h st a r q mk s).requestCh k σ).head? = some (id, requestChoice h st r none s k σ) :=
  Node.requestCh_head id rid inj h st a r q mk s k σ hk

/-- A vetoed single round (whose guard callbacks queue nothing) changes nothing — for a request of ANY
kind other than `schedule`, whatever `select()` / `utility()` / `rank()` / the generator answered
(the answers are consumed all the same). -/
theorem C02_veto_unchanged_any (m : Mach U) (t : Transition)
    (hS : m.root.Settled)
    (hq : m.w.requests = [t]) (hk : t.kind ≠ .schedule) (hd : t.dest < m.w.cfg.stateCount)
    (hl : 0 < m.w.cfg.substitutionLimit)
    (hveto : (m.atGuards.approvedByGuards [] m.w.requests).2 = false)
    (hquiet : (m.atGuards.approvedByGuards [] m.w.requests).1.w.requests = []) :
    m.processRequest.root = m.root := by
  obtain ⟨-, -, hNM, -⟩ := hS
  have hne : m.w.requests ≠ [] := by rw [hq]; exact List.cons_ne_nil _ _
  have hsame := Mach.C02.atGuards_clearMarks m t hq hk hd
  cases hdf : m.atGuards.root.marksDiffer m.root with
  | true => exact Mach.C02.processRequest_root_veto m hne hl hNM hsame hdf hveto hquiet
  | false =>
    rw [Mach.C02.processRequest_root_same m hne hl hdf, hsame, C02.Node.clearMarks_of_noMarks _ hNM]

/-- What makes the composition work although the marks differ (O2): the tree the guards see is `Sim`
the tree of the pure resolution — equal wherever the commit pass walks, equal up to marks elsewhere —
and `commit` followed by `clearRequests` cannot tell `Sim` trees apart. -/
theorem C02_marks_sim (ans : Nat → Nat) (m : Mach U) (t : Transition) (p : List Nat)
    (hS : m.root.Settled) (hid : m.root.id = 0)
    (hq : m.w.requests = [t]) (hk : t.kind ≠ .schedule) (hd : t.dest < m.w.cfg.stateCount)
    (hp : m.root.pathTo t.dest = some p) (hE : p = [] ∨ m.root.hasCompo p = true)
    (ha : Agrees ans (m.answers t)) :
    m.atGuards.root.Sim
      (if t.dest = 0 then m.root.requestR ans t.kind else (m.root.mark p).1.fwdActiveR ans t.kind) ∧
    ∀ x y : Node, x.Sim y → x.commitR.clearMarks = y.commitR.clearMarks :=
  ⟨Mach.C02.atGuards_sim ans m t p hq hk hd hp
      (by rw [← Mach.C02.answers_eq_op m t p hS.2.1 hS.2.2.1 hid hp hE]; exact ha),
   C02.Node.sim_commitR⟩

section WitnessAnswered
open Shape Shapes

attribute [local instance] natArith

/-- A = `R(0)[ A(1) U⟨utilitarian⟩(2)[ X(3)[X0(4) X1(5)] Y⟨random⟩(6)[Y0(7) Y1(8)] ] S⟨selectable⟩(9)[S0(10) S1(11)] ]` -/
def shapeA : Shape :=
  compo true 0 .composite
    (cons (leaf 0)
    (cons (compo true 0 .utilitarian
            (cons (compo true 0 .composite (cons (leaf 0) (cons (leaf 0) nil)))
            (cons (compo true 0 .random (cons (leaf 0) (cons (leaf 0) nil))) nil)))
    (cons (compo true 0 .selectable (cons (leaf 0) (cons (leaf 0) nil))) nil)))

/-- the same machine with the given answers of user code (followed by idle callbacks) and generator outputs -/
def withStreams (m : Mach Nat) (ds : List (Decision Nat)) (rng : List Nat) : Mach Nat :=
  { m with w := { m.w with ds := ds ++ quiet, rng := rng } }

/-- A after its first activation (`A` active) -/
@[irreducible] def machA : Mach Nat := start shapeA

def rootA : Node :=
  .compo 0 0 0 true .composite (some 0) none none false
    (.cons false (.leaf 1 0)
    (.cons false (.compo 2 1 0 true .utilitarian none none none false
        (.cons false (.compo 3 2 0 true .composite none none none false
            (.cons false (.leaf 4 0) (.cons false (.leaf 5 0) .nil)))
        (.cons false (.compo 6 3 0 true .random none none none false
            (.cons false (.leaf 7 0) (.cons false (.leaf 8 0) .nil))) .nil)))
    (.cons false (.compo 9 4 0 true .selectable none none none false
        (.cons false (.leaf 10 0) (.cons false (.leaf 11 0) .nil))) .nil)))

private theorem machA_root : machA.root = rootA := C02.Node.eq_of_beq _ _ (by decide +kernel)

private theorem rootA_settled : rootA.Settled := by
  simp [rootA, Node.Settled, Node.OK, Subs.OKAll, Subs.len, Node.Act, Subs.ActAt, Subs.CleanAll,
    Node.Clean, Node.NoMarks, Subs.NoMarksAll, Node.ResumableOK, Subs.ResumableOKAll]

private theorem rootA_ids : rootA.IdsFrom 0 := by
  simp [rootA, Node.IdsFrom, Subs.IdsFrom, Node.size, Subs.size]

/-- `changeTo(U)` with `X.utility = 1`, `X0.utility = 2`, `Y.utility = 1`, ranks `Y0: 0`, `Y1: 1`,
`Y1.utility = 7`, generator output `0` -/
@[irreducible] def machA1 : Mach Nat :=
  (withStreams machA [[.retUtil 1], [.retUtil 2], [.retUtil 1], [.retRank 0], [.retRank 1], [.retUtil 7]] [0]).request
    .change 2 none

private theorem machA1_root : machA1.root = rootA := C02.Node.eq_of_beq _ _ (by decide +kernel)

/-- `C02_single_ansOf` on a utilitarian region with a nested random one: `changeTo(U)` from `A`.
The request consumes two answers: `U` (head 2) picks `Y` (1 × 7 > 1 × 2), `Y` (head 6) draws `Y1`
(the only top-rank sub-state).  The step switches the root to `U`, `U` to `Y`, `Y` to `Y1`; `X`, the
candidate that lost, stays inactive.  Every hypothesis holds. -/
example :
    machA1.answers ⟨none, 2, .change, none⟩ = [(2, some 1), (6, some 1)] ∧
    machA1.processRequest.root = machA1.root.spec (machA1.ansOf ⟨none, 2, .change, none⟩) .change [1] ∧
    machA1.processRequest.root.config
      = [(0, some 1, some 0), (2, some 1, none), (3, none, none), (6, some 1, none), (9, none, none)] := by
  refine ⟨by decide +kernel, ?_, by decide +kernel⟩
  exact C02_single_ansOf machA1 ⟨none, 2, .change, none⟩ [1]
    (by rw [machA1_root]; exact rootA_settled) (by rw [machA1_root]; exact rootA_ids)
    (by decide +kernel) (by decide) (by decide +kernel) (by decide +kernel) (by decide +kernel)
    (by decide +kernel) (by unfold Mach.Unvetoed; decide +kernel) (by decide +kernel)

/-- the same step through `C02_single_answered`, with an oracle written by hand -/
example :
    machA1.processRequest.root
      = machA1.root.spec (fun id => if id = 2 then 1 else if id = 6 then 1 else 0) .change [1] :=
  C02_single_answered _ machA1 ⟨none, 2, .change, none⟩ [1]
    (by rw [machA1_root]; exact rootA_settled) (by decide +kernel)
    (by decide +kernel) (by decide) (by decide +kernel) (by decide +kernel) (by decide +kernel)
    (by unfold Agrees; decide +kernel) (by unfold Mach.Unvetoed; decide +kernel) (by decide +kernel)

/-- O2 at machine level, witness.  In the step above the report pass of `U` marked the nested region
of the losing candidate `X` (`requested = X0`); the pure resolution leaves `X` unmarked.  The guards of
the round see the stale mark (`isPendingEnter(X0)` is true although `X0` is never entered); the
committed configuration is the specified one all the same.
History: `enter; changeTo(U); update` with `utility()`/`rank()` answers as in `machA1`. -/
theorem C02_stale_marks_witness :
    (machA1.atGuards.root.follow [1, 0]).map Node.requested = some (some 0) ∧
    (((machA1.root.mark [1]).1.fwdActiveR (machA1.ansOf ⟨none, 2, .change, none⟩) .change).follow [1, 0]).map
        Node.requested = some none ∧
    machA1.atGuards.root.isPendingEnter 4 = true ∧
    machA1.processRequest.root.isActive 4 = false ∧
    machA1.processRequest.root.isActive 8 = true ∧
    machA1.processRequest.root.NoMarks :=
  ⟨by decide +kernel, by decide +kernel, by decide +kernel, by decide +kernel, by decide +kernel,
   by rw [Mach.C02.processRequest_root_differ machA1 (by decide +kernel) (by decide +kernel) (by decide +kernel)
        (by unfold Mach.Unvetoed; decide +kernel)]
      exact C02.Node.clearMarks_isNoMarks _⟩

/-- A in `U / Y / Y1` (after the step above), then `utilize(U)` with `X: 1, X0: 3, X1: 9`, `Y: 1, Y0: 4, Y1: 5` -/
@[irreducible] def machA2 : Mach Nat :=
  (withStreams machA1.processRequest
      [[.retUtil 1], [.retUtil 3], [.retUtil 9], [.retUtil 1], [.retUtil 4], [.retUtil 5]] []).request .utilize 2 none

/-- `utilize(U)` while `U` is active in `Y`: the request re-targets `U` in place.  It consumes three
answers — `U` picks `X` (9 > 5), `X` picks `X1`, and the loser `Y` picks `Y1` (listed, consumed, not
committed).  The step leaves `Y` (recording `Y1`) and enters `X / X1`. -/
example :
    machA2.answers ⟨none, 2, .utilize, none⟩ = [(2, some 0), (3, some 1), (6, some 1)] ∧
    machA2.root.config
      = [(0, some 1, some 0), (2, some 1, none), (3, none, none), (6, some 1, none), (9, none, none)] ∧
    machA2.processRequest.root.beq (machA2.root.spec (machA2.ansOf ⟨none, 2, .utilize, none⟩) .utilize [1]) = true ∧
    machA2.processRequest.root.config
      = [(0, some 1, some 0), (2, some 0, some 1), (3, some 1, none), (6, none, some 1), (9, none, none)] ∧
    machA2.processRequest.w.err = none :=
  ⟨by decide +kernel, by decide +kernel, by decide +kernel, by decide +kernel, by decide +kernel⟩

/-- `changeTo(S)` from `A`, `select()` answers 1: one answer, `S` (head 9) takes `S1`. -/
@[irreducible] def machA3 : Mach Nat := (withStreams machA [[.retSelect 1]] []).request .change 9 none

private theorem machA3_root : machA3.root = rootA := C02.Node.eq_of_beq _ _ (by decide +kernel)

example :
    machA3.answers ⟨none, 9, .change, none⟩ = [(9, some 1)] ∧
    machA3.processRequest.root = machA3.root.spec (machA3.ansOf ⟨none, 9, .change, none⟩) .change [2] ∧
    machA3.processRequest.root.config
      = [(0, some 2, some 0), (2, none, none), (3, none, none), (6, none, none), (9, some 1, none)] := by
  refine ⟨by decide +kernel, ?_, by decide +kernel⟩
  exact C02_single_ansOf machA3 ⟨none, 9, .change, none⟩ [2]
    (by rw [machA3_root]; exact rootA_settled) (by rw [machA3_root]; exact rootA_ids)
    (by decide +kernel) (by decide) (by decide +kernel) (by decide +kernel) (by decide +kernel)
    (by decide +kernel) (by unfold Mach.Unvetoed; decide +kernel) (by decide +kernel)

/-- B = `R(0)[ A(1) U⟨utilitarian⟩(2)[ S⟨selectable⟩(3)[S0(4) S1(5)] L(6) ] ]` (the tree of C12's
`witness_stale_mark_used`) -/
def shapeB : Shape :=
  compo true 0 .composite
    (cons (leaf 0)
    (cons (compo true 0 .utilitarian
            (cons (compo true 0 .selectable (cons (leaf 0) (cons (leaf 0) nil))) (cons (leaf 0) nil))) nil))

/-- O1 at machine level, witness.  `changeTo(U)`: the selectable region `S` nested in the utilitarian
`U` is resolved by `deepReportChange` — resumable-or-0, here `S0` — and `select()` is never called: the
decision `select() = 1` that user code would give is not consumed (when the guards start, exactly the
three `utility()` decisions are gone).  The list of answers says so (`(3, some 0)`), and with that oracle the step is the
specified one: `S0` is entered.  History: `enter; changeTo(U); update`, `S.utility = 1`, `S0.utility = 5`,
`L.utility = 1`. -/
theorem C02_selectable_below_utilitarian_witness :
    let m := (withStreams (start shapeB) [[.retUtil 1], [.retUtil 5], [.retUtil 1], [.retSelect 1]] []).request .change 2 none
    m.answers ⟨none, 2, .change, none⟩ = [(2, some 0), (3, some 0)] ∧
    m.atGuards.w.ds.length + 3 = m.w.ds.length ∧
    m.processRequest.root.beq (m.root.spec (m.ansOf ⟨none, 2, .change, none⟩) .change [1]) = true ∧
    m.processRequest.root.config = [(0, some 1, some 0), (2, some 0, none), (3, some 0, none)] :=
  ⟨by decide +kernel, by decide +kernel, by decide +kernel, by decide +kernel⟩

/-- Out of contract: `select()` answers a prong that does not exist.  The resolution fails (listed as
`none`), the model records the violation (the library: `HFSM2_ASSERT`), no oracle agrees with the list,
and the theorems above do not apply.  (In the model the entry guards' walk then meets the unresolved
region, the round is dropped and the configuration stays as it was.)
History: `enter; changeTo(S); update` with `select()` answering 5. -/
theorem C02_select_out_of_range_witness :
    let m := (withStreams machA [[.retSelect 5]] []).request .change 9 none
    m.answers ⟨none, 9, .change, none⟩ = [(9, none)] ∧ m.processRequest.w.err = some "select() out of range" ∧
    m.processRequest.root.config = m.root.config ∧
    ∀ ans : Nat → Nat, ¬ Agrees ans (m.answers ⟨none, 9, .change, none⟩) := by
  refine ⟨by decide +kernel, by decide +kernel, by decide +kernel, ?_⟩
  intro ans h
  have e : ((withStreams machA [[.retSelect 5]] []).request .change 9 none).answers ⟨none, 9, .change, none⟩
      = [(9, none)] := by decide +kernel
  rw [e] at h
  exact absurd (h (9, none) (List.mem_singleton.2 rfl)) (by simp)

end WitnessAnswered

/-
Theorems of the last section (for Props/INDEX.json):

  C02_single_answered            one unvetoed request of any kind: tree after the step = `spec ans` for every
                                 oracle that agrees with the answers the request consumes
  C02_single_ansOf, _specTo      the same with the oracle `Mach.ansOf` read off the streams (pre-order ids, err = none)
  C02_answers_operational        the declarative list = what `mark` + the forward pass consume (settled tree)
  C02_answers_noFail             err = none up to the guards: no listed resolution failed
  C02_ansOf_agrees               pre-order ids: each region listed once, `ansOf` agrees with the list
  C02_answers_answerFree, C02_single_of_answered   `C02_single` is the special case "no answers consumed"
  C02_answer_is_requestChoice    a listed prong is C12's `requestChoice` at the region's stream position
  C02_veto_unchanged_any         a vetoed single round of any kind restores the tree
  C02_marks_sim                  the marks at the guards are `Sim` the pure ones; commit + clear cannot tell
  C02_stale_marks_witness        O2: the losers' marks are visible to the guards, not committed
  C02_selectable_below_utilitarian_witness  O1: nested selectable region resolved without `select()`
  C02_select_out_of_range_witness  a failed resolution: listed as `none`, err recorded, no oracle agrees
-/

end Hfsm.Props.C02
