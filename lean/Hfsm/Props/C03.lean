/-
C03 — lifecycle callbacks are balanced, nested and delivered to the right object.

Vocabulary (Proofs/Lifecycle.lean, Proofs/LifecycleMach.lean, Proofs/Nesting.lean):
  * an *object* is a pair (state id, handler slot): the state's own handler (slot = number of injected
    bases) or one of its injected bases; the anonymous head of a `…Peers` region has no object;
  * `lifeStep m b` — what a callback of method `m` requires of the object it is delivered to (`b` = is
    entered): `enter` needs it closed and opens it, `exit` needs it open and closes it; `reenter`,
    `pre/·/postUpdate`, `pre/·/postReact`, `query` and `exitGuard` need it open; `select/rank/utility`,
    `entryGuard` (delivered to states that are not entered) and the plan callbacks (not in the
    property) are unconstrained.  `track x` folds `lifeStep` over the callbacks of object `x`;
  * `LifeOK opn seq` — no object met a violation in the callback sequence `seq`, and exactly the
    objects of `opn` are entered at its end;
  * `track2 kp kc` additionally fails when `kc` is entered while `kp` is not, or `kp` exited while `kc`
    still is; `Node.ancKey n kp c` — `kp` is an object of a state of `n` and `c` the id of a strict
    descendant of it; `NestOK n opn seq` — no violation for any (ancestor object, descendant object);
  * `hasKey l x` — `x` is an object of one of the states of the list `l`; the entered objects are
    always `hasKey root.activePre`.
The lifecycle traversals are characterised exactly first (`*_delivers`: which callbacks, in which
order, and what the active enumeration is afterwards), the invariants follow.

Hypotheses.  `Act`, `Res`, `COK` (Proofs/Wf.lean) are the registry facts C01 establishes for the trees
the instance hands to these traversals; they are explicit so that the theorems compose with C01's.
`IdsFrom k` = state ids are consecutive in DFS order (true of every tree `Mach.create` builds:
`Shape.toNode_idsFrom`).  Every statement about *complete* lifecycles assumes a decision stream long
enough for the traversal (`… ≤ w.ds.length`): on an exhausted stream the model stops delivering and
records a harness contract violation in `err`.

Not modelled: *object identity* ("the callback runs on the very object `access<State>()` returns")
is a C++ notion; the harness compares `this` with `&fsm.access<S>()` in every callback and prints
`THIS-MISMATCH` on the `cb` line, judged by tools/oracles.py (tag `identity`) and tools/oracle_c03.py.
Destruction of an automatically activated instance is `finalExit` (root_1.inl `~RV_`).
-/
import Hfsm.Proofs.Nesting

namespace Hfsm.Props.C03
open Hfsm
variable {U : Type}

/-! ### example trees -/

/-- root region (1 base) › [leaf 1, orthogonal 2 › [leaf 3 (2 bases), leaf 4]]; prong 1 active,
prong 0 requested: the commit pass switches from the orthogonal region to the leaf -/
def exSwitch : Node :=
  .compo 0 0 1 true .composite (some 1) none (some 0) false
    (.cons false (.leaf 1 0) (.cons false
      (.ortho 2 1 0 true (.cons false (.leaf 3 2) (.cons false (.leaf 4 0) .nil))) .nil))

theorem exSwitch_ok : exSwitch.Act ∧ exSwitch.COK ∧ exSwitch.Res ∧ exSwitch.IdsFrom 0 := by
  simp [exSwitch, Node.Act, Subs.ActAt, Subs.ActAll, Node.Clean, Subs.CleanAll, Node.COK, Subs.ResAt, Node.Res,
    Node.IdsFrom, Subs.IdsFrom, Node.size]

example : scriptItems exSwitch.commitScript =
    [(3, .exit, 2), (3, .exit, 1), (3, .exit, 0), (4, .exit, 0), (2, .exit, 0), (1, .enter, 0)] := by decide
example : exSwitch.commitActive = [(0, 1, true), (1, 0, true)] := by decide
example : exSwitch.ancKey (2, 0) 3 = true ∧ exSwitch.ancKey (0, 1) 4 = true ∧ exSwitch.ancKey (3, 0) 4 = false := by
  decide

/-! ### what the lifecycle traversals deliver -/

/-- `deepEnter` along valid request marks delivers `enter` to exactly the states that become active,
in pre-order (a head before everything below it, orthogonal siblings in declaration order), and
those states are the active enumeration of the resulting tree. -/
theorem enter_delivers (n : Node) (w : World U) (hR : n.Res) :
    (n.enter w).2.cbSeq = w.cbSeq ++ (expand .enter n.reqPre).take w.ds.length ∧
    (n.enter w).1.activePre = n.reqPre := by
  have h := Node.enter_key n w hR
  rw [DKey.all_eq] at h
  exact ⟨congrArg DKey.seq h.1, h.2⟩

/-- `deepExit` of an active tree delivers `exit` to exactly the active states in post-order
(everything below a head before the head). -/
theorem exit_delivers (n : Node) (w : World U) (hA : n.Act) :
    (n.exit w).2.cbSeq = w.cbSeq ++ (expand .exit n.activePost).take w.ds.length := by
  have h := Node.exit_key n w hA
  rw [DKey.all_eq] at h
  exact congrArg DKey.seq h

/-- `deepReenter`: `reenter` down the active tree; where the marks name another sub-state, exit of the
active one (post-order) then enter of the requested one (pre-order). -/
theorem reenter_delivers (n : Node) (w : World U) (hA : n.Act) (hR : n.Res) :
    (n.reenter w).2.cbSeq = w.cbSeq ++ (scriptItems n.reenterScript).take w.ds.length ∧
    (n.reenter w).1.activePre = n.reenterActive := by
  have h := Node.reenter_key n w hA hR
  exact ⟨by have := congrArg DKey.seq h.1; rwa [(DKey.run_seq _ _).1] at this, h.2⟩

/-- `deepChangeToRequested`: nothing above the marked regions; at a marked composite region a switch
(exits then enters), a restart in place (`remain`: exits then enters of the same sub-state) or a
reenter. -/
theorem commit_delivers (n : Node) (w : World U) (hA : n.Act) (hC : n.COK) :
    (n.commit w).2.cbSeq = w.cbSeq ++ (scriptItems n.commitScript).take w.ds.length ∧
    (n.commit w).1.activePre = n.commitActive := by
  have h := Node.commit_key n w hA hC
  exact ⟨by have := congrArg DKey.seq h.1; rwa [(DKey.run_seq _ _).1] at this, h.2⟩

example : ∃ n : Node, n.Act ∧ n.COK ∧ n.Res := ⟨exSwitch, exSwitch_ok.1, exSwitch_ok.2.1, exSwitch_ok.2.2.1⟩

/-- in the enter order the head of a region comes first, everything else lies below it -/
theorem enter_head_first (id rid inj : Nat) (h : Bool) (st : Strategy) (a r : Option Nat) (qi : Nat) (m : Bool)
    (s : Subs) (hI : (Node.compo id rid inj h st a r (some qi) m s).IdsFrom id) :
    (Node.compo id rid inj h st a r (some qi) m s).reqPre = (id, inj, h) :: s.reqPreAt qi ∧
    ∀ x ∈ s.reqPreAt qi, id < x.1 := by
  refine ⟨rfl, fun x hx => ?_⟩
  have := Subs.reqPreAt_range s qi (id+1) hI.2 x hx
  omega

/-- in the exit order the head of a region comes last -/
theorem exit_head_last (id rid inj : Nat) (h : Bool) (st : Strategy) (ai : Nat) (r q : Option Nat) (m : Bool)
    (s : Subs) (hI : (Node.compo id rid inj h st (some ai) r q m s).IdsFrom id) :
    (Node.compo id rid inj h st (some ai) r q m s).activePost = s.activePostAt ai ++ [(id, inj, h)] ∧
    ∀ x ∈ s.activePostAt ai, id < x.1 := by
  refine ⟨rfl, fun x hx => ?_⟩
  have := Subs.activePostAt_inRange s ai (id+1) hI.2 x hx
  omega

/-! ### balance: enter / exit alternate, everything else only while entered -/

/-- before the first activation nothing is entered -/
theorem initially_closed : LifeOK (fun _ => false) [] := fun _ => rfl

/-- Entering a sub-tree none of whose objects is entered opens exactly the objects of the states
that become active. -/
theorem enter_balanced (n : Node) (k : Nat) (w : World U) (opn : Key → Bool) (hR : n.Res) (hI : n.IdsFrom k)
    (hOK : LifeOK opn w.cbSeq) (hcl : ∀ x, hasKey n.reqPre x = true → opn x = false)
    (hds : (expand .enter n.reqPre).length ≤ w.ds.length) :
    LifeOK (fun x => opn x || hasKey (n.enter w).1.activePre x) (n.enter w).2.cbSeq :=
  Node.enter_life n k w opn hR hI hOK hcl hds

/-- Exiting an active sub-tree whose objects are entered closes exactly those. -/
theorem exit_balanced (n : Node) (k : Nat) (w : World U) (opn : Key → Bool) (hA : n.Act) (hI : n.IdsFrom k)
    (hOK : LifeOK opn w.cbSeq) (hop : ∀ x, hasKey n.activePre x = true → opn x = true)
    (hds : (expand .exit n.activePost).length ≤ w.ds.length) :
    LifeOK (fun x => opn x && !hasKey n.activePre x) (n.exit w).2.cbSeq :=
  Node.exit_life n k w opn hA hI hOK hop hds

/-- a leaf that has been entered: its record is `[enter]` -/
theorem exLeaf_ok : LifeOK (hasKey (Node.leaf 0 0).activePre) [(0, .enter, 0)] := by
  intro ⟨a, b⟩
  by_cases h : ((0:Nat), (0:Nat)) = (a, b)
  · injection h with h1 h2
    subst h1; subst h2
    simp [track, CbItem.key, lifeStep, hasKey, Node.activePre]
  · have h' : ¬ (a = 0 ∧ b = 0) := by
      rintro ⟨rfl, rfl⟩; exact h rfl
    simp only [track, CbItem.key, h, if_false, hasKey, Node.activePre, List.any_cons, List.any_nil, Bool.or_false,
      Bool.true_and]
    congr 1
    symm
    rw [Bool.and_eq_false_iff]
    by_cases ha : a = 0
    · right; simp; omega
    · left; simp; omega

example : ∃ (n : Node) (w : World Nat), n.Act ∧ n.IdsFrom 0 ∧ LifeOK (hasKey n.activePre) w.cbSeq ∧
    (expand .exit n.activePost).length ≤ w.ds.length :=
  ⟨.leaf 0 0, { cfg := {}, ds := [[]], trace := [.cb 0 .enter 0 none [] []] }, trivial, rfl, exLeaf_ok, by decide⟩

/-- `deepReenter` keeps the record balanced: entered objects = active enumeration, before and after. -/
theorem reenter_balanced (n : Node) (k : Nat) (w : World U) (hA : n.Act) (hR : n.Res) (hI : n.IdsFrom k)
    (hOK : LifeOK (hasKey n.activePre) w.cbSeq)
    (hds : (scriptItems n.reenterScript).length ≤ w.ds.length) :
    LifeOK (hasKey (n.reenter w).1.activePre) (n.reenter w).2.cbSeq :=
  Node.reenter_life n k w hA hR hI hOK hds

/-- The commit pass — switch, restart in place, reenter, at any depth and in any number of orthogonal
branches — keeps the record balanced: entered objects = active enumeration, before and after. -/
theorem commit_balanced (n : Node) (k : Nat) (w : World U) (hA : n.Act) (hC : n.COK) (hI : n.IdsFrom k)
    (hOK : LifeOK (hasKey n.activePre) w.cbSeq)
    (hds : (scriptItems n.commitScript).length ≤ w.ds.length) :
    LifeOK (hasKey (n.commit w).1.activePre) (n.commit w).2.cbSeq :=
  Node.commit_life n k w hA hC hI hOK hds

/-- update passes reach entered objects only -/
theorem update_pass_only_entered (ph : Method) (hph : ph = .preUpdate ∨ ph = .update ∨ ph = .postUpdate)
    (n : Node) (w : World U) (hA : n.Act) (hOK : LifeOK (hasKey n.activePre) w.cbSeq) :
    LifeOK (hasKey n.activePre) (n.tick ph w).1.cbSeq :=
  Node.tick_life ph (by rcases hph with h | h | h <;> subst h <;> rfl) n w hA hOK

/-- react phases reach entered objects only -/
theorem react_pass_only_entered (ph : Method) (hph : ph = .preReact ∨ ph = .react ∨ ph = .postReact)
    (hf post : Bool) (n : Node) (w : World U) (hA : n.Act) (hc : w.consumed = false)
    (hOK : LifeOK (hasKey n.activePre) w.cbSeq) :
    LifeOK (hasKey n.activePre) (n.react ph hf post w).1.cbSeq :=
  Node.react_life ph (by rcases hph with h | h | h <;> subst h <;> rfl) hf post n w hA hc hOK

/-- query reaches entered objects only -/
theorem query_only_entered (hf : Bool) (n : Node) (w : World U) (hA : n.Act) (hc : w.consumed = false)
    (hOK : LifeOK (hasKey n.activePre) w.cbSeq) : LifeOK (hasKey n.activePre) (n.query hf w).cbSeq :=
  Node.query_life hf n w hA hc hOK

/-- exit guards (`deepExitGuard`) reach entered objects only -/
theorem exitGuard_only_entered (n : Node) (w : World U) (hA : n.Act)
    (hOK : LifeOK (hasKey n.activePre) w.cbSeq) : LifeOK (hasKey n.activePre) (n.exitGuard w).1.cbSeq :=
  hOK.stay_of_grows (m := .exitGuard) rfl (Node.exitGuard_grows n w hA)

/-- the forwarding guard walk (`deepForwardExitGuard`) reaches entered objects only -/
theorem fwdExitGuard_only_entered (n : Node) (w : World U) (hA : n.Act)
    (hOK : LifeOK (hasKey n.activePre) w.cbSeq) : LifeOK (hasKey n.activePre) (n.fwdExitGuard w).1.cbSeq :=
  hOK.stay_of_grows (m := .exitGuard) rfl (Node.fwdExitGuard_grows n w hA)

/-- the three passes of `update()` / `react()` and `query()` on an instance -/
theorem update_passes_only_entered (m : Mach U) (hA : m.root.Act)
    (hOK : LifeOK (hasKey m.root.activePre) m.w.cbSeq) : LifeOK (hasKey m.root.activePre) m.tickPasses.cbSeq := by
  unfold Mach.tickPasses
  exact Node.tick_life .postUpdate rfl _ _ hA (Node.tick_life .update rfl _ _ hA
    (Node.tick_life .preUpdate rfl _ _ hA hOK))

theorem react_passes_only_entered (m : Mach U) (hA : m.root.Act)
    (hOK : LifeOK (hasKey m.root.activePre) m.w.cbSeq) : LifeOK (hasKey m.root.activePre) m.reactPhases.cbSeq := by
  unfold Mach.reactPhases
  dsimp only
  exact Node.react_life .postReact rfl _ _ _ _ hA rfl (Node.react_life .react rfl _ _ _ _ hA rfl
    (Node.react_life .preReact rfl _ _ _ _ hA rfl hOK))

theorem query_call_only_entered [UtilArith U] (m : Mach U) (hA : m.root.Act)
    (hOK : LifeOK (hasKey m.root.activePre) m.w.cbSeq) : LifeOK (hasKey m.query.root.activePre) m.query.w.cbSeq :=
  Node.query_life m.w.cfg.topDown m.root m.passStart hA rfl hOK

/-! ### nesting: entered after the ancestors, exited before them -/

theorem enter_nested (n : Node) (k : Nat) (w : World U) (hR : n.Res) (hI : n.IdsFrom k)
    (hOK : NestOK n (fun _ => false) w.cbSeq) (hds : (expand .enter n.reqPre).length ≤ w.ds.length) :
    NestOK n (hasKey (n.enter w).1.activePre) (n.enter w).2.cbSeq :=
  Node.enter_nest n k w hR hI hOK hds

theorem exit_nested (n : Node) (k : Nat) (w : World U) (hA : n.Act) (hI : n.IdsFrom k)
    (hOK : NestOK n (hasKey n.activePre) w.cbSeq) (hds : (expand .exit n.activePost).length ≤ w.ds.length) :
    NestOK n (fun _ => false) (n.exit w).2.cbSeq :=
  Node.exit_nest n k w hA hI hOK hds

theorem reenter_nested (n : Node) (k : Nat) (w : World U) (hA : n.Act) (hR : n.Res) (hI : n.IdsFrom k)
    (hOK : NestOK n (hasKey n.activePre) w.cbSeq) (hds : (scriptItems n.reenterScript).length ≤ w.ds.length) :
    NestOK n (hasKey (n.reenter w).1.activePre) (n.reenter w).2.cbSeq :=
  Node.reenter_nest n k w hA hR hI hOK hds

/-- every `enter` of the commit pass finds all ancestors of its state entered, every `exit` finds all
descendants closed -/
theorem commit_nested (n : Node) (k : Nat) (w : World U) (hA : n.Act) (hC : n.COK) (hI : n.IdsFrom k)
    (hOK : NestOK n (hasKey n.activePre) w.cbSeq) (hds : (scriptItems n.commitScript).length ≤ w.ds.length) :
    NestOK n (hasKey (n.commit w).1.activePre) (n.commit w).2.cbSeq :=
  Node.commit_nest n k w hA hC hI hOK hds

theorem initially_nested (n : Node) : NestOK n (fun _ => false) [] := fun _ _ _ => rfl

/-- a sub-tree entered below an ancestor object that is entered and stays out of the traversal: the
nesting record of that pair is the plain record of the descendant (no violation possible) -/
theorem under_entered_ancestor {lo hi : Nat} {sc : Script} (h : ScriptIdRange lo hi sc) (kp kc : Key) (hne : kp ≠ kc)
    (hx : kp.1 < lo ∨ hi ≤ kp.1) (c : Bool) :
    track2 kp kc (some (true, c)) (scriptItems sc) =
      (track kc (some c) (scriptItems sc)).map (fun c' => (true, c')) :=
  track2_under_open h kp kc hne hx c

/-! ### the resolution passes and the entry guards do not touch the record -/

/-- `deepRequest…` (selection by `select / rank / utility`), `deepForwardRequest`, `deepForwardActive`:
only callbacks that constrain no lifecycle -/
theorem resolution_free [UtilArith U] (n : Node) (rq : Req) (w : World U) :
    World.GrowsBy CbItem.free w (n.request rq w).2 ∧ World.GrowsBy CbItem.free w (n.fwdRequest rq w).2 ∧
    World.GrowsBy CbItem.free w (n.fwdActive rq w).2 :=
  ⟨Node.g_request (fun s m sl h => free_of_const s m sl h) n rq w (World.GrowsBy.refl w),
   Node.g_fwdRequest (fun s m sl h => free_of_const s m sl h) n rq w (World.GrowsBy.refl w),
   Node.g_fwdActive (fun s m sl h => free_of_const s m sl h) n rq w (World.GrowsBy.refl w)⟩

/-- entry guards (both walks) likewise -/
theorem entry_guards_free [UtilArith U] (n : Node) (w : World U) :
    World.GrowsBy CbItem.free w (n.entryGuard w).1 ∧ World.GrowsBy CbItem.free w (n.fwdEntryGuard w).1 :=
  ⟨Node.g_entryGuard (fun s sl => free_entryGuard s sl) n w (World.GrowsBy.refl w),
   Node.g_fwdEntryGuard (fun s sl => free_entryGuard s sl) n w (World.GrowsBy.refl w)⟩

/-- such callbacks keep every balanced / nested record as it is -/
theorem free_keeps_record {opn : Key → Bool} {n : Node} {w w' : World U} (hg : World.GrowsBy CbItem.free w w') :
    (LifeOK opn w.cbSeq → LifeOK opn w'.cbSeq) ∧ (NestOK n opn w.cbSeq → NestOK n opn w'.cbSeq) :=
  ⟨fun h => h.free_of_grows hg, fun h => h.free_of_grows hg⟩

/-! ### the hypotheses are met: the record of an activation -/

/-- the callbacks of an activation (`enter` of pairwise distinct states, nothing before) form a
balanced record ending with exactly their objects entered: `LifeOK (hasKey n.activePre) …`, the
hypothesis of the theorems above, holds for the trace of every numbered tree's activation -/
theorem activation_record (l : List St) (hn : (l.map (·.1)).Nodup) : LifeOK (hasKey l) (expand .enter l) := by
  have := initially_closed.enter l hn (fun _ _ => rfl)
  simpa using this

example : LifeOK (hasKey exSwitch.activePre) (expand .enter exSwitch.activePre) :=
  activation_record _ (Node.activePre_nodup _ 0 exSwitch_ok.2.2.2)

/-- `exSwitch` before its activation: nothing active, prong 1 requested -/
def exBefore : Node :=
  .compo 0 0 1 true .composite none none (some 1) false
    (.cons false (.leaf 1 0) (.cons false
      (.ortho 2 1 0 true (.cons false (.leaf 3 2) (.cons false (.leaf 4 0) .nil))) .nil))

/-- … and the nesting hypothesis `NestOK n (hasKey n.activePre) …` by the record of that activation -/
example : NestOK exSwitch (hasKey exSwitch.activePre) (expand .enter exSwitch.activePre) := by
  intro kp kc ha
  have hR : exBefore.Res := by simp [exBefore, Node.Res, Subs.ResAt, Subs.ResAll]
  have hI : exBefore.IdsFrom 0 := by simp [exBefore, Node.IdsFrom, Subs.IdsFrom, Node.size]
  exact Node.enter_nested exBefore 0 hR hI kp kc ha

/-! ### after exit() / destruction nothing is entered -/

theorem finalExit_closed [UtilArith U] (m : Mach U) (k : Nat) (hA : m.root.Act) (hI : m.root.IdsFrom k)
    (hOK : LifeOK (hasKey m.root.activePre) m.w.cbSeq)
    (hds : (expand .exit m.root.activePost).length ≤ m.w.ds.length) :
    LifeOK (fun _ => false) m.finalExit.w.cbSeq :=
  Mach.finalExit_closed m k hA hI hOK hds

/-
Theorems that constitute C03:
  enter_delivers exit_delivers reenter_delivers commit_delivers enter_head_first exit_head_last
  initially_closed enter_balanced exit_balanced reenter_balanced commit_balanced
  update_pass_only_entered react_pass_only_entered query_only_entered exitGuard_only_entered
  fwdExitGuard_only_entered update_passes_only_entered react_passes_only_entered query_call_only_entered
  initially_nested enter_nested exit_nested reenter_nested commit_nested under_entered_ancestor
  resolution_free entry_guards_free free_keeps_record activation_record finalExit_closed
-/

end Hfsm.Props.C03
