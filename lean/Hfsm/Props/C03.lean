/-
C03 — lifecycle callbacks are balanced, nested and delivered to the right object.

Vocabulary (Proofs/Lifecycle.lean, Proofs/LifecycleMach.lean, Proofs/Nesting.lean):
  * an *object* is a pair (state id, handler slot): the state's own handler (slot = number of injected
    bases) or one of its injected bases; the anonymous head of a `…Peers` region has no object;
  * `lifeStep m b` — what a callback of method `m` requires of the object it is delivered to (`b` = is
    entered): `enter` needs it closed and opens it, `exit` needs it open and closes it; `reenter`,
    `pre/·/postUpdate`, `pre/·/postReact`, `query` and `exitGuard` need it open; `select/rank/utility`,
    `entryGuard` (delivered to states that are not entered) and the plan callbacks (not in the
    property) are unconstrained.  `track x` folds `lifeStep` over the callbacks of object `x`;
  * `LifeOK opn seq` — no object met a violation in the callback sequence `seq`, and exactly the
    objects of `opn` are entered at its end;
  * `track2 kp kc` additionally fails when `kc` is entered while `kp` is not, or `kp` exited while `kc`
    still is; `Node.ancKey n kp c` — `kp` is an object of a state of `n` and `c` the id of a strict
    descendant of it; `NestOK n opn seq` — no violation for any (ancestor object, descendant object);
  * `hasKey l x` — `x` is an object of one of the states of the list `l`; the entered objects are
    always `hasKey root.activePre`.
The lifecycle traversals are characterised exactly first (`*_delivers`: which callbacks, in which
order, and what the active enumeration is afterwards), the invariants follow.

Hypotheses.  `Act`, `Res`, `COK` (Proofs/Wf.lean) are the registry facts C01 establishes for the trees
the instance hands to these traversals; they are explicit so that the theorems compose with C01's.
`IdsFrom k` = state ids are consecutive in DFS order (true of every tree `Mach.create` builds:
`Shape.toNode_idsFrom`).  Every statement about *complete* lifecycles assumes a decision stream long
enough for the traversal (`… ≤ w.ds.length`): on an exhausted stream the model stops delivering and
records a harness contract violation in `err`.

Not modelled: *object identity* ("the callback runs on the very object `access<State>()` returns")
is a C++ notion; the harness compares `this` with `&fsm.access<S>()` in every callback and prints
`THIS-MISMATCH` on the `cb` line, judged by tools/oracles.py (tag `identity`) and tools/oracle_c03.py.
Destruction of an automatically activated instance is `finalExit` (root_1.inl `~RV_`).
-/
import Hfsm.Proofs.Nesting
import Hfsm.Proofs.LifecycleRun
import Hfsm.Proofs.DemoMach

namespace Hfsm.Props.C03
open Hfsm
variable {U : Type}

/-! ### example trees -/

/-- root region (1 base) › [leaf 1, orthogonal 2 › [leaf 3 (2 bases), leaf 4]]; prong 1 active,
prong 0 requested: the commit pass switches from the orthogonal region to the leaf -/
def exSwitch : Node :=
  .compo 0 0 1 true .composite (some 1) none (some 0) false
    (.cons false (.leaf 1 0) (.cons false
      (.ortho 2 1 0 true (.cons false (.leaf 3 2) (.cons false (.leaf 4 0) .nil))) .nil))

theorem exSwitch_ok : exSwitch.Act ∧ exSwitch.COK ∧ exSwitch.Res ∧ exSwitch.IdsFrom 0 := by
  simp [exSwitch, Node.Act, Subs.ActAt, Subs.ActAll, Node.Clean, Subs.CleanAll, Node.COK, Subs.ResAt, Node.Res,
    Node.IdsFrom, Subs.IdsFrom, Node.size]

example : scriptItems exSwitch.commitScript =
    [(3, .exit, 2), (3, .exit, 1), (3, .exit, 0), (4, .exit, 0), (2, .exit, 0), (1, .enter, 0)] := by decide
example : exSwitch.commitActive = [(0, 1, true), (1, 0, true)] := by decide
example : exSwitch.ancKey (2, 0) 3 = true ∧ exSwitch.ancKey (0, 1) 4 = true ∧ exSwitch.ancKey (3, 0) 4 = false := by
  decide

/-! ### what the lifecycle traversals deliver -/

/-- `deepEnter` along valid request marks delivers `enter` to exactly the states that become active,
in pre-order (a head before everything below it, orthogonal siblings in declaration order), and
those states are the active enumeration of the resulting tree. -/
theorem enter_delivers (n : Node) (w : World U) (hR : n.Res) :
    (n.enter w).2.cbSeq = w.cbSeq ++ (expand .enter n.reqPre).take w.ds.length ∧
    (n.enter w).1.activePre = n.reqPre := by
  have h := Node.enter_key n w hR
  rw [DKey.all_eq] at h
  exact ⟨congrArg DKey.seq h.1, h.2⟩

/-- `deepExit` of an active tree delivers `exit` to exactly the active states in post-order
(everything below a head before the head). -/
theorem exit_delivers (n : Node) (w : World U) (hA : n.Act) :
    (n.exit w).2.cbSeq = w.cbSeq ++ (expand .exit n.activePost).take w.ds.length := by
  have h := Node.exit_key n w hA
  rw [DKey.all_eq] at h
  exact congrArg DKey.seq h

/-- `deepReenter`: `reenter` down the active tree; where the marks name another sub-state, exit of the
active one (post-order) then enter of the requested one (pre-order). -/
theorem reenter_delivers (n : Node) (w : World U) (hA : n.Act) (hR : n.Res) :
    (n.reenter w).2.cbSeq = w.cbSeq ++ (scriptItems n.reenterScript).take w.ds.length ∧
    (n.reenter w).1.activePre = n.reenterActive := by
  have h := Node.reenter_key n w hA hR
  exact ⟨by have := congrArg DKey.seq h.1; rwa [(DKey.run_seq _ _).1] at this, h.2⟩

/-- `deepChangeToRequested`: nothing above the marked regions; at a marked composite region a switch
(exits then enters), a restart in place (`remain`: exits then enters of the same sub-state) or a
reenter. -/
theorem commit_delivers (n : Node) (w : World U) (hA : n.Act) (hC : n.COK) :
    (n.commit w).2.cbSeq = w.cbSeq ++ (scriptItems n.commitScript).take w.ds.length ∧
    (n.commit w).1.activePre = n.commitActive := by
  have h := Node.commit_key n w hA hC
  exact ⟨by have := congrArg DKey.seq h.1; rwa [(DKey.run_seq _ _).1] at this, h.2⟩

example : ∃ n : Node, n.Act ∧ n.COK ∧ n.Res := ⟨exSwitch, exSwitch_ok.1, exSwitch_ok.2.1, exSwitch_ok.2.2.1⟩

/-- in the enter order the head of a region comes first, everything else lies below it -/
theorem enter_head_first (id rid inj : Nat) (h : Bool) (st : Strategy) (a r : Option Nat) (qi : Nat) (m : Bool)
    (s : Subs) (hI : (Node.compo id rid inj h st a r (some qi) m s).IdsFrom id) :
    (Node.compo id rid inj h st a r (some qi) m s).reqPre = (id, inj, h) :: s.reqPreAt qi ∧
    ∀ x ∈ s.reqPreAt qi, id < x.1 := by
  refine ⟨rfl, fun x hx => ?_⟩
  have := Subs.reqPreAt_range s qi (id+1) hI.2 x hx
  omega

/-- in the exit order the head of a region comes last -/
theorem exit_head_last (id rid inj : Nat) (h : Bool) (st : Strategy) (ai : Nat) (r q : Option Nat) (m : Bool)
    (s : Subs) (hI : (Node.compo id rid inj h st (some ai) r q m s).IdsFrom id) :
    (Node.compo id rid inj h st (some ai) r q m s).activePost = s.activePostAt ai ++ [(id, inj, h)] ∧
    ∀ x ∈ s.activePostAt ai, id < x.1 := by
  refine ⟨rfl, fun x hx => ?_⟩
  have := Subs.activePostAt_inRange s ai (id+1) hI.2 x hx
  omega

/-! ### balance: enter / exit alternate, everything else only while entered -/

/-- before the first activation nothing is entered -/
theorem initially_closed : LifeOK (fun _ => false) [] := fun _ => rfl

/-- Entering a sub-tree none of whose objects is entered opens exactly the objects of the states
that become active. -/
theorem enter_balanced (n : Node) (k : Nat) (w : World U) (opn : Key → Bool) (hR : n.Res) (hI : n.IdsFrom k)
    (hOK : LifeOK opn w.cbSeq) (hcl : ∀ x, hasKey n.reqPre x = true → opn x = false)
    (hds : (expand .enter n.reqPre).length ≤ w.ds.length) :
    LifeOK (fun x => opn x || hasKey (n.enter w).1.activePre x) (n.enter w).2.cbSeq :=
  Node.enter_life n k w opn hR hI hOK hcl hds

/-- Exiting an active sub-tree whose objects are entered closes exactly those. -/
theorem exit_balanced (n : Node) (k : Nat) (w : World U) (opn : Key → Bool) (hA : n.Act) (hI : n.IdsFrom k)
    (hOK : LifeOK opn w.cbSeq) (hop : ∀ x, hasKey n.activePre x = true → opn x = true)
    (hds : (expand .exit n.activePost).length ≤ w.ds.length) :
    LifeOK (fun x => opn x && !hasKey n.activePre x) (n.exit w).2.cbSeq :=
  Node.exit_life n k w opn hA hI hOK hop hds

/-- a leaf that has been entered: its record is `[enter]` -/
theorem exLeaf_ok : LifeOK (hasKey (Node.leaf 0 0).activePre) [(0, .enter, 0)] := by
  intro ⟨a, b⟩
  by_cases h : ((0:Nat), (0:Nat)) = (a, b)
  · injection h with h1 h2
    subst h1; subst h2
    simp [track, CbItem.key, lifeStep, hasKey, Node.activePre]
  · have h' : ¬ (a = 0 ∧ b = 0) := by
      rintro ⟨rfl, rfl⟩; exact h rfl
    simp only [track, CbItem.key, h, if_false, hasKey, Node.activePre, List.any_cons, List.any_nil, Bool.or_false,
      Bool.true_and]
    congr 1
    symm
    rw [Bool.and_eq_false_iff]
    by_cases ha : a = 0
    · right; simp; omega
    · left; simp; omega

example : ∃ (n : Node) (w : World Nat), n.Act ∧ n.IdsFrom 0 ∧ LifeOK (hasKey n.activePre) w.cbSeq ∧
    (expand .exit n.activePost).length ≤ w.ds.length :=
  ⟨.leaf 0 0, { cfg := {}, ds := [[]], trace := [.cb 0 .enter 0 none [] []] }, trivial, rfl, exLeaf_ok, by decide⟩

/-- `deepReenter` keeps the record balanced: entered objects = active enumeration, before and after. -/
theorem reenter_balanced (n : Node) (k : Nat) (w : World U) (hA : n.Act) (hR : n.Res) (hI : n.IdsFrom k)
    (hOK : LifeOK (hasKey n.activePre) w.cbSeq)
    (hds : (scriptItems n.reenterScript).length ≤ w.ds.length) :
    LifeOK (hasKey (n.reenter w).1.activePre) (n.reenter w).2.cbSeq :=
  Node.reenter_life n k w hA hR hI hOK hds

/-- The commit pass — switch, restart in place, reenter, at any depth and in any number of orthogonal
branches — keeps the record balanced: entered objects = active enumeration, before and after. -/
theorem commit_balanced (n : Node) (k : Nat) (w : World U) (hA : n.Act) (hC : n.COK) (hI : n.IdsFrom k)
    (hOK : LifeOK (hasKey n.activePre) w.cbSeq)
    (hds : (scriptItems n.commitScript).length ≤ w.ds.length) :
    LifeOK (hasKey (n.commit w).1.activePre) (n.commit w).2.cbSeq :=
  Node.commit_life n k w hA hC hI hOK hds

/-- update passes reach entered objects only -/
theorem update_pass_only_entered (ph : Method) (hph : ph = .preUpdate ∨ ph = .update ∨ ph = .postUpdate)
    (n : Node) (w : World U) (hA : n.Act) (hOK : LifeOK (hasKey n.activePre) w.cbSeq) :
    LifeOK (hasKey n.activePre) (n.tick ph w).1.cbSeq :=
  Node.tick_life ph (by rcases hph with h | h | h <;> subst h <;> rfl) n w hA hOK

/-- react phases reach entered objects only -/
theorem react_pass_only_entered (ph : Method) (hph : ph = .preReact ∨ ph = .react ∨ ph = .postReact)
    (hf post : Bool) (n : Node) (w : World U) (hA : n.Act) (hc : w.consumed = false)
    (hOK : LifeOK (hasKey n.activePre) w.cbSeq) :
    LifeOK (hasKey n.activePre) (n.react ph hf post w).1.cbSeq :=
  Node.react_life ph (by rcases hph with h | h | h <;> subst h <;> rfl) hf post n w hA hc hOK

/-- query reaches entered objects only -/
theorem query_only_entered (hf : Bool) (n : Node) (w : World U) (hA : n.Act) (hc : w.consumed = false)
    (hOK : LifeOK (hasKey n.activePre) w.cbSeq) : LifeOK (hasKey n.activePre) (n.query hf w).cbSeq :=
  Node.query_life hf n w hA hc hOK

/-- exit guards (`deepExitGuard`) reach entered objects only -/
theorem exitGuard_only_entered (n : Node) (w : World U) (hA : n.Act)
    (hOK : LifeOK (hasKey n.activePre) w.cbSeq) : LifeOK (hasKey n.activePre) (n.exitGuard w).1.cbSeq :=
  hOK.stay_of_grows (m := .exitGuard) rfl (Node.exitGuard_grows n w hA)

/-- the forwarding guard walk (`deepForwardExitGuard`) reaches entered objects only -/
theorem fwdExitGuard_only_entered (n : Node) (w : World U) (hA : n.Act)
    (hOK : LifeOK (hasKey n.activePre) w.cbSeq) : LifeOK (hasKey n.activePre) (n.fwdExitGuard w).1.cbSeq :=
  hOK.stay_of_grows (m := .exitGuard) rfl (Node.fwdExitGuard_grows n w hA)

/-- the three passes of `update()` / `react()` and `query()` on an instance -/
theorem update_passes_only_entered (m : Mach U) (hA : m.root.Act)
    (hOK : LifeOK (hasKey m.root.activePre) m.w.cbSeq) : LifeOK (hasKey m.root.activePre) m.tickPasses.cbSeq := by
  unfold Mach.tickPasses
  exact Node.tick_life .postUpdate rfl _ _ hA (Node.tick_life .update rfl _ _ hA
    (Node.tick_life .preUpdate rfl _ _ hA hOK))

theorem react_passes_only_entered (m : Mach U) (hA : m.root.Act)
    (hOK : LifeOK (hasKey m.root.activePre) m.w.cbSeq) : LifeOK (hasKey m.root.activePre) m.reactPhases.cbSeq := by
  unfold Mach.reactPhases
  dsimp only
  exact Node.react_life .postReact rfl _ _ _ _ hA rfl (Node.react_life .react rfl _ _ _ _ hA rfl
    (Node.react_life .preReact rfl _ _ _ _ hA rfl hOK))

theorem query_call_only_entered [UtilArith U] (m : Mach U) (hA : m.root.Act)
    (hOK : LifeOK (hasKey m.root.activePre) m.w.cbSeq) : LifeOK (hasKey m.query.root.activePre) m.query.w.cbSeq :=
  Node.query_life m.w.cfg.topDown m.root m.passStart hA rfl hOK

/-! ### nesting: entered after the ancestors, exited before them -/

theorem enter_nested (n : Node) (k : Nat) (w : World U) (hR : n.Res) (hI : n.IdsFrom k)
    (hOK : NestOK n (fun _ => false) w.cbSeq) (hds : (expand .enter n.reqPre).length ≤ w.ds.length) :
    NestOK n (hasKey (n.enter w).1.activePre) (n.enter w).2.cbSeq :=
  Node.enter_nest n k w hR hI hOK hds

theorem exit_nested (n : Node) (k : Nat) (w : World U) (hA : n.Act) (hI : n.IdsFrom k)
    (hOK : NestOK n (hasKey n.activePre) w.cbSeq) (hds : (expand .exit n.activePost).length ≤ w.ds.length) :
    NestOK n (fun _ => false) (n.exit w).2.cbSeq :=
  Node.exit_nest n k w hA hI hOK hds

theorem reenter_nested (n : Node) (k : Nat) (w : World U) (hA : n.Act) (hR : n.Res) (hI : n.IdsFrom k)
    (hOK : NestOK n (hasKey n.activePre) w.cbSeq) (hds : (scriptItems n.reenterScript).length ≤ w.ds.length) :
    NestOK n (hasKey (n.reenter w).1.activePre) (n.reenter w).2.cbSeq :=
  Node.reenter_nest n k w hA hR hI hOK hds

/-- every `enter` of the commit pass finds all ancestors of its state entered, every `exit` finds all
descendants closed -/
theorem commit_nested (n : Node) (k : Nat) (w : World U) (hA : n.Act) (hC : n.COK) (hI : n.IdsFrom k)
    (hOK : NestOK n (hasKey n.activePre) w.cbSeq) (hds : (scriptItems n.commitScript).length ≤ w.ds.length) :
    NestOK n (hasKey (n.commit w).1.activePre) (n.commit w).2.cbSeq :=
  Node.commit_nest n k w hA hC hI hOK hds

theorem initially_nested (n : Node) : NestOK n (fun _ => false) [] := fun _ _ _ => rfl

/-- a sub-tree entered below an ancestor object that is entered and stays out of the traversal: the
nesting record of that pair is the plain record of the descendant (no violation possible) -/
theorem under_entered_ancestor {lo hi : Nat} {sc : Script} (h : ScriptIdRange lo hi sc) (kp kc : Key) (hne : kp ≠ kc)
    (hx : kp.1 < lo ∨ hi ≤ kp.1) (c : Bool) :
    track2 kp kc (some (true, c)) (scriptItems sc) =
      (track kc (some c) (scriptItems sc)).map (fun c' => (true, c')) :=
  track2_under_open h kp kc hne hx c

/-! ### the resolution passes and the entry guards do not touch the record -/

/-- `deepRequest…` (selection by `select / rank / utility`), `deepForwardRequest`, `deepForwardActive`:
only callbacks that constrain no lifecycle -/
theorem resolution_free [UtilArith U] (n : Node) (rq : Req) (w : World U) :
    World.GrowsBy CbItem.free w (n.request rq w).2 ∧ World.GrowsBy CbItem.free w (n.fwdRequest rq w).2 ∧
    World.GrowsBy CbItem.free w (n.fwdActive rq w).2 :=
  ⟨Node.g_request (fun s m sl h => free_of_const s m sl h) n rq w (World.GrowsBy.refl w),
   Node.g_fwdRequest (fun s m sl h => free_of_const s m sl h) n rq w (World.GrowsBy.refl w),
   Node.g_fwdActive (fun s m sl h => free_of_const s m sl h) n rq w (World.GrowsBy.refl w)⟩

/-- entry guards (both walks) likewise -/
theorem entry_guards_free [UtilArith U] (n : Node) (w : World U) :
    World.GrowsBy CbItem.free w (n.entryGuard w).1 ∧ World.GrowsBy CbItem.free w (n.fwdEntryGuard w).1 :=
  ⟨Node.g_entryGuard (fun s sl => free_entryGuard s sl) n w (World.GrowsBy.refl w),
   Node.g_fwdEntryGuard (fun s sl => free_entryGuard s sl) n w (World.GrowsBy.refl w)⟩

/-- such callbacks keep every balanced / nested record as it is -/
theorem free_keeps_record {opn : Key → Bool} {n : Node} {w w' : World U} (hg : World.GrowsBy CbItem.free w w') :
    (LifeOK opn w.cbSeq → LifeOK opn w'.cbSeq) ∧ (NestOK n opn w.cbSeq → NestOK n opn w'.cbSeq) :=
  ⟨fun h => h.free_of_grows hg, fun h => h.free_of_grows hg⟩

/-! ### the hypotheses are met: the record of an activation -/

/-- the callbacks of an activation (`enter` of pairwise distinct states, nothing before) form a
balanced record ending with exactly their objects entered: `LifeOK (hasKey n.activePre) …`, the
hypothesis of the theorems above, holds for the trace of every numbered tree's activation -/
theorem activation_record (l : List St) (hn : (l.map (·.1)).Nodup) : LifeOK (hasKey l) (expand .enter l) := by
  have := initially_closed.enter l hn (fun _ _ => rfl)
  simpa using this

example : LifeOK (hasKey exSwitch.activePre) (expand .enter exSwitch.activePre) :=
  activation_record _ (Node.activePre_nodup _ 0 exSwitch_ok.2.2.2)

/-- `exSwitch` before its activation: nothing active, prong 1 requested -/
def exBefore : Node :=
  .compo 0 0 1 true .composite none none (some 1) false
    (.cons false (.leaf 1 0) (.cons false
      (.ortho 2 1 0 true (.cons false (.leaf 3 2) (.cons false (.leaf 4 0) .nil))) .nil))

/-- … and the nesting hypothesis `NestOK n (hasKey n.activePre) …` by the record of that activation -/
example : NestOK exSwitch (hasKey exSwitch.activePre) (expand .enter exSwitch.activePre) := by
  intro kp kc ha
  have hR : exBefore.Res := by simp [exBefore, Node.Res, Subs.ResAt, Subs.ResAll]
  have hI : exBefore.IdsFrom 0 := by simp [exBefore, Node.IdsFrom, Subs.IdsFrom, Node.size]
  exact Node.enter_nested exBefore 0 hR hI kp kc ha

/-! ### after exit() / destruction nothing is entered -/

theorem finalExit_closed [UtilArith U] (m : Mach U) (k : Nat) (hA : m.root.Act) (hI : m.root.IdsFrom k)
    (hOK : LifeOK (hasKey m.root.activePre) m.w.cbSeq)
    (hds : (expand .exit m.root.activePost).length ≤ m.w.ds.length) :
    LifeOK (fun _ => false) m.finalExit.w.cbSeq :=
  Mach.finalExit_closed m k hA hI hOK hds

/-
Theorems that constitute C03:
  enter_delivers exit_delivers reenter_delivers commit_delivers enter_head_first exit_head_last
  initially_closed enter_balanced exit_balanced reenter_balanced commit_balanced
  update_pass_only_entered react_pass_only_entered query_only_entered exitGuard_only_entered
  fwdExitGuard_only_entered update_passes_only_entered react_passes_only_entered query_call_only_entered
  initially_nested enter_nested exit_nested reenter_nested commit_nested under_entered_ancestor
  resolution_free entry_guards_free free_keeps_record activation_record finalExit_closed
-/

/-! ### the whole life of an instance: induction over the sequence of API calls

The theorems above are per traversal, under the registry facts (`Act`, `Res`, `COK`, `IdsFrom`) that C01
establishes and a decision stream that is long enough.  Here they are chained over EVERY sequence of
API calls from construction on — `enter`, `exit`, `update`, `react`, `query`, `reset`, queued and immediate
transitions of every kind (cancelled and substituted ones included: the guards and the substitution
loop are inside `update` / `react` / the immediate calls), task status calls, plan edits, serialization
`load`s, `replayTransitions`, `replayEnter` — for every machine structure, configuration, decisions of the
user callbacks and generator outputs (Proofs/LifecycleRun.lean):

  `Mach.entered m`  the handler objects of the active states (`hasKey m.root.activePre`) when the
                    instance is activated (`m.root.machineActive` = `RegistryT::isActive()`), nothing otherwise
  `Mach.Rec base m` `LifeOK m.entered m.w.cbSeq ∧ NestOK base m.entered m.w.cbSeq` — the WHOLE callback
                    sequence since construction is balanced and nested, and exactly `m.entered` is entered now.

Two formalisms of "sequence of calls":
  * `Mach.run` (Proofs/MachOps.lean, the one of C01): every call brings the decisions / generator outputs
    it will consume; a call that is illegal in the current activation state is a contract violation (`err`);
  * `Api.run` from `Api.boot` (Proofs/Api.lean): one stream for the whole life, construction activates an
    automatic instance; calls are performed unconditionally, so legality is the hypothesis `Api.runLegal`.

Hypothesis `err = none` on the FINAL state: `err` is sticky (`Mach.run_errLe`), so no call of the run met a
contract violation; with `World.Fed` (`err = none` ⇒ every callback found a decision) this replaces the
`… ≤ w.ds.length` hypotheses above.

FULL STATEMENT (false of the model, kept for the record):
    theorem lifecycle_whole_run (shape cfg) (steps : List (ApiStep U))
        (he : ((Mach.create shape cfg).run steps).w.err = none) :
        LifeOK ((Mach.create shape cfg).run steps).entered ((Mach.create shape cfg).run steps).w.cbSeq
It fails for hierarchies WITHOUT ANY composite region (an orthogonal root over leaves): `isActive()` reads
`compoActive[0]`, which such a machine does not have; the model answers `false` forever, so a second
`enter()` is not a contract violation and delivers `enter` to entered states (`whole_run_false_without_compo`).
The generators never emit such a hierarchy (gen/shapes.py retries on `compo_count() == 0`).  The `_partial`
theorems carry the explicit, decidable hypothesis `HasCompo shape`.
For `Api.run` the statement is also false without `Api.runLegal` (`whole_run_api_false_when_illegal`). -/

section wholeRun
variable [UtilArith U]

/-- the hierarchy has at least one composite region (the root or any other) -/
abbrev HasCompo (shape : Shape) : Prop := (shape.toNode 0 0).anyCompo = true

omit [UtilArith U] in
/-- what is entered between calls: the objects of the active states of an activated instance -/
theorem entered_spec (m : Mach U) (x : Key) :
    m.entered x = (m.root.machineActive && hasKey m.root.activePre x) := rfl

/-- … and each of them belongs to a state that `isActive(stateId)` reports active -/
theorem entered_isActive (shape : Shape) (cfg : Config) (steps : List (ApiStep U))
    (he : ((Mach.create shape cfg : Mach U).run steps).w.err = none) (x : Key)
    (hx : ((Mach.create shape cfg : Mach U).run steps).entered x = true) :
    ((Mach.create shape cfg : Mach U).run steps).root.isActive x.1 = true :=
  Mach.entered_isActive (Node.idsFrom_toNode shape 0 0) (Mach.run_inv steps _ (Mach.create_inv shape cfg) he) x hx

/-- **C03, balance, end to end.**  After any sequence of API calls that met no contract violation, the
whole callback sequence since construction is a balanced lifecycle history: no object received `enter`
while entered, or `exit` / `reenter` / an update, react, query or exit-guard callback while not entered,
and exactly the objects of the currently active states are entered. -/
theorem lifecycle_whole_run_partial (shape : Shape) (cfg : Config) (steps : List (ApiStep U)) (hc : HasCompo shape)
    (he : ((Mach.create shape cfg : Mach U).run steps).w.err = none) :
    LifeOK ((Mach.create shape cfg : Mach U).run steps).entered ((Mach.create shape cfg : Mach U).run steps).w.cbSeq :=
  (Mach.run_rec hc (Node.idsFrom_toNode shape 0 0) steps _ (Mach.create_inv shape cfg) (Mach.create_rec shape cfg) he).life

/-- **C03, nesting, end to end.**  … and for every (object of a state, object of a strict descendant)
every `enter` of the descendant found the ancestor entered, every `exit` of the ancestor found the
descendant closed. -/
theorem nesting_whole_run_partial (shape : Shape) (cfg : Config) (steps : List (ApiStep U)) (hc : HasCompo shape)
    (he : ((Mach.create shape cfg : Mach U).run steps).w.err = none) :
    NestOK (shape.toNode 0 0) ((Mach.create shape cfg : Mach U).run steps).entered
      ((Mach.create shape cfg : Mach U).run steps).w.cbSeq :=
  (Mach.run_rec hc (Node.idsFrom_toNode shape 0 0) steps _ (Mach.create_inv shape cfg) (Mach.create_rec shape cfg) he).nest

/-- whenever the instance is not activated (before the first `enter`, after `exit`, after loading an
inactive image, after a `replayEnter` that returned `false`) every object is closed: each `enter` so far
has been matched by exactly one `exit` -/
theorem closed_when_inactive_partial (shape : Shape) (cfg : Config) (steps : List (ApiStep U)) (hc : HasCompo shape)
    (he : ((Mach.create shape cfg : Mach U).run steps).w.err = none)
    (hm : ((Mach.create shape cfg : Mach U).run steps).root.machineActive = false) :
    LifeOK (fun _ => false) ((Mach.create shape cfg : Mach U).run steps).w.cbSeq :=
  (Mach.run_rec hc (Node.idsFrom_toNode shape 0 0) steps _ (Mach.create_inv shape cfg) (Mach.create_rec shape cfg) he).closed hm

/-- **C03, when `exit()` returns** (destruction of an automatically activated instance is the same
`finalExit`): every entered object has been exited, exactly once. -/
theorem closed_after_exit_partial (shape : Shape) (cfg : Config) (steps : List (ApiStep U)) (ds : List (Decision U))
    (rng : List U) (hc : HasCompo shape)
    (he : ((Mach.create shape cfg : Mach U).run (steps ++ [⟨ds, rng, .exit⟩])).w.err = none) :
    LifeOK (fun _ => false) ((Mach.create shape cfg : Mach U).run (steps ++ [⟨ds, rng, .exit⟩])).w.cbSeq :=
  Mach.run_exit_closed shape cfg steps ds rng hc he

/-! #### `Api.run`: one decision stream from construction on -/

theorem lifecycle_whole_run_api_partial (shape : Shape) (cfg : Config) (ds : List (Decision U)) (rng : List U)
    (ops : List Api.Op) (hc : HasCompo shape) (hl : Api.runLegal (Api.boot shape cfg ds rng) ops = true)
    (he : (Api.run (Api.boot shape cfg ds rng) ops).w.err = none) :
    LifeOK (Api.run (Api.boot shape cfg ds rng) ops).entered (Api.run (Api.boot shape cfg ds rng) ops).w.cbSeq :=
  (Api.boot_run_rec shape cfg ds rng ops hc hl he).2.life

theorem nesting_whole_run_api_partial (shape : Shape) (cfg : Config) (ds : List (Decision U)) (rng : List U)
    (ops : List Api.Op) (hc : HasCompo shape) (hl : Api.runLegal (Api.boot shape cfg ds rng) ops = true)
    (he : (Api.run (Api.boot shape cfg ds rng) ops).w.err = none) :
    NestOK (shape.toNode 0 0) (Api.run (Api.boot shape cfg ds rng) ops).entered
      (Api.run (Api.boot shape cfg ds rng) ops).w.cbSeq :=
  (Api.boot_run_rec shape cfg ds rng ops hc hl he).2.nest

theorem closed_after_exit_api_partial (shape : Shape) (cfg : Config) (ds : List (Decision U)) (rng : List U)
    (ops : List Api.Op) (hc : HasCompo shape)
    (hl : Api.runLegal (Api.boot shape cfg ds rng) (ops ++ [.exit]) = true)
    (he : (Api.run (Api.boot shape cfg ds rng) (ops ++ [.exit])).w.err = none) :
    LifeOK (fun _ => false) (Api.run (Api.boot shape cfg ds rng) (ops ++ [.exit])).w.cbSeq :=
  Api.boot_run_exit_closed shape cfg ds rng ops hc hl he

end wholeRun

/-! #### the hypotheses are met, and they are needed -/

/-- idle callbacks -/
def exQuiet (n : Nat) : List (Decision Demo.DU) := List.replicate n []

/-- activation, a transition to state 2 (exit 1, enter 2 and its injected base), an idle update, a
reset (exit everything, enter the initial configuration) … -/
def exLife : List (ApiStep Demo.DU) :=
  [⟨exQuiet 10, [], .enter⟩, ⟨exQuiet 20, [], .immediate .change 2 none⟩, ⟨exQuiet 20, [], .update⟩,
   ⟨exQuiet 20, [], .reset⟩]

/-- … then deactivation: no contract violation, 26 callbacks -/
theorem exLife_ok : HasCompo Demo.shape ∧
    ((Mach.create Demo.shape Demo.cfg : Mach Demo.DU).run (exLife ++ [⟨exQuiet 10, [], .exit⟩])).w.err = none ∧
    ((Mach.create Demo.shape Demo.cfg : Mach Demo.DU).run (exLife ++ [⟨exQuiet 10, [], .exit⟩])).w.cbSeq.length = 26 := by
  decide +kernel

example : LifeOK ((Mach.create Demo.shape Demo.cfg : Mach Demo.DU).run (exLife ++ [⟨exQuiet 10, [], .exit⟩])).entered
    ((Mach.create Demo.shape Demo.cfg : Mach Demo.DU).run (exLife ++ [⟨exQuiet 10, [], .exit⟩])).w.cbSeq :=
  lifecycle_whole_run_partial Demo.shape Demo.cfg _ exLife_ok.1 exLife_ok.2.1

example : LifeOK (fun _ => false)
    ((Mach.create Demo.shape Demo.cfg : Mach Demo.DU).run (exLife ++ [⟨exQuiet 10, [], .exit⟩])).w.cbSeq :=
  closed_after_exit_partial Demo.shape Demo.cfg exLife (exQuiet 10) [] exLife_ok.1 exLife_ok.2.1

/-- the demonstration program of Proofs/DemoMach.lean (a transition requested by a callback, one through
the API) is legal and meets no contract violation -/
theorem exDemo_ok : HasCompo Demo.shape ∧ Api.runLegal Demo.mach Demo.prog = true ∧
    (Api.run Demo.mach Demo.prog).w.err = none := by decide +kernel

example : LifeOK (Api.run Demo.mach Demo.prog).entered (Api.run Demo.mach Demo.prog).w.cbSeq := by
  have h := exDemo_ok
  unfold Demo.mach at h ⊢
  exact lifecycle_whole_run_api_partial Demo.shape Demo.cfg Demo.ds [] Demo.prog h.1 h.2.1 h.2.2

/-- an orthogonal root over two leaves: no composite region anywhere -/
def exNoCompo : Shape := .ortho true 0 (.cons (.leaf 0) (.cons (.leaf 0) .nil))

/-- **The full statement is false without `HasCompo`.**  Manual instance of `exNoCompo`, history
`enter(); enter();`: `isActive()` is still `false` after the first `enter()`, the second one is not a
contract violation, and the root's object (0, 0) receives `enter` while entered. -/
theorem whole_run_false_without_compo :
    let m := (Mach.create exNoCompo { manual := true } : Mach Demo.DU).run
      [⟨exQuiet 10, [], .enter⟩, ⟨exQuiet 10, [], .enter⟩]
    m.w.err = none ∧ ¬ LifeOK m.entered m.w.cbSeq := by
  have h : ((Mach.create exNoCompo { manual := true } : Mach Demo.DU).run
      [⟨exQuiet 10, [], .enter⟩, ⟨exQuiet 10, [], .enter⟩]).w.err = none ∧
      track (0, 0) (some false) ((Mach.create exNoCompo { manual := true } : Mach Demo.DU).run
        [⟨exQuiet 10, [], .enter⟩, ⟨exQuiet 10, [], .enter⟩]).w.cbSeq = none := by decide +kernel
  exact ⟨h.1, fun hOK => by have := hOK (0, 0); rw [h.2] at this; cases this⟩

/-- **`Api.run` needs `Api.runLegal`.**  Automatic instance of the demonstration machine, history
`enter();` on the already activated instance: no contract violation in `Api.step`, and `enter` is
delivered to the entered root object. -/
theorem whole_run_api_false_when_illegal :
    let m := Api.run (Api.boot Demo.shape Demo.cfg (exQuiet 20) [] : Mach Demo.DU) [.enter]
    HasCompo Demo.shape ∧ m.w.err = none ∧ ¬ LifeOK m.entered m.w.cbSeq := by
  have h : HasCompo Demo.shape ∧
      (Api.run (Api.boot Demo.shape Demo.cfg (exQuiet 20) [] : Mach Demo.DU) [.enter]).w.err = none ∧
      track (0, 0) (some false)
        (Api.run (Api.boot Demo.shape Demo.cfg (exQuiet 20) [] : Mach Demo.DU) [.enter]).w.cbSeq = none := by
    decide +kernel
  exact ⟨h.1, h.2.1, fun hOK => by have := hOK (0, 0); rw [h.2.2] at this; cases this⟩

/-
Theorems that constitute C03, end to end (Proofs/LifecycleRun.lean):
  entered_spec entered_isActive
  lifecycle_whole_run_partial nesting_whole_run_partial closed_when_inactive_partial closed_after_exit_partial
  lifecycle_whole_run_api_partial nesting_whole_run_api_partial closed_after_exit_api_partial
  exLife_ok exDemo_ok (non-vacuity)   whole_run_false_without_compo whole_run_api_false_when_illegal (necessity)
-/

end Hfsm.Props.C03
