/-
C05 — update/react/query reach exactly the active states in the documented order.

Specification (independent of the traversals, Proofs/Dispatch.lean, Proofs/DispatchMach.lean):
  * `Node.activePre` / `Node.activePost` — pre-order / post-order enumeration of the active sub-tree
    (head, then the active sub-state of a composite region / every sub-state of an orthogonal region
    in declaration order); `Node.activeList headFirst` is the one or the other;
  * `stateItems m s` — the handlers of one state for method `m` in `slotOrder` (injected bases and
    own handler; nothing for the anonymous head of a `…Peers` region), `expand m l` their
    concatenation over a list of states;
  * `reactSpec m l ds` — delivery with consumption as a function of the decision stream only: every
    handler of a state runs, the next state of `l` is visited iff none of them consumed.
Callbacks are compared as (state id, method, slot) in chronological order: `World.cbSeq`.

All theorems hold for every world, i.e. every decision stream (what the user callbacks do, including
which of them consume), every queue / plan / status content and both values of every switch.  A
callback on an exhausted decision stream is a harness contract violation (`World.invoke` records it in
`err` and delivers nothing); the statements account for it with `List.take w.ds.length`, the
corollaries assume a stream that is long enough.

The exact truncation rule the model (and, after the repair of F11, the code) implements:
  - the consume flag is tested *before every state* of the enumeration — after a region head, after
    the sub-states of a region, and between the sub-states of an orthogonal region (`OS_::wide*React`,
    fixed F11) — and never between the injected bases and the own handler of one state
    (`react_delivers`, `react_truncation`, `example`s below);
  - a traversal that *starts* with the flag already raised delivers nothing to a region but still
    runs a plain state (`S_::deep*React` has no test): `react_started_consumed_region / _leaf`.
    `R_::react` starts each of its three phases unconsumed (`react_passes`), so this never shows.
Reaction order: top-down = pre-order for preReact / react and post-order for postReact; bottom-up the
other way round.  `query` uses the same state order as `react`'s main phase (pre-order top-down,
post-order — sub-states in declaration order, then the head — bottom-up); within a state `query`
runs the own handler first, then the injected bases (`S_::deepQuery`): modelled, not judged.

The passes return a world only — the registry (the tree) is not an output of `Node.tick`,
`Node.react`, `Node.query`, so they cannot modify it; `query_changes_nothing` and
`update_quiet_root` state what that means for the instance.
-/
import Hfsm.Proofs.DispatchMach
import Hfsm.Proofs.Quiet
import Hfsm.Proofs.Ids
import Hfsm.Proofs.Reach

namespace Hfsm.Props.C05
open Hfsm
variable {U : Type}

/-! ### example tree: root region (1 base) › [leaf 1, orthogonal 2 › [leaf 3 (2 bases), leaf 4]], prong 1 active -/

def exTree : Node :=
  .compo 0 0 1 true .composite (some 1) none none false
    (.cons false (.leaf 1 0) (.cons false
      (.ortho 2 1 0 true (.cons false (.leaf 3 2) (.cons false (.leaf 4 0) .nil))) .nil))

theorem exTree_act : exTree.Act := by
  simp [exTree, Node.Act, Subs.ActAt, Subs.ActAll, Node.Clean, Subs.CleanAll]

example : exTree.activePre = [(0, 1, true), (2, 0, true), (3, 2, true), (4, 0, true)] := rfl
example : exTree.activePost = [(3, 2, true), (4, 0, true), (2, 0, true), (0, 1, true)] := rfl
example : expand .update exTree.activePre =
    [(0, .update, 0), (0, .update, 1), (2, .update, 0), (3, .update, 0), (3, .update, 1), (3, .update, 2),
     (4, .update, 0)] := by decide
example : expand .postUpdate exTree.activePost =
    [(3, .postUpdate, 2), (3, .postUpdate, 1), (3, .postUpdate, 0), (4, .postUpdate, 0), (2, .postUpdate, 0),
     (0, .postUpdate, 1), (0, .postUpdate, 0)] := by decide

/-! ### injected bases -/

/-- on the way down (preUpdate, update, preReact, react) the injected bases run in declaration order
before the state's own handler (slot `inj`) -/
theorem slots_down (id inj : Nat) (m : Method) (hm : m = .preUpdate ∨ m = .update ∨ m = .preReact ∨ m = .react) :
    stateItems m (id, inj, true) = (List.range inj).map (fun s => (id, m, s)) ++ [(id, m, inj)] := by
  rcases hm with h | h | h | h <;> subst h <;> simp [stateItems, slotOrder]

/-- on the way up (postUpdate, postReact) the own handler runs first, then the bases in reverse order -/
theorem slots_up (id inj : Nat) (m : Method) (hm : m = .postUpdate ∨ m = .postReact) :
    stateItems m (id, inj, true) = (id, m, inj) :: (List.range inj).reverse.map (fun s => (id, m, s)) := by
  rcases hm with h | h <;> subst h <;> simp [stateItems, slotOrder]

/-- `query`: own handler, then the bases in declaration order (`S_::deepQuery`) -/
theorem slots_query (id inj : Nat) :
    stateItems .query (id, inj, true) = (id, .query, inj) :: (List.range inj).map (fun s => (id, .query, s)) := by
  simp [stateItems, slotOrder]

/-- the anonymous head of a headless region receives nothing -/
theorem slots_headless (id inj : Nat) (m : Method) : stateItems m (id, inj, false) = [] := by
  simp [stateItems]

/-! ### update -/

/-- One update pass (`ph` = preUpdate / update / postUpdate) over an active tree appends exactly the
handlers of the active states — pre-order, post-order for `postUpdate` — and pops one decision each. -/
theorem tick_delivers (ph : Method) (n : Node) (w : World U) (hA : n.Act) :
    (n.tick ph w).1.cbSeq =
      w.cbSeq ++ (expand ph (n.activeList (ph != .postUpdate))).take w.ds.length ∧
    (n.tick ph w).1.ds = w.ds.drop (expand ph (n.activeList (ph != .postUpdate))).length := by
  have h := Node.tick_key ph n w hA
  rw [DKey.all_eq] at h
  exact ⟨congrArg DKey.seq h, congrArg DKey.ds h⟩

example : ∃ n : Node, n.Act := ⟨exTree, exTree_act⟩

theorem preUpdate_order (n : Node) (w : World U) (hA : n.Act) :
    (n.tick .preUpdate w).1.cbSeq = w.cbSeq ++ (expand .preUpdate n.activePre).take w.ds.length := by
  have h := (tick_delivers .preUpdate n w hA).1
  rwa [show (Method.preUpdate != Method.postUpdate) = true from rfl, Node.activeList_true] at h

theorem update_order (n : Node) (w : World U) (hA : n.Act) :
    (n.tick .update w).1.cbSeq = w.cbSeq ++ (expand .update n.activePre).take w.ds.length := by
  have h := (tick_delivers .update n w hA).1
  rwa [show (Method.update != Method.postUpdate) = true from rfl, Node.activeList_true] at h

theorem postUpdate_order (n : Node) (w : World U) (hA : n.Act) :
    (n.tick .postUpdate w).1.cbSeq = w.cbSeq ++ (expand .postUpdate n.activePost).take w.ds.length := by
  have h := (tick_delivers .postUpdate n w hA).1
  rwa [bne_self_eq_false, Node.activeList_false] at h

/-- The three passes of `R_::update`: preUpdate and update in pre-order, postUpdate in post-order. -/
theorem update_passes (m : Mach U) (hA : m.root.Act) :
    m.tickPasses.cbSeq = m.w.cbSeq ++
      (expand .preUpdate m.root.activePre ++ expand .update m.root.activePre ++
        expand .postUpdate m.root.activePost).take m.w.ds.length :=
  (Mach.tickPasses_key m hA).1

/-- `update()` = the three passes, then the plan callbacks and the transition processing, which only
append: the passes' callbacks are exactly the first callbacks of the call. -/
theorem update_prefix [UtilArith U] (m : Mach U) (hA : m.root.Act)
    (hds : (expand .preUpdate m.root.activePre ++ expand .update m.root.activePre ++
        expand .postUpdate m.root.activePost).length ≤ m.w.ds.length) :
    ∃ rest, m.update.w.cbSeq = m.w.cbSeq ++
      (expand .preUpdate m.root.activePre ++ expand .update m.root.activePre ++
        expand .postUpdate m.root.activePost) ++ rest := by
  obtain ⟨rest, e, _⟩ := Mach.finishStep_grows m m.tickPasses
  rw [← Mach.update_eq_finish, update_passes m hA, List.take_of_length_le hds] at e
  exact ⟨rest, e⟩

example : (expand .preUpdate exTree.activePre ++ expand .update exTree.activePre ++
    expand .postUpdate exTree.activePost).length ≤ (List.replicate 21 ([] : Decision Nat)).length := by decide

/-! ### react -/

/-- One react phase over an active tree, started unconsumed: the appended callbacks, the decisions
left and the final consume flag are those of `reactSpec` on the enumeration of the active states
(`headFirst` selects pre-order / post-order). -/
theorem react_delivers (ph : Method) (hf post : Bool) (n : Node) (w : World U) (hA : n.Act)
    (hc : w.consumed = false) :
    (n.react ph hf post w).1.cbSeq = w.cbSeq ++ reactSpec ph (n.activeList hf) w.ds ∧
    (n.react ph hf post w).1.ds = w.ds.drop (reactSpec ph (n.activeList hf) w.ds).length ∧
    (n.react ph hf post w).1.consumed =
      (w.ds.take (reactSpec ph (n.activeList hf) w.ds).length).any (consumes ph) := by
  have h := Node.react_key ph hf post n w hA hc
  rw [DKey.untilConsumed_eq _ _ _ hc] at h
  exact ⟨congrArg DKey.seq h, congrArg DKey.ds h, congrArg DKey.consumed h⟩

example : ∃ (n : Node) (w : World Nat), n.Act ∧ w.consumed = false :=
  ⟨exTree, { cfg := {} }, exTree_act, rfl⟩

/-- whatever a phase delivers is an initial segment of the full enumeration: nothing out of order,
nothing to an inactive state -/
theorem react_prefix (ph : Method) (hf post : Bool) (n : Node) (w : World U) (hA : n.Act)
    (hc : w.consumed = false) :
    ∃ k, (n.react ph hf post w).1.cbSeq = w.cbSeq ++ (expand ph (n.activeList hf)).take k := by
  obtain ⟨t, ht⟩ := reactSpec_prefix ph (n.activeList hf) w.ds
  refine ⟨(reactSpec ph (n.activeList hf) w.ds).length, ?_⟩
  rw [(react_delivers ph hf post n w hA hc).1, ← ht, List.take_left]

/-- no callback consumes: every active state is reached -/
theorem react_no_consume (ph : Method) (hf post : Bool) (n : Node) (w : World U) (hA : n.Act)
    (hc : w.consumed = false)
    (hn : (w.ds.take (expand ph (n.activeList hf)).length).any (consumes ph) = false) :
    (n.react ph hf post w).1.cbSeq = w.cbSeq ++ (expand ph (n.activeList hf)).take w.ds.length := by
  rw [(react_delivers ph hf post n w hA hc).1, reactSpec_of_no_consume ph _ _ hn]

/-- The truncation rule: if decision `i` is the first to consume and callback `i` of the full
enumeration belongs to the `j`-th state of it, exactly the callbacks of states `0 … j` are delivered:
the remaining handlers of state `j` still run, no later state — in particular no later orthogonal
sibling, plain state or region — is reached. -/
theorem react_truncation (ph : Method) (hf post : Bool) (n : Node) (w : World U) (hA : n.Act)
    (hc : w.consumed = false) (i j : Nat) (hi : i < w.ds.length) (hcons : consumes ph w.ds[i] = true)
    (hfirst : ∀ i', (h : i' < i) → consumes ph (w.ds[i']'(Nat.lt_trans h hi)) = false)
    (hlo : (expand ph ((n.activeList hf).take j)).length ≤ i)
    (hhi : i < (expand ph ((n.activeList hf).take (j+1))).length) :
    (n.react ph hf post w).1.cbSeq =
      w.cbSeq ++ (expand ph ((n.activeList hf).take (j+1))).take w.ds.length := by
  rw [(react_delivers ph hf post n w hA hc).1,
    reactSpec_first_consume ph _ _ i j hi hcons hfirst hlo hhi]

/-- F11 (repaired): orthogonal *leaf* siblings 3 and 4 — state 3's own handler consumes (decision 5
of: 0·base, 0·own, 2·own, 3·base0, 3·base1, 3·own), sibling 4 is not reached. -/
example : reactSpec (U := Nat) .react exTree.activePre [[], [], [], [], [], [.consume], []] =
    [(0, .react, 0), (0, .react, 1), (2, .react, 0), (3, .react, 0), (3, .react, 1), (3, .react, 2)] := by
  decide

/-- no test between the injected bases and the own handler: base 0 of state 3 consumes, bases 1 and
the own handler of 3 still run; sibling 4 does not -/
example : reactSpec (U := Nat) .react exTree.activePre [[], [], [], [.consume], [], [], []] =
    [(0, .react, 0), (0, .react, 1), (2, .react, 0), (3, .react, 0), (3, .react, 1), (3, .react, 2)] := by
  decide

/-- a region entered with the flag already raised delivers nothing -/
theorem react_started_consumed_region (ph : Method) (hf post : Bool) (n : Node) (w : World U)
    (hn : ∀ id inj, n ≠ .leaf id inj) (hc : w.consumed = true) :
    (n.react ph hf post w).1.cbSeq = w.cbSeq := by
  cases n with
  | leaf id inj => exact absurd rfl (hn id inj)
  | compo id rid inj h st a r q m s =>
    cases a with
    | none => simp only [Node.react]; exact congrArg DKey.seq (World.key_fail' ..)
    | some ai =>
      have h0 : (w.pushRegion rid id (1 + s.size)).1.consumed = true := hc
      simp only [Node.react, h0, if_true]
      rfl
  | ortho id rid inj h s =>
    have h0 : (w.pushRegion rid id (1 + s.size)).1.consumed = true := hc
    simp only [Node.react, h0, if_true]
    rfl

/-- … but a plain state has no test of its own: whoever calls it has tested -/
theorem react_started_consumed_leaf (ph : Method) (hf post : Bool) (id inj : Nat) (w : World U) :
    ((Node.leaf id inj).react ph hf post w).1.cbSeq =
      w.cbSeq ++ (stateItems ph (id, inj, true)).take w.ds.length := by
  have h : ((Node.leaf id inj).react ph hf post w).1.key = w.key.state (id, inj, true) ph := by
    simp [Node.react]
  rw [DKey.state_eq] at h
  exact congrArg DKey.seq h

/-- The three phases of `R_::react`, each started unconsumed: preReact and react in the configured
order (top-down = pre-order), postReact in the opposite one. -/
theorem react_passes (m : Mach U) (hA : m.root.Act) :
    m.reactPhases.cbSeq = m.w.cbSeq ++ reactSpec3 m.w.cfg.topDown m.root m.w.ds :=
  Mach.reactPhases_key m hA

theorem react_prefix_of_call [UtilArith U] (m : Mach U) (hA : m.root.Act) :
    ∃ rest, m.react.w.cbSeq = m.w.cbSeq ++ reactSpec3 m.w.cfg.topDown m.root m.w.ds ++ rest := by
  obtain ⟨rest, e, _⟩ := Mach.finishStep_grows m m.reactPhases
  rw [← Mach.react_eq_finish, react_passes m hA] at e
  exact ⟨rest, e⟩

/-- top-down with nobody consuming: pre, pre, post -/
theorem react_order_topDown (root : Node) (ds : List (Decision U))
    (hn : ds.all (fun d => !d.any Action.isConsume) = true)
    (hl : (expand .preReact root.activePre ++ expand .react root.activePre ++
            expand .postReact root.activePost).length ≤ ds.length) :
    reactSpec3 true root ds =
      expand .preReact root.activePre ++ expand .react root.activePre ++ expand .postReact root.activePost := by
  have key : ∀ (m : Method) (l : List St) (ds' : List (Decision U)),
      (∀ d ∈ ds', d.any Action.isConsume = false) → (expand m l).length ≤ ds'.length →
      reactSpec m l ds' = expand m l := by
    intro m l ds' h1 h2
    rw [reactSpec_of_no_consume, List.take_of_length_le h2]
    rw [List.any_eq_false]
    intro d hd
    simp [consumes, h1 d (List.mem_of_mem_take hd)]
  have hn' : ∀ d ∈ ds, d.any Action.isConsume = false := by
    intro d hd
    have := List.all_eq_true.1 hn d hd
    simpa using this
  simp only [List.length_append] at hl
  unfold reactSpec3
  simp only [Node.activeList_true, Bool.not_true, Node.activeList_false]
  rw [key .preReact root.activePre ds hn' (by omega)]
  rw [key .react root.activePre _ (fun d hd => hn' d (List.mem_of_mem_drop hd)) (by rw [List.length_drop]; omega)]
  rw [key .postReact root.activePost _
    (fun d hd => hn' d (List.mem_of_mem_drop (List.mem_of_mem_drop hd)))
    (by rw [List.length_drop, List.length_drop]; omega)]

/-! ### query -/

/-- `query` over an active tree, started unconsumed. -/
theorem query_delivers (hf : Bool) (n : Node) (w : World U) (hA : n.Act) (hc : w.consumed = false) :
    (n.query hf w).cbSeq = w.cbSeq ++ reactSpec .query (n.activeList hf) w.ds ∧
    (n.query hf w).ds = w.ds.drop (reactSpec .query (n.activeList hf) w.ds).length ∧
    (n.query hf w).consumed =
      (w.ds.take (reactSpec .query (n.activeList hf) w.ds).length).any (consumes .query) := by
  have h := Node.query_key hf n w hA hc
  rw [DKey.untilConsumed_eq _ _ _ hc] at h
  exact ⟨congrArg DKey.seq h, congrArg DKey.ds h, congrArg DKey.consumed h⟩

/-- `R_::query`: pre-order (top-down) / post-order (bottom-up), stops on consume. -/
theorem query_order [UtilArith U] (m : Mach U) (hA : m.root.Act) :
    m.query.w.cbSeq = m.w.cbSeq ++ reactSpec .query (m.root.activeList m.w.cfg.topDown) m.w.ds :=
  (query_delivers m.w.cfg.topDown m.root m.passStart hA rfl).1

/-- `query()` changes nothing: the registry, the activity records, the request queue, the plans and
their status marks, the transition history, the generator stream and the configuration are the same
objects afterwards.  (The control registers are those of the fresh `ConstControl` of the call; the
decision stream, consume flag, trace and error mark are what a query is allowed to touch.) -/
theorem query_changes_nothing [UtilArith U] (m : Mach U) :
    m.query.root = m.root ∧ m.query.structActive = m.structActive ∧ m.query.activity = m.activity ∧
    m.query.w.requests = m.w.requests ∧ m.query.w.plans = m.w.plans ∧
    m.query.w.planExists = m.w.planExists ∧ m.query.w.succ = m.w.succ ∧ m.query.w.fail = m.w.fail ∧
    m.query.w.headStatus = m.w.headStatus ∧ m.query.w.subStatus = m.w.subStatus ∧
    m.query.w.targets = m.w.targets ∧ m.query.w.previous = m.w.previous ∧
    m.query.w.rng = m.w.rng ∧ m.query.w.cfg = m.w.cfg := by
  have h : m.query.w.persist = m.passStart.persist := Node.query_persist m.w.cfg.topDown m.root m.passStart
  refine ⟨rfl, rfl, rfl, ?_, ?_, ?_, ?_, ?_, ?_, ?_, ?_, ?_, ?_, ?_⟩
  · have e := congrArg World.requests h; exact e
  · have e := congrArg World.plans h; exact e
  · have e := congrArg World.planExists h; exact e
  · have e := congrArg World.succ h; exact e
  · have e := congrArg World.fail h; exact e
  · have e := congrArg World.headStatus h; exact e
  · have e := congrArg World.subStatus h; exact e
  · have e := congrArg World.targets h; exact e
  · have e := congrArg World.previous h; exact e
  · have e := congrArg World.rng h; exact e
  · have e := congrArg World.cfg h; exact e

/-- the complete statement: the world after `query()` is the fresh-control world of the call except
for decision stream, consume flag, trace and error mark -/
theorem query_world [UtilArith U] (m : Mach U) : m.query.w.persist = m.passStart.persist :=
  Node.query_persist m.w.cfg.topDown m.root m.passStart

/-! ### inactive states receive nothing -/

/-- every handler of the enumeration belongs to a state for which `isActive(stateId)` holds
(`k` = id of the root, 0 for an instance; `machineActive` = `isActive()`) -/
theorem expand_isActive (root : Node) (k : Nat) (hA : root.Act) (hI : root.IdsFrom k)
    (hM : root.machineActive = true) (m : Method) (hf : Bool) :
    ∀ it ∈ expand m (root.activeList hf), root.isActive it.1 = true := by
  intro it hit
  simp only [expand, List.mem_flatMap] at hit
  obtain ⟨x, hx, hit⟩ := hit
  have hx' := (Node.mem_activeList hf root x).1 hx
  have := Node.isActive_of_mem_activePre root k hA hI hM x hx'
  unfold stateItems at hit
  split at hit
  · simp only [List.mem_map] at hit
    obtain ⟨_, _, rfl⟩ := hit
    exact this
  · simp at hit

/-- the hypotheses hold for every activated instance whose root is a composite region … -/
theorem machineActive_of_compo (id rid inj : Nat) (h : Bool) (st : Strategy) (a r q : Option Nat) (m : Bool)
    (s : Subs) (hA : (Node.compo id rid inj h st a r q m s).Act) :
    (Node.compo id rid inj h st a r q m s).machineActive = true := by
  cases a with
  | none => simp [Node.Act] at hA
  | some i => simp [Node.machineActive, Node.firstCompoActive]

/-- … numbered the way `Mach.create` numbers it -/
example (sh : Shape) : (Mach.create (U := Nat) sh {}).root.IdsFrom 0 := Shape.toNode_idsFrom sh 0 0

example : exTree.IdsFrom 0 ∧ exTree.machineActive = true := by
  simp [exTree, Node.IdsFrom, Subs.IdsFrom, Node.size, Node.machineActive, Node.firstCompoActive]

/-- update passes: a state that is not active receives nothing -/
theorem tick_only_active (ph : Method) (root : Node) (k : Nat) (w : World U) (hA : root.Act)
    (hI : root.IdsFrom k) (hM : root.machineActive = true) :
    World.GrowsBy (fun it => root.isActive it.1 = true) w (root.tick ph w).1 :=
  ⟨_, (tick_delivers ph root w hA).1,
    fun it hit => expand_isActive root k hA hI hM ph _ it (List.mem_of_mem_take hit)⟩

/-- react phases: a state that is not active receives nothing -/
theorem react_only_active (ph : Method) (hf post : Bool) (root : Node) (k : Nat) (w : World U)
    (hA : root.Act) (hI : root.IdsFrom k) (hM : root.machineActive = true) (hc : w.consumed = false) :
    World.GrowsBy (fun it => root.isActive it.1 = true) w (root.react ph hf post w).1 :=
  ⟨_, (react_delivers ph hf post root w hA hc).1,
    fun it hit => expand_isActive root k hA hI hM ph hf it ((reactSpec_prefix ph _ w.ds).subset hit)⟩

/-- query: a state that is not active receives nothing -/
theorem query_only_active (hf : Bool) (root : Node) (k : Nat) (w : World U)
    (hA : root.Act) (hI : root.IdsFrom k) (hM : root.machineActive = true) (hc : w.consumed = false) :
    World.GrowsBy (fun it => root.isActive it.1 = true) w (root.query hf w) :=
  ⟨_, (query_delivers hf root w hA hc).1,
    fun it hit => expand_isActive root k hA hI hM .query hf it ((reactSpec_prefix .query _ w.ds).subset hit)⟩

/-! ### an idle update leaves the registry alone -/

/-- `update()` with an empty request queue, callbacks that do nothing and no plan in existence
returns with the same registry (active / resumable / requested marks of every region). -/
theorem update_quiet_root [UtilArith U] (m : Mach U) (hr : m.w.requests = [])
    (hq : ∀ d ∈ m.w.ds, d = []) (hp : m.w.cfg.plans = false ∨ m.w.planExists = 0) :
    m.update.root = m.root :=
  Mach.update_quiet_root m hr hq hp

example : ∃ m : Mach Nat, m.w.requests = [] ∧ (∀ d ∈ m.w.ds, d = []) ∧
    (m.w.cfg.plans = false ∨ m.w.planExists = 0) ∧ m.root.Act ∧ m.w.ds.length = 21 :=
  ⟨{ root := exTree, w := { cfg := {}, ds := List.replicate 21 [] } }, rfl,
    by intro d hd; exact (List.mem_replicate.1 hd).2, Or.inr rfl, exTree_act, by simp⟩

/-
Theorems that constitute C05:
  slots_down slots_up slots_query slots_headless
  tick_delivers preUpdate_order update_order postUpdate_order update_passes update_prefix
  react_delivers react_prefix react_no_consume react_truncation
  react_started_consumed_region react_started_consumed_leaf react_passes react_prefix_of_call
  react_order_topDown
  query_delivers query_order query_changes_nothing query_world
  expand_isActive machineActive_of_compo tick_only_active react_only_active query_only_active
  update_quiet_root
-/

end Hfsm.Props.C05

/-! ## end-to-end (composition with C01)

The theorems above assume `Act`, `IdsFrom`, `machineActive` of the tree.  For every REACHABLE instance
(`ReachableOf shape cfg m`, Proofs/Reach.lean: `Mach.create shape cfg` followed by any history of API calls with
any decisions of the callbacks and any generator outputs) that met no contract violation and is activated,
C01's invariant provides them: nothing is left but reachability, `err = none`, "activated" and — where the
original has it — a decision stream long enough for the passes. -/
namespace Hfsm.Props.C05
open Hfsm
variable {U : Type} [UtilArith U] {shape : Shape} {cfg : Config} {m : Mach U}

/-- `update()` on a reachable instance: the three passes deliver `preUpdate` and `update` to exactly the
states of `activePre` in that order and `postUpdate` to those of `activePost`, as far as the decision stream
reaches. -/
theorem update_passes_reachable (h : ReachableOf shape cfg m) (he : m.w.err = none)
    (hm : m.root.machineActive = true) :
    m.tickPasses.cbSeq = m.w.cbSeq ++
      (expand .preUpdate m.root.activePre ++ expand .update m.root.activePre ++
        expand .postUpdate m.root.activePost).take m.w.ds.length :=
  update_passes m (h.act he hm)

/-- … and these are the first callbacks of the call (plan callbacks, guards and lifecycle callbacks follow). -/
theorem update_prefix_reachable (h : ReachableOf shape cfg m) (he : m.w.err = none)
    (hm : m.root.machineActive = true)
    (hds : (expand .preUpdate m.root.activePre ++ expand .update m.root.activePre ++
        expand .postUpdate m.root.activePost).length ≤ m.w.ds.length) :
    ∃ rest, m.update.w.cbSeq = m.w.cbSeq ++
      (expand .preUpdate m.root.activePre ++ expand .update m.root.activePre ++
        expand .postUpdate m.root.activePost) ++ rest :=
  update_prefix m (h.act he hm) hds

/-- `react()` on a reachable instance: the three phases in the order configured AT CONSTRUCTION, each
truncated by consumption as `reactSpec3` says. -/
theorem react_prefix_of_call_reachable (h : ReachableOf shape cfg m) (he : m.w.err = none)
    (hm : m.root.machineActive = true) :
    ∃ rest, m.react.w.cbSeq = m.w.cbSeq ++ reactSpec3 cfg.topDown m.root m.w.ds ++ rest := by
  have := react_prefix_of_call m (h.act he hm)
  rwa [h.cfg_topDown] at this

/-- `query()` on a reachable instance. -/
theorem query_order_reachable (h : ReachableOf shape cfg m) (he : m.w.err = none)
    (hm : m.root.machineActive = true) :
    m.query.w.cbSeq = m.w.cbSeq ++ reactSpec .query (m.root.activeList cfg.topDown) m.w.ds := by
  have := query_order m (h.act he hm)
  rwa [h.cfg_topDown] at this

/-- Every handler of these enumerations belongs to a state that `isActive(stateId)` reports active — and by
`ReachableOf.wf` the reported configuration is well formed (C01): inactive states receive nothing. -/
theorem only_active_states_reachable (h : ReachableOf shape cfg m) (he : m.w.err = none)
    (hm : m.root.machineActive = true) (meth : Method) (hf : Bool) :
    ∀ it ∈ expand meth (m.root.activeList hf), m.root.isActive it.1 = true :=
  expand_isActive m.root 0 (h.act he hm) (h.idsFrom he) hm meth hf

/-- the update passes of a reachable instance, as a `GrowsBy` statement on the world -/
theorem tick_only_active_reachable (h : ReachableOf shape cfg m) (he : m.w.err = none)
    (hm : m.root.machineActive = true) (ph : Method) (w : World U) :
    World.GrowsBy (fun it => m.root.isActive it.1 = true) w (m.root.tick ph w).1 :=
  tick_only_active ph m.root 0 w (h.act he hm) (h.idsFrom he) hm

/-- a concrete non-trivial reachable instance exists, satisfies the hypotheses, and has decisions left for a
whole `update()` -/
example : Reachable (Api.run Demo.mach Demo.prog) := Demo.reachable.reachable
example : ∃ m : Mach Demo.DU, ReachableOf Demo.shape Demo.cfg m ∧ m.w.err = none ∧ m.root.machineActive = true ∧
    (expand .preUpdate m.root.activePre ++ expand .update m.root.activePre ++
      expand .postUpdate m.root.activePost).length ≤ m.w.ds.length :=
  ⟨_, Demo.reachable, Demo.err_none, Demo.active, by decide +kernel⟩

end Hfsm.Props.C05
