/-
Property C06 — "Plans run tasks in order and report success or failure to the region head".

Statements are about the executable model (`Model/Dispatch.lean`: `World.runTasks`, `World.updatePlan`,
`Node.updatePlans`; `Model/Machine.lean`: `Mach.update/react`; `Model/Commit.lean`: `Node.exit`), for every
tree, every world (= every decision stream of the user callbacks, every plan content, every mark set) —
by structural induction, never by search.  Closed witnesses (`decide +kernel` on a closed term) are used
only for the *negations*.  Helper lemmas: `Proofs/PlanExec.lean`.

Vocabulary (all from `Proofs/PlanExec.lean`)
  `execAt act succ p i`   closed form of "the walk executes the task at position `i` of plan `p`"
  `executed act succ p`   the executed tasks, in plan order;  `kept act succ p` the tasks left in the plan
  `Task.issued head t`    the request the executor queues: `{origin := head, dest, kind := change, payload}`
  `Task.intended head t`  the request the task was created for: same with `kind := t.kind`
  `World.execAll`         requests / success marks / trace after executing a list of tasks
  `World.regionPlans`     the step of `C_/O_::deepUpdatePlans` after the sub-states have been updated
  `Node.subPlans`, `Node.regionInfo`  the sub-state part of `deepUpdatePlans` and the constants of a region node

Where the property text is FALSE of the code (kept visible below, each with a witness):
  F12   the executor issues `change` whatever the task's kind          → `walk_requests_faithful_partial`,
                                                                          `f12_kind_faithful_false`, `f12_restart_task_resumes`
  N3    tasks released beyond the queue capacity are removed but lost    → `walk_requests_room`, `n3_tasks_dropped`
  Q1    a leaf sub-state succeeding in `postUpdate` sets the HEAD status → `q1_postUpdate_success_blocks_plan`
  Q2    an orthogonal leaf sibling's success blocks the next sibling region's plan → `q2_sibling_success_blocks_plan`
  Q3    an enclosing head's success makes a nested headless region report `planSucceeded` → `q3_outer_head_success_leaks`
  Q4    marks set by guards (after the plan pass) or through the instance API survive the step → `guard_mark_survives_update`
  Q5    an anonymous head keeps a mark across its exit                     → `headless_mark_survives_exit`
-/
import Hfsm.Proofs.PlanExec
import Hfsm.Proofs.Reach

namespace Hfsm.Props.C06
open Hfsm Hfsm.World
variable {U : Type}

/-! ## (i) the task walk of `FullControlT::updatePlan` -/

/-- **Closed form of the walk.**  For every plan, world and accumulator: the plan left behind is `kept`,
the world is the input world after executing `executed` (requests appended on behalf of the head,
cyclic origins' marks cleared at once, log records), and the marks to clear at the end are the origins of
the executed non-cyclic tasks. -/
theorem walk_closed_form (head : Nat) (p : List Task) (w : World U) (clr : Nat) :
    World.runTasks head p w clr =
      (kept w.activeSnap w.succ p, w.execAll head (executed w.activeSnap w.succ p),
       clrAfter clr (executed w.activeSnap w.succ p)) :=
  runTasks_eq head p w clr

/-- **Which tasks run** (safety and progress of the walk in one statement): the task at position `i` is
executed iff every task up to and including `i` has an origin that is active in the pass's snapshot (the walk
stops at the first inactive origin), its origin is marked succeeded, and no earlier task with the same
origin is cyclic (such a task was executed and cleared the mark at that moment). -/
theorem walk_executes_iff (act succ : Nat) (p : List Task) (i : Nat) :
    execAt act succ p i = true ↔
      ∃ t, p[i]? = some t ∧
        (∀ j u, j ≤ i → p[j]? = some u → bit act u.origin = true) ∧
        bit succ t.origin = true ∧
        (∀ j u, j < i → p[j]? = some u → u.origin = t.origin → u.cyclic = false) :=
  execAt_iff act succ p i

/-- Safety: a task is executed only if its origin is active and marked succeeded. -/
theorem walk_safety (w : World U) (p : List Task) (t : Task) (h : t ∈ executed w.activeSnap w.succ p) :
    w.isActiveSnap t.origin = true ∧ bit w.succ t.origin = true :=
  executed_sound _ _ p t h

/-- Safety: nothing at or behind the first task with an inactive origin is executed. -/
theorem walk_stops_at_inactive (act succ : Nat) (p : List Task) (i : Nat) (u : Task)
    (hu : p[i]? = some u) (hin : bit act u.origin = false) (j : Nat) (hj : i ≤ j) :
    execAt act succ p j = false := by
  cases h : execAt act succ p j with
  | false => rfl
  | true =>
    rw [execAt_iff] at h
    obtain ⟨_, _, h1, _⟩ := h
    rw [h1 i u hj hu] at hin
    cases hin

/-- **Never twice, order kept**: the input plan is a merge of the plan left behind and the executed tasks —
every task of the input goes to exactly one side, once, and both sides keep their relative order. -/
theorem walk_never_twice (head : Nat) (p : List Task) (w : World U) (clr : Nat) :
    Interleave (World.runTasks head p w clr).1 (executed w.activeSnap w.succ p) p := by
  rw [walk_closed_form]
  exact kept_executed_interleave _ _ p

/-- The request queue after the walk: one `change` per executed task, in order, on behalf of the head, with
the task's destination and payload — as far as the queue has room (`ctlRequest` rejects beyond `queueCap`). -/
theorem walk_requests (head : Nat) (p : List Task) (w : World U) (clr : Nat) :
    (World.runTasks head p w clr).2.1.requests =
      w.requests ++ ((executed w.activeSnap w.succ p).map (Task.issued head)).take
        (w.cfg.queueCap - w.requests.length) := by
  rw [walk_closed_form]; rfl

/-- … all of them when the queue has room (`queueRoom`). -/
theorem walk_requests_room (head : Nat) (p : List Task) (w : World U) (clr : Nat)
    (room : w.requests.length + (executed w.activeSnap w.succ p).length ≤ w.cfg.queueCap) :
    (World.runTasks head p w clr).2.1.requests =
      w.requests ++ (executed w.activeSnap w.succ p).map (Task.issued head) := by
  rw [walk_requests, List.take_of_length_le]
  rw [List.length_map]; omega

/-- **N3** (known finding): without room the surplus tasks are still removed from the plan (they are on the
`executed` side of `walk_never_twice`) but their requests are dropped. -/
theorem walk_requests_overflow (head : Nat) (p : List Task) (w : World U) (clr : Nat)
    (hlen : w.requests.length ≤ w.cfg.queueCap)
    (over : w.cfg.queueCap < w.requests.length + (executed w.activeSnap w.succ p).length) :
    (World.runTasks head p w clr).2.1.requests.length = w.cfg.queueCap := by
  rw [walk_requests, List.length_append, List.length_take, List.length_map]
  omega

/-- Marks during the walk: an executed *cyclic* task clears its origin's success mark immediately … -/
theorem walk_marks_cyclic (head : Nat) (p : List Task) (w : World U) (clr : Nat) (j : Nat) :
    bit (World.runTasks head p w clr).2.1.succ j =
      (bit w.succ j && !(executed w.activeSnap w.succ p).any (fun t => t.cyclic && decide (t.origin = j))) := by
  rw [walk_closed_form]
  exact bit_succAfter j _ _

/-- … the others are collected and cleared at the end of the walk (`tasksSuccesses &= successesToClear`). -/
theorem walk_marks_deferred (head : Nat) (p : List Task) (w : World U) (clr : Nat) (j : Nat) :
    bit (World.runTasks head p w clr).2.2 j =
      (bit clr j || (executed w.activeSnap w.succ p).any (fun t => !t.cyclic && decide (t.origin = j))) := by
  rw [walk_closed_form]
  exact bit_clrAfter j _ _

/-- The walk touches nothing but the queue, the success marks, the register's outer flag and the trace. -/
theorem walk_frame (head : Nat) (p : List Task) (w : World U) (clr : Nat) :
    (World.runTasks head p w clr).2.1 =
      { w with
        requests := (World.runTasks head p w clr).2.1.requests
        succ := (World.runTasks head p w clr).2.1.succ
        taskStatus := (World.runTasks head p w clr).2.1.taskStatus
        trace := (World.runTasks head p w clr).2.1.trace } := by
  rw [walk_closed_form]; rfl

/-- The log of the walk: one transition record `head CHANGE dest` per executed task (newest first). -/
theorem walk_trace (head : Nat) (p : List Task) (w : World U) (clr : Nat) (hl : w.cfg.logging = true) :
    (World.runTasks head p w clr).2.1.trace =
      ((executed w.activeSnap w.succ p).map fun t => Event.log (.transition (some head) .change t.dest)).reverse
        ++ w.trace := by
  rw [walk_closed_form]; simp [World.execAll, hl]

/-! ## (ii) the kind of the issued request (F12)

FULL STATEMENT (what the property text says; FALSE of the code — known finding F12):
    (World.runTasks head p w clr).2.1.requests =
      w.requests ++ ((executed w.activeSnap w.succ p).map (Task.intended head)).take (queueCap - length)
i.e. "a transition of the kind the task was created with".  `updatePlan` calls `changeTo/changeWith`
unconditionally (root/control_3.inl), so it holds exactly for tasks of kind `change`. -/

/-- Partial: the kind-faithful statement for plans whose executed tasks are all of kind `change`. -/
theorem walk_requests_faithful_partial (head : Nat) (p : List Task) (w : World U) (clr : Nat)
    (hk : ∀ t ∈ executed w.activeSnap w.succ p, t.kind = .change) :
    (World.runTasks head p w clr).2.1.requests =
      w.requests ++ ((executed w.activeSnap w.succ p).map (Task.intended head)).take
        (w.cfg.queueCap - w.requests.length) := by
  rw [walk_requests]
  congr 2
  apply List.map_congr_left
  intro t ht
  simp [Task.issued, Task.intended, hk t ht]

/-- a plan, a world and the marks for the closed witnesses of this section: state 1 is active and succeeded -/
def wSmall (cap : Nat) : World Nat := { cfg := { queueCap := cap, stateCount := 4 }, activeSnap := 0b1111, succ := 0b0010 }

/-- the hypothesis of the partial theorem is satisfiable with a task that does run -/
example : (∀ t ∈ executed (wSmall 2).activeSnap (wSmall 2).succ [⟨1, 2, .change, some 7⟩], t.kind = .change) ∧
    executed (wSmall 2).activeSnap (wSmall 2).succ [⟨1, 2, .change, some 7⟩] = [⟨1, 2, .change, some 7⟩] := by
  decide +kernel

/-- **F12, negation of the full statement** on a concrete plan: a `restart` task is issued as `change`. -/
theorem f12_kind_faithful_false :
    ∃ (head : Nat) (p : List Task) (w : World Nat),
      (World.runTasks head p w 0).2.1.requests ≠
        w.requests ++ ((executed w.activeSnap w.succ p).map (Task.intended head)).take
          (w.cfg.queueCap - w.requests.length) :=
  ⟨0, [⟨1, 2, .restart, none⟩], wSmall 2, by decide +kernel⟩


/-! ## (iii) the region step of `deepUpdatePlans`: reporting to the head

Notation of this section, for a region node `n` with `n.regionInfo = some (id, rid, inj, headed, size)`
(head state `id`, region `rid`, …) updated in world `w`:
  `w₁  := (n.subPlans w).1`   the world after the sub-states' own `deepUpdatePlans`
  `hs  := headStatuses[rid] | (own mark of the head)`         — read before the sub-states run
  `ss  := subStatuses[rid]  | (status returned by the sub-states)` — read after -/

/-- head status of a region as `deepUpdatePlans` computes it -/
def headSt (w : World U) (rid id : Nat) : TaskStatus := (getStatus w.headStatus rid).or (w.stateTaskStatus id)
/-- combined sub-status of a region as `deepUpdatePlans` computes it -/
def subSt (n : Node) (w : World U) (rid : Nat) : TaskStatus :=
  (getStatus (n.subPlans w).1.subStatus rid).or (n.subPlans w).2

/-- the world in which the region's verdict is delivered: the sub-states' world inside the region scope -/
def inScope (n : Node) (w : World U) (id rid size : Nat) : World U :=
  { (n.subPlans w).1 with regionId := rid, regionStateId := id, regionSize := size }

section region
variable (n : Node) (w : World U) (id rid inj : Nat) (headed : Bool) (size : Nat)
variable (hi : n.regionInfo = some (id, rid, inj, headed, size))
include hi

/-- `deepUpdatePlans` of a region is the sub-states' update followed by the region step. -/
theorem region_step :
    n.updatePlans w =
      (n.subPlans w).1.regionPlans id rid inj headed size (headSt w rid id) (n.subPlans w).2 :=
  Node.updatePlans_region n w id rid inj headed size hi

/-- A non-empty head status short-circuits: it is returned as it is; the plan is not looked at, no plan
callback runs (the world is the one the sub-states left). -/
theorem region_head_short_circuit (hh : (headSt w rid id).toBool = true) :
    n.updatePlans w = ((n.subPlans w).1, headSt w rid id) := by
  rw [region_step n w id rid inj headed size hi, regionPlans_head _ _ _ _ _ _ _ _ hh]

/-- A transition leaving a sub-state's region suppresses the plan: only the flag goes up. -/
theorem region_outer_suppresses (hh : (headSt w rid id).toBool = false) (ho : (subSt n w rid).outer = true) :
    n.updatePlans w = ((n.subPlans w).1, { result := .none, outer := true }) := by
  rw [region_step n w id rid inj headed size hi, regionPlans_outer _ _ _ _ _ _ _ _ hh ho]

/-- A region that never had a plan attached (`planExists` clear) passes the sub-status to its parent
unchanged; nothing happens to the world but the end of the region scope (register cleared). -/
theorem region_without_plan_passes (hh : (headSt w rid id).toBool = false) (ho : (subSt n w rid).outer = false)
    (hp : bit (n.subPlans w).1.planExists rid = false) :
    n.updatePlans w = ({ (n.subPlans w).1 with taskStatus := {} }, subSt n w rid) := by
  rw [region_step n w id rid inj headed size hi, regionPlans_pass _ _ _ _ _ _ _ _ hh ho (by simp [hp])]
  rfl

/-- Nothing reported by the sub-states (and nothing accumulated): nothing happens, whether a plan exists or not. -/
theorem region_nothing_to_report (hh : (headSt w rid id).toBool = false) (hs : (subSt n w rid).toBool = false) :
    n.updatePlans w = ({ (n.subPlans w).1 with taskStatus := {} }, subSt n w rid) := by
  have ho : (subSt n w rid).outer = false := by
    cases h : (subSt n w rid).outer
    · rfl
    · simp [TaskStatus.toBool, h] at hs
  rw [region_step n w id rid inj headed size hi, regionPlans_pass _ _ _ _ _ _ _ _ hh ho
    (by rw [show ((getStatus (n.subPlans w).1.subStatus rid).or (n.subPlans w).2) = subSt n w rid from rfl, hs]; rfl)]
  rfl

/-- **Progress, tasks left.**  Head status empty, no outer transition, combined sub-status SUCCESS, a plan
attached and not empty: the walk of part (i) runs over the region's plan with the head as origin; the executed
tasks leave the plan; the success mark of a state survives iff it was the origin of no executed task; the
region reports nothing upwards. -/
theorem region_runs_tasks (hh : (headSt w rid id).toBool = false) (ho : (subSt n w rid).outer = false)
    (hr : (subSt n w rid).result = .success) (hp : bit (n.subPlans w).1.planExists rid = true)
    (hne : (n.subPlans w).1.planOf rid ≠ []) :
    n.updatePlans w =
      (let w₁ := (n.subPlans w).1
       let p := w₁.planOf rid
       let ex := executed w₁.activeSnap w₁.succ p
       { w₁ with
         requests := w₁.requests ++ (ex.map (Task.issued id)).take (w₁.cfg.queueCap - w₁.requests.length)
         plans := w₁.plans.set rid (kept w₁.activeSnap w₁.succ p)
         succ := succAfter w₁.succ ex - (succAfter w₁.succ ex &&& clrAfter 0 ex)
         trace := (if w₁.cfg.logging then (ex.map fun t => Event.log (.transition (some id) .change t.dest)).reverse else [])
                  ++ w₁.trace
         taskStatus := {} }, {}) := by
  have hb : (subSt n w rid).toBool = true := by simp [TaskStatus.toBool, hr]
  rw [region_step n w id rid inj headed size hi,
    regionPlans_plan _ _ _ _ _ _ _ _ hh ho (by rw [show ((getStatus (n.subPlans w).1.subStatus rid).or (n.subPlans w).2) = subSt n w rid from rfl, hb, hp]; rfl)]
  have e := updatePlan_success_tasks
    ({ (n.subPlans w).1 with regionId := rid, regionStateId := id, regionSize := size }) id inj headed
    (subSt n w rid) hr hne
  unfold subSt at e
  rw [e]
  rfl

/-- **Plan finished / plan failed: the verdict.**  Head status empty, no outer transition, a plan attached,
and either combined sub-status FAILURE, or SUCCESS with no task left: the plan-status record is logged, the
head's `planFailed` / `planSucceeded` runs inside the region's scope, and the region hands the register's result
after that callback to the enclosing region. -/
theorem region_verdict (success : Bool)
    (hh : (headSt w rid id).toBool = false) (ho : (subSt n w rid).outer = false)
    (hp : bit (n.subPlans w).1.planExists rid = true)
    (hr : if success then (subSt n w rid).result = .success ∧ (n.subPlans w).1.planOf rid = []
          else (subSt n w rid).result = .failure) :
    n.updatePlans w =
      ((((inScope n w id rid size).planVerdict success).stateMethod id inj headed (verdictMethod success)).popRegion
          ((n.subPlans w).1.regionId, (n.subPlans w).1.regionStateId, (n.subPlans w).1.regionSize),
       { result := (((inScope n w id rid size).planVerdict success).stateMethod id inj headed
                      (verdictMethod success)).taskStatus.result }) := by
  have hb : (subSt n w rid).toBool = true := by
    cases success <;> simp at hr <;> simp [TaskStatus.toBool, hr]
  rw [region_step n w id rid inj headed size hi,
    regionPlans_plan _ _ _ _ _ _ _ _ hh ho (by rw [show ((getStatus (n.subPlans w).1.subStatus rid).or (n.subPlans w).2) = subSt n w rid from rfl, hb, hp]; rfl)]
  cases success
  · simp only [Bool.false_eq_true, if_false] at hr
    have e := updatePlan_failure (inScope n w id rid size) id inj headed (subSt n w rid) hr
    unfold subSt inScope at e
    rw [e]; rfl
  · simp only [if_true] at hr
    have e := updatePlan_success_done (inScope n w id rid size) id inj headed (subSt n w rid) hr.1 hr.2
    unfold subSt inScope at e
    rw [e]; rfl


/-- … for a headed region: exactly one handler runs (its `cb` event tops the trace, one decision is consumed)
and the status handed upwards is the verdict pushed through that handler's `succeed()` / `fail()` calls. -/
theorem region_verdict_headed (success : Bool) (hd : headed = true)
    (hh : (headSt w rid id).toBool = false) (ho : (subSt n w rid).outer = false)
    (hp : bit (n.subPlans w).1.planExists rid = true)
    (hr : if success then (subSt n w rid).result = .success ∧ (n.subPlans w).1.planOf rid = []
          else (subSt n w rid).result = .failure)
    (d : Decision U) (rest : List (Decision U)) (hds : (n.subPlans w).1.ds = d :: rest) :
    (n.updatePlans w).2 =
        { result := d.foldl (Action.onResult (n.subPlans w).1.cfg.stateCount) (if success then .success else .failure) } ∧
    (n.updatePlans w).1.ds = rest ∧
    (n.updatePlans w).1.trace.head? = some (.cb id (verdictMethod success) inj (n.subPlans w).1.obs [] []) := by
  subst hd
  rw [region_verdict n w id rid inj true size hi success hh ho hp hr]
  obtain ⟨h1, h2, h3⟩ := planCallback_headed (inScope n w id rid size) id inj success d rest hds
  exact ⟨by rw [h1]; rfl, h2, h3⟩

/-- … for a headless region (**(v)**): no handler exists, so nothing is consumed and *no mark is set on the
head*; the verdict itself goes to the enclosing region through the returned status only. -/
theorem region_verdict_headless (success : Bool) (hd : headed = false)
    (hh : (headSt w rid id).toBool = false) (ho : (subSt n w rid).outer = false)
    (hp : bit (n.subPlans w).1.planExists rid = true)
    (hr : if success then (subSt n w rid).result = .success ∧ (n.subPlans w).1.planOf rid = []
          else (subSt n w rid).result = .failure) :
    (n.updatePlans w).2 = { result := if success then .success else .failure } ∧
    (n.updatePlans w).1.ds = (n.subPlans w).1.ds ∧
    (n.updatePlans w).1.succ = (n.subPlans w).1.succ ∧ (n.updatePlans w).1.fail = (n.subPlans w).1.fail := by
  subst hd
  rw [region_verdict n w id rid inj false size hi success hh ho hp hr]
  obtain ⟨h1, h2, h3, h4⟩ := planCallback_headless (inScope n w id rid size) id inj success
  exact ⟨by rw [h1], h2, h3, h4⟩

end region

/-- the success marks after `region_runs_tasks`, bit by bit: the mark of a state survives iff no executed task
had it as origin (cyclic ones were cleared on the spot, the others at the end of the walk) -/
theorem region_runs_tasks_marks (s : Nat) (ex : List Task) (j : Nat) :
    bit (succAfter s ex - (succAfter s ex &&& clrAfter 0 ex)) j = (bit s j && !ex.any (fun t => decide (t.origin = j))) :=
  bit_succ_final s ex j

/-- **Progress** (the "every such task is executed" clause): under the hypotheses of `region_runs_tasks`, when
the queue has room, a task at a position that `walk_executes_iff` describes has its request in the queue
after the region's update. -/
theorem region_progress (n : Node) (w : World U) (id rid inj : Nat) (headed : Bool) (size : Nat)
    (hi : n.regionInfo = some (id, rid, inj, headed, size))
    (hh : (headSt w rid id).toBool = false) (ho : (subSt n w rid).outer = false)
    (hr : (subSt n w rid).result = .success) (hp : bit (n.subPlans w).1.planExists rid = true)
    (i : Nat) (t : Task) (ht : ((n.subPlans w).1.planOf rid)[i]? = some t)
    (hex : execAt (n.subPlans w).1.activeSnap (n.subPlans w).1.succ ((n.subPlans w).1.planOf rid) i = true)
    (room : (n.subPlans w).1.requests.length +
              (executed (n.subPlans w).1.activeSnap (n.subPlans w).1.succ ((n.subPlans w).1.planOf rid)).length
            ≤ (n.subPlans w).1.cfg.queueCap) :
    t.issued id ∈ (n.updatePlans w).1.requests ∧ (n.updatePlans w).2 = {} := by
  have hne : (n.subPlans w).1.planOf rid ≠ [] := by
    intro h; rw [h] at ht; simp at ht
  rw [region_runs_tasks n w id rid inj headed size hi hh ho hr hp hne]
  refine ⟨?_, rfl⟩
  simp only []
  rw [List.take_of_length_le (by rw [List.length_map]; omega)]
  apply List.mem_append_right
  apply List.mem_map_of_mem
  unfold executed
  rw [mem_pickIdx]
  exact ⟨i, ht, hex⟩

/-- **(v) what the default handlers would do.**  The library's default `planSucceeded` / `planFailed` call
`control.succeed()` / `control.fail()`, i.e. mark the head itself; when the handler that runs does exactly that
(decision `[succeed id]` / `[fail id]`), the head's own mark is set in the world the enclosing region is updated
in — this is how a verdict reaches a task of the enclosing plan whose origin is the head.  The defaults themselves
are NOT modelled: every harness state overrides both handlers, and the model has no notion of a default. -/
theorem default_handler_marks_head (n : Node) (w : World U) (id rid inj : Nat) (size : Nat)
    (hi : n.regionInfo = some (id, rid, inj, true, size)) (success : Bool)
    (hh : (headSt w rid id).toBool = false) (ho : (subSt n w rid).outer = false)
    (hp : bit (n.subPlans w).1.planExists rid = true)
    (hr : if success then (subSt n w rid).result = .success ∧ (n.subPlans w).1.planOf rid = []
          else (subSt n w rid).result = .failure)
    (rest : List (Decision U)) (hds : (n.subPlans w).1.ds = [if success then .succeed id else .fail id] :: rest)
    (hv : 0 < id ∧ id < (n.subPlans w).1.cfg.stateCount) :
    (n.updatePlans w).1.succ = (if success then setBit (n.subPlans w).1.succ id else (n.subPlans w).1.succ) ∧
    (n.updatePlans w).1.fail = (if success then (n.subPlans w).1.fail else setBit (n.subPlans w).1.fail id) := by
  rw [region_verdict n w id rid inj true size hi success hh ho hp hr]
  exact planCallback_default (inScope n w id rid size) id inj success rest hds hv

/-! ### what the statuses are (the shared `_taskStatus` register)

`headStatuses[r]` / `subStatuses[r]` accumulate (`|=`) what `S_::deepUpdate…/deepReact…` *return*, and a user
state returns the control's `_taskStatus` register, which `succeed()/fail()` overwrite (`result`) and an outer
request sets (`outerTransition`), and which is cleared only by the destructor of a region scope.  Hence:
  * sub-status of a region  = OR over the passes of the register after its active sub-state's handlers (leaf
    sub-state) resp. of the sub-region's *head* status (the sub-region's tick returns its head's status);
  * that register still holds what ran before in the same scope: the region's own head (pre/update passes —
    harmless, a non-empty head status short-circuits anyway), an orthogonal sibling (Q2), the head of an
    enclosing region when the scope in between belongs to an anonymous head (Q3); in `postUpdate`, where the
    sub-states run first, the *head* status inherits the leaf sub-state's register (Q1).
So "a sub-state of a plan-owning region succeeds and none fails, while the head neither succeeds nor fails" in the
property text matches `ss.result = success ∧ ¬hs` only when no such carry-over happens. -/

/-- A leaf reports the register as it found it, pushed through its own handler. -/
theorem leaf_reports_register (ph : Method) (hf : ph.cls.isFull = true) (w : World U) (id : Nat)
    (d : Decision U) (rest : List (Decision U)) (hd : w.ds = d :: rest) :
    (Node.tick ph (.leaf id 0) w).2 = regAfter w.cfg.stateCount w.regionStateId w.regionSize d w.taskStatus ∧
    (Node.tick ph (.leaf id 0) w).1.taskStatus = (Node.tick ph (.leaf id 0) w).2 :=
  Node.tick_leaf_status ph hf w id d rest hd

/-- Only the end of a region scope clears the register. -/
theorem region_scope_clears_register (ph : Method) (n : Node) (w : World U) (info : Nat × Nat × Nat × Bool × Nat)
    (hi : n.regionInfo = some info) : (n.tick ph w).1.taskStatus = {} :=
  Node.tick_region_register ph n w info hi

/-! ## (iv) marks never survive the step that consumed them, nor the exit of their state -/

/-- `R_::update` = the passes (three update passes, plan update, `clearStatuses`) followed by the processing of
the queued requests; at the end of the passes **no success / failure mark and no region status is left**. -/
theorem update_clears_marks [UtilArith U] (m : Mach U) (hp : m.w.cfg.plans = true) :
    m.update = ({ m with w := m.updatePasses }).processRequest ∧ m.updatePasses.NoStatus :=
  ⟨Mach.update_eq m, Mach.updatePasses_noStatus m hp⟩

/-- The same for `R_::react`. -/
theorem react_clears_marks [UtilArith U] (m : Mach U) (hp : m.w.cfg.plans = true) :
    m.react = ({ m with w := m.reactPasses }).processRequest ∧ m.reactPasses.NoStatus :=
  ⟨Mach.react_eq m, Mach.reactPasses_noStatus m hp⟩

/-- If the step queued no request, the instance ends the step without any mark. (With requests queued the
guards of the transition run *after* the marks were cleared and may set new ones: `guard_mark_survives_update`.) -/
theorem update_quiet_no_marks [UtilArith U] (m : Mach U) (hp : m.w.cfg.plans = true)
    (hq : m.updatePasses.requests = []) : m.update.w.NoStatus := by
  rw [Mach.update_eq]
  exact Mach.processRequest_quiet _ hq (Mach.updatePasses_noStatus m hp)

theorem react_quiet_no_marks [UtilArith U] (m : Mach U) (hp : m.w.cfg.plans = true)
    (hq : m.reactPasses.requests = []) : m.react.w.NoStatus := by
  rw [Mach.react_eq]
  exact Mach.processRequest_quiet _ hq (Mach.reactPasses_noStatus m hp)

/-- `deepExit`: after the exit pass of a sub-tree no *user* state of its active configuration carries a mark
(`S_::deepExit` clears the state's own marks after its handlers; exit handlers get a `PlanControl`, which has
no `succeed/fail`, so a later exit cannot set what an earlier one cleared). -/
theorem exit_clears_marks (n : Node) (w : World U) (hp : w.cfg.plans = true) (j : Nat) (hj : j ∈ n.activeHeaded) :
    bit (n.exit w).2.succ j = false ∧ bit (n.exit w).2.fail j = false :=
  Node.exit_clears n w hp j hj

/-- … and an exit pass never creates a mark. -/
theorem exit_creates_no_mark (n : Node) (w : World U) : MarksLe (n.exit w).2 w := (Node.exit_marks n w).1

/-- Marks set through the instance API (`R_::succeed/fail`) are simply stored: they survive until the next
`update()/react()` consumes and clears them. -/
theorem api_mark_is_stored [UtilArith U] (m : Mach U) (sid : Nat) (h : 0 < sid ∧ sid < m.w.cfg.stateCount) :
    bit (m.setTask sid true).w.succ sid = true ∧ bit (m.setTask sid false).w.fail sid = true := by
  have hs : ∀ (w : World U) r, (w.logRec r).succ = w.succ := by intro w r; unfold logRec emit; split <;> rfl
  have hf : ∀ (w : World U) r, (w.logRec r).fail = w.fail := by intro w r; unfold logRec emit; split <;> rfl
  simp [Mach.setTask, h.1, h.2, hs, hf, bit_setBit]

/-! ## closed witnesses (model runs of histories that were also run against the real library) -/

namespace Wit

@[reducible] def natUtil : UtilArith Nat := ⟨0, 1, (· + ·), (· - ·), (· * ·), (· / ·), (fun a b => decide (a ≤ b))⟩
attribute [local instance] natUtil

def idle (k : Nat) : List (Decision Nat) := List.replicate k []
def withDs (m : Mach Nat) (ds : List (Decision Nat)) : Mach Nat := { m with w := { m.w with ds := ds } }
def actives (m : Mach Nat) : List Bool := (List.range m.w.cfg.stateCount).map m.root.isActive
/-- a freshly activated instance whose callbacks did nothing so far -/
def start (sh : Shape) (cfg : Config) : Mach Nat := (withDs (Mach.create sh cfg) (idle 50)).initialEnter
def L : Shape := .leaf 0
def subs : List Shape → Shapes
  | [] => .nil
  | s :: r => .cons s (subs r)
def tk (o d : Nat) (k : Kind := .change) : Task := { origin := o, dest := d, kind := k, payload := none }
def planLogs (m : Mach Nat) : List (Nat × Bool) := m.w.trace.filterMap fun e => match e with
  | .log (.planStatus r s) => some (r, s) | _ => none

/-- `Root(0)[ A(1): Resumable[a1(2), a2(3)], B(4) ]` -/
def shF12 : Shape := .compo true 0 .composite (subs [.compo true 0 .resumable (subs [L, L]), L])
/-- history: changeTo(a2); changeTo(B); plan().restart(B, A); succeed(B); update() -/
def f12 : Mach Nat :=
  let m := ((start shF12 { queueCap := 2, taskCap := 2 }).immediate .change 3 none).immediate .change 4 none
  ((m.planAppend 0 (tk 4 1 .restart)).setTask 4 true).update

/-- `Root(0)[a(1), b(2), c(3)]`, queue capacity 1 (= COMPO_COUNT) -/
def shABC : Shape := .compo true 0 .composite (subs [L, L, L])
/-- history: plan().change(a,b); plan().change(a,c); update() in which a.update() calls succeed() -/
def n3 : Mach Nat :=
  let m := ((start shABC { queueCap := 1, taskCap := 2 }).planAppend 0 (tk 1 2)).planAppend 0 (tk 1 3)
  withDs m ([[],[],[],[.succeed 1],[],[]] ++ idle 10)

/-- `Root(0)[a(1), b(2)]`; history: plan().change(a,b); update() in which `a` calls succeed() in
`update` (`post = false`) or in `postUpdate` (`post = true`) -/
def shAB : Shape := .compo true 0 .composite (subs [L, L])
def q1m (post : Bool) : Mach Nat :=
  let m := (start shAB { queueCap := 1, taskCap := 2 }).planAppend 0 (tk 1 2)
  withDs m ((if post then [[],[],[],[],[.succeed 1],[]] else [[],[],[],[.succeed 1],[],[]]) ++ idle 10)
def q1 (post : Bool) : Mach Nat := (q1m post).update

/-- `Root(0)[ O(1): Orthogonal[ l(2), N(3)[n1(4), n2(5)] ], x(6) ]`; history: plan<N>().change(n1,n2); update() in
which n1.update() calls succeed() and, if `lsucc`, l.update() calls succeed() too -/
def shQ2 : Shape := .compo true 0 .composite (subs [.ortho true 0 (subs [L, .compo true 0 .composite (subs [L, L])]), L])
def q2 (lsucc : Bool) : Mach Nat :=
  let m := (start shQ2 { queueCap := 2, taskCap := 2 }).planAppend 2 (tk 4 5)
  (withDs m ([[],[],[],[],[]] ++ [[],[], (if lsucc then [.succeed 2] else []), [], [.succeed 4]] ++ idle 20)).update

/-- `Root(0)[ X(1)[ P(2, headless)[a(3), b(4)], y(5) ], z(6) ]`; history: plan(P).change(a,b); plan(P).clear();
update() in which, if `xsucc`, X.update() calls succeed() -/
def shQ3 : Shape := .compo true 0 .composite (subs [.compo true 0 .composite (subs [.compo false 0 .composite (subs [L, L]), L]), L])
def q3 (xsucc : Bool) : Mach Nat :=
  let m := ((start shQ3 { queueCap := 3, taskCap := 2 }).planAppend 2 (tk 3 4)).planClear 2
  (withDs m ([[],[],[]] ++ [[], (if xsucc then [.succeed 1] else []), []] ++ idle 20)).update

/-- `Root(0)[a(1), b(2)]`; history: changeTo(b); update() in which b's entry guard calls succeed() -/
def q4 : Mach Nat :=
  let m := (start shAB { queueCap := 1, taskCap := 2 }).request .change 2 none
  (withDs m (idle 6 ++ [[], [.succeed 2]] ++ idle 10)).update

/-- `Root(0)[ P(1, headless)[x(2), y(3)], z(4) ]`; history: succeed(1); immediateChangeTo(z) -/
def shQ5 : Shape := .compo true 0 .composite (subs [.compo false 0 .composite (subs [L, L]), L])
def q5 : Mach Nat := (withDs ((start shQ5 { queueCap := 2, taskCap := 2 }).setTask 1 true) (idle 10)).immediate .change 4 none

/-- the world in which `R_::update` calls `deepUpdatePlans` (after the three update passes) -/
def afterTicks (m : Mach Nat) : World Nat :=
  let w := (m.w.freshControl).snapshot m.root true false
  let w := (m.root.tick .preUpdate w).1
  let w := (m.root.tick .update w).1
  (m.root.tick .postUpdate w).1
/-- the next decision is the single action `succeed sid` (`ok`) / `fail sid` -/
def nextIs (ds : List (Decision Nat)) (ok : Bool) (sid : Nat) : Bool :=
  match ds with
  | [.succeed s] :: _ => ok && s == sid
  | [.fail s] :: _ => !ok && s == sid
  | _ => false
/-- `i`-th sub-state node -/
def sub (n : Node) (i : Nat) : Node := (n.subs.get? i).getD (.leaf 0 0)

/-- `Root[a, b]` whose plan was attached and emptied; in `update`, `a` does `act`; then the head's handler does `hd` -/
def vm (act hd : Decision Nat) : Mach Nat :=
  let m := ((start shAB { queueCap := 1, taskCap := 2 }).planAppend 0 (tk 1 2)).planClear 0
  withDs m ([[],[],[],act,[],[]] ++ [hd] ++ idle 10)
/-- the same with an anonymous root head (`a`, `b` are the only user states: 2 callbacks per pass … 1 here) -/
def shHead0 : Shape := .compo false 0 .composite (subs [L, L])
def vm0 : Mach Nat :=
  let m := ((start shHead0 { queueCap := 1, taskCap := 2 }).planAppend 0 (tk 1 2)).planClear 0
  withDs m ([[],[.succeed 1],[]] ++ idle 10)
/-- `Root[a, b]` without any plan; `a` succeeds in `update` -/
def noPlan : Mach Nat := withDs (start shAB { queueCap := 1, taskCap := 2 }) ([[],[],[],[.succeed 1],[],[]] ++ idle 10)
/-- `Root[a, b]`, the root's own `update` handler calls `succeed(a)` -/
def headMarks : Mach Nat := withDs (start shAB { queueCap := 1, taskCap := 2 }) ([[],[],[.succeed 1],[],[],[]] ++ idle 10)
/-- the F12 shape; `a1`'s `update` requests `changeTo(B)`, a transition out of region `A` -/
def outerReq : Mach Nat :=
  withDs ((start shF12 { queueCap := 2, taskCap := 2 }).planAppend 1 (tk 2 3))
    ([[],[],[]] ++ [[],[],[.request .change 4 none]] ++ idle 10)
/-- the F12 shape; region `A`'s plan attached and emptied, `a1` succeeds, `A`'s handler does what the default does -/
def dflt : Mach Nat :=
  withDs (((start shF12 { queueCap := 2, taskCap := 2 }).planAppend 1 (tk 2 3)).planClear 1)
    ([[],[],[]] ++ [[],[],[.succeed 2]] ++ [[],[],[]] ++ [[.succeed 1]] ++ idle 10)

end Wit

attribute [local instance] Wit.natUtil

open Wit in
/-- **F12 on a machine** (known finding): a plan task created with `restart(B, A)` is carried out as
`changeTo(A)`, so the resumable region `A` comes up in its remembered sub-state `a2` (id 3) instead of its
initial sub-state `a1` (id 2); the applied transition is recorded as `change`. -/
theorem f12_restart_task_resumes :
    actives f12 = [true, true, false, true, false] ∧
    f12.w.previous = [{ origin := some 0, dest := 1, kind := .change, payload := none }] ∧ f12.w.err = none := by
  decide +kernel

open Wit in
/-- **N3** (known finding): two tasks with a succeeded origin are released into a one-slot queue: both leave the
plan, one request is queued, the second is lost (the instance ends in `b`, the task to `c` is gone). -/
theorem n3_tasks_dropped :
    n3.updatePasses.requests = [{ origin := some 0, dest := 2, kind := .change, payload := none }] ∧
    n3.updatePasses.plans = [[]] ∧ actives n3.update = [true, false, true, false] ∧ n3.update.w.plans = [[]] := by
  decide +kernel

open Wit in
/-- **Q1**: the property's progress clause is false for a success reported in `postUpdate` by a leaf sub-state of a
headed region: the shared `_taskStatus` register makes it the *head's* status, `deepUpdatePlans` short-circuits,
the task stays in the plan and the mark is wiped at the end of the step.  (Reported in `update` it works.) -/
theorem q1_postUpdate_success_blocks_plan :
    (actives (q1 false) = [true, false, true] ∧ (q1 false).w.plans = [[]]) ∧
    (actives (q1 true) = [true, true, false] ∧ (q1 true).w.plans = [[tk 1 2]] ∧ (q1 true).w.succ = 0) := by
  decide +kernel

open Wit in
/-- **Q2**: a success reported by an orthogonal *leaf sibling* is still in the register when the next sibling, a
headed region, is updated: it becomes that region's head status and blocks its plan, although its own
sub-state succeeded, none failed, and its head did nothing. -/
theorem q2_sibling_success_blocks_plan :
    (actives (q2 false) = [true, true, true, true, false, true, false] ∧ (q2 false).w.plans = [[], [], []]) ∧
    (actives (q2 true) = [true, true, true, true, true, false, false] ∧ (q2 true).w.plans = [[], [], [tk 4 5]]) := by
  decide +kernel

open Wit in
/-- **Q3**: a success reported by the head of an *enclosing* region is still in the register when a nested
headless region's leaf is updated, becomes that region's sub-status, and the nested region's (exhausted) plan is
reported succeeded although nothing inside it succeeded. -/
theorem q3_outer_head_success_leaks :
    planLogs (q3 false) = [] ∧ planLogs (q3 true) = [(2, true)] := by
  decide +kernel

open Wit in
/-- **Q4**: a mark set by a guard (guards run after the plan pass of the same `update()`) survives the step;
it is consumed by the *next* step (cf. known finding KF-C11-enter-with-status-assert: the state is entered
carrying the mark). -/
theorem guard_mark_survives_update :
    q4.w.cfg.plans = true ∧ bit q4.w.succ 2 = true ∧ actives q4 = [true, false, true] := by
  decide +kernel

open Wit in
/-- **Q5**: `S_<EmptyT>::deepExit` has no `clearTaskStatus`: a mark on an anonymous region head survives the exit
of that region (`exit_clears_marks` is about user states only). -/
theorem headless_mark_survives_exit :
    actives q5 = [true, false, false, false, true] ∧ bit q5.w.succ 1 = true := by
  decide +kernel


/-! ## the hypotheses of the theorems above are satisfiable (closed, reachable values)

Each `example` instantiates the hypotheses of the named theorem on a machine reached by API calls from
`Mach.create` (`Wit.start` = create + first activation), in the world in which `update()` reaches the plan pass. -/

open Wit in
/-- `region_runs_tasks`, `region_progress` (position 0), `walk_requests_room`: `Root[a,b]`, plan `[a→b]`, `a` succeeded -/
example :
    (q1m false).root.regionInfo = some (0, 0, 0, true, 3) ∧
    (headSt (afterTicks (q1m false)) 0 0).toBool = false ∧ (subSt (q1m false).root (afterTicks (q1m false)) 0).outer = false ∧
    (subSt (q1m false).root (afterTicks (q1m false)) 0).result = .success ∧
    bit ((q1m false).root.subPlans (afterTicks (q1m false))).1.planExists 0 = true ∧
    ((q1m false).root.subPlans (afterTicks (q1m false))).1.planOf 0 = [tk 1 2] ∧
    execAt ((q1m false).root.subPlans (afterTicks (q1m false))).1.activeSnap
      ((q1m false).root.subPlans (afterTicks (q1m false))).1.succ [tk 1 2] 0 = true ∧
    ((q1m false).root.subPlans (afterTicks (q1m false))).1.requests = [] ∧
    ((q1m false).root.subPlans (afterTicks (q1m false))).1.cfg.queueCap = 1 := by decide +kernel

open Wit in
/-- `region_verdict` / `region_verdict_headed` with `success = true`: plan attached and empty, `a` succeeded; the
head's `planSucceeded` then calls `fail(a)`, which is what goes upwards -/
example :
    (vm [.succeed 1] [.fail 1]).root.regionInfo = some (0, 0, 0, true, 3) ∧
    (headSt (afterTicks (vm [.succeed 1] [.fail 1])) 0 0).toBool = false ∧
    (subSt (vm [.succeed 1] [.fail 1]).root (afterTicks (vm [.succeed 1] [.fail 1])) 0) = { result := .success } ∧
    bit ((vm [.succeed 1] [.fail 1]).root.subPlans (afterTicks (vm [.succeed 1] [.fail 1]))).1.planExists 0 = true ∧
    ((vm [.succeed 1] [.fail 1]).root.subPlans (afterTicks (vm [.succeed 1] [.fail 1]))).1.planOf 0 = [] ∧
    nextIs ((vm [.succeed 1] [.fail 1]).root.subPlans (afterTicks (vm [.succeed 1] [.fail 1]))).1.ds false 1 = true ∧
    ((vm [.succeed 1] [.fail 1]).root.updatePlans (afterTicks (vm [.succeed 1] [.fail 1]))).2 = { result := .failure } := by
  decide +kernel

open Wit in
/-- `region_verdict` / `region_verdict_headed` with `success = false`: `a` failed -/
example :
    (headSt (afterTicks (vm [.fail 1] [])) 0 0).toBool = false ∧
    (subSt (vm [.fail 1] []).root (afterTicks (vm [.fail 1] [])) 0) = { result := .failure } ∧
    bit ((vm [.fail 1] []).root.subPlans (afterTicks (vm [.fail 1] []))).1.planExists 0 = true ∧
    ((vm [.fail 1] []).root.updatePlans (afterTicks (vm [.fail 1] []))).2 = { result := .failure } := by
  decide +kernel

open Wit in
/-- `region_verdict_headless`: the same under an anonymous root head -/
example :
    vm0.root.regionInfo = some (0, 0, 0, false, 3) ∧
    (headSt (afterTicks vm0) 0 0).toBool = false ∧ (subSt vm0.root (afterTicks vm0) 0) = { result := .success } ∧
    bit (vm0.root.subPlans (afterTicks vm0)).1.planExists 0 = true ∧ (vm0.root.subPlans (afterTicks vm0)).1.planOf 0 = [] := by
  decide +kernel

open Wit in
/-- `region_without_plan_passes`: no plan was ever attached, `a` succeeded: SUCCESS goes up unchanged -/
example :
    (headSt (afterTicks noPlan) 0 0).toBool = false ∧ (subSt noPlan.root (afterTicks noPlan) 0) = { result := .success } ∧
    bit (noPlan.root.subPlans (afterTicks noPlan)).1.planExists 0 = false := by decide +kernel

open Wit in
/-- `region_head_short_circuit`: the root's own handler marked `a` — the register, hence the head status, is SUCCESS -/
example : (headSt (afterTicks headMarks) 0 0) = { result := .success } := by decide +kernel

open Wit in
/-- `region_outer_suppresses`: region `A` (node `sub root 0`: head 1, region 1) whose sub-state asked to leave it -/
example :
    (sub outerReq.root 0).regionInfo = some (1, 1, 0, true, 3) ∧
    (headSt (afterTicks outerReq) 1 1).toBool = false ∧
    (subSt (sub outerReq.root 0) (afterTicks outerReq) 1).outer = true := by decide +kernel

open Wit in
/-- `default_handler_marks_head`: region `A` (head 1) finishes its plan and its handler calls `succeed(A)` -/
example :
    (sub dflt.root 0).regionInfo = some (1, 1, 0, true, 3) ∧
    (headSt (afterTicks dflt) 1 1).toBool = false ∧
    (subSt (sub dflt.root 0) (afterTicks dflt) 1) = { result := .success } ∧
    bit ((sub dflt.root 0).subPlans (afterTicks dflt)).1.planExists 1 = true ∧
    ((sub dflt.root 0).subPlans (afterTicks dflt)).1.planOf 1 = [] ∧
    nextIs ((sub dflt.root 0).subPlans (afterTicks dflt)).1.ds true 1 = true ∧
    bit ((sub dflt.root 0).updatePlans (afterTicks dflt)).1.succ 1 = true := by decide +kernel

open Wit in
/-- `update_quiet_no_marks`: an update in which nobody requests anything -/
example : (withDs (start shAB { queueCap := 1, taskCap := 2 }) (idle 10)).w.cfg.plans = true ∧
    (withDs (start shAB { queueCap := 1, taskCap := 2 }) (idle 10)).updatePasses.requests = [] := by decide +kernel

/-- `walk_requests_overflow`: two runnable tasks, one queue slot -/
example : (wSmall 1).requests.length ≤ (wSmall 1).cfg.queueCap ∧
    (wSmall 1).cfg.queueCap < (wSmall 1).requests.length +
      (executed (wSmall 1).activeSnap (wSmall 1).succ [⟨1, 2, .change, none⟩, ⟨1, 3, .change, none⟩]).length := by
  decide +kernel

/-- `walk_stops_at_inactive`: the first task's origin (state 5) is not active: the runnable second task stays -/
example : bit (wSmall 2).activeSnap 5 = false ∧
    kept (wSmall 2).activeSnap (wSmall 2).succ [⟨5, 2, .change, none⟩, ⟨1, 3, .change, none⟩] =
      [⟨5, 2, .change, none⟩, ⟨1, 3, .change, none⟩] := by decide +kernel

/-- `api_mark_is_stored` -/
example : (0 : Nat) < 1 ∧ 1 < (Wit.start Wit.shAB { queueCap := 1, taskCap := 2 }).w.cfg.stateCount := by decide +kernel

/-- `exit_clears_marks`: the active user states below the root of `Root[a,b]` after activation -/
example : (Wit.start Wit.shAB { queueCap := 1, taskCap := 2 }).root.activeHeaded = [1, 0] := by decide +kernel

/-
Theorems that constitute property C06 (for Props/INDEX.json)

  full strength (all trees / worlds / plans):
    walk_closed_form  walk_executes_iff  walk_safety  walk_stops_at_inactive  walk_never_twice
    walk_requests  walk_marks_cyclic  walk_marks_deferred  walk_frame  walk_trace
    region_step  region_head_short_circuit  region_outer_suppresses  region_without_plan_passes  region_nothing_to_report
    region_runs_tasks  region_runs_tasks_marks  region_verdict  region_verdict_headed  region_verdict_headless
    default_handler_marks_head  leaf_reports_register  region_scope_clears_register
    update_clears_marks  react_clears_marks  exit_clears_marks  exit_creates_no_mark  api_mark_is_stored
  partial (explicit hypothesis; the unrestricted statement is false):
    walk_requests_faithful_partial   (all executed tasks of kind change; full statement false: F12)
    walk_requests_room  region_progress   (queueRoom; without it: N3, walk_requests_overflow)
    update_quiet_no_marks  react_quiet_no_marks   (no request queued; otherwise guards may mark: Q4)
  negations on closed witnesses:
    f12_kind_faithful_false  f12_restart_task_resumes  n3_tasks_dropped  walk_requests_overflow
    q1_postUpdate_success_blocks_plan  q2_sibling_success_blocks_plan  q3_outer_head_success_leaks
    guard_mark_survives_update  headless_mark_survives_exit
  not modelled: the library's default `planSucceeded`/`planFailed` bodies (see `default_handler_marks_head`).
-/

end Hfsm.Props.C06

/-! ## end-to-end (composition with C01)

The theorems of C06 are about `World.runTasks`, `Node.updatePlans`, `Node.exit` for an ARBITRARY tree and world:
none of them has a well-formedness hypothesis (`Act`, `NoMarks`, …), so there is nothing of C01's invariant to
discharge.  Their hypotheses are case distinctions on the plan data of the world (head status, sub-status, plan
content, queue room) — not consequences of reachability: every combination occurs in reachable instances (the
`example`s of the last section are all reached by API calls from `Mach.create`).  What does follow from
reachability (`ReachableOf shape cfg m`, Proofs/Reach.lean) is that the switches and bounds are those the
instance was CONSTRUCTED with: -/
namespace Hfsm.Props.C06
open Hfsm Hfsm.World
variable {U : Type} [UtilArith U] {shape : Shape} {cfg : Config} {m : Mach U}

/-- every `update()` of a reachable instance constructed with plans ends its passes without any success /
failure mark or region status, before the queued requests are processed -/
theorem update_clears_marks_reachable (h : ReachableOf shape cfg m) (hp : cfg.plans = true) :
    m.update = ({ m with w := m.updatePasses }).processRequest ∧ m.updatePasses.NoStatus :=
  update_clears_marks m (by rw [h.cfg_plans]; exact hp)

theorem react_clears_marks_reachable (h : ReachableOf shape cfg m) (hp : cfg.plans = true) :
    m.react = ({ m with w := m.reactPasses }).processRequest ∧ m.reactPasses.NoStatus :=
  react_clears_marks m (by rw [h.cfg_plans]; exact hp)

/-- … and the whole call leaves none when its passes queued no request -/
theorem update_quiet_no_marks_reachable (h : ReachableOf shape cfg m) (hp : cfg.plans = true)
    (hq : m.updatePasses.requests = []) : m.update.w.NoStatus :=
  update_quiet_no_marks m (by rw [h.cfg_plans]; exact hp) hq

theorem react_quiet_no_marks_reachable (h : ReachableOf shape cfg m) (hp : cfg.plans = true)
    (hq : m.reactPasses.requests = []) : m.react.w.NoStatus :=
  react_quiet_no_marks m (by rw [h.cfg_plans]; exact hp) hq

/-- `succeed(sid)` / `fail(sid)` through the API of a reachable instance: stored for every state of the
declaration except the root -/
theorem api_mark_is_stored_reachable (h : ReachableOf shape cfg m) (sid : Nat)
    (hs : 0 < sid ∧ sid < shape.stateCount) :
    bit (m.setTask sid true).w.succ sid = true ∧ bit (m.setTask sid false).w.fail sid = true :=
  api_mark_is_stored m sid (by rw [h.stateCount]; exact hs)

/-- the walk of a region's plan during a call on a reachable instance issues at most `cfg.queueCap` requests
in total: the queue bound of `walk_requests` is the capacity given at construction -/
theorem walk_requests_reachable (h : ReachableOf shape cfg m) (head : Nat) (p : List Task) (w : World U)
    (hw : w.cfg = m.w.cfg) (clr : Nat) :
    (World.runTasks head p w clr).2.1.requests =
      w.requests ++ ((executed w.activeSnap w.succ p).map (Task.issued head)).take
        (cfg.queueCap - w.requests.length) := by
  rw [walk_requests, hw, h.cfg_queueCap]

/-- a concrete non-trivial reachable instance exists; it was constructed with plans -/
example : Reachable (Api.run Demo.mach Demo.prog) := Demo.reachable.reachable
example : ∃ m : Mach Demo.DU, ReachableOf Demo.shape Demo.cfg m ∧ Demo.cfg.plans = true ∧
    0 < 1 ∧ 1 < Demo.shape.stateCount :=
  ⟨_, Demo.reachable, by decide, by decide, by decide⟩

end Hfsm.Props.C06
