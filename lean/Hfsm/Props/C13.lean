/-
Property C13 — "Activity, resumable and pending queries agree with each other and the outcome".

Model: `Hfsm.Model.Tree` (`Node.nearest`, `isActive / isResumable / isPendingEnter / isPendingExit /
isPendingChange / activeSubState`), `Hfsm.Model.Forward` (`mark`, `fwdActive`, `request`),
`Hfsm.Model.Commit` (`commit / enter / exit / reenter`).

States are addressed by their PATH from the root (`Node.pathTo id = some p`; the bridge lemmas of
section 0 turn every statement into one about state ids; that `pathTo` is a bijection between the ids
`0 … stateCount-1` and the valid paths is the C01/C17 builders' `Numbered` lemma and is not repeated).

(a) Consistency.  Every query answers from the NEAREST COMPOSITE ANCESTOR only (`query_nearest_fork`);
    hence `isActive (sub i of r) ↔ activeSubState r = i` and `isResumable (sub i of r) ↔ resumable r = i`
    hold by construction of the queries (`sub_queries`, `activeSubState_eq`), for every tree.
    Resume: `resume_activates_resumable_partial / _root / resume_without_resumable` — on a well-formed active
    tree without marks, a lone `resume r`, applied (`mark`, `fwdActive`) and committed, leaves the sub-state
    that `isResumable` named (or sub-state 0 when none is) active — PROVIDED `r` has a composite ancestor or is
    the root.  For the remaining regions (directly below an orthogonal root / below orthogonal regions only)
    the statement is FALSE: every request addressed to them is silently dropped (`witness_resume_ignored`,
    new finding S8).
(b) Pending queries.  `pending_table` gives, from one and the same fork `(μC, active, requested, remain, k)`,
    both what the three queries answer and in which mode the commit pass traverses the state;
    `commit_outcome` ties the modes to the outcome (`isActive` afterwards = (before ∧ ¬exited) ∨ entered,
    for every world); `pending_partial` proves query = outcome under the decidable hypothesis `PendHyp`,
    which is EXACT (`pending_exact`: where `PendHyp` fails, at least one query is wrong).

THE FULL STATEMENT IS FALSE OF THE CODE (DESIGN §8 F6, known finding; repair not small: the queries
would have to look at all ancestors).  Signatures (query, structural relation), each with a witness below,
the name in brackets is the class `tools/oracle_c13.py` files the observation under:
  S1 [exit-idle]      isPendingExit = 1 for every ACTIVE state whose nearest composite ancestor carries no
                      request (`requested = INVALID ≠ active`) — also with nothing pending at all.
  S2 [change-idle]    isPendingChange = 1 for EVERY sub-state (active or not) of an active region that
                      carries no request.                                         (S1, S2: `pending_idle`)
  S3 [change-sibling] isPendingChange = 1 for every sub-state of a region that switches or is being entered
                      (`requested ≠ active`), including the siblings that are not touched.
  S4 [restart-in-place] a region restarts its active sub-state (`requested = active`, `remain`): the
                      sub-state is exited and entered, all three queries answer 0.
  S5 [exit-deep]      a state is exited because an ancestor switches while its own nearest composite
                      ancestor has `requested = active` (mark left by a lost utility resolution, O2 of
                      C12): isPendingExit = isPendingChange = 0.
  S6 [enter-loser / change-loser] isPendingEnter = isPendingChange = 1 for the marked sub-state of a region
                      that the pass does not enter (losing candidate of a utilitarian / random resolution).
  S7 [enter-root / exit-root] a state without composite ancestor (the root, or below orthogonal regions
                      only): all queries answer 0, also while it is being entered / exited.
  S8 [resume-ignored] (consistency part, NEW) a request addressed to a composite region without composite
                      ancestor is dropped, so `resume` does not activate its resumable sub-state.
-/
import Hfsm.Proofs.QueryPending
import Hfsm.Proofs.QueryResume
import Hfsm.Proofs.UtilityExact
import Hfsm.Proofs.Reach

namespace Hfsm.Props.C13
open Hfsm

/-! ## 0. ids and paths -/

theorem isResumable_path {root : Node} {id : Nat} {p : List Nat} (h : root.pathTo id = some p) :
    root.isResumable id = root.resumableP p := by simp [Node.isResumable, h, Node.resumableP]; rfl
theorem isPendingEnter_path {root : Node} {id : Nat} {p : List Nat} (h : root.pathTo id = some p) :
    root.isPendingEnter id = root.pendEnterP p := by simp [Node.isPendingEnter, h, Node.pendEnterP]; rfl
theorem isPendingExit_path {root : Node} {id : Nat} {p : List Nat} (h : root.pathTo id = some p) :
    root.isPendingExit id = root.pendExitP p := by simp [Node.isPendingExit, h, Node.pendExitP]; rfl
theorem isPendingChange_path {root : Node} {id : Nat} {p : List Nat} (h : root.pathTo id = some p) :
    root.isPendingChange id = root.pendChangeP p := by simp [Node.isPendingChange, h, Node.pendChangeP]; rfl
theorem isActive_path {root : Node} {id : Nat} {p : List Nat} (h : root.pathTo id = some p) :
    root.isActive id = root.actP p root.machineActive := by simp [Node.isActive, h, Node.actP]; rfl

/-! ## (a) consistency -/

/-- **Every query answers from the nearest composite ancestor only**: its fork test on that region's
`active / resumable / requested` and the prong of the branch the state lies in; without composite ancestor
the default (`isActive()` for `isActive`, `false` for the others). -/
theorem query_nearest_fork (root : Node) (p : List Nat) (dflt : Bool) :
    (root.actP p dflt = match root.lastCompo p none with
      | some ((a, r, q, _), k) => qActive a r q k | none => dflt) ∧
    (root.resumableP p = match root.lastCompo p none with
      | some ((a, r, q, _), k) => qResumable a r q k | none => false) ∧
    (root.pendEnterP p = match root.lastCompo p none with
      | some ((a, r, q, _), k) => qEnter a r q k | none => false) ∧
    (root.pendExitP p = match root.lastCompo p none with
      | some ((a, r, q, _), k) => qExit a r q k | none => false) ∧
    (root.pendChangeP p = match root.lastCompo p none with
      | some ((a, r, q, _), k) => qChange a r q k | none => false) :=
  ⟨Node.nearest_eq_lastCompo qActive p root dflt none, Node.nearest_eq_lastCompo qResumable p root false none,
   Node.nearest_eq_lastCompo qEnter p root false none, Node.nearest_eq_lastCompo qExit p root false none,
   Node.nearest_eq_lastCompo qChange p root false none⟩

/-- For the sub-state `i` of the composite region at path `pR`: `isActive ⇔ active = i`,
`isResumable ⇔ resumable = i`, `isPendingEnter ⇔ active ≠ i ∧ requested = i`, … — for EVERY tree. -/
theorem sub_queries (root : Node) (pR : List Nat) (i : Nat) (id rid inj : Nat) (h : Bool) (st : Strategy)
    (a r q : Option Nat) (m : Bool) (s : Subs) (c : Node) (dflt : Bool)
    (hR : root.follow pR = some (.compo id rid inj h st a r q m s)) (hc : s.get? i = some c) :
    root.actP (pR ++ [i]) dflt = (a == some i) ∧ root.resumableP (pR ++ [i]) = (r == some i) ∧
    root.pendEnterP (pR ++ [i]) = (a != some i && q == some i) ∧
    root.pendExitP (pR ++ [i]) = (a == some i && q != some i) ∧
    root.pendChangeP (pR ++ [i]) = (q != a) := by
  have hl := Node.lastCompo_sub pR root i id rid inj h st a r q m s c none hR hc
  obtain ⟨h1, h2, h3, h4, h5⟩ := query_nearest_fork root (pR ++ [i]) dflt
  rw [hl] at h1 h2 h3 h4 h5
  exact ⟨h1, h2, h3, h4, h5⟩

/-- `activeSubState(r)` is the `active` prong of the region whose first sub-state has id `r + 1`. -/
theorem activeSubState_eq (root : Node) (rId : Nat) (pR : List Nat) (j : Nat) (id rid inj : Nat) (h : Bool)
    (st : Strategy) (a r q : Option Nat) (m : Bool) (s : Subs)
    (hp : root.pathTo (rId + 1) = some (pR ++ [j]))
    (hR : root.follow pR = some (.compo id rid inj h st a r q m s)) :
    root.activeSubState rId = a := by
  simp [Node.activeSubState, hp, hR]

/-- `activeSubState r = some i ⇔ isActive (sub i of r)`, `isResumable` likewise, at the level of ids. -/
theorem activeSubState_iff_isActive (root : Node) (rId subId : Nat) (pR : List Nat) (i j : Nat) (id rid inj : Nat)
    (h : Bool) (st : Strategy) (a r q : Option Nat) (m : Bool) (s : Subs) (c : Node)
    (hp : root.pathTo (rId + 1) = some (pR ++ [j]))
    (hR : root.follow pR = some (.compo id rid inj h st a r q m s)) (hc : s.get? i = some c)
    (hs : root.pathTo subId = some (pR ++ [i])) :
    (root.activeSubState rId = some i ↔ root.isActive subId = true) ∧
    (root.isResumable subId = true ↔ r = some i) := by
  rw [activeSubState_eq root rId pR j id rid inj h st a r q m s hp hR, isActive_path hs, isResumable_path hs]
  obtain ⟨h1, h2, _⟩ := sub_queries root pR i id rid inj h st a r q m s c root.machineActive hR hc
  rw [h1, h2]
  simp

/-- **Resume activates the sub-state reported resumable** (`_partial`: the region has a composite ancestor,
or is the root — see `witness_resume_ignored` for the other regions).  `root` is a well-formed active tree
without request marks (the state between processing steps), `R` the composite region at path `pR`, `x` one of
its sub-states with `isResumable x` (path form).  A lone `resume R` — `requestImmediate` (`mark`), the forward
pass (`fwdActive`, kind `resume`), no veto, the commit pass — leaves `x` active: for every world, i.e.
whatever the callbacks do on the way. -/
theorem resume_activates_resumable_partial {U : Type} [UtilArith U] (root : Node) (pR : List Nat) (x : Nat)
    (id rid inj : Nat) (h : Bool) (st : Strategy) (a r q : Option Nat) (m : Bool) (s : Subs) (c : Node)
    (rq : Req) (hk : rq.kind = .resume) (w w' : World U)
    (hnm : root.NoMarks) (hact : root.Act)
    (hR : root.follow pR = some (.compo id rid inj h st a r q m s)) (hc : s.get? x = some c)
    (hres : root.resumableP (pR ++ [x]) = true)
    (hfork : (root.lastCompo pR none).isSome = true) :
    (((root.mark pR).1.fwdActive rq w).1.commit w').1.actP (pR ++ [x]) true = true := by
  have hr : r = some x := by
    have := (sub_queries root pR x id rid inj h st a r q m s c false hR hc).2.1
    rw [this] at hres; simpa using hres
  have hend : root.endRes pR = some x := by
    simp [Node.endRes, hR, hr, hc]
  exact Node.resume_commit root pR x rq hk w w' hnm hact hend hfork

/-- The same when `R` is the root region (the request is then applied by `deepRequest` on the root). -/
theorem resume_activates_resumable_root {U : Type} [UtilArith U] (x : Nat)
    (id rid inj : Nat) (h : Bool) (st : Strategy) (a r q : Option Nat) (m : Bool) (s : Subs) (c : Node)
    (rq : Req) (hk : rq.kind = .resume) (w w' : World U)
    (hnm : (Node.compo id rid inj h st a r q m s).NoMarks) (hact : (Node.compo id rid inj h st a r q m s).Act)
    (hc : s.get? x = some c) (hres : (Node.compo id rid inj h st a r q m s).resumableP [x] = true) :
    (((Node.compo id rid inj h st a r q m s).request rq w).1.commit w').1.actP [x] true = true := by
  have hr : r = some x := by
    have := (sub_queries (Node.compo id rid inj h st a r q m s) [] x id rid inj h st a r q m s c false rfl hc).2.1
    simp only [List.nil_append] at this
    rw [this] at hres; simpa using hres
  have hend : (Node.compo id rid inj h st a r q m s).endRes [] = some x := by
    simp [Node.endRes, Node.follow, hr, hc]
  exact Node.resume_commit_root _ x rq hk w w' hnm hact hend

/-- With no resumable sub-state the same request activates sub-state 0 (`resumable != INVALID ? resumable : 0`). -/
theorem resume_without_resumable {U : Type} [UtilArith U] (root : Node) (pR : List Nat)
    (id rid inj : Nat) (h : Bool) (st : Strategy) (a q : Option Nat) (m : Bool) (s : Subs) (c : Node)
    (rq : Req) (hk : rq.kind = .resume) (w w' : World U)
    (hnm : root.NoMarks) (hact : root.Act)
    (hR : root.follow pR = some (.compo id rid inj h st a none q m s)) (hc : s.get? 0 = some c)
    (hfork : (root.lastCompo pR none).isSome = true) :
    (((root.mark pR).1.fwdActive rq w).1.commit w').1.actP (pR ++ [0]) true = true := by
  have hend : root.endRes pR = some 0 := by simp [Node.endRes, hR, hc]
  exact Node.resume_commit root pR 0 rq hk w w' hnm hact hend hfork

/-- a machine the hypotheses hold of: root `{R {x, y}, z}`, `R` active in `y`, `x` resumable -/
def resumeTree : Node :=
  .compo 0 0 0 true .composite (some 0) none none false
    (.cons false (.compo 1 1 0 true .resumable (some 1) (some 0) none false
        (.cons false (.leaf 2 0) (.cons false (.leaf 3 0) .nil)))
    (.cons false (.leaf 4 0) .nil))

example : resumeTree.NoMarks ∧ resumeTree.Act ∧ resumeTree.resumableP ([0] ++ [0]) = true ∧
    (resumeTree.lastCompo [0] none).isSome = true := by
  refine ⟨by simp [resumeTree, Node.NoMarks, Subs.NoMarksAll],
    by simp [resumeTree, Node.Act, Subs.ActAt, Node.Clean, Subs.CleanAll], by decide +kernel, by decide +kernel⟩

/-- **The unrestricted statement is false** (NEW FINDING, confirmed on the real library): a request whose
destination is a composite region WITHOUT composite ancestor — a region directly below an orthogonal root, or
below orthogonal regions only — is silently dropped: `requestImmediate` only sets orthogonal bits,
`O_::deepForwardActive` forwards to `C_::deepForwardActive`, which finds `requested = INVALID` and forwards
into the active sub-state.  So `resume`, `restart`, `changeTo` … of such a region do nothing.
Here: orthogonal root `{R {x, y}}`, `R` active in `y`, `x` resumable: after `resume R`, `y` is still active.
Harness replay: shape `(O h1 i0 (C h1 i0 composite (L i0) (L i0)) (C h1 i0 composite (L i0) (L i0)))`:
`op 0 new`, `op 0 imm C 3 -`, `op 0 imm M 1 -` → no callback at all, `snap … S=-,1,…` (expected `S[1]=0`);
also `imm C 1` / `imm R 1` (expected a restart of region 1 in its first sub-state). -/
theorem witness_resume_ignored :
    let root : Node := .ortho 0 0 0 true
      (.cons false (.compo 1 1 0 true .composite (some 1) (some 0) none false
        (.cons false (.leaf 2 0) (.cons false (.leaf 3 0) .nil))) .nil)
    let w : World Int := { cfg := {} }
    let t := (((root.mark [0]).1.fwdActive ⟨.resume, none⟩ w).1.commit w).1
    root.isResumable 2 = true ∧ t.actP [0, 0] true = false ∧ t.actP [0, 1] true = true ∧
    (root.lastCompo [0] none).isSome = false := by decide +kernel

/-! ## (b) pending queries -/

/-- **One fork, both answers.**  For the state at a valid path: with `(μC, (a, r, q, rem), k)` its nearest
composite ancestor (`μC` = the mode in which the pass traverses that ancestor when the root is traversed
in mode `m`; `m = commit` for a processing step, `m = enter` for the first activation), the queries are the
fork tests on `(a, q, k)` and the state is traversed in mode `μC >>= stepMode · a q rem k`; without a
composite ancestor the queries answer `false` and the state is traversed in mode `m`. -/
theorem pending_table (root : Node) (p : List Nat) (hv : root.Valid p) (m : Mode) :
    match Node.lastFork (some m) root p none with
    | some (μC, (a, r, q, rem), k) =>
        root.pendEnterP p = qEnter a r q k ∧ root.pendExitP p = qExit a r q k ∧
        root.pendChangeP p = qChange a r q k ∧ root.resumableP p = qResumable a r q k ∧
        root.arrive m p = μC.bind (fun mc => stepMode mc a q rem k)
    | none =>
        root.pendEnterP p = false ∧ root.pendExitP p = false ∧ root.pendChangeP p = false ∧
        root.resumableP p = false ∧ root.arrive m p = some m :=
  Node.pending_table root p hv m

/-- **The outcome.**  `willEnter / willExit` (read off `arrive .commit`) are what the commit pass does:
for every well-formed active tree, every world, every valid path,
`isActive` after `deepChangeToRequested` = (`isActive` before ∧ ¬ `willExit`) ∨ `willEnter`. -/
theorem commit_outcome {U : Type} (root : Node) (p : List Nat) (w : World U) (ha : root.Act) (hv : root.Valid p) :
    (root.commit w).1.actP p true = ((root.actP p true && !root.willExit p) || root.willEnter p) :=
  Node.commit_outcome p root w ha hv

-- a non-trivial instance of the hypotheses: an active region about to switch from sub-state 0 to 1
example : (Node.compo 0 0 0 true .composite (some 0) none (some 1) false
    (.cons false (.leaf 1 0) (.cons false (.leaf 2 0) .nil))).Act ∧
    (Node.compo 0 0 0 true .composite (some 0) none (some 1) false
    (.cons false (.leaf 1 0) (.cons false (.leaf 2 0) .nil))).Valid [1] := by
  simp [Node.Act, Subs.ActAt, Node.Clean, Subs.CleanAll, Node.Valid, Node.follow, Node.subs, Subs.get?]

/-- **C13_pending_partial.**  For a state with nearest composite ancestor `(μC, (a, r, q, rem), k)`
satisfying the decidable structural hypothesis `PendHyp μC a q rem k` (Proofs/QueryPending.lean: the fork
is not reached and carries no mark ≠ active / it is reached by forwarding, carries a request, does not
restart `k` in place, and `k` is the sub-state left or entered / it is being entered and `k` is its
requested sub-state / it is being exited, unmarked, and `k` is its active sub-state / …):
`isPendingEnter ⇔ entered`, `isPendingExit ⇔ exited`, `isPendingChange ⇔ entered ∨ exited`. -/
theorem pending_partial (root : Node) (p : List Nat) (hv : root.Valid p)
    (μC : Option Mode) (a r q : Option Nat) (rem : Bool) (k : Nat)
    (hF : Node.lastFork (some .commit) root p none = some (μC, (a, r, q, rem), k))
    (hyp : PendHyp μC a q rem k = true) :
    root.pendEnterP p = root.willEnter p ∧ root.pendExitP p = root.willExit p ∧
    root.pendChangeP p = (root.willEnter p || root.willExit p) := by
  have ht := pending_table root p hv .commit
  rw [hF] at ht
  obtain ⟨h1, h2, h3, _, h5⟩ := ht
  rw [pendHyp_iff_agree] at hyp
  simp only [agree, Bool.and_eq_true, beq_iff_eq] at hyp
  unfold Node.willEnter Node.willExit
  rw [h1, h2, h3, h5]
  exact ⟨hyp.1.1, hyp.1.2, hyp.2⟩

/-- The hypothesis is exact: where `PendHyp` fails, at least one of the three queries is wrong. -/
theorem pending_exact (root : Node) (p : List Nat) (hv : root.Valid p)
    (μC : Option Mode) (a r q : Option Nat) (rem : Bool) (k : Nat)
    (hF : Node.lastFork (some .commit) root p none = some (μC, (a, r, q, rem), k))
    (hyp : PendHyp μC a q rem k = false) :
    ¬ (root.pendEnterP p = root.willEnter p ∧ root.pendExitP p = root.willExit p ∧
       root.pendChangeP p = (root.willEnter p || root.willExit p)) := by
  intro ⟨e1, e2, e3⟩
  have ht := pending_table root p hv .commit
  rw [hF] at ht
  obtain ⟨h1, h2, h3, _, h5⟩ := ht
  rw [pendHyp_iff_agree] at hyp
  simp only [Node.willEnter, Node.willExit] at e1 e2 e3
  rw [h1, h5] at e1; rw [h2, h5] at e2; rw [h3, h5] at e3
  simp only [agree, Bool.and_eq_false_iff, beq_eq_false_iff_ne, ne_eq] at hyp
  rcases hyp with (hyp | hyp) | hyp
  · exact hyp e1
  · exact hyp e2
  · exact hyp e3

/-- A state without composite ancestor: the queries answer 0 and the commit pass forwards through it
(neither entered nor exited) — they agree; but see `witness_enter_root` for the first activation. -/
theorem pending_no_fork (root : Node) (p : List Nat) (hv : root.Valid p)
    (hF : Node.lastFork (some .commit) root p none = none) :
    root.pendEnterP p = false ∧ root.pendExitP p = false ∧ root.pendChangeP p = false ∧
    root.willEnter p = false ∧ root.willExit p = false := by
  have ht := pending_table root p hv .commit
  rw [hF] at ht
  obtain ⟨h1, h2, h3, _, h5⟩ := ht
  exact ⟨h1, h2, h3, by simp [Node.willEnter, h5, entered], by simp [Node.willExit, h5, exited]⟩

/-- **F6 in general (S1, S2).**  Whenever the nearest composite ancestor carries no request (`requested =
INVALID_PRONG`; in particular: nothing pending at all), `isPendingEnter = 0`, but `isPendingExit = isActive`
of the state and `isPendingChange = 1` iff that ancestor is active — for active AND inactive sub-states. -/
theorem pending_idle (root : Node) (p : List Nat) (a r : Option Nat) (rem : Bool) (k : Nat)
    (hF : root.lastCompo p none = some ((a, r, none, rem), k)) :
    root.pendEnterP p = false ∧ root.pendExitP p = (a == some k) ∧ root.pendChangeP p = a.isSome ∧
    root.actP p false = (a == some k) := by
  obtain ⟨h1, _, h3, h4, h5⟩ := query_nearest_fork root p false
  rw [hF] at h1 h3 h4 h5
  refine ⟨by simpa [qEnter] using h3, by rw [h4]; cases a <;> simp [qExit], ?_, by simpa [qActive] using h1⟩
  rw [h5]; cases a <;> simp [qChange]

/-! ## witnesses: the full statement is false (closed terms, `decide`) -/

/-- root `{A, B, C}` (ids 1, 2, 3), `A` active, nothing marked: a settled machine. -/
def idleTree : Node :=
  .compo 0 0 0 true .composite (some 0) none none false
    (.cons false (.leaf 1 0) (.cons false (.leaf 2 0) (.cons false (.leaf 3 0) .nil)))

/-- S1 / S2 (F6): NOTHING is pending, yet `isPendingExit(A) = isPendingChange(A) = isPendingChange(B) = 1`
while the commit pass would neither enter nor exit anything.
Replay: any machine, any guard callback of a request that does not touch the region (or, conceptually,
the queries evaluated between steps; the harness can only call them inside guards). -/
theorem witness_idle :
    idleTree.isPendingExit 1 = true ∧ idleTree.isPendingChange 1 = true ∧ idleTree.isPendingChange 2 = true ∧
    idleTree.isPendingEnter 1 = false ∧
    idleTree.willExit [0] = false ∧ idleTree.willEnter [0] = false ∧ idleTree.willEnter [1] = false ∧
    idleTree.willExit [1] = false := by decide +kernel

/-- S3: `changeTo B` pending (`requested = 1 ≠ active = 0`): the untouched sibling `C` has `isPendingChange = 1`.
Replay: shape `(C h1 i0 composite (L i0) (L i0) (L i0))`: `op 0 new`, `op 0 imm C 2 -`; the `/p:` mask of the
guards is `4.2.e` (change mask contains state 3). -/
theorem witness_change_sibling :
    let t := (idleTree.mark [1]).1
    t.isPendingChange 3 = true ∧ t.willEnter [2] = false ∧ t.willExit [2] = false ∧
    t.isPendingEnter 2 = true ∧ t.willEnter [1] = true ∧ t.isPendingExit 1 = true ∧ t.willExit [0] = true := by
  decide +kernel

/-- S4: restart in place.  root `{R {X {x1, x2}, y}}`, `R.requested = R.active = 0` with `remain` set (the
marks left by the batch `[changeTo X, changeTo x2]`, N1 family): `X` (id 2) is exited and entered again, and
`isPendingEnter(X) = isPendingExit(X) = isPendingChange(X) = 0`. -/
def restartTree : Node :=
  .compo 0 0 0 true .composite (some 0) none none true
    (.cons false (.compo 1 1 0 true .composite (some 0) none (some 0) true
      (.cons false (.compo 2 2 0 true .composite (some 0) none (some 1) false
          (.cons false (.leaf 3 0) (.cons false (.leaf 4 0) .nil)))
      (.cons false (.leaf 5 0) .nil))) .nil)

theorem witness_restart_in_place :
    restartTree.willExit [0, 0] = true ∧ restartTree.willEnter [0, 0] = true ∧
    restartTree.isPendingEnter 2 = false ∧ restartTree.isPendingExit 2 = false ∧
    restartTree.isPendingChange 2 = false := by decide +kernel

mutual
/-- all registry fields of a tree, in pre-order (for comparing closed trees by `decide`) -/
def fieldsOf : Node → List (Nat × Option Nat × Option Nat × Option Nat × Bool)
  | .leaf .. => []
  | .compo id _ _ _ _ a r q m s => (id, a, r, q, m) :: fieldsOfSubs s
  | .ortho _ _ _ _ s => fieldsOfSubs s
def fieldsOfSubs : Subs → List (Nat × Option Nat × Option Nat × Option Nat × Bool)
  | .nil => []
  | .cons b n r => (if b then [(0, none, none, none, true)] else []) ++ fieldsOf n ++ fieldsOfSubs r
end

/-- The marks of `restartTree` are what the model's `mark` leaves for the two requests (so the tree is
reachable: batch `[changeTo 2, changeTo 4]` on the unmarked tree, up to resolution marks below). -/
theorem restartTree_reachable :
    let t0 : Node := .compo 0 0 0 true .composite (some 0) none none false
      (.cons false (.compo 1 1 0 true .composite (some 0) none none false
        (.cons false (.compo 2 2 0 true .composite (some 0) none none false
            (.cons false (.leaf 3 0) (.cons false (.leaf 4 0) .nil)))
        (.cons false (.leaf 5 0) .nil))) .nil)
    fieldsOf (((t0.mark [0, 0]).1).mark [0, 0, 1]).1 = fieldsOf restartTree := by decide +kernel

/-- S5 / S6: the marks of a lone `changeTo U` on an ACTIVE utilitarian region `U {a, C {c0, c1}, b}` whose
candidate `C` (active, in `c0`) loses to `b`: `C` keeps `requested = 0` from its report.
`exitDeepTree`: `C.active = 0`  — `c0` (id 4) is exited, `isPendingExit(c0) = isPendingChange(c0) = 0`   (S5).
`enterLoserTree`: `C.active = 1` — `c0` is not entered, `isPendingEnter(c0) = isPendingChange(c0) = 1` (S6).
Replay (harness transcript, seed 7 of the default shape of my report): `op 1 imm C 1 639` with utilities
making prong 2 win — the guards' mask is `/p:40.8.4c`: exit mask `8` lacks state 4 although `cb 4 exit` follows. -/
def exitDeepTree : Node :=
  .compo 0 0 0 true .composite (some 0) none none true
    (.cons false (.compo 1 1 0 true .utilitarian (some 1) none (some 2) false
      (.cons false (.leaf 2 0)
      (.cons false (.compo 3 2 0 true .composite (some 0) none (some 0) false
          (.cons false (.leaf 4 0) (.cons false (.leaf 5 0) .nil)))
      (.cons false (.leaf 6 0) .nil)))) .nil)

theorem witness_exit_deep :
    exitDeepTree.willExit [0, 1, 0] = true ∧ exitDeepTree.isPendingExit 4 = false ∧
    exitDeepTree.isPendingChange 4 = false := by decide +kernel

def enterLoserTree : Node :=
  .compo 0 0 0 true .composite (some 0) none none true
    (.cons false (.compo 1 1 0 true .utilitarian (some 1) none (some 2) false
      (.cons false (.leaf 2 0)
      (.cons false (.compo 3 2 0 true .composite (some 1) none (some 0) false
          (.cons false (.leaf 4 0) (.cons false (.leaf 5 0) .nil)))
      (.cons false (.leaf 6 0) .nil)))) .nil)

theorem witness_enter_loser :
    enterLoserTree.willEnter [0, 1, 0] = false ∧ enterLoserTree.isPendingEnter 4 = true ∧
    enterLoserTree.isPendingChange 4 = true := by decide +kernel

/-- S7: first activation (`deepEnter` of the root): the root state is entered, every query answers 0 for it.
Replay: every `op 0 new` — the entry guards' `/p:` enter mask never contains state 0. -/
theorem witness_enter_root :
    let t : Node := .compo 0 0 0 true .composite none none (some 0) false
      (.cons false (.leaf 1 0) (.cons false (.leaf 2 0) .nil))
    entered (t.arrive .enter []) = true ∧ t.isPendingEnter 0 = false ∧ t.isPendingChange 0 = false ∧
    entered (t.arrive .enter [0]) = true ∧ t.isPendingEnter 1 = true := by decide +kernel

/-- **Negation of the full statement**: it is not the case that, for well-formed active trees and valid
paths, the three queries coincide with what the pass does. -/
theorem full_statement_false :
    ¬ (∀ (root : Node) (p : List Nat), root.Act → root.Valid p →
        root.pendEnterP p = root.willEnter p ∧ root.pendExitP p = root.willExit p ∧
        root.pendChangeP p = (root.willEnter p || root.willExit p)) := by
  intro h
  have := (h idleTree [0] (by simp [idleTree, Node.Act, Subs.ActAt, Node.Clean, Subs.CleanAll])
    (by simp [idleTree, Node.Valid, Node.follow, Node.subs, Subs.get?])).2.1
  revert this
  decide +kernel

/-
Theorems that constitute property C13 (for `Props/INDEX.json`):

  (a) query_nearest_fork                 every query = fork test on the nearest composite ancestor (all trees)
      sub_queries                        isActive/isResumable/isPending* of sub-state i of a region, in closed form
      activeSubState_eq / activeSubState_iff_isActive
                                         activeSubState r = some i ⇔ isActive (sub i of r); isResumable ⇔ resumable = i
                                         (id ↔ path bijection: C01/C17 builders' `Numbered`)
      resume_activates_resumable_partial lone resume of a region WITH composite ancestor: resumable sub-state active afterwards
      resume_activates_resumable_root    same for the root region
      resume_without_resumable           no resumable sub-state: sub-state 0
      witness_resume_ignored             NEGATION for regions without composite ancestor (new finding S8)
  (b) pending_table                      queries and traversal mode from the same fork
      commit_outcome                     isActive after commit = (before ∧ ¬willExit) ∨ willEnter, all worlds
      pending_partial  (= C13_pending_partial)   query = outcome under `PendHyp`
      pending_exact                      `PendHyp` is exact (Proofs: pendHyp_iff_agree)
      pending_no_fork, pending_idle      no composite ancestor: all 0; no request on the fork: F6 in general
      witness_idle, witness_change_sibling, witness_restart_in_place (+ restartTree_reachable),
      witness_exit_deep, witness_enter_loser, witness_enter_root      signatures S1 … S7
      full_statement_false               negation of the full statement
  isPath bridges: isResumable_path, isPendingEnter_path, isPendingExit_path, isPendingChange_path, isActive_path
-/

end Hfsm.Props.C13

/-! ## end-to-end (composition with C01)

Section (a) addresses states by PATH and assumes the id ↔ path correspondence (`pathTo`), `Act` and — for the
`resume` theorems — `NoMarks`.  For REACHABLE instances (`ReachableOf shape cfg m`, Proofs/Reach.lean:
`Mach.create shape cfg` followed by any history of API calls) without contract violation, C01's invariant gives
the pre-order numbering (`IdsFrom 0`, hence `pathTo c.id = some p` for the state `c` at path `p`) and `Act` of an
activated instance; `NoMarks` holds on `QuietOf` histories: every reachable history except one containing a
`replayEnter` of a non-empty history that answered `false` (GAP 2 of Proofs/Reach.lean, closed for `load` and
`replayTransitions` by Proofs/LoadMarks.lean). -/
namespace Hfsm.Props.C13
open Hfsm
variable {U : Type} [UtilArith U] {shape : Shape} {cfg : Config} {m : Mach U}

/-- **Consistency of the queries in every reachable state**, at the level of state ids: for the composite
region `id` found at any path `pR` of the registry and its `i`-th sub-state `c`,
`activeSubState(id) = i ⇔ isActive(c.id)` and `isResumable(c.id) ⇔` the region's resumable mark is `i` — activated
or not, marks or not. -/
theorem queries_consistent_reachable (h : ReachableOf shape cfg m) (he : m.w.err = none)
    (pR : List Nat) (i : Nat) (id rid inj : Nat) (hd : Bool) (st : Strategy) (a r q : Option Nat) (mk : Bool)
    (s : Subs) (c : Node)
    (hR : m.root.follow pR = some (.compo id rid inj hd st a r q mk s)) (hc : s.get? i = some c) :
    (m.root.activeSubState id = some i ↔ m.root.isActive c.id = true) ∧
    (m.root.isResumable c.id = true ↔ r = some i) ∧
    m.root.isPendingEnter c.id = (a != some i && q == some i) ∧
    m.root.isPendingExit c.id = (a == some i && q != some i) ∧
    m.root.isPendingChange c.id = (q != a) := by
  have hI := h.idsFrom he
  have hfc : m.root.follow (pR ++ [i]) = some c := by
    rw [Node.follow_append pR m.root _ i hR]; simpa [Node.subs] using hc
  have hs : m.root.pathTo c.id = some (pR ++ [i]) := Node.pathTo_of_follow _ m.root 0 c hI hfc
  have hlen : 0 < s.len := by
    cases s with
    | nil => simp [Subs.get?] at hc
    | cons _ _ _ => simp [Subs.len]
  have hact : m.root.activeSubState id = a := Node.activeSubState_compo hI hR hlen
  obtain ⟨h1, h2, h3, h4, h5⟩ := sub_queries m.root pR i id rid inj hd st a r q mk s c m.root.machineActive hR hc
  rw [hact, isActive_path hs, isResumable_path hs, isPendingEnter_path hs, isPendingExit_path hs,
    isPendingChange_path hs, h1, h2, h3, h4, h5]
  simp

/-- **The outcome of a commit pass** over the registry of an activated reachable instance (whatever marks a
processing step has laid on it — `commit_outcome` needs `Act` only): for every valid path,
`isActive` afterwards = (`isActive` before ∧ ¬ `willExit`) ∨ `willEnter`. -/
theorem commit_outcome_reachable (h : ReachableOf shape cfg m) (he : m.w.err = none)
    (hm : m.root.machineActive = true) (p : List Nat) (w : World U) (hv : m.root.Valid p) :
    (m.root.commit w).1.actP p true = ((m.root.actP p true && !m.root.willExit p) || m.root.willEnter p) :=
  commit_outcome m.root p w (h.act he hm) hv

/-- **Resume activates the sub-state reported resumable**, from any activated QUIET reachable instance: the
hypotheses `NoMarks` and `Act` of the partial theorem are discharged; `hfork` (the region has a composite
ancestor) is what makes the statement true at all (`witness_resume_ignored`). -/
theorem resume_activates_resumable_reachable (hq : QuietOf shape cfg m) (he : m.w.err = none)
    (hm : m.root.machineActive = true) (pR : List Nat) (x : Nat)
    (id rid inj : Nat) (hd : Bool) (st : Strategy) (a r q : Option Nat) (mk : Bool) (s : Subs) (c : Node)
    (rq : Req) (hk : rq.kind = .resume) (w w' : World U)
    (hR : m.root.follow pR = some (.compo id rid inj hd st a r q mk s)) (hc : s.get? x = some c)
    (hres : m.root.isResumable c.id = true)
    (hfork : (m.root.lastCompo pR none).isSome = true) :
    (((m.root.mark pR).1.fwdActive rq w).1.commit w').1.actP (pR ++ [x]) true = true := by
  have hfc : m.root.follow (pR ++ [x]) = some c := by
    rw [Node.follow_append pR m.root _ x hR]; simpa [Node.subs] using hc
  have hs : m.root.pathTo c.id = some (pR ++ [x]) :=
    Node.pathTo_of_follow _ m.root 0 c (hq.reachable.idsFrom he) hfc
  rw [isResumable_path hs] at hres
  exact resume_activates_resumable_partial m.root pR x id rid inj hd st a r q mk s c rq hk w w'
    (hq.noMarks he) (hq.reachable.act he hm) hR hc hres hfork

/-- a concrete non-trivial reachable instance exists; it is quiet and activated, its root region is found at
path `[]` with two sub-states, and the queries about sub-state 0 (state 1) answer as the theorem says -/
example : Reachable (Api.run Demo.mach Demo.prog) := Demo.reachable.reachable
example : ∃ m : Mach Demo.DU, QuietOf Demo.shape Demo.cfg m ∧ m.w.err = none ∧ m.root.machineActive = true ∧
    m.root.Valid [0] ∧ m.root.activeSubState 0 = some 0 ∧ m.root.isActive 1 = true :=
  ⟨_, Demo.quiet, Demo.err_none, Demo.active,
    (by decide +kernel : ((Api.run Demo.mach Demo.prog).root.follow [0]).isSome = true),
    by decide +kernel, by decide +kernel⟩

end Hfsm.Props.C13
