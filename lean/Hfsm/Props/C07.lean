/-
Property C07 — "Plan storage keeps per-region task lists intact under edits and at capacity".

Refinement of `PlanDataT`/`PlanT`/`PayloadPlanT`/`CPlanT` storage (model `Hfsm.Model.Plan`, built on
the pool model of C19) to one ideal `List Item` per region:

* abstraction `PlanData.abs pd r` follows `taskBounds[r].first` through `taskLinks[·].next`;
* invariant `PlanInv` (= `∃ ghost, PlanRep`): per region a duplicate-free doubly linked chain of
  live pool slots with matching `prev`/`next` links and `first`/`last` bounds, chains pairwise
  disjoint and covering all live slots, lengths adding up to the pool's count, dead slots with
  `INVALID` links, `planExists[r]` set whenever region `r`'s list is non-empty;
* every operation preserves `PlanInv` and commutes with the list operation on `abs`.

All statements are for every task capacity `1 ≤ cap ≤ 65535`, every number of regions, every
reachable state and (last section) every operation sequence.  Proofs by invariant / induction.

Precondition on iterators ("one live iterator per plan"): the iterator theorems take a hypothesis
`IterPos pd r it k` about the *current* storage `pd`.  It is established by `plan_iter_begin`,
carried by `plan_iter_advance`, by `plan_iter_remove` (for the iterator that performed the
removal, after its `++`) and by edits of *other* regions (`plan_iter_other_region`).  Nothing
re-establishes it for a second iterator on the same region after the first one removed, nor
after an `append`/`clear` on that region: such use is outside the contract and outside the theorems.
-/
import Hfsm.Proofs.PlanIter

namespace Hfsm.Props.C07
open Hfsm.Model

/-- `PlanInv`: the storage satisfies the representation invariant for some ghost state. -/
def PlanInv (cap nreg : Nat) (pd : PlanData) : Prop := ∃ pg : PG, PlanRep cap nreg pd pg

/-- Sum of `f r` for `r < n`. -/
def sumTo : Nat → (Nat → Nat) → Nat
  | 0, _ => 0
  | n + 1, f => sumTo n f + f n

theorem sumTo_congr {f g : Nat → Nat} : ∀ {n : Nat}, (∀ r, r < n → f r = g r) → sumTo n f = sumTo n g
  | 0, _ => rfl
  | n + 1, h => by
    simp only [sumTo]
    rw [sumTo_congr (fun r hr => h r (by omega)), h n (by omega)]

theorem sumLen_eq_sumTo (L : Nat → List Nat) : ∀ n, sumLen n L = sumTo n (fun r => (L r).length)
  | 0 => rfl
  | n + 1 => by simp only [sumLen, sumTo, sumLen_eq_sumTo L n]

/-! ## Construction and `PlanDataT::clear()` -/

/-- A freshly constructed machine's plan storage satisfies the invariant; all plans are empty. -/
theorem plan_inv_new {cap nreg : Nat} (hpos : 0 < cap) (hle : cap ≤ INVALID) :
    PlanInv cap nreg (PlanData.new cap nreg) ∧ ∀ r, r < nreg → (PlanData.new cap nreg).abs r = [] := by
  have h := PlanRep.new (nreg := nreg) hpos hle
  exact ⟨⟨_, h⟩, fun r hr => by rw [abs_eq h hr]; rfl⟩

/-- `PlanDataT::clear()` (run by `finalExit()` and `load()`): from any object state of the right
sizes, the invariant holds and all plans are empty. -/
theorem plan_inv_clear {cap nreg : Nat} (pd : PlanData) (hpos : 0 < cap) (hle : cap ≤ INVALID)
    (h1 : pd.tasks.items.size = cap) (h2 : pd.links.size = cap) (h3 : pd.bounds.size = nreg)
    (h4 : pd.planExists.size = nreg) :
    PlanInv cap nreg pd.clear ∧ ∀ r, r < nreg → pd.clear.abs r = [] := by
  have h := PlanRep.clear pd hpos hle h1 h2 h3 h4
  exact ⟨⟨_, h⟩, fun r hr => by rw [abs_eq h hr]; rfl⟩

/-! ## Structure: disjoint acyclic lists whose lengths add up -/

/-- At all times: each region's chain (`first`, then `next`, `next`, …) is duplicate free (acyclic),
terminates within `cap` steps, consists of occupied pool slots, and has as many elements as the
region has tasks; chains of different regions are disjoint. -/
theorem plan_structure {cap nreg : Nat} {pd : PlanData} (h : PlanInv cap nreg pd) :
    (∀ r, r < nreg → (pd.chain r).Nodup ∧ (pd.chain r).length ≤ cap ∧
        (pd.abs r).length = (pd.chain r).length ∧ ∀ i ∈ pd.chain r, i < cap) ∧
    (∀ r₁ r₂ i, r₁ < nreg → r₂ < nreg → r₁ ≠ r₂ → i ∈ pd.chain r₁ → i ∉ pd.chain r₂) := by
  obtain ⟨pg, h⟩ := h
  refine ⟨fun r hr => ?_, fun r₁ r₂ i h1 h2 hne hi => ?_⟩
  · rw [abs_eq h hr, chain_eq h hr]
    exact ⟨h.nodup r, h.length_le hr, by simp [absL], fun i hi => h.mem_lt hi⟩
  · rw [chain_eq h h1] at hi
    rw [chain_eq h h2]
    exact h.disj r₁ r₂ i hne hi

/-- The regions' plan lengths add up to the number of stored tasks, which is at most `cap`. -/
theorem plan_total {cap nreg : Nat} {pd : PlanData} (h : PlanInv cap nreg pd) :
    sumTo nreg (fun r => (pd.abs r).length) = pd.tasks.count ∧ pd.tasks.count ≤ cap := by
  obtain ⟨pg, h⟩ := h
  refine ⟨?_, h.pool.count_le⟩
  rw [← h.total, sumLen_eq_sumTo]
  exact sumTo_congr (fun r hr => by rw [abs_eq h hr]; simp [absL])

/-- What `planExists[r]` means: it is set whenever region `r`'s plan is non-empty.  (The converse
does not hold: the bit is set by every accepted `append` and cleared only by
`PlanDataT::clear()`, so it stays set after the plan was emptied by `remove`/`clear`.) -/
theorem plan_exists_of_nonempty {cap nreg : Nat} {pd : PlanData} (h : PlanInv cap nreg pd) {r : Nat}
    (hr : r < nreg) (hne : pd.abs r ≠ []) : pd.planExists[r]? = some true := by
  obtain ⟨pg, h⟩ := h
  apply h.pexists r hr
  intro e
  apply hne
  rw [abs_eq h hr, absL, e]; rfl

/-- `operator bool` of `Plan`/`CPlan`: true exactly for a non-empty plan. -/
theorem plan_nonEmpty {cap nreg : Nat} {pd : PlanData} (h : PlanInv cap nreg pd) {r : Nat}
    (hr : r < nreg) : pd.nonEmpty r = some (decide (pd.abs r ≠ [])) := by
  obtain ⟨pg, h⟩ := h
  have hiff := head?_getD_lt (l := pg.L r) (cap := cap) (d := INVALID)
    (fun j hj => h.mem_lt hj) h.pool.capLe
  simp only [PlanData.nonEmpty, h.bnd r hr, h.cap_eq, Option.map_some, abs_eq h hr, absL]
  congr 1
  have hcapI := h.pool.capLe
  by_cases e : pg.L r = []
  · simp [e]; omega
  · simp [e, hiff.mpr e]

/-! ## append -/

/-- `append` (all kinds, with or without payload) below capacity: returns `true`, adds the task with
exactly the given origin/destination/kind/payload at the **end of that region's list**, leaves every
other region's chain and list alone. -/
theorem plan_append {cap nreg : Nat} {pd : PlanData} (h : PlanInv cap nreg pd) {r : Nat}
    (hr : r < nreg) (x : Item) (hc : pd.tasks.count < cap) :
    ∃ pd', pd.append r x = some (pd', true) ∧ PlanInv cap nreg pd' ∧
      pd'.abs r = pd.abs r ++ [x] ∧
      (∀ r', r' < nreg → r' ≠ r → pd'.chain r' = pd.chain r' ∧ pd'.abs r' = pd.abs r') ∧
      pd'.tasks.count = pd.tasks.count + 1 := by
  obtain ⟨pg, h⟩ := h
  obtain ⟨pd', idx, happ, hidx, hdead, hlive', hrep'⟩ := append_sim h hr x hc
  have hnot : ∀ r', idx ∉ pg.L r' := by
    intro r' hm
    obtain ⟨y, hy⟩ := h.live r' idx hm
    rw [hdead] at hy; cases hy
  have hsame : ∀ r', List.map (taskAt ⟨(pg.g.emplace cap x).1, updL pg.L r (pg.L r ++ [idx])⟩)
      (pg.L r') = List.map (taskAt pg) (pg.L r') := by
    intro r'
    apply List.map_congr_left
    intro j hj
    have : j ≠ idx := fun e => hnot r' (e ▸ hj)
    simp only [taskAt, hlive', Live.set_ne _ _ this]
  refine ⟨pd', happ, ⟨_, hrep'⟩, ?_, ?_, ?_⟩
  · rw [abs_eq hrep' hr, abs_eq h hr]
    simp only [absL, updL_same, List.map_append, hsame, List.map_cons, List.map_nil]
    simp [taskAt, hlive']
  · intro r' hr' e
    rw [chain_eq hrep' hr', chain_eq h hr', abs_eq hrep' hr', abs_eq h hr']
    simp only [absL, updL_ne _ _ e, hsame, and_self]
  · rw [hrep'.pool.count, hlive', liveCount_set_some cap pg.g.live x hidx hdead, h.pool.count]

/-- `append` once the machine-wide capacity is reached: returns `false` and changes **nothing**. -/
theorem plan_append_full {cap nreg : Nat} {pd : PlanData} (h : PlanInv cap nreg pd) (r : Nat)
    (x : Item) (hc : pd.tasks.count = cap) : pd.append r x = some (pd, false) := by
  obtain ⟨pg, h⟩ := h
  exact append_full h r x (by omega)

/-! ## Iterators -/

/-- Iterator `it` stands at position `k` of region `r`'s plan in storage `pd`
(`_curr` = the `k`-th slot of the chain, `_next` = the `(k+1)`-th, `INVALID` past the end). -/
def IterPos (pd : PlanData) (r : Nat) (it : PlanIter) (k : Nat) : Prop := IterAt (pd.chain r) it k

/-- `plan.begin()` stands at position 0. -/
theorem plan_iter_begin {cap nreg : Nat} {pd : PlanData} (h : PlanInv cap nreg pd) {r : Nat}
    (hr : r < nreg) : ∃ it, PlanIter.begin pd r = some it ∧ IterPos pd r it 0 := by
  obtain ⟨pg, h⟩ := h
  obtain ⟨it, hb, hit⟩ := begin_at h hr
  exact ⟨it, hb, by rw [IterPos, chain_eq h hr]; exact hit⟩

/-- `operator bool` holds exactly while the position is inside the list, and `*it` is then the
task at that position (origin, destination, kind, payload as appended). -/
theorem plan_iter_valid_deref {cap nreg : Nat} {pd : PlanData} (h : PlanInv cap nreg pd) {r : Nat}
    (hr : r < nreg) {it : PlanIter} {k : Nat} (hit : IterPos pd r it k) :
    (it.valid pd = true ↔ k < (pd.abs r).length) ∧
    (k < (pd.abs r).length → it.deref pd = (pd.abs r)[k]?) := by
  obtain ⟨pg, h⟩ := h
  rw [IterPos, chain_eq h hr] at hit
  rw [abs_eq h hr]
  have hlen : (absL pg r).length = (pg.L r).length := by simp [absL]
  refine ⟨by rw [hlen]; exact valid_iff h hit, fun hk => ?_⟩
  rw [hlen] at hk
  rw [deref_at h hit hk]
  simp [absL, List.getElem?_eq_getElem hk]

/-- `++it` moves one position forward (and is defined, also at the end). -/
theorem plan_iter_advance {cap nreg : Nat} {pd : PlanData} (h : PlanInv cap nreg pd) {r : Nat}
    (hr : r < nreg) {it : PlanIter} {k : Nat} (hit : IterPos pd r it k) :
    ∃ it', it.advance pd = some it' ∧ IterPos pd r it' (k + 1) := by
  obtain ⟨pg, h⟩ := h
  rw [IterPos, chain_eq h hr] at hit
  obtain ⟨it', ha, hit'⟩ := advance_at h hit
  exact ⟨it', ha, by rw [IterPos, chain_eq h hr]; exact hit'⟩

/-- `it.remove()` at position `k` inside the list: removes exactly the `k`-th task of that region,
frees its slot (`count` drops by one), leaves all other regions alone, and after `++it` the same
iterator stands at position `k` of the new list, i.e. at the task that followed the removed one. -/
theorem plan_iter_remove {cap nreg : Nat} {pd : PlanData} (h : PlanInv cap nreg pd) {r : Nat}
    (hr : r < nreg) {it : PlanIter} {k : Nat} (hit : IterPos pd r it k)
    (hk : k < (pd.abs r).length) :
    ∃ pd', it.remove pd r = some pd' ∧ PlanInv cap nreg pd' ∧
      pd'.abs r = (pd.abs r).eraseIdx k ∧
      (∀ r', r' < nreg → r' ≠ r → pd'.chain r' = pd.chain r' ∧ pd'.abs r' = pd.abs r') ∧
      pd'.tasks.count + 1 = pd.tasks.count ∧
      ∃ it', it.advance pd' = some it' ∧ IterPos pd' r it' k := by
  obtain ⟨pg, h⟩ := h
  rw [IterPos, chain_eq h hr] at hit
  have hlen : (absL pg r).length = (pg.L r).length := by simp [absL]
  rw [abs_eq h hr, hlen] at hk
  obtain ⟨pd', hrem, hrep', it', hadv, hit'⟩ := iter_remove_at h hr hit hk
  have hnd := h.nodup r
  have hmem : (pg.L r)[k] ∈ pg.L r := List.getElem_mem hk
  obtain ⟨y, hy⟩ := h.live r _ hmem
  have hsame : ∀ l : List Nat, (pg.L r)[k] ∉ l →
      List.map (taskAt ⟨pg.g.remove (pg.L r)[k], updL pg.L r ((pg.L r).eraseIdx k)⟩) l
        = List.map (taskAt pg) l := by
    intro l hl
    apply List.map_congr_left
    intro j hj
    have : j ≠ (pg.L r)[k] := fun e => hl (e ▸ hj)
    simp only [taskAt, G.remove, Live.set_ne _ _ this]
  have hnotin : (pg.L r)[k] ∉ (pg.L r).eraseIdx k := by
    intro hm
    have hs := split_at (pg.L r) hk
    rw [List.eraseIdx_eq_take_drop_succ] at hm
    rw [hs] at hnd
    have hnd' := List.nodup_append.mp hnd
    rcases List.mem_append.mp hm with hm | hm
    · exact hnd'.2.2 _ hm _ List.mem_cons_self rfl
    · exact (List.nodup_cons.mp hnd'.2.1).1 hm
  refine ⟨pd', hrem, ⟨_, hrep'⟩, ?_, ?_, ?_, it', hadv, ?_⟩
  · rw [abs_eq hrep' hr, abs_eq h hr]
    simp only [absL, updL_same]
    rw [hsame _ hnotin, List.eraseIdx_eq_take_drop_succ, List.eraseIdx_eq_take_drop_succ,
      List.map_append, List.map_take, List.map_drop]
  · intro r' hr' e
    rw [chain_eq hrep' hr', chain_eq h hr', abs_eq hrep' hr', abs_eq h hr']
    simp only [absL, updL_ne _ _ e, true_and]
    exact hsame _ (fun hm => h.disj r' r _ e hm hmem)
  · rw [hrep'.pool.count, h.pool.count]
    exact liveCount_set_none cap pg.g.live (h.mem_lt hmem) hy
  · rw [IterPos, chain_eq hrep' hr]; simpa using hit'

/-- Any number of iterators across *different* regions: an edit that leaves region `r`'s chain
alone (every `append`/`remove`/`clear` on another region does, see the `chain` clauses of the
operation theorems) leaves an iterator on region `r` at its position. -/
theorem plan_iter_other_region {pd pd' : PlanData} {r : Nat} {it : PlanIter} {k : Nat}
    (hit : IterPos pd r it k) (hsame : pd'.chain r = pd.chain r) : IterPos pd' r it k := by
  rw [IterPos, hsame]; exact hit

/-! ## clear -/

/-- `plan.clear()` (storage part, `clearTasks()`): empties exactly that region's list, frees exactly
its slots, leaves all other regions alone. -/
theorem plan_clear {cap nreg : Nat} {pd : PlanData} (h : PlanInv cap nreg pd) {r : Nat}
    (hr : r < nreg) :
    ∃ pd', pd.clearTasks r = some pd' ∧ PlanInv cap nreg pd' ∧ pd'.abs r = [] ∧
      (∀ r', r' < nreg → r' ≠ r → pd'.chain r' = pd.chain r' ∧ pd'.abs r' = pd.abs r') ∧
      pd'.tasks.count + (pd.abs r).length = pd.tasks.count := by
  obtain ⟨pg, h⟩ := h
  obtain ⟨pd', pg', hcl, hrep', hLs, hl1, hl2⟩ := clearTasks_sim h hr
  have hLr : pg'.L r = [] := by rw [hLs r]; simp
  have hLo : ∀ r', r' ≠ r → pg'.L r' = pg.L r' := fun r' e => by rw [hLs r', updL_ne _ _ e]
  refine ⟨pd', hcl, ⟨_, hrep'⟩, ?_, ?_, ?_⟩
  · rw [abs_eq hrep' hr, absL, hLr]; rfl
  · intro r' hr' e
    rw [chain_eq hrep' hr', chain_eq h hr', abs_eq hrep' hr', abs_eq h hr']
    simp only [absL, hLo r' e, true_and]
    apply List.map_congr_left
    intro j hj
    have : j ∉ pg.L r := fun hm => h.disj r' r j e hj hm
    simp only [taskAt, hl1 j this]
  · have t1 := hrep'.total
    have t2 := h.total
    have hupd : sumLen nreg pg'.L = sumLen nreg (updL pg.L r []) := by
      rw [sumLen_eq_sumTo, sumLen_eq_sumTo]
      exact sumTo_congr (fun r' _ => by rw [hLs r'])
    have := sumLen_updL nreg pg.L [] hr
    rw [abs_eq h hr]
    simp [absL] at this ⊢
    omega

/-- Freed slots are reusable by **any** region: whenever fewer than `cap` tasks are stored —
in particular right after a `remove` or a `clear` of a non-empty plan anywhere — `append` to every
region succeeds. -/
theorem plan_freed_reusable {cap nreg : Nat} {pd pd' : PlanData} (h' : PlanInv cap nreg pd')
    (hfreed : pd'.tasks.count < pd.tasks.count) (hle : pd.tasks.count ≤ cap) {r' : Nat}
    (hr' : r' < nreg) (x : Item) :
    ∃ pd'', pd'.append r' x = some (pd'', true) ∧ pd''.abs r' = pd'.abs r' ++ [x] := by
  obtain ⟨pd'', ha, _, habs, _⟩ := plan_append h' hr' x (by omega)
  exact ⟨pd'', ha, habs⟩

/-! ## Remove-while-iterating pass -/

/-- The client loop `for (auto it = plan.begin(); it; ++it) { visit(*it); if (…) it.remove(); }`
with removals at the visit positions `rm`: visits **every** task of the region exactly once and in
order (removed ones included, none skipped, none repeated), afterwards the region holds exactly the
tasks at positions not in `rm`, in order; other regions are untouched. -/
theorem plan_iterate {cap nreg : Nat} {pd : PlanData} (h : PlanInv cap nreg pd) {r : Nat}
    (hr : r < nreg) (rm : List Nat) :
    ∃ pd', pd.iterate r rm = some (pd', pd.abs r) ∧ PlanInv cap nreg pd' ∧
      pd'.abs r = keepFrom 0 rm (pd.abs r) ∧
      (∀ r', r' < nreg → r' ≠ r → pd'.chain r' = pd.chain r' ∧ pd'.abs r' = pd.abs r') := by
  obtain ⟨pg, h⟩ := h
  obtain ⟨pd', pg', hit, hrep', habs, hoth⟩ := iterate_sim h hr rm
  refine ⟨pd', ?_, ⟨_, hrep'⟩, ?_, ?_⟩
  · rw [abs_eq h hr]; exact hit
  · rw [abs_eq hrep' hr, abs_eq h hr]; exact habs
  · intro r' hr' e
    rw [chain_eq hrep' hr', chain_eq h hr', abs_eq hrep' hr', abs_eq h hr']
    exact hoth r' e

/-! ## Every operation sequence -/

/-- Operations on plan storage as a client can issue them. -/
inductive PlanOp
  | append (r : Nat) (x : Item)
  | iterate (r : Nat) (rm : List Nat)     -- pass over region `r`, `remove()` at positions `rm`
  | clear (r : Nat)
  | pdclear                                -- `PlanDataT::clear()` (exit / load)

/-- What the client observes. -/
inductive PlanObs
  | ok (b : Bool)
  | visited (xs : List Item)
  | unit
  deriving DecidableEq

def PlanOp.region : PlanOp → Nat
  | .append r _ | .iterate r _ | .clear r => r
  | .pdclear => 0

/-- Model step (`none` = undefined behaviour). -/
def step (pd : PlanData) : PlanOp → Option (PlanData × PlanObs)
  | .append r x => (pd.append r x).map fun (q, b) => (q, .ok b)
  | .iterate r rm => (pd.iterate r rm).map fun (q, xs) => (q, .visited xs)
  | .clear r => (pd.clearTasks r).map fun q => (q, .unit)
  | .pdclear => some (pd.clear, .unit)

/-- The ideal object: one list of tasks per region, with a machine-wide bound on their number. -/
abbrev Lists := Nat → List Item

def Lists.upd (ls : Lists) (r : Nat) (l : List Item) : Lists := fun r' => if r' = r then l else ls r'

def Lists.total (nreg : Nat) (ls : Lists) : Nat := sumTo nreg (fun r => (ls r).length)

/-- Ideal step. -/
def Lists.step (cap nreg : Nat) (ls : Lists) : PlanOp → Lists × PlanObs
  | .append r x =>
    if ls.total nreg < cap then (ls.upd r (ls r ++ [x]), .ok true) else (ls, .ok false)
  | .iterate r rm => (ls.upd r (keepFrom 0 rm (ls r)), .visited (ls r))
  | .clear r => (ls.upd r [], .unit)
  | .pdclear => (fun _ => [], .unit)

/-- `abs` agrees with the ideal lists on all regions of the machine. -/
def AbsRel (nreg : Nat) (pd : PlanData) (ls : Lists) : Prop := ∀ r, r < nreg → pd.abs r = ls r

theorem absRel_total {cap nreg : Nat} {pd : PlanData} {ls : Lists} (h : PlanInv cap nreg pd)
    (ha : AbsRel nreg pd ls) : ls.total nreg = pd.tasks.count := by
  rw [← (plan_total h).1]
  exact sumTo_congr (fun r hr => by rw [ha r hr])

/-- One step: defined, observes what the ideal lists prescribe, invariant and abstraction kept. -/
theorem plan_step_refines {cap nreg : Nat} {pd : PlanData} {ls : Lists} (h : PlanInv cap nreg pd)
    (ha : AbsRel nreg pd ls) (op : PlanOp) (hr : op.region < nreg) :
    ∃ pd', step pd op = some (pd', (ls.step cap nreg op).2) ∧ PlanInv cap nreg pd' ∧
      AbsRel nreg pd' (ls.step cap nreg op).1 := by
  have hpos : 0 < nreg := by omega
  cases op with
  | append r x =>
    replace hr : r < nreg := hr
    have htot := absRel_total h ha
    by_cases hc : pd.tasks.count < cap
    · obtain ⟨pd', happ, hinv', habs, hoth, _⟩ := plan_append h hr x hc
      refine ⟨pd', by simp [step, happ, Lists.step, htot, hc], hinv', ?_⟩
      simp only [Lists.step, htot, hc, if_true]
      intro r' hr'
      by_cases e : r' = r
      · subst e; simp [Lists.upd, habs, ha r' hr']
      · simp [Lists.upd, e, (hoth r' hr' e).2, ha r' hr']
    · have hfull : pd.tasks.count = cap := by have := (plan_total h).2; omega
      refine ⟨pd, by simp [step, plan_append_full h r x hfull, Lists.step, htot, hc], h, ?_⟩
      simp only [Lists.step, htot, hc, if_false]
      exact ha
  | iterate r rm =>
    replace hr : r < nreg := hr
    obtain ⟨pd', hit, hinv', habs, hoth⟩ := plan_iterate h hr rm
    refine ⟨pd', by simp [step, hit, Lists.step, ha r hr], hinv', ?_⟩
    intro r' hr'
    by_cases e : r' = r
    · subst e; simp [Lists.step, Lists.upd, habs, ha r' hr']
    · simp [Lists.step, Lists.upd, e, (hoth r' hr' e).2, ha r' hr']
  | clear r =>
    replace hr : r < nreg := hr
    obtain ⟨pd', hcl, hinv', habs, hoth, _⟩ := plan_clear h hr
    refine ⟨pd', by simp [step, hcl, Lists.step], hinv', ?_⟩
    intro r' hr'
    by_cases e : r' = r
    · subst e; simp [Lists.step, Lists.upd, habs]
    · simp [Lists.step, Lists.upd, e, (hoth r' hr' e).2, ha r' hr']
  | pdclear =>
    obtain ⟨pg, hrep⟩ := h
    have hc := plan_inv_clear pd hrep.pool.pos hrep.pool.capLe hrep.pool.size hrep.lsize
      hrep.bsize hrep.esize
    exact ⟨pd.clear, rfl, hc.1, fun r hr => by simp [Lists.step, hc.2 r hr]⟩

/-- Observations of an operation sequence on the model (`none` = undefined behaviour reached). -/
def run : PlanData → List PlanOp → Option (List PlanObs)
  | _, [] => some []
  | pd, op :: rest =>
    match step pd op with
    | none => none
    | some (pd', obs) => (run pd' rest).map (obs :: ·)

/-- Observations of the ideal lists. -/
def runIdeal (cap nreg : Nat) : Lists → List PlanOp → List PlanObs
  | _, [] => []
  | ls, op :: rest => (ls.step cap nreg op).2 :: runIdeal cap nreg (ls.step cap nreg op).1 rest

/-- **Refinement over histories**: for every capacity, every number of regions and every
interleaving of append / remove-while-iterating / clear / `PlanDataT::clear()` operations across
the machine's regions, plan storage never reaches undefined behaviour and every return value and
every iteration result equals that of the ideal per-region lists. -/
theorem plan_run_refines {cap nreg : Nat} :
    ∀ (ops : List PlanOp) (pd : PlanData) (ls : Lists), PlanInv cap nreg pd → AbsRel nreg pd ls →
      (∀ op ∈ ops, op.region < nreg) → run pd ops = some (runIdeal cap nreg ls ops)
  | [], _, _, _, _, _ => rfl
  | op :: rest, pd, ls, h, ha, hreg => by
    obtain ⟨pd', hs, h', ha'⟩ := plan_step_refines h ha op (hreg op List.mem_cons_self)
    simp only [run, hs, runIdeal,
      plan_run_refines rest pd' _ h' ha' (fun o ho => hreg o (List.mem_cons_of_mem _ ho)),
      Option.map_some]

/-- … in particular from a freshly constructed machine. -/
theorem plan_run_refines_new {cap nreg : Nat} (hpos : 0 < cap) (hle : cap ≤ INVALID)
    (ops : List PlanOp) (hreg : ∀ op ∈ ops, op.region < nreg) :
    run (PlanData.new cap nreg) ops = some (runIdeal cap nreg (fun _ => []) ops) :=
  plan_run_refines ops _ _ (plan_inv_new hpos hle).1 (fun r hr => (plan_inv_new hpos hle).2 r hr) hreg

/-! ## Non-vacuity and edge cases (tests, not part of the proof) -/

private def t (n : Nat) (p : Option Int) : Item :=
  { prev := n, next := n + 1, type := n % 7, payload := p }

/-- The hypotheses of the iterator theorems are satisfiable: after two appends to region 1 of a
3-region, capacity-2 machine the invariant holds, region 1 has two tasks and `begin()` is an
iterator at position 0 (< length). -/
example : ∃ pd it, PlanInv 2 3 pd ∧ (pd.abs 1).length = 2 ∧ IterPos pd 1 it 0 := by
  obtain ⟨h0, e0⟩ := plan_inv_new (cap := 2) (nreg := 3) (by decide) (by decide)
  obtain ⟨pd1, _, h1, a1, _, c1⟩ := plan_append h0 (r := 1) (by decide) (t 3 none) (by decide)
  obtain ⟨pd2, _, h2, a2, _, _⟩ := plan_append h1 (r := 1) (by decide) (t 5 (some 7))
    (by rw [c1]; decide)
  obtain ⟨it, _, hit⟩ := plan_iter_begin h2 (r := 1) (by decide)
  exact ⟨pd2, it, h2, by rw [a2, a1, e0 1 (by decide)]; rfl, hit⟩

/-- Capacity 1, two regions: the second append (to another region) is refused and changes nothing;
after removing the only task the slot is reusable by the other region; payload stays attached. -/
example :
    run (PlanData.new 1 2)
      [.append 0 (t 1 (some 42)), .append 1 (t 2 none), .iterate 0 [], .iterate 1 [],
       .iterate 0 [0], .append 1 (t 3 (some (-5))), .iterate 0 [], .iterate 1 [], .clear 1,
       .iterate 1 []]
    = some [.ok true, .ok false, .visited [t 1 (some 42)], .visited [],
            .visited [t 1 (some 42)], .ok true, .visited [], .visited [t 3 (some (-5))], .unit,
            .visited []] := by
  decide

/-
Theorems that constitute property C07 (for `Props/INDEX.json`):

    plan_inv_new            fresh storage satisfies PlanInv, all plans empty
    plan_inv_clear          PlanDataT::clear() re-establishes PlanInv / all empty from any object state
    plan_structure          chains are duplicate free, terminate, consist of slots < cap, have the
                            region's length; different regions' chains are disjoint
    plan_total              lengths add up to tasks.count ≤ cap
    plan_exists_of_nonempty meaning of planExists[r]
    plan_nonEmpty           operator bool ⇔ non-empty list
    plan_append             append below capacity: true, at the end of that region, others untouched
    plan_append_full        append at capacity: false, identity
    plan_iter_begin / plan_iter_valid_deref / plan_iter_advance   iteration in insertion order
    plan_iter_remove        remove at iterator position k = eraseIdx k; ++ continues with the follower
    plan_iter_other_region  iterators on other regions are unaffected
    plan_clear              clear empties exactly that region and frees its slots
    plan_freed_reusable     freed slots serve any region
    plan_iterate            whole remove-while-iterating pass
    plan_step_refines / plan_run_refines / plan_run_refines_new   refinement for every op sequence
-/

end Hfsm.Props.C07
