/-
Property C17 — identifiers and structural metadata follow the declaration, for every shape.

"For every machine structure stateId<>() numbers the states depth-first in declaration order
starting with the root at 0, regionId<>() numbers the regions likewise, a headless region's
anonymous head still occupies an identifier, and the published counts (states, regions, composite
and orthogonal regions, prongs, serialization bits, default task capacity) equal the numbers that
follow from the declaration.  Identifiers depend on the structure only, so separately written
peers with the same structure agree on them."

Model: `Hfsm/Model/ShapeInfo.lean` (the template arithmetic as coded: `SI_/CI_/CSI_/OI_/OSI_`,
the balanced `LHalf/RHalf` split of `CS_` with offsets from `CSI_<LHalf>`, the `Initial/Remaining`
chain of `OS_`, `deepRegister`).  All theorems hold for **every** `Shape` (structural induction, no
size bound); hypotheses are only
* `s.wf` (every region lists at least one sub-state — otherwise the C++ does not compile) for the
  registry-table theorems, and
* `s.FitsIds` (no `Short`/`Long` member wraps) for the equality between the `Nat` arithmetic used
  here and the fixed-width arithmetic of the C++ (`Shape.infoFW`).

What "follows from the declaration" means is fixed by `Shape.decls` (Proofs/ShapeInfo.lean): the
plain depth-first pre-order enumeration (node first, then sub-states in declaration order), with
no identifier arithmetic in it.
-/
import Hfsm.Proofs.ShapeInfo

namespace Hfsm.Props.C17
open Hfsm

/-! ## 1. The visited nodes are the declared nodes, in depth-first declaration order -/

/-- The materialised types visit exactly the declared nodes in depth-first pre-order (head first,
then the sub-states in declaration order) — whatever the balanced split does to the indices. -/
theorem nodes_follow_declaration (s : Shape) : s.nodes.map (·.toDecl) = s.decls [] :=
  Shape.walk_decls s _ _ _

/-- The order of visit is the order of `StateList` (the `Merge`-flattened type list behind the
public `stateId<>()`). -/
theorem nodes_paths_eq_stateList (s : Shape) : s.nodes.map (·.path) = s.stateList := by
  have h := congrArg (List.map (·.path)) (nodes_follow_declaration s)
  simp only [List.map_map] at h
  rw [Shape.decls_paths] at h
  simpa [Function.comp_def] using h

/-- … and the regions among them come in the order of `RegionList`. -/
theorem regions_paths_eq_regionList (s : Shape) :
    (s.nodes.filter (·.isRegion)).map (·.path) = s.regionList := by
  have h := Shape.decls_regionPaths s []
  rw [← nodes_follow_declaration, List.filter_map, List.map_map] at h
  simpa [Function.comp_def] using h

/-! ## 2. State identifiers -/

/-- `I_::STATE_ID`s, derived through `LHalf/RHalf` (composite) and `Initial/Remaining`
(orthogonal) offsets, are consecutive in visiting order from the starting id. -/
theorem walk_stateIds (s : Shape) (ix : Idx) (parent : Parent) (path : Path) :
    (s.walk ix parent path).map (·.idx.stateId) = List.range' ix.stateId s.info.stateCount := by
  have h := numbered_stateIds ix _ (Shape.walk_numbered s ix parent path).1
  have hl : (s.walk ix parent path).length = s.info.stateCount := by
    have := congrArg Idx.stateId (Shape.skip_info_eq_after s ix parent path)
    simp only [Idx.skip, Idx.after] at this
    omega
  rw [hl] at h
  exact h

/-- **State ids are the depth-first pre-order index, the root being 0.** -/
theorem stateIds_preorder (s : Shape) :
    s.nodes.map (·.idx.stateId) = List.range s.info.stateCount := by
  rw [List.range_eq_range']
  exact walk_stateIds s Idx.root Parent.invalid []

/-- The root (region head) is visited first, has the empty path, all indices 0 and no parent. -/
theorem root_first (s : Shape) :
    ∃ r0 t, s.nodes = r0 :: t ∧ r0.path = [] ∧ r0.idx = Idx.root ∧ r0.parent = Parent.invalid := by
  obtain ⟨r0, t, h, hp, hpar, hix, _⟩ := Shape.walk_parents s Idx.root Parent.invalid []
  exact ⟨r0, t, h, hp, hix, hpar⟩

/-- The `k`-th visited node has `STATE_ID = k` and is the `k`-th entry of `StateList`. -/
theorem stateId_eq_position (s : Shape) (k : Nat) (r : NodeRec) (h : s.nodes[k]? = some r) :
    r.idx.stateId = k ∧ s.stateList[k]? = some r.path := by
  constructor
  · have h1 := congrArg (·[k]?) (stateIds_preorder s)
    simp only [List.getElem?_map, h, Option.map_some] at h1
    have hk : k < s.info.stateCount := by
      have hl : s.nodes.length = s.info.stateCount := by
        have := congrArg List.length (stateIds_preorder s); simpa using this
      have := (List.getElem?_eq_some_iff.mp h).1
      omega
    rw [List.getElem?_range hk] at h1
    exact (Option.some.inj h1)
  · rw [← nodes_paths_eq_stateList, List.getElem?_map, h]; rfl

/-- **The public `stateId<S>() = index<StateList, S>()` equals the `STATE_ID` the materialised
type of `S` carries** (the library `static_assert`s this for named states in `S_::deepRegister`). -/
theorem stateId_public_eq (s : Shape) (r : NodeRec) (hr : r ∈ s.nodes) :
    s.stateId? r.path = some r.idx.stateId := by
  obtain ⟨k, hk⟩ := List.getElem?_of_mem hr
  obtain ⟨h1, h2⟩ := stateId_eq_position s k r hk
  rw [h1]
  exact idxOf?_of_nodup (Shape.stateList_nodup s) k r.path h2

/-- Closed form of the whole `I_` tuple: a node's `(STATE_ID, COMPO_INDEX, ORTHO_INDEX,
ORTHO_UNIT)` are the number of nodes, of composite regions, of orthogonal regions and the
`⌈width/8⌉` units of the orthogonal regions *visited before it*. -/
theorem idx_closed_form (s : Shape) (a : List NodeRec) (r : NodeRec) (b : List NodeRec)
    (h : s.nodes = a ++ r :: b) :
    r.idx = ⟨a.length, (a.filter (·.isCompo)).length, (a.filter (·.isOrtho)).length,
             ((a.filter (·.isOrtho)).map (fun x => contain x.width 8)).sum⟩ := by
  have hn := (Shape.walk_numbered s Idx.root Parent.invalid []).1
  rw [show s.walk Idx.root Parent.invalid [] = s.nodes from rfl, h] at hn
  rw [numbered_prefix _ _ _ _ hn]
  simp [Idx.after, Idx.root, Decl.units]

/-! ## 3. Region identifiers -/

/-- `COMPO_INDEX` numbers the composite regions in pre-order. -/
theorem compoIndex_preorder (s : Shape) :
    (s.nodes.filter (·.isCompo)).map (·.idx.compoIndex) = List.range s.info.compoCount := by
  have h := numbered_compoIndex _ _ (Shape.walk_numbered s Idx.root Parent.invalid []).1
  have hc := congrArg Idx.compoIndex (Shape.skip_info_eq_after s Idx.root Parent.invalid [])
  simp only [Idx.skip, Idx.after, Idx.root, Nat.zero_add] at hc
  rw [List.range_eq_range', hc]
  exact h

/-- `ORTHO_INDEX` numbers the orthogonal regions in pre-order. -/
theorem orthoIndex_preorder (s : Shape) :
    (s.nodes.filter (·.isOrtho)).map (·.idx.orthoIndex) = List.range s.info.orthoCount := by
  have h := numbered_orthoIndex _ _ (Shape.walk_numbered s Idx.root Parent.invalid []).1
  have hc := congrArg Idx.orthoIndex (Shape.skip_info_eq_after s Idx.root Parent.invalid [])
  simp only [Idx.skip, Idx.after, Idx.root, Nat.zero_add] at hc
  rw [List.range_eq_range', hc]
  exact h

theorem regionCount_eq_nodes (s : Shape) :
    s.info.regionCount = (s.nodes.filter (·.isRegion)).length := by
  rw [(Shape.info_additive s Idx.root Parent.invalid []).1]
  show (s.nodes.map (fun r => if r.isRegion = true then 1 else 0)).sum = _
  rw [sum_map_ite (fun r : NodeRec => r.isRegion) (fun _ => 1)]
  generalize s.nodes.filter _ = l
  induction l with
  | nil => rfl
  | cons x t ih => simp only [List.map_cons, List.sum_cons, List.length_cons, ih]; omega

/-- **`REGION_ID = COMPO_INDEX + ORTHO_INDEX` is the pre-order index among the regions.** -/
theorem regionIds_preorder (s : Shape) :
    (s.nodes.filter (·.isRegion)).map (fun r => r.idx.compoIndex + r.idx.orthoIndex) =
      List.range s.info.regionCount := by
  have h := numbered_regionId _ _ (Shape.walk_numbered s Idx.root Parent.invalid []).1
  rw [List.range_eq_range', regionCount_eq_nodes]
  exact h

/-- **The public `regionId<S>() = index<RegionList, S>()` equals `COMPO_INDEX + ORTHO_INDEX` of the
materialised region** (the index used for `regionHeads`, `regionSizes`, plan data). -/
theorem regionId_public_eq (s : Shape) (r : NodeRec) (hr : r ∈ s.nodes) (hreg : r.isRegion = true) :
    s.regionId? r.path = some (r.idx.compoIndex + r.idx.orthoIndex) := by
  have hmem : r ∈ s.nodes.filter (·.isRegion) := List.mem_filter.mpr ⟨hr, hreg⟩
  obtain ⟨k, hk⟩ := List.getElem?_of_mem hmem
  have h1 := congrArg (·[k]?) (regionIds_preorder s)
  simp only [List.getElem?_map, hk, Option.map_some] at h1
  have hlen : k < s.info.regionCount := by
    have := (List.getElem?_eq_some_iff.mp hk).1
    rw [regionCount_eq_nodes]; exact this
  rw [List.getElem?_range hlen] at h1
  have h2 : s.regionList[k]? = some r.path := by
    rw [← regions_paths_eq_regionList, List.getElem?_map, hk]; rfl
  have hnd : s.regionList.Nodup := by
    rw [← regions_paths_eq_regionList]
    have : (s.nodes.map (·.path)).Nodup := by
      rw [nodes_paths_eq_stateList]; exact Shape.stateList_nodup s
    exact (List.filter_sublist.map _).nodup this
  rw [Option.some.inj h1]
  exact idxOf?_of_nodup hnd k r.path h2

/-! ## 4. Published counts equal the numbers that follow from the declaration

Stated over `s.decls []`, the plain pre-order enumeration of the declared nodes (heads of
headless regions included). -/

theorem filter_decls (s : Shape) (p : Decl → Bool) :
    (s.decls []).filter p = (s.nodes.filter (fun r => p r.toDecl)).map (·.toDecl) := by
  rw [← nodes_follow_declaration, List.filter_map]; rfl

/-- `STATE_COUNT` = number of declared nodes — **the anonymous head of a headless region counts**
(it is a member of `decls` whatever `headed` says). -/
theorem stateCount_eq (s : Shape) : s.info.stateCount = (s.decls []).length := by
  rw [← nodes_follow_declaration, List.length_map]
  have := congrArg List.length (stateIds_preorder s)
  simpa using this.symm

/-- `REGION_COUNT` = number of declared regions. -/
theorem regionCount_eq (s : Shape) :
    s.info.regionCount = ((s.decls []).filter (·.isRegion)).length := by
  rw [filter_decls, List.length_map]; exact regionCount_eq_nodes s

/-- `COMPO_COUNT` = number of declared composite regions (all five strategies). -/
theorem compoCount_eq (s : Shape) :
    s.info.compoCount = ((s.decls []).filter (·.isCompo)).length := by
  rw [filter_decls, List.length_map]
  have := congrArg List.length (compoIndex_preorder s)
  simpa using this.symm

/-- `ORTHO_COUNT` = number of declared orthogonal regions. -/
theorem orthoCount_eq (s : Shape) :
    s.info.orthoCount = ((s.decls []).filter (·.isOrtho)).length := by
  rw [filter_decls, List.length_map]
  have := congrArg List.length (orthoIndex_preorder s)
  simpa using this.symm

/-- `ORTHO_UNITS = Σ ⌈width / 8⌉` over the orthogonal regions. -/
theorem orthoUnits_eq (s : Shape) :
    s.info.orthoUnits = (((s.decls []).filter (·.isOrtho)).map (fun d => (d.width + 7) / 8)).sum := by
  rw [filter_decls, List.map_map]
  have hc := congrArg Idx.orthoUnit (Shape.skip_info_eq_after s Idx.root Parent.invalid [])
  simp only [Idx.skip, Idx.after, Idx.root, Nat.zero_add] at hc
  rw [hc]
  rfl

/-- `COMPO_PRONGS = Σ width` over the composite regions. -/
theorem compoProngs_eq (s : Shape) :
    s.info.compoProngs = (((s.decls []).filter (·.isCompo)).map (·.width)).sum := by
  rw [filter_decls, List.map_map, (Shape.info_additive s Idx.root Parent.invalid []).2.1]
  exact sum_map_ite (fun r : NodeRec => r.isCompo) (fun r => r.width) s.nodes

/-- `RESUMABLE_BITS = Σ (bitContain(width) + 1)` over the composite regions. -/
theorem resumableBits_eq (s : Shape) :
    s.info.resumableBits =
      (((s.decls []).filter (·.isCompo)).map (fun d => bitContain d.width + 1)).sum := by
  rw [filter_decls, List.map_map, (Shape.info_additive s Idx.root Parent.invalid []).2.2]
  exact sum_map_ite (fun r : NodeRec => r.isCompo) (fun r => bitContain r.width + 1) s.nodes

/-- `ACTIVE_BITS` of a plain state. -/
theorem activeBits_leaf (i : Nat) : (Shape.leaf i).info.activeBits = 0 := rfl

/-- `ACTIVE_BITS` of a composite region: the bits of its own prong plus the *maximum* over its
sub-states (only one of them is active). -/
theorem activeBits_compo (h : Bool) (i : Nat) (st : Strategy) (subs : Shapes) :
    (Shape.compo h i st subs).info.activeBits =
      bitContain subs.length + lmax (subs.toList.map (·.info.activeBits)) := by
  simp [Shape.info, Info.compo, csiFold_active, Shapes.infos_eq_map, Function.comp_def]
  omega

/-- `ACTIVE_BITS` of an orthogonal region: the *sum* over its sub-states (all are active). -/
theorem activeBits_ortho (h : Bool) (i : Nat) (subs : Shapes) :
    (Shape.ortho h i subs).info.activeBits = (subs.toList.map (·.info.activeBits)).sum := by
  simp [Shape.info, Info.ortho, osiFold_active, Shapes.infos_eq_map, Function.comp_def]

/-- `SERIAL_BITS = 1 + ACTIVE_BITS + Σ (bitContain(width) + 1)`. -/
theorem serialBits_eq (s : Shape) :
    s.info.serialBits = 1 + s.info.activeBits +
      (((s.decls []).filter (·.isCompo)).map (fun d => bitContain d.width + 1)).sum := by
  rw [Info.serialBits, resumableBits_eq]

/-- Default `TASK_CAPACITY = 2 · Σ width` over the composite regions. -/
theorem taskCapacity_eq (s : Shape) :
    s.info.taskCapacity = 2 * (((s.decls []).filter (·.isCompo)).map (·.width)).sum := by
  rw [Info.taskCapacity, compoProngs_eq, Nat.mul_comm]

/-- `REVERSE_DEPTH` = height of the tree counted in nodes = 1 + length of the longest path. -/
theorem reverseDepth_eq (s : Shape) :
    s.info.reverseDepth = lmax ((s.decls []).map (·.path.length)) + 1 := by
  rw [Shape.reverseDepth_eq]
  have h := Shape.decls_paths s []
  have : (s.decls []).map (·.path.length) = s.stateList.map List.length := by
    have h2 := congrArg (List.map List.length) h
    simpa [List.map_map, Function.comp_def] using h2
  rw [this]

/-- `WIDTH` of the root = number of declared sub-states. -/
theorem width_eq (s : Shape) : ∃ d t, s.decls [] = d :: t ∧ s.info.width = d.width := by
  cases s <;> simp [Shape.decls, Shape.info, Info.state, Info.compo, Info.ortho]

/-! ## 5. Parents: containing fork and prong = declaration position -/

/-- Fork-id sign convention as coded: `COMPO_ID = COMPO_INDEX + 1 > 0`. -/
theorem forkId_compo (r : NodeRec) (st : Strategy) (h : r.kind = .compo st) :
    r.forkId = (r.idx.compoIndex : Int) + 1 := by
  simp [NodeRec.forkId, h, Idx.compoId]

/-- `ORTHO_ID = -ORTHO_INDEX - 1 < 0`. -/
theorem forkId_ortho (r : NodeRec) (h : r.kind = .ortho) :
    r.forkId = - (r.idx.orthoIndex : Int) - 1 := by
  simp [NodeRec.forkId, h, Idx.orthoId]

/-- **Every node but the root is registered with `Parent{fork id of its containing region,
its declaration position}`**: the prong indices produced by `L_PRONG / R_PRONG = PRONG_INDEX +
LHalf::SIZE` (composite) and `NProng + 1` (orthogonal) are the positions in the declaration list. -/
theorem parent_is_containing_fork (s : Shape) (r : NodeRec) (hr : r ∈ s.nodes) :
    (r.path = [] ∧ r.parent = Parent.invalid) ∨
    ∃ q k, r.path = q ++ [k] ∧ ∃ pr ∈ s.nodes, pr.path = q ∧ pr.isRegion = true ∧
      r.parent = ⟨pr.forkId, k⟩ := by
  obtain ⟨r0, t, hw, hp, hpar, _, ht⟩ := Shape.walk_parents s Idx.root Parent.invalid []
  have hn : s.nodes = r0 :: t := hw
  rw [hn] at hr
  rcases List.mem_cons.mp hr with rfl | hr'
  · exact Or.inl ⟨hp, hpar⟩
  · right
    have := ht r hr'
    rw [← hn] at this
    exact this

/-- The region a node names as its parent is unique (paths identify nodes). -/
theorem path_identifies_node (s : Shape) (r r' : NodeRec) (hr : r ∈ s.nodes) (hr' : r' ∈ s.nodes)
    (h : r.path = r'.path) : r = r' := by
  obtain ⟨k, hk⟩ := List.getElem?_of_mem hr
  obtain ⟨k', hk'⟩ := List.getElem?_of_mem hr'
  have h1 := (stateId_eq_position s k r hk).2
  have h2 := (stateId_eq_position s k' r' hk').2
  have e1 := idxOf?_of_nodup (Shape.stateList_nodup s) k r.path h1
  have e2 := idxOf?_of_nodup (Shape.stateList_nodup s) k' r'.path h2
  rw [h] at e1
  have : k = k' := Option.some.inj (e1.symm.trans e2)
  subst this
  exact Option.some.inj (hk.symm.trans hk')

/-! ## 6. Registry tables after `deepRegister` -/

/-- **With every region non-empty, no `deepRegister` write is out of bounds and the tables are,
entry by entry in index order: the parent of every state; the parent of every composite /
orthogonal region; `(ORTHO_UNIT, WIDTH)` of every orthogonal region (the table has `ORTHO_UNITS`
slots, only the first `ORTHO_COUNT` are written); head id and sub-tree size of every region.** -/
theorem register_tables (s : Shape) (hw : s.wf = true) :
    s.register = some
      { stateParents := s.nodes.map (fun r => some r.parent)
        compoParents := (s.nodes.filter (·.isCompo)).map (fun r => some r.parent)
        orthoParents := (s.nodes.filter (·.isOrtho)).map (fun r => some r.parent)
        orthoUnits   := (s.nodes.filter (·.isOrtho)).map (fun r => some (r.idx.orthoUnit, r.width))
                          ++ List.replicate (s.info.orthoUnits - s.info.orthoCount) none
        regionHeads  := (s.nodes.filter (·.isRegion)).map (fun r => some r.idx.stateId)
        regionSizes  := (s.nodes.filter (·.isRegion)).map (fun r => some r.size) } := by
  have hn := (Shape.walk_numbered s Idx.root Parent.invalid []).1
  have hcnt := Shape.skip_info_eq_after s Idx.root Parent.invalid []
  have h1 : s.info.stateCount = s.nodes.length := by
    have := congrArg Idx.stateId hcnt; simpa [Idx.skip, Idx.after, Idx.root, Shape.nodes] using this
  have h2 : s.info.compoCount = (s.nodes.filter (·.isCompo)).length := by
    have := congrArg Idx.compoIndex hcnt; simpa [Idx.skip, Idx.after, Idx.root, Shape.nodes] using this
  have h3 : s.info.orthoCount = (s.nodes.filter (·.isOrtho)).length := by
    have := congrArg Idx.orthoIndex hcnt; simpa [Idx.skip, Idx.after, Idx.root, Shape.nodes] using this
  have h4 : s.info.orthoUnits = ((s.nodes.filter (·.isOrtho)).map (·.units)).sum := by
    have := congrArg Idx.orthoUnit hcnt; simpa [Idx.skip, Idx.after, Idx.root, Shape.nodes] using this
  have h5 := regionCount_eq_nodes s
  have hge := units_ge_count s.nodes (Shape.walk_width_pos s hw _ _ _)
  have hempty : Registry.empty s.info =
      Registry.partial [] [] [] [] [] [] s.nodes (s.info.orthoUnits - s.info.orthoCount) := by
    simp only [Registry.empty, Registry.partial, List.nil_append, ← h1, ← h2, ← h3, ← h5]
    congr 2
    rw [h3, h4]; omega
  have := Registry.addNodes_fill s.nodes Idx.root hn [] [] [] [] [] []
    (s.info.orthoUnits - s.info.orthoCount) rfl rfl rfl rfl rfl rfl
  rw [Shape.register, hempty, this]
  simp

example : (Shape.compo true 0 .composite
    (.cons (.leaf 0) (.cons (.ortho false 0 (.cons (.leaf 1) (.cons (.leaf 0) .nil))) .nil))).wf = true := by
  decide

/-- Without the hypothesis the statement is false of the *model* (in C++ such a declaration does
not compile): an empty orthogonal region has 0 units but writes `orthoUnits[0]`. -/
theorem register_needs_wf :
    (Shape.ortho true 0 (.cons (.ortho true 0 .nil) .nil)).register = none := by
  decide

/-- `stateParents[id]` of every state. -/
theorem register_stateParent (s : Shape) (hw : s.wf = true) (r : NodeRec) (hr : r ∈ s.nodes) :
    ∃ reg, s.register = some reg ∧ reg.stateParents[r.idx.stateId]? = some (some r.parent) := by
  refine ⟨_, register_tables s hw, ?_⟩
  obtain ⟨k, hk⟩ := List.getElem?_of_mem hr
  rw [(stateId_eq_position s k r hk).1]
  simp [List.getElem?_map, hk]

/-- `regionHeads[REGION_ID]` = the region's head state id, `regionSizes[REGION_ID]` = its
`REGION_SIZE`; `compoParents` / `orthoParents` at the region's own index. -/
theorem register_region (s : Shape) (hw : s.wf = true) (r : NodeRec) (hr : r ∈ s.nodes)
    (hreg : r.isRegion = true) :
    ∃ reg, s.register = some reg ∧
      reg.regionHeads[r.idx.compoIndex + r.idx.orthoIndex]? = some (some r.idx.stateId) ∧
      reg.regionSizes[r.idx.compoIndex + r.idx.orthoIndex]? = some (some r.size) := by
  refine ⟨_, register_tables s hw, ?_⟩
  have hmem : r ∈ s.nodes.filter (·.isRegion) := List.mem_filter.mpr ⟨hr, hreg⟩
  obtain ⟨k, hk⟩ := List.getElem?_of_mem hmem
  have h1 := congrArg (·[k]?) (regionIds_preorder s)
  simp only [List.getElem?_map, hk, Option.map_some] at h1
  have hlen : k < s.info.regionCount := by
    have := (List.getElem?_eq_some_iff.mp hk).1
    rw [regionCount_eq_nodes]; exact this
  rw [List.getElem?_range hlen] at h1
  rw [Option.some.inj h1]
  simp [List.getElem?_map, hk]

/-! ## 7. Sub-tree id ranges -/

/-- **The ids of a node's sub-tree are exactly the contiguous range `[id, id + size)`**: another
node lies below `r` (its path extends `r`'s) iff its id is in that range. -/
theorem subtree_range (s : Shape) (r r' : NodeRec) (hr : r ∈ s.nodes) (hr' : r' ∈ s.nodes) :
    r.path <+: r'.path ↔
      (r.idx.stateId ≤ r'.idx.stateId ∧ r'.idx.stateId < r.idx.stateId + r.size) :=
  (Shape.walk_ranges s Idx.root Parent.invalid []).2.2 r hr r' hr'

/-- Every range lies inside `[0, STATE_COUNT)` and is non-empty. -/
theorem subtree_in_bounds (s : Shape) (r : NodeRec) (hr : r ∈ s.nodes) :
    1 ≤ r.size ∧ r.idx.stateId + r.size ≤ s.info.stateCount := by
  obtain ⟨h1, h2, _⟩ := Shape.walk_ranges s Idx.root Parent.invalid []
  have := h2 r hr
  simp only [Idx.root, Nat.zero_add] at this
  exact ⟨(h1 r hr).2, this.2⟩

/-- Sub-trees of nodes neither of which contains the other (e.g. siblings) have disjoint ranges. -/
theorem subtree_disjoint (s : Shape) (r r' : NodeRec) (hr : r ∈ s.nodes) (hr' : r' ∈ s.nodes)
    (h1 : ¬ r.path <+: r'.path) (h2 : ¬ r'.path <+: r.path) :
    r.idx.stateId + r.size ≤ r'.idx.stateId ∨ r'.idx.stateId + r'.size ≤ r.idx.stateId := by
  rw [subtree_range s r r' hr hr'] at h1
  rw [subtree_range s r' r hr' hr] at h2
  have := (subtree_in_bounds s r hr).1
  have := (subtree_in_bounds s r' hr').1
  omega

/-- `REGION_SIZE` (the `size` written to `regionSizes`) = number of declared nodes in the
sub-tree. -/
theorem size_eq_subtree_count (s : Shape) (r : NodeRec) (hr : r ∈ s.nodes) :
    (s.nodes.filter (fun r' => decide (r.path <+: r'.path))).length = r.size := by
  have hb := subtree_in_bounds s r hr
  have hf : s.nodes.filter (fun r' => decide (r.path <+: r'.path)) =
      s.nodes.filter (fun r' => decide (r.idx.stateId ≤ r'.idx.stateId ∧
        r'.idx.stateId < r.idx.stateId + r.size)) := by
    apply List.filter_congr
    intro r' hr'
    rw [decide_eq_decide]
    exact subtree_range s r r' hr hr'
  rw [hf]
  have := filter_range'_interval s.info.stateCount r.idx.stateId r.size hb.2
  rw [← List.range_eq_range', ← stateIds_preorder, List.filter_map, List.length_map] at this
  exact this

/-! ## 8. Identifiers depend on the structure only

Type names do not occur in the model at all, so two "peers" (the same structure written with
different state types) are literally the same `Shape`.  Beyond that, nothing depends on whether a
region has a head type, on injections or on the strategy: -/

/-- All counts depend on the skeleton only. -/
theorem info_structure_only (s t : Shape) (h : s.skeleton = t.skeleton) : s.info = t.info := by
  rw [← Shape.skeleton_info s, ← Shape.skeleton_info t, h]

/-- **All indices, parents and sizes depend on the skeleton only — in particular the anonymous
head of a headless region takes its state id and region id exactly like a named head.** -/
theorem ids_structure_only (s t : Shape) (h : s.skeleton = t.skeleton) :
    s.nodes.map (fun r => (r.path, r.idx, r.parent, r.width, r.size)) =
      t.nodes.map (fun r => (r.path, r.idx, r.parent, r.width, r.size)) := by
  have e : ∀ u : Shape, u.nodes.map (fun r => (r.path, r.idx, r.parent, r.width, r.size)) =
      u.skeleton.nodes.map (fun r => (r.path, r.idx, r.parent, r.width, r.size)) := by
    intro u
    show _ = (u.skeleton.walk Idx.root Parent.invalid []).map _
    rw [Shape.skeleton_walk, List.map_map]
    rfl
  rw [e s, e t, h]

/-- The registry tables depend on the skeleton only. -/
theorem register_structure_only (s t : Shape) (h : s.skeleton = t.skeleton) :
    s.register = t.register := by
  have e : ∀ u : Shape, u.skeleton.register = u.register := by
    intro u
    show (Registry.empty u.skeleton.info).addNodes (u.skeleton.walk Idx.root Parent.invalid []) = _
    rw [Shape.skeleton_info, Shape.skeleton_walk, Registry.addNodes_erase]
    rfl
  rw [← e s, ← e t, h]

example : (Shape.compo false 2 .utilitarian (.cons (.leaf 1) .nil)).skeleton =
    (Shape.compo true 0 .resumable (.cons (.leaf 0) .nil)).skeleton := rfl

/-! ## 9. Size limits of the identifier types

`Short = uint8_t`, `Long = StateID = uint16_t` (shared/utility.hpp).  `Shape.infoFW` recomputes
every member with the reduction its C++ type applies; `Shape.FitsIds` says that no member of any
instantiated info template reaches 2⁸ resp. 2¹⁶.  Within these bounds the `Nat` arithmetic of
all theorems above *is* the C++ arithmetic. -/

theorem fixed_width_exact (s : Shape) (h : s.FitsIds) : s.infoFW = s.info :=
  Shape.infoFW_eq s h

theorem serialBits_fixed_width (s : Shape) (h : s.info.serialBits < 65536) :
    s.info.serialBitsFW = s.info.serialBits := by
  simp only [Info.serialBitsFW, Info.serialBits] at *
  exact Nat.mod_eq_of_lt h

theorem taskCapacity_fixed_width (s : Shape) (h : s.info.taskCapacity < 65536) :
    s.info.taskCapacityFW = s.info.taskCapacity := by
  simp only [Info.taskCapacityFW, Info.taskCapacity] at *
  exact Nat.mod_eq_of_lt h

example : (Shape.compo true 0 .composite
    (.cons (.leaf 0) (.cons (.ortho false 0 (.cons (.leaf 1) (.cons (.leaf 0) .nil))) .nil))).FitsIds := by
  simp only [Shape.FitsIds, Shapes.AllFitIds, and_true, true_and]
  decide

/-- `ArgsT::SERIAL_BITS` (the size of `SerialBuffer / WriteStream / ReadStream`) always equals the
published `RF_::SERIAL_BITS`: both are `Long`s holding the same constant. -/
theorem argsSerialBits_eq_published (s : Shape) :
    s.info.argsSerialBits = s.info.serialBitsFW := rfl

/-- **`ArgsT::SERIAL_BITS` is the number that follows from the declaration** whenever that number
fits a `Long` (at most 65535 bits).  `FitsIds` alone bounds `ACTIVE_BITS` and `RESUMABLE_BITS`
separately, not their sum + 1, hence the explicit hypothesis. -/
theorem argsSerialBits_eq (s : Shape) (h : s.info.serialBits < 65536) :
    s.info.argsSerialBits = s.info.serialBits := by
  simp only [Info.argsSerialBits, Info.serialBitsFW, Info.serialBits] at *
  exact Nat.mod_eq_of_lt h

/-- `n` copies of `s` as a sub-state list. -/
def rep : Nat → Shape → Shapes
  | 0, _ => .nil
  | n + 1, s => .cons s (rep n s)

/-- 9 × 9 composite regions of 3 states each under a composite root: 334 states, 91 regions —
far inside every identifier type, `SERIAL_BITS = 304 ≥ 256`. -/
def serialWitness : Shape :=
  .compo true 0 .composite (rep 9 (.compo true 0 .composite (rep 9
    (.compo true 0 .composite (rep 3 (.leaf 0))))))

/-
History.  Before /repo commit "fix: keep the serialization bit count in a Long inside ArgsT",
`ArgsT::SERIAL_BITS` was declared `Short`, `Info.argsSerialBits` was `serialBitsFW % 256`, and this
file proved
  argsSerialBits_partial       : serialBits < 256 → argsSerialBits = serialBits
  argsSerialBits_full_is_false : serialWitness within all limits, serialBits = 304, argsSerialBits = 48
  not_argsSerialBits_full      : ¬ ∀ s, s.FitsIds → argsSerialBits = serialBits
(on the real code: `sizeof(SerialBuffer) == 6` instead of 38 and an AddressSanitizer
stack-buffer-overflow in `save()`; /verif/harness/c17_witness_serial_bits.cpp).  With the fix the
full statement is `argsSerialBits_eq`; the same witness is kept as a regression example below and
as a shape of the thorough tier of gen/run_c17.py.
-/

/-- Regression example for the repaired defect (and a non-trivial instance of the hypothesis of
`argsSerialBits_eq` beyond the old 8-bit limit). -/
theorem serialWitness_regression :
    serialWitness.wf = true ∧ serialWitness.FitsIds ∧ serialWitness.info.stateCount = 334 ∧
    serialWitness.info.regionCount = 91 ∧ serialWitness.info.serialBits = 304 ∧
    serialWitness.info.argsSerialBits = 304 := by
  decide

set_option maxRecDepth 8000 in
/-- Outside `FitsIds` the fixed-width computation really differs (model only; in C++ such a
machine fails to compile because the `I_<>` template arguments narrow): 256 one-leaf composite
regions under a composite root wrap `COMPO_COUNT` to 1. -/
theorem fixed_width_differs_outside_bounds :
    (Shape.compo true 0 .composite (rep 256 (.compo true 0 .composite (rep 1 (.leaf 0))))).infoFW.compoCount = 1 ∧
    (Shape.compo true 0 .composite (rep 256 (.compo true 0 .composite (rep 1 (.leaf 0))))).info.compoCount = 257 := by
  decide

end Hfsm.Props.C17

/-
PROPERTY C17 — theorems that constitute the property (all for every `Shape`, no size bound):

  Hfsm.Props.C17.nodes_follow_declaration        visited nodes = declared nodes in DFS pre-order
  Hfsm.Props.C17.nodes_paths_eq_stateList        … in the order of StateList
  Hfsm.Props.C17.regions_paths_eq_regionList     … regions in the order of RegionList
  Hfsm.Props.C17.walk_stateIds                   STATE_IDs through half-split / remaining offsets are consecutive
  Hfsm.Props.C17.stateIds_preorder               state ids = pre-order index, root = 0
  Hfsm.Props.C17.root_first                      root: first, path [], I_<0,0,0,0>, Parent{}
  Hfsm.Props.C17.stateId_eq_position             k-th visited node has id k and is StateList[k]
  Hfsm.Props.C17.stateId_public_eq               stateId<S>() (index in StateList) = I_::STATE_ID
  Hfsm.Props.C17.idx_closed_form                 whole I_ tuple = counts/units of what was visited before
  Hfsm.Props.C17.compoIndex_preorder             COMPO_INDEX = rank among composite regions
  Hfsm.Props.C17.orthoIndex_preorder             ORTHO_INDEX = rank among orthogonal regions
  Hfsm.Props.C17.regionIds_preorder              REGION_ID = COMPO_INDEX + ORTHO_INDEX = rank among regions
  Hfsm.Props.C17.regionId_public_eq              regionId<S>() (index in RegionList) = REGION_ID
  Hfsm.Props.C17.stateCount_eq                   STATE_COUNT = #declared nodes (anonymous heads included)
  Hfsm.Props.C17.regionCount_eq                  REGION_COUNT
  Hfsm.Props.C17.compoCount_eq                   COMPO_COUNT
  Hfsm.Props.C17.orthoCount_eq                   ORTHO_COUNT
  Hfsm.Props.C17.orthoUnits_eq                   ORTHO_UNITS = Σ ⌈width/8⌉
  Hfsm.Props.C17.compoProngs_eq                  COMPO_PRONGS = Σ width
  Hfsm.Props.C17.resumableBits_eq                RESUMABLE_BITS = Σ (bitContain width + 1)
  Hfsm.Props.C17.activeBits_leaf                 ACTIVE_BITS of a state = 0
  Hfsm.Props.C17.activeBits_compo                ACTIVE_BITS composite = bitContain width + max over sub-states
  Hfsm.Props.C17.activeBits_ortho                ACTIVE_BITS orthogonal = sum over sub-states
  Hfsm.Props.C17.serialBits_eq                   SERIAL_BITS
  Hfsm.Props.C17.taskCapacity_eq                 default TASK_CAPACITY = 2 · COMPO_PRONGS
  Hfsm.Props.C17.reverseDepth_eq                 REVERSE_DEPTH = height
  Hfsm.Props.C17.width_eq                        WIDTH
  Hfsm.Props.C17.forkId_compo                    COMPO_ID = COMPO_INDEX + 1
  Hfsm.Props.C17.forkId_ortho                    ORTHO_ID = -ORTHO_INDEX - 1
  Hfsm.Props.C17.parent_is_containing_fork       Parent = (containing fork, declaration position)
  Hfsm.Props.C17.path_identifies_node            nodes are identified by their path
  Hfsm.Props.C17.register_tables                 all registry tables after deepRegister (needs s.wf)
  Hfsm.Props.C17.register_needs_wf               … and the hypothesis is necessary in the model
  Hfsm.Props.C17.register_stateParent            stateParents[id]
  Hfsm.Props.C17.register_region                 regionHeads / regionSizes [REGION_ID]
  Hfsm.Props.C17.subtree_range                   sub-tree ids = [id, id + size)
  Hfsm.Props.C17.subtree_in_bounds               ranges inside [0, STATE_COUNT)
  Hfsm.Props.C17.subtree_disjoint                siblings' ranges are disjoint
  Hfsm.Props.C17.size_eq_subtree_count           REGION_SIZE = #nodes of the sub-tree
  Hfsm.Props.C17.info_structure_only             counts depend on the skeleton only
  Hfsm.Props.C17.ids_structure_only              ids/parents/sizes depend on the skeleton only (headless head takes an id)
  Hfsm.Props.C17.register_structure_only         tables depend on the skeleton only
  Hfsm.Props.C17.fixed_width_exact               FitsIds → fixed-width arithmetic = Nat arithmetic
  Hfsm.Props.C17.serialBits_fixed_width          SERIAL_BITS (Long)
  Hfsm.Props.C17.taskCapacity_fixed_width        TASK_CAPACITY (Long)
  Hfsm.Props.C17.fixed_width_differs_outside_bounds   the bound is needed (model)
  Hfsm.Props.C17.argsSerialBits_eq_published  ArgsT::SERIAL_BITS = RF_::SERIAL_BITS (both Long), unconditionally
  Hfsm.Props.C17.argsSerialBits_eq         ArgsT::SERIAL_BITS = declared number when that is ≤ 65535
  Hfsm.Props.C17.serialWitness_regression  334 states, SERIAL_BITS = ArgsT::SERIAL_BITS = 304 (was 48 before the fix)

Split lemmas the property rests on (Hfsm/Proofs/ShapeInfo.lean):
  Hfsm.csAssign_eq_linAssign   balanced LHalf/RHalf offsets = left-to-right prefix sums
  Hfsm.Shape.walk_compo        C_ sub-states get the indices/prongs of a left-to-right scan
  Hfsm.Shape.walk_numbered     every visited node carries the running counters (DFS numbering)
  Hfsm.lowerT_eq_take / Hfsm.upperT_eq_drop   LHalfTypes / RHalfTypes = take / drop (size/2)
-/
